/* failmon: allocation-failure failpoints under the C++ wrappers and the C functions they wrap (C18, and the reported-failure paths of C04).
 *
 *   failmon run <out.jsonl> [maxk]
 *
 * The program defines malloc/calloc/realloc/free/strdup/strndup itself (glibc's __libc_* do the work), counts live blocks, and can
 * make the k-th allocation REQUESTED BY THE LIBRARY (caller address inside libxrl-verif.so) fail, once or from then on.  Allocations
 * of libc, libstdc++ and of this program never fail.  For every scenario (one C call sequence + the wrapper call that stands for it)
 * and every k up to the number of library allocations the scenario makes, a forked child
 *   1. runs the C side under the failpoint: died (an unchecked allocation: outside the stated properties, counted only), succeeded,
 *      or reported an error; releases what it was handed; live-block balance (3-repetition rule);
 *   2. runs the wrapper under the same failpoint: exception class / value must match what C did (MEMORY -> std::bad_alloc), and the
 *      balance must not grow where the C side's does not.
 * One JSON line per verdict/statistic.
 */
#ifndef _GNU_SOURCE
#define _GNU_SOURCE
#endif
#include <string>
#include <vector>
#include <complex>
#include <map>
#include <functional>
#include <typeinfo>
#include <new>
#include <stdexcept>
#include <cstdio>
#include <cstdlib>
#include <cstring>
#include <cerrno>
#include <cstdint>
#include <link.h>
#include <unistd.h>
#include <signal.h>
#include <sys/wait.h>
#include "xraylib++.h"

/* ------------------------------------------------------------------ allocation shim */
extern "C" {
void *__libc_malloc(size_t); void __libc_free(void *); void *__libc_calloc(size_t, size_t); void *__libc_realloc(void *, size_t);
}
static uintptr_t g_lo, g_hi;                 /* text of libxrl-verif.so */
static volatile long g_live;                 /* live blocks, every caller */
static volatile int g_armed, g_mode;         /* mode 0: the k-th library allocation fails; 1: the k-th and all later ones */
static volatile long g_libn, g_failat, g_failed;

static inline bool from_lib(void *ra) { uintptr_t a = (uintptr_t)ra; return a >= g_lo && a < g_hi; }
static inline bool failpoint(void *ra) {
  if (!g_armed || !from_lib(ra)) return false;
  long n = ++g_libn;
  if (g_failat && (n == g_failat || (g_mode && n > g_failat))) { g_failed++; errno = ENOMEM; return true; }
  return false;
}
/* red zone: every block carries GUARD canary bytes behind the requested size (size kept in a side table keyed by address, so blocks
 * of unknown origin are simply not checked); a write past the end of a block is seen when it is released or at a check point */
#define GUARD 32
#define NTAB (1 << 18)
static struct { void *p; size_t n; } g_tab[NTAB];
static volatile long g_overruns; static char g_overrun_what[200];
static inline size_t slot_of(void *p) { return (size_t)(((uintptr_t)p >> 4) * 0x9E3779B97F4A7C15ULL >> 40) & (NTAB - 1); }
static void tab_put(void *p, size_t n) { size_t i = slot_of(p); for (int k = 0; k < NTAB; k++, i = (i + 1) & (NTAB - 1)) if (!g_tab[i].p || g_tab[i].p == (void *)1) { g_tab[i].p = p; g_tab[i].n = n; memset((char *)p + n, 0xC5, GUARD); return; } }
static long tab_find(void *p) { size_t i = slot_of(p); for (int k = 0; k < NTAB; k++, i = (i + 1) & (NTAB - 1)) { if (!g_tab[i].p) return -1; if (g_tab[i].p == p) return (long)i; } return -1; }
static void guard_check(long i, const char *when) { const unsigned char *q = (const unsigned char *)g_tab[i].p + g_tab[i].n;
  for (int k = 0; k < GUARD; k++) if (q[k] != 0xC5) { if (!g_overruns) snprintf(g_overrun_what, sizeof g_overrun_what, "write %d byte(s) past the end of a %zu-byte block (seen at %s)", k + 1, g_tab[i].n, when); g_overruns++; return; } }
static void tab_del(void *p) { long i = tab_find(p); if (i >= 0) { guard_check(i, "release"); g_tab[i].p = (void *)1; } }
static void guard_check_all(void) { for (size_t i = 0; i < NTAB; i++) if (g_tab[i].p && g_tab[i].p != (void *)1) guard_check((long)i, "check point"); }
static void *xalloc(size_t n) { void *p = __libc_malloc(n + GUARD); if (p) { g_live++; tab_put(p, n); } return p; }
extern "C" {
void *malloc(size_t n) { if (failpoint(__builtin_return_address(0))) return NULL; return xalloc(n); }
void *calloc(size_t a, size_t b) { if (failpoint(__builtin_return_address(0))) return NULL; if (b && a > (size_t)-1 / b - GUARD) return NULL; void *p = xalloc(a * b); if (p) memset(p, 0, a * b); return p; }
void *realloc(void *q, size_t n) { if (failpoint(__builtin_return_address(0))) return NULL;
  if (!q) return xalloc(n);
  if (n == 0) { tab_del(q); g_live--; __libc_free(q); return NULL; }
  long i = tab_find(q); if (i < 0) return __libc_realloc(q, n);           /* a block of unknown origin: not guarded */
  guard_check(i, "realloc"); g_tab[i].p = (void *)1;
  void *p = __libc_realloc(q, n + GUARD); if (p) tab_put(p, n); else tab_put(q, g_tab[i].n);
  return p; }
void free(void *p) { if (p) { g_live--; tab_del(p); } __libc_free(p); }
char *strdup(const char *s) { if (failpoint(__builtin_return_address(0))) return NULL; size_t n = strlen(s) + 1; char *p = (char *)xalloc(n); if (p) memcpy(p, s, n); return p; }
char *strndup(const char *s, size_t m) { if (failpoint(__builtin_return_address(0))) return NULL; size_t n = strnlen(s, m); char *p = (char *)xalloc(n + 1); if (p) { memcpy(p, s, n); p[n] = 0; } return p; }
}
static int phdr_cb(struct dl_phdr_info *i, size_t, void *) {
  if (!i->dlpi_name || !strstr(i->dlpi_name, "libxrl-verif")) return 0;
  for (int k = 0; k < i->dlpi_phnum; k++) if (i->dlpi_phdr[k].p_type == PT_LOAD && (i->dlpi_phdr[k].p_flags & PF_X)) {
    g_lo = i->dlpi_addr + i->dlpi_phdr[k].p_vaddr; g_hi = g_lo + i->dlpi_phdr[k].p_memsz; }
  return 1;
}

/* ------------------------------------------------------------------ outcomes */
struct Out { int kind; int code; double v[3]; std::string what; };   /* kind: 0 value, 1 invalid_argument, 2 bad_alloc, 3 runtime_error, 4 other; C side: 0 ok, 5 error (code set), 6 failure without error */
template <class F> static Out guarded(F f) {
  Out o; o.kind = 0; o.code = -1; o.v[0] = o.v[1] = o.v[2] = 0;
  try { f(o); }
  catch (const std::invalid_argument &e) { o.kind = 1; o.what = e.what(); }
  catch (const std::bad_alloc &e) { o.kind = 2; }
  catch (const std::runtime_error &e) { o.kind = 3; o.what = e.what(); }
  catch (const std::exception &e) { o.kind = 4; o.what = e.what(); }
  catch (...) { o.kind = 4; o.what = "unknown"; }
  return o;
}
static Out c_done(bool failed, xrl_error *e, double v0 = 0, double v1 = 0, double v2 = 0) {
  Out o; o.code = -1; o.v[0] = v0; o.v[1] = v1; o.v[2] = v2;
  if (e) { o.kind = 5; o.code = (int)e->code; o.what = e->message ? e->message : ""; xrl_error_free(e); }
  else o.kind = failed ? 6 : 0;
  return o;
}
static double cd_digest(int n, const int *el, const double *a, const double *b) { double h = n; for (int k = 0; k < n; k++) h += el[k] * (k + 1.0) + (a ? a[k] * (k + 3.0) : 0) + (b ? b[k] * (k + 7.0) : 0); return h; }
static double cr_digest(const Crystal_Struct *c) { double h = c->a + 2 * c->b + 3 * c->c + 5 * c->alpha + 7 * c->beta + 11 * c->gamma + 13 * c->volume + c->n_atom; for (int k = 0; k < c->n_atom; k++) h += c->atom[k].Zatom * (k + 1.0) + c->atom[k].fraction + 3 * c->atom[k].x + 5 * c->atom[k].y + 7 * c->atom[k].z; return h; }
static double crpp_digest(const xrlpp::Crystal::Struct &c) { double h = c.a + 2 * c.b + 3 * c.c + 5 * c.alpha + 7 * c.beta + 11 * c.gamma + 13 * c.volume + c.n_atom; for (int k = 0; k < c.n_atom; k++) h += c.atom[k].Zatom * (k + 1.0) + c.atom[k].fraction + 3 * c.atom[k].x + 5 * c.atom[k].y + 7 * c.atom[k].z; return h; }

struct Scen { std::string name; std::function<Out()> c; std::function<Out()> cpp; bool pure; };   /* pure: a query on an EXISTING object - no side needs a new one */
static std::vector<Scen> scenarios;

static Crystal_Struct *g_si;                  /* a C crystal made before any failpoint is armed */
static xrlpp::Crystal::Struct *g_sipp;

static void build_scenarios() {
  g_si = Crystal_GetCrystal("Si", NULL, NULL);
  g_sipp = new xrlpp::Crystal::Struct(xrlpp::Crystal::GetCrystal("AlphaQuartz"));
  static Crystal_Struct *g_aq = Crystal_GetCrystal("AlphaQuartz", NULL, NULL);
  auto S = [&](const char *n, std::function<Out()> c, std::function<Out()> cpp) { scenarios.push_back(Scen{n, c, cpp, false}); };
  auto P = [&](const char *n, std::function<Out()> c, std::function<Out()> cpp) { scenarios.push_back(Scen{n, c, cpp, true}); };

  for (const char *name : {"Si", "Muscovite", "AlphaQuartz"}) {
    std::string nm = name;
    S(("Crystal::GetCrystal(" + nm + ")").c_str(),
      [nm] { xrl_error *e = NULL; Crystal_Struct *c = Crystal_GetCrystal(nm.c_str(), NULL, &e); double d = c ? cr_digest(c) : 0; if (c) Crystal_Free(c); return c_done(!c, e, d); },
      [nm] { return guarded([&](Out &o) { xrlpp::Crystal::Struct c = xrlpp::Crystal::GetCrystal(nm); o.v[0] = crpp_digest(c); }); });
  }
  S("Crystal::Struct copy constructor",
    [] { xrl_error *e = NULL; Crystal_Struct *c = Crystal_MakeCopy(g_aq, &e); double d = c ? cr_digest(c) : 0; if (c) Crystal_Free(c); return c_done(!c, e, d); },
    [] { return guarded([&](Out &o) { xrlpp::Crystal::Struct c(*g_sipp); o.v[0] = crpp_digest(c); }); });
  S("Crystal::Struct constructed from fields",
    [] { xrl_error *e = NULL; Crystal_Struct *c = Crystal_MakeCopy(g_aq, &e); double d = c ? cr_digest(c) : 0; if (c) Crystal_Free(c); return c_done(!c, e, d); },
    [] { return guarded([&](Out &o) { xrlpp::Crystal::Struct c(g_sipp->name, g_sipp->a, g_sipp->b, g_sipp->c, g_sipp->alpha, g_sipp->beta, g_sipp->gamma, g_sipp->volume, g_sipp->atom); o.v[0] = crpp_digest(c); }); });
  S("Crystal::GetCrystalsList",
    [] { xrl_error *e = NULL; int n = 0; char **l = Crystal_GetCrystalsList(NULL, &n, &e); double h = 0; if (l) { for (int k = 0; l[k]; k++) { h += strlen(l[k]) * (k + 1.0); xrlFree(l[k]); } xrlFree(l); } return c_done(!l, e, h, n); },
    [] { return guarded([&](Out &o) { std::vector<std::string> l = xrlpp::Crystal::GetCrystalsList(); double h = 0; for (size_t k = 0; k < l.size(); k++) h += l[k].size() * (k + 1.0); o.v[0] = h; o.v[1] = (double)l.size(); }); });
  /* a caller-owned collection that has to grow: 2 slots, 14 additions.  Whatever allocation fails, a refused addition must leave the
   * collection as it was (count, every accepted crystal retrievable), later additions must work, and nothing may be written past a block */
  S("user crystal array growing from 2 to 14 entries",
    [] { Out o; o.kind = 0; o.code = -1; o.v[0] = o.v[1] = o.v[2] = 0; char nm[16]; int acc = 0, refused = 0; bool ok[14]; std::string why;
      Crystal_Array *a = Crystal_ArrayInit(2, NULL); if (!a) { o.kind = 5; o.code = XRL_ERROR_MEMORY; o.what = "ArrayInit refused"; return o; }
      for (int j = 0; j < 14; j++) { snprintf(nm, sizeof nm, "Xv%02d", (j * 5) % 14); xrl_error *e = NULL; Crystal_Struct c = *g_si; c.name = nm; c.a += 0.01 * j;
        int n0 = -1, n1 = -1; char **l = Crystal_GetCrystalsList(a, &n0, NULL); if (l) { for (int q = 0; l[q]; q++) xrlFree(l[q]); xrlFree(l); }
        int rv = Crystal_AddCrystal(&c, a, &e); ok[j] = rv != 0;
        l = Crystal_GetCrystalsList(a, &n1, NULL); if (l) { for (int q = 0; l[q]; q++) xrlFree(l[q]); xrlFree(l); }
        if (rv) { acc++; if (e) why = "addition accepted together with an error"; if (n0 >= 0 && n1 >= 0 && n1 != n0 + 1) why = "count did not grow by one on an accepted addition"; }
        else { refused++; if (!e) { if (!why.size()) why = "addition refused without an error"; } else { o.code = (int)e->code; if (!o.what.size()) o.what = e->message; }
          if (n0 >= 0 && n1 >= 0 && n1 != n0) why = "count changed on a refused addition"; }
        if (e) xrl_error_free(e); }
      for (int j = 0; j < 14; j++) { snprintf(nm, sizeof nm, "Xv%02d", (j * 5) % 14); Crystal_Struct *g = Crystal_GetCrystal(nm, a, NULL);
        if (ok[j] && !g) { /* the copy made by the lookup may itself hit the failpoint in 'from then on' mode: only a sticky loss counts */ Crystal_Struct *g2 = Crystal_GetCrystal(nm, a, NULL); if (!g2 && !g_mode) why = "an accepted crystal cannot be retrieved"; if (g2) Crystal_Free(g2); }
        if (!ok[j] && g) why = "a refused crystal can be retrieved";
        if (g) { o.v[0] += g->a; Crystal_Free(g); } }
      Crystal_ArrayFree(a); o.v[1] = acc; o.v[2] = refused;
      if (why.size()) { o.kind = 7; o.what = why; } else if (refused) o.kind = 5;
      return o; },
    [] { return guarded([&](Out &o) { (void)o; }); });
  S("Crystal::Bragg_angle on a wrapper object",
    [] { xrl_error *e = NULL; double v = Bragg_angle(g_aq, 10.0, 1, 1, 1, &e); return c_done(v == 0.0, e, v); },
    [] { return guarded([&](Out &o) { o.v[0] = g_sipp->Bragg_angle(10.0, 1, 1, 1); }); });
  S("Crystal::F_H_StructureFactor on a wrapper object",
    [] { xrl_error *e = NULL; xrlComplex z = Crystal_F_H_StructureFactor(g_aq, 10.0, 1, 1, 1, 1.0, 1.0, &e); return c_done(false, e, z.re, z.im); },
    [] { return guarded([&](Out &o) { std::complex<double> z = g_sipp->F_H_StructureFactor(10.0, 1, 1, 1, 1.0, 1.0); o.v[0] = z.real(); o.v[1] = z.imag(); }); });
  /* queries on an existing wrapper object through the FREE functions and the members: C allocates nothing for them, so no allocation failure
   * can make C report an error - a wrapper path that allocates on the way (a hidden copy of its argument) throws where C cannot fail */
  P("free Crystal::Bragg_angle(object)", [] { xrl_error *e = NULL; double v = Bragg_angle(g_aq, 10.0, 1, 1, 1, &e); return c_done(v == 0.0, e, v); },
    [] { return guarded([&](Out &o) { o.v[0] = xrlpp::Crystal::Bragg_angle(*g_sipp, 10.0, 1, 1, 1); }); });
  P("free Crystal::Q_scattering_amplitude(object)", [] { xrl_error *e = NULL; double v = Q_scattering_amplitude(g_aq, 10.0, 1, 1, 1, 1.0, &e); return c_done(v == 0.0, e, v); },
    [] { return guarded([&](Out &o) { o.v[0] = xrlpp::Crystal::Q_scattering_amplitude(*g_sipp, 10.0, 1, 1, 1, 1.0); }); });
  P("member Crystal::Q_scattering_amplitude", [] { xrl_error *e = NULL; double v = Q_scattering_amplitude(g_aq, 10.0, 1, 1, 1, 1.0, &e); return c_done(v == 0.0, e, v); },
    [] { return guarded([&](Out &o) { o.v[0] = g_sipp->Q_scattering_amplitude(10.0, 1, 1, 1, 1.0); }); });
  P("free Crystal::dSpacing(object)", [] { xrl_error *e = NULL; double v = Crystal_dSpacing(g_aq, 1, 1, 1, &e); return c_done(v == 0.0, e, v); },
    [] { return guarded([&](Out &o) { o.v[0] = xrlpp::Crystal::dSpacing(*g_sipp, 1, 1, 1); }); });
  P("member Crystal::dSpacing", [] { xrl_error *e = NULL; double v = Crystal_dSpacing(g_aq, 1, 1, 1, &e); return c_done(v == 0.0, e, v); },
    [] { return guarded([&](Out &o) { o.v[0] = g_sipp->dSpacing(1, 1, 1); }); });
  P("free Crystal::UnitCellVolume(object)", [] { xrl_error *e = NULL; double v = Crystal_UnitCellVolume(g_aq, &e); return c_done(v == 0.0, e, v); },
    [] { return guarded([&](Out &o) { o.v[0] = xrlpp::Crystal::UnitCellVolume(*g_sipp); }); });
  P("member Crystal::UnitCellVolume", [] { xrl_error *e = NULL; double v = Crystal_UnitCellVolume(g_aq, &e); return c_done(v == 0.0, e, v); },
    [] { return guarded([&](Out &o) { o.v[0] = g_sipp->UnitCellVolume(); }); });
  P("free Crystal::F_H_StructureFactor(object)", [] { xrl_error *e = NULL; xrlComplex z = Crystal_F_H_StructureFactor(g_aq, 10.0, 1, 1, 1, 1.0, 1.0, &e); return c_done(false, e, z.re, z.im); },
    [] { return guarded([&](Out &o) { std::complex<double> z = xrlpp::Crystal::F_H_StructureFactor(*g_sipp, 10.0, 1, 1, 1, 1.0, 1.0); o.v[0] = z.real(); o.v[1] = z.imag(); }); });
  P("free Crystal::F_H_StructureFactor_Partial(object)", [] { xrl_error *e = NULL; xrlComplex z = Crystal_F_H_StructureFactor_Partial(g_aq, 10.0, 1, 1, 1, 1.0, 1.0, 2, 2, 2, &e); return c_done(false, e, z.re, z.im); },
    [] { return guarded([&](Out &o) { std::complex<double> z = xrlpp::Crystal::F_H_StructureFactor_Partial(*g_sipp, 10.0, 1, 1, 1, 1.0, 1.0, 2, 2, 2); o.v[0] = z.real(); o.v[1] = z.imag(); }); });
  P("member Crystal::F_H_StructureFactor_Partial", [] { xrl_error *e = NULL; xrlComplex z = Crystal_F_H_StructureFactor_Partial(g_aq, 10.0, 1, 1, 1, 1.0, 1.0, 2, 2, 2, &e); return c_done(false, e, z.re, z.im); },
    [] { return guarded([&](Out &o) { std::complex<double> z = g_sipp->F_H_StructureFactor_Partial(10.0, 1, 1, 1, 1.0, 1.0, 2, 2, 2); o.v[0] = z.real(); o.v[1] = z.imag(); }); });
  S("Crystal::F_H_StructureFactor below the cut-off (error path)",
    [] { xrl_error *e = NULL; xrlComplex z = Crystal_F_H_StructureFactor(g_aq, 0.5, 3, 3, 3, 1.0, 1.0, &e); return c_done(true, e, z.re, z.im); },
    [] { return guarded([&](Out &o) { std::complex<double> z = g_sipp->F_H_StructureFactor(0.5, 3, 3, 3, 1.0, 1.0); o.v[0] = z.real(); o.v[1] = z.imag(); }); });
  for (const char *f : {"H2O", "Ca5(PO4)3F", "(Al2O3)3(SiO2)2", "Fe0.5Ni0.5", "Xx2"}) {
    std::string fs = f;
    S(("CompoundParser(" + fs + ")").c_str(),
      [fs] { xrl_error *e = NULL; struct compoundData *c = CompoundParser(fs.c_str(), &e); double h = 0; if (c) { h = cd_digest(c->nElements, c->Elements, c->massFractions, c->nAtoms); FreeCompoundData(c); } return c_done(!c, e, h); },
      [fs] { return guarded([&](Out &o) { xrlpp::compoundData c = xrlpp::CompoundParser(fs); o.v[0] = cd_digest(c.nElements, c.Elements.data(), c.massFractions.data(), c.nAtoms.data()); }); });
  }
  for (const char *f : {"Water, Liquid", "Kapton Polyimide Film", "no such compound"}) {
    std::string fs = f;
    S(("GetCompoundDataNISTByName(" + fs + ")").c_str(),
      [fs] { xrl_error *e = NULL; struct compoundDataNIST *c = GetCompoundDataNISTByName(fs.c_str(), &e); double h = 0; if (c) { h = cd_digest(c->nElements, c->Elements, c->massFractions, NULL) + c->density; FreeCompoundDataNIST(c); } return c_done(!c, e, h); },
      [fs] { return guarded([&](Out &o) { xrlpp::compoundDataNIST c = xrlpp::GetCompoundDataNISTByName(fs); o.v[0] = cd_digest(c.nElements, c.Elements.data(), c.massFractions.data(), NULL) + c.density; }); });
  }
  for (int idx : {0, 77, 179, -1}) {
    S(("GetCompoundDataNISTByIndex(" + std::to_string(idx) + ")").c_str(),
      [idx] { xrl_error *e = NULL; struct compoundDataNIST *c = GetCompoundDataNISTByIndex(idx, &e); double h = 0; if (c) { h = cd_digest(c->nElements, c->Elements, c->massFractions, NULL) + c->density; FreeCompoundDataNIST(c); } return c_done(!c, e, h); },
      [idx] { return guarded([&](Out &o) { xrlpp::compoundDataNIST c = xrlpp::GetCompoundDataNISTByIndex(idx); o.v[0] = cd_digest(c.nElements, c.Elements.data(), c.massFractions.data(), NULL) + c.density; }); });
  }
  S("GetCompoundDataNISTList",
    [] { xrl_error *e = NULL; int n = 0; char **l = GetCompoundDataNISTList(&n, &e); double h = 0; if (l) { for (int k = 0; l[k]; k++) { h += strlen(l[k]) * (k + 1.0); xrlFree(l[k]); } xrlFree(l); } return c_done(!l, e, h, n); },
    [] { return guarded([&](Out &o) { std::vector<std::string> l = xrlpp::GetCompoundDataNISTList(); double h = 0; for (size_t k = 0; k < l.size(); k++) h += l[k].size() * (k + 1.0); o.v[0] = h; o.v[1] = (double)l.size(); }); });
  for (const char *f : {"55Fe", "241Am", "nope"}) {
    std::string fs = f;
    S(("GetRadioNuclideDataByName(" + fs + ")").c_str(),
      [fs] { xrl_error *e = NULL; struct radioNuclideData *c = GetRadioNuclideDataByName(fs.c_str(), &e); double h = 0; if (c) { h = cd_digest(c->nXrays, c->XrayLines, c->XrayIntensities, NULL) + cd_digest(c->nGammas, c->XrayLines, c->GammaEnergies, c->GammaIntensities) * 0 + c->Z * 1000 + c->A; FreeRadioNuclideData(c); } return c_done(!c, e, h); },
      [fs] { return guarded([&](Out &o) { xrlpp::radioNuclideData c = xrlpp::GetRadioNuclideDataByName(fs); o.v[0] = cd_digest(c.nXrays, c.XrayLines.data(), c.XrayIntensities.data(), NULL) + c.Z * 1000 + c.A; }); });
  }
  S("GetRadioNuclideDataByIndex(3)",
    [] { xrl_error *e = NULL; struct radioNuclideData *c = GetRadioNuclideDataByIndex(3, &e); double h = 0; if (c) { h = cd_digest(c->nXrays, c->XrayLines, c->XrayIntensities, NULL) + c->Z * 1000 + c->A; FreeRadioNuclideData(c); } return c_done(!c, e, h); },
    [] { return guarded([&](Out &o) { xrlpp::radioNuclideData c = xrlpp::GetRadioNuclideDataByIndex(3); o.v[0] = cd_digest(c.nXrays, c.XrayLines.data(), c.XrayIntensities.data(), NULL) + c.Z * 1000 + c.A; }); });
  S("GetRadioNuclideDataList",
    [] { xrl_error *e = NULL; int n = 0; char **l = GetRadioNuclideDataList(&n, &e); double h = 0; if (l) { for (int k = 0; l[k]; k++) { h += strlen(l[k]) * (k + 1.0); xrlFree(l[k]); } xrlFree(l); } return c_done(!l, e, h, n); },
    [] { return guarded([&](Out &o) { std::vector<std::string> l = xrlpp::GetRadioNuclideDataList(); double h = 0; for (size_t k = 0; k < l.size(); k++) h += l[k].size() * (k + 1.0); o.v[0] = h; o.v[1] = (double)l.size(); }); });
  S("AtomicNumberToSymbol(26)",
    [] { xrl_error *e = NULL; char *s = AtomicNumberToSymbol(26, &e); double h = s ? s[0] + 256.0 * s[1] : 0; if (s) xrlFree(s); return c_done(!s, e, h); },
    [] { return guarded([&](Out &o) { std::string s = xrlpp::AtomicNumberToSymbol(26); o.v[0] = s[0] + 256.0 * s[1]; }); });
  S("AtomicNumberToSymbol(0) (error path)",
    [] { xrl_error *e = NULL; char *s = AtomicNumberToSymbol(0, &e); if (s) xrlFree(s); return c_done(!s, e); },
    [] { return guarded([&](Out &o) { std::string s = xrlpp::AtomicNumberToSymbol(0); o.v[0] = s.size(); }); });
  S("CS_Total_CP(Ca5(PO4)3F, 10)",
    [] { xrl_error *e = NULL; double v = CS_Total_CP("Ca5(PO4)3F", 10.0, &e); return c_done(v == 0.0, e, v); },
    [] { return guarded([&](Out &o) { o.v[0] = xrlpp::CS_Total_CP("Ca5(PO4)3F", 10.0); }); });
  S("CS_Total_CP(Water, Liquid, 10)",
    [] { xrl_error *e = NULL; double v = CS_Total_CP("Water, Liquid", 10.0, &e); return c_done(v == 0.0, e, v); },
    [] { return guarded([&](Out &o) { o.v[0] = xrlpp::CS_Total_CP("Water, Liquid", 10.0); }); });
  S("CS_Total_CP(garbage) (error path)",
    [] { xrl_error *e = NULL; double v = CS_Total_CP("jkl(", 10.0, &e); return c_done(true, e, v); },
    [] { return guarded([&](Out &o) { o.v[0] = xrlpp::CS_Total_CP("jkl(", 10.0); }); });
  S("Refractive_Index(SiO2, 8, 2.2)",
    [] { xrl_error *e = NULL; xrlComplex z = Refractive_Index("SiO2", 8.0, 2.2, &e); return c_done(z.re == 0.0, e, z.re, z.im); },
    [] { return guarded([&](Out &o) { std::complex<double> z = xrlpp::Refractive_Index("SiO2", 8.0, 2.2); o.v[0] = z.real(); o.v[1] = z.imag(); }); });
  S("CS_Total(-1, 10) (error path)",
    [] { xrl_error *e = NULL; double v = CS_Total(-1, 10.0, &e); return c_done(true, e, v); },
    [] { return guarded([&](Out &o) { o.v[0] = xrlpp::CS_Total(-1, 10.0); }); });
  S("LineEnergy(26, KL3_LINE)",
    [] { xrl_error *e = NULL; double v = LineEnergy(26, KL3_LINE, &e); return c_done(v == 0.0, e, v); },
    [] { return guarded([&](Out &o) { o.v[0] = xrlpp::LineEnergy(26, KL3_LINE); }); });
}

/* ------------------------------------------------------------------ child protocol */

struct Rec { int c_kind, c_code, w_kind; int c_leak, w_leak; int c_failed, w_failed; int same_value; long c_allocs, w_allocs; long c_over, w_over; char c_what[160], w_what[160], over_what[200]; };

/* a child that dies still tells whether a red zone had been overwritten before (a crash after heap corruption is not the crash of an
 * unchecked allocation) */
static int g_child_fd = -1; static int g_side = 0;
static void on_fatal(int sig) {
  Rec r; memset(&r, 0, sizeof r); r.c_kind = r.w_kind = -1; g_armed = 0; g_overruns = 0; guard_check_all();
  if (g_overruns && g_child_fd >= 0) { if (g_side == 0) { r.c_kind = 8; r.c_over = g_overruns; } else { r.w_kind = 8; r.w_over = g_overruns; }
    snprintf(r.over_what, sizeof r.over_what, "%s", g_overrun_what); if (write(g_child_fd, &r, sizeof r) < 0) {} }
  signal(sig, SIG_DFL); raise(sig);
}

static Out run_armed(const std::function<Out()> &f, long k, int mode, long *allocs, long *failed, int *leak) {
  /* 3-repetition rule on the live-block balance; the first armed run is the one reported */
  Out first; int grew = 0;
  for (int rep = 0; rep < 4; rep++) {
    long l0 = g_live; g_libn = 0; g_failed = 0; g_failat = k; g_mode = mode; g_armed = 1;
    Out o = f();
    g_armed = 0;
    guard_check_all();
    if (rep == 0) { first = o; *allocs = g_libn; *failed = g_failed; }
    o.what.clear(); o.what.shrink_to_fit();
    if (rep > 0 && g_live > l0) grew++;
  }
  *leak = grew == 3;
  return first;
}

static void js(FILE *o, const std::string &s) { fputc('"', o); for (char ch : s) { unsigned char c = (unsigned char)ch; if (c == '"' || c == '\\') { fputc('\\', o); fputc(c, o); } else if (c < 32 || c > 126) fputc('?', o); else fputc(c, o); } fputc('"', o); }
static const char *KN[] = { "value", "invalid_argument", "bad_alloc", "runtime_error", "other-exception", "error", "failure-without-error", "inconsistent-state" };

int main(int argc, char **argv) {
  if (argc < 3 || strcmp(argv[1], "run")) { fprintf(stderr, "usage: failmon run out.jsonl [maxk]\n"); return 2; }
  long maxk = argc > 3 ? atol(argv[3]) : 400;
  dl_iterate_phdr(phdr_cb, NULL);
  if (!g_lo) { fprintf(stderr, "failmon: libxrl-verif.so is not mapped\n"); return 2; }
  build_scenarios();
  FILE *out = fopen(argv[2], "w"); if (!out) return 2;
  long injections = 0, c_died = 0, c_memerr = 0, c_tolerated = 0, w_badalloc = 0, c_othererr = 0;
  for (size_t s = 0; s < scenarios.size(); s++) {
    const Scen &sc = scenarios[s];
    /* warm up (lazy initialisation of libc / libstdc++), then count the library allocations of both sides without a failure */
    { Out a = sc.c(); Out b = sc.cpp(); (void)a; (void)b; }
    long nc = 0, nw = 0, f = 0; int lk = 0, lkw = 0;
    Out c0 = run_armed(sc.c, 0, 0, &nc, &f, &lk); Out w0 = run_armed(sc.cpp, 0, 0, &nw, &f, &lkw);
    fprintf(out, "{\"type\":\"scenario\",\"name\":"); js(out, sc.name);
    fprintf(out, ",\"c_allocs\":%ld,\"wrapper_allocs\":%ld,\"c_outcome\":\"%s\",\"wrapper_outcome\":\"%s\",\"c_leak\":%d,\"wrapper_leak\":%d}\n", nc, nw, KN[c0.kind], KN[w0.kind], lk, lkw);
    if (lk) { fprintf(out, "{\"type\":\"viol\",\"prop\":\"C04\",\"key\":"); js(out, "failpoint:leak-without-injection:" + sc.name); fprintf(out, ",\"what\":\"the C calls of the scenario leave blocks behind even without an injected failure\",\"k\":0,\"mode\":0}\n"); }
    if (lkw && !lk) { fprintf(out, "{\"type\":\"viol\",\"prop\":\"C18\",\"key\":"); js(out, "c18:failpoint:wrapper-leaks-without-injection:" + sc.name); fprintf(out, ",\"what\":\"the wrapper leaves blocks behind even without an injected failure\",\"k\":0,\"mode\":0}\n"); }
    long n = nc > nw ? nc : nw; if (n > maxk) n = maxk;
    for (long k = 1; k <= n; k++) for (int mode = 0; mode < 2; mode++) {
      if (mode == 1 && k == n) continue;          /* identical to mode 0 */
      int pfd[2]; if (pipe(pfd)) return 2; fflush(NULL);
      pid_t pid = fork();
      if (pid == 0) {
        close(pfd[0]); signal(SIGALRM, SIG_DFL); alarm(20);
        g_child_fd = pfd[1]; signal(SIGSEGV, on_fatal); signal(SIGABRT, on_fatal); signal(SIGBUS, on_fatal);
        Rec r; memset(&r, 0, sizeof r); r.c_kind = -1; r.w_kind = -1;
        long a = 0, fl = 0; int lk2 = 0;
        if (k <= nc) {
          Out c = run_armed(sc.c, k, mode, &a, &fl, &lk2);
          r.c_kind = c.kind; r.c_code = c.code; r.c_leak = lk2; r.c_allocs = a; r.c_failed = (int)fl; snprintf(r.c_what, sizeof r.c_what, "%s", c.what.c_str());
          r.c_over = g_overruns; snprintf(r.over_what, sizeof r.over_what, "%s", g_overrun_what);
          if (write(pfd[1], &r, sizeof r) < 0) {}          /* partial record: if the wrapper side dies the C verdict survives */
          if (k <= nw) {
            g_side = 1;
            Out w = run_armed(sc.cpp, k, mode, &a, &fl, &lk2);
            r.w_kind = w.kind; r.w_leak = lk2; r.w_allocs = a; r.w_failed = (int)fl; snprintf(r.w_what, sizeof r.w_what, "%s", w.what.c_str());
            r.w_over = g_overruns - r.c_over; if (r.w_over && !r.c_over) snprintf(r.over_what, sizeof r.over_what, "%s", g_overrun_what);
            r.same_value = !memcmp(c.v, w.v, sizeof c.v) || (c.v[0] != c.v[0] && w.v[0] != w.v[0]);
          }
        } else {
          g_side = 1;
          Out w = run_armed(sc.cpp, k, mode, &a, &fl, &lk2);
          r.w_kind = w.kind; r.w_leak = lk2; r.w_allocs = a; r.w_failed = (int)fl; snprintf(r.w_what, sizeof r.w_what, "%s", w.what.c_str());
        }
        if (write(pfd[1], &r, sizeof r) < 0) {}
        _exit(0);
      }
      close(pfd[1]);
      Rec recs[2]; memset(recs, 0, sizeof recs); size_t got = 0; char *bp = (char *)recs; ssize_t m;
      while (got < sizeof recs && (m = read(pfd[0], bp + got, sizeof recs - got)) > 0) got += (size_t)m;
      close(pfd[0]);
      int st = 0; waitpid(pid, &st, 0);
      int nrec = (int)(got / sizeof(Rec));
      bool died = !WIFEXITED(st) || WEXITSTATUS(st) != 0;
      injections++;
      auto viol = [&](const char *prop, const std::string &key, const std::string &what) {
        fprintf(out, "{\"type\":\"viol\",\"prop\":\"%s\",\"key\":", prop); js(out, key); fprintf(out, ",\"what\":"); js(out, what);
        fprintf(out, ",\"scenario\":"); js(out, sc.name); fprintf(out, ",\"k\":%ld,\"mode\":%d}\n", k, mode); };
      if (nrec == 0) {
        if (k <= nc) { c_died++; continue; }           /* the C library itself died on this failed allocation (unchecked allocation): not judged */
        /* only the wrapper was run (it makes more library allocations than the C side) and it died */
        viol("C18", "c18:failpoint:wrapper-dies:" + sc.name, "the wrapper process died (status " + std::to_string(st) + ") when library allocation " + std::to_string(k) + " failed; the C sequence makes fewer allocations");
        continue;
      }
      const Rec &r = recs[nrec - 1];
      /* a query on an existing object: C makes fewer library allocations than the wrapper path (here: none this one could hit), so C cannot fail
       * on this injection - it succeeded without one - and the wrapper may not throw */
      if (sc.pure && k > nc && r.c_kind < 0 && c0.kind == 0 && r.w_kind > 0 && r.w_failed > 0 && r.w_kind != 8)
        viol("C18", "c18:failpoint:throws-where-C-cannot-fail:" + sc.name, std::string("the wrapper threw ") + KN[r.w_kind] + " '" + r.w_what + "' when its library allocation " + std::to_string(k) + " failed; the C call makes " + std::to_string(nc) +
             " allocation(s) and succeeds: the wrapper path allocates (copies its argument?) where C does not");
      if (r.c_kind == 8) { viol("C04", "failpoint:heap-overrun:" + sc.name, std::string("with library allocation ") + std::to_string(k) + " failing the C calls " + r.over_what + ", then the process died"); continue; }
      if (r.w_kind == 8) { viol("C18", "c18:failpoint:heap-overrun:" + sc.name, std::string("with library allocation ") + std::to_string(k) + " failing the wrapper path " + r.over_what + ", then the process died"); continue; }
      if (r.c_over) viol("C04", "failpoint:heap-overrun:" + sc.name, std::string("with library allocation ") + std::to_string(k) + " failing the C calls " + r.over_what);
      if (r.w_over && !r.c_over) viol("C18", "c18:failpoint:heap-overrun:" + sc.name, std::string("with library allocation ") + std::to_string(k) + " failing the wrapper path " + r.over_what);
      if (r.c_kind == 7) viol("C14", "failpoint:collection-inconsistent:" + sc.name, std::string("with library allocation ") + std::to_string(k) + " failing: " + r.c_what);
      if (r.c_kind >= 0) {
        if (r.c_kind == 5 && r.c_code == XRL_ERROR_MEMORY) c_memerr++; else if (r.c_kind == 5) c_othererr++; else if (r.c_kind == 0) c_tolerated++;
        /* judged: the paths on which the library itself REPORTS the failure.  A call that "succeeds" although one of its allocations
         * failed has used an unchecked allocation (its object holds NULL fields): like a crash, outside the stated properties */
        /* a call that NOTICED the failure (it returns its failure sentinel) must have stored an error; on the pinned tree the unchecked
         * allocations end in a crash or in a "success" with NULL fields, never here */
        if (r.c_kind == 6 && r.c_failed > 0 && c0.kind == 0)
          viol("C03", "failpoint:failure-sentinel-without-error:" + sc.name, "with library allocation " + std::to_string(k) + " failing the C call returns its failure sentinel but leaves the error slot empty");
        if (r.c_leak && r.c_kind == 5)
          viol("C04", "failpoint:leak:" + sc.name, "after the C call reported '" + std::string(r.c_what) + "' with library allocation " + std::to_string(k) + " failing, blocks stay allocated once everything handed out is released (every one of 3 repetitions)");
      }
      if (died && r.c_kind >= 0 && k <= nw && nrec == 1) {
        if (r.c_kind != 5) continue;                   /* C did not report the failed allocation (unchecked allocation): wrapper not judged */
        viol("C18", "c18:failpoint:wrapper-dies:" + sc.name, "the wrapper process died (status " + std::to_string(st) + ") when library allocation " + std::to_string(k) + " failed, while the C call reported '" + std::string(r.c_what) + "'");
        continue;
      }
      if (r.c_kind >= 0 && r.w_kind >= 0 && nc == nw && r.c_failed == r.w_failed) {
        if (r.w_kind == 2) w_badalloc++;
        if (r.c_kind == 5) {
          int want = r.c_code == XRL_ERROR_MEMORY ? 2 : r.c_code == XRL_ERROR_INVALID_ARGUMENT ? 1 : 3;
          if (r.w_kind == 0) viol("C18", "c18:failpoint:no-exception-on-error:" + sc.name, "C reported '" + std::string(r.c_what) + "' but the wrapper returned normally");
          else if (r.w_kind != want) viol("C18", "c18:failpoint:wrong-exception-type:" + sc.name, std::string(KN[r.w_kind]) + " instead of " + KN[want] + " for C error '" + r.c_what + "'");
        } else if (r.c_kind == 0 && r.c_failed == 0) {
          if (r.w_kind != 0 && r.w_kind != 2) viol("C18", "c18:failpoint:throws-on-success:" + sc.name, std::string("wrapper threw ") + KN[r.w_kind] + " '" + r.w_what + "' although the C call succeeded");
          else if (r.w_kind == 0 && !r.same_value) viol("C18", "c18:failpoint:different-value:" + sc.name, "wrapper value differs from the C value under the same failed allocation");
        }
        if (r.w_leak && !r.c_leak && (r.c_kind == 5 || (r.c_kind == 0 && r.c_failed == 0)))
          viol("C18", "c18:failpoint:wrapper-leaks:" + sc.name + ":" + KN[r.w_kind], std::string("with library allocation ") + std::to_string(k) + " failing the wrapper path (" + KN[r.w_kind] + ") leaves blocks allocated on every one of 3 repetitions; the C sequence under the same failure does not");
      }
    }
  }
  fprintf(out, "{\"type\":\"summary\",\"scenarios\":%zu,\"injections\":%ld,\"c_died_unchecked_allocation\":%ld,\"c_reported_memory_error\":%ld,\"c_reported_other_error\":%ld,\"c_tolerated\":%ld,\"wrapper_bad_alloc\":%ld}\n",
          scenarios.size(), injections, c_died, c_memerr, c_othererr, c_tolerated, w_badalloc);
  fclose(out);
  return 0;
}
