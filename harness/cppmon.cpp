/* cppmon: differential monitor of the C++ wrappers (cplusplus/xraylib++.h) against the C functions they wrap (C18).
 *
 *   cppmon run <requests> <strings> <out.json>
 *
 * For every request: call the C function with an error slot, call the wrapper in a try block, and compare
 * (C success => same bits / equal fields and no exception; C failure => exception of the type that belongs to the
 * C error code, carrying the C message).  In the ASan build the allocation balance is read around both paths
 * (3-repetition rule) so that a wrapper that forgets to release the C error or object is seen.
 * cppmon_table.h is generated (xv/cppgen.py) from the dispatch table and lists the wrappers that exist.
 */
#include <string>
#include <vector>
#include <functional>
#include <complex>
#include <map>
#include <typeinfo>
#include <new>
#include <sys/wait.h>
#include "xraylib++.h"
extern "C" {
#include "mon_common.h"
}

struct Out { int kind; double v[3]; int aux; std::string what; };   /* kind: 0 value, 1 invalid_argument, 2 bad_alloc, 3 runtime_error, 4 other exception */
static char **g_str; static int g_nstr;
static const char *S(int i) { return (i < 0 || i >= g_nstr) ? NULL : g_str[i]; }

template <class F> static Out guarded(F f) {
  Out o; o.kind = 0; o.v[0] = o.v[1] = o.v[2] = 0; o.aux = 0;
  try { f(o); }
  catch (const std::invalid_argument &e) { o.kind = 1; o.what = e.what(); }
  catch (const std::bad_alloc &e) { o.kind = 2; o.what = ""; }
  catch (const std::runtime_error &e) { o.kind = 3; o.what = e.what(); }
  catch (const std::exception &e) { o.kind = 4; o.what = std::string(typeid(e).name()) + ": " + e.what(); }
  catch (...) { o.kind = 4; o.what = "unknown"; }
  return o;
}

#include "cppmon_table.h"    /* static bool cpp_numeric(int fn, const int *I, const double *D, const char *s, Out &o);  CPP_WRAPPED[] */

static size_t bal(void) {
#if XV_ASAN
  return __sanitizer_get_current_allocated_bytes();
#else
  return 0;
#endif
}

/* ---- digests so that objects can be compared through the same Out record */
static double dg(const std::vector<int> &e, const std::vector<double> &a, const std::vector<double> &b) {
  double h = 0; for (size_t k = 0; k < e.size(); k++) h += e[k] * (k + 1.0) + (k < a.size() ? a[k] * (k + 3.0) : 0) + (k < b.size() ? b[k] * (k + 7.0) : 0); return h; }

/* Atomic_Factors: i[1] = 8 + mask selects which of the three outputs are requested (NULL pointers for the others); 0 = all three */
#define AF_MASK(r) (((r)->i[1] & 8) ? ((r)->i[1] & 7) : 7)

static Out c_side(const xv_req *r, xrl_error **e) {
  Out o; o.kind = 0; o.v[0] = o.v[1] = o.v[2] = 0; o.aux = 0; const char *s = S(r->s);
  if (r->fn < XV_NFN) { o.v[0] = xv_call(r->fn, r->i, r->d, s, e); return o; }
  switch (r->fn) {
  case XS_Refractive_Index: { xrlComplex z = Refractive_Index(s, r->d[0], r->d[1], e); o.v[0] = z.re; o.v[1] = z.im; break; }
  case XS_SymbolToAtomicNumber: o.v[0] = SymbolToAtomicNumber(s, e); break;
  case XS_AtomicNumberToSymbol: { char *t = AtomicNumberToSymbol(r->i[0], e); if (t) { o.what = t; xrlFree(t); } break; }
  case XS_Atomic_Factors: { int m = AF_MASK(r); o.aux = Atomic_Factors(r->i[0], r->d[0], r->d[1], r->d[2], (m & 1) ? &o.v[0] : NULL, (m & 2) ? &o.v[1] : NULL, (m & 4) ? &o.v[2] : NULL, e); break; }
  case XS_CompoundParser_summary: { struct compoundData *c = CompoundParser(s, e); if (c) { o.aux = c->nElements; o.v[0] = c->nAtomsAll; o.v[1] = c->molarMass;
      o.v[2] = dg(std::vector<int>(c->Elements, c->Elements + c->nElements), std::vector<double>(c->massFractions, c->massFractions + c->nElements), std::vector<double>(c->nAtoms, c->nAtoms + c->nElements)); FreeCompoundData(c); } break; }
  case XS_NISTByName_summary: case XS_NISTByIndex_summary: { struct compoundDataNIST *c = r->fn == XS_NISTByName_summary ? GetCompoundDataNISTByName(s, e) : GetCompoundDataNISTByIndex(r->i[0], e);
      if (c) { o.aux = c->nElements; o.v[0] = c->density; o.what = c->name; o.v[2] = dg(std::vector<int>(c->Elements, c->Elements + c->nElements), std::vector<double>(c->massFractions, c->massFractions + c->nElements), std::vector<double>()); FreeCompoundDataNIST(c); } break; }
  case XS_RadioByName_summary: case XS_RadioByIndex_summary: { struct radioNuclideData *c = r->fn == XS_RadioByName_summary ? GetRadioNuclideDataByName(s, e) : GetRadioNuclideDataByIndex(r->i[0], e);
      if (c) { o.aux = c->Z * 1000 + c->A; o.what = c->name; o.v[0] = c->N + 1000.0 * c->Z_xray + 1e6 * c->nXrays + 1e9 * c->nGammas;
        o.v[1] = dg(std::vector<int>(c->XrayLines, c->XrayLines + c->nXrays), std::vector<double>(c->XrayIntensities, c->XrayIntensities + c->nXrays), std::vector<double>());
        o.v[2] = dg(std::vector<int>(), std::vector<double>(), std::vector<double>()) + dg(std::vector<int>(c->nGammas, 1), std::vector<double>(c->GammaEnergies, c->GammaEnergies + c->nGammas), std::vector<double>(c->GammaIntensities, c->GammaIntensities + c->nGammas)); FreeRadioNuclideData(c); } break; }
  case 2001: case 2002: case 2003: { int n = 0, k; char **l = r->fn == 2001 ? GetCompoundDataNISTList(&n, e) : r->fn == 2002 ? GetRadioNuclideDataList(&n, e) : Crystal_GetCrystalsList(NULL, &n, e);
      if (l) { o.aux = n; for (k = 0; l[k]; k++) { o.what += l[k]; o.what += '|'; xrlFree(l[k]); } xrlFree(l); } break; }
  default: {   /* crystal functions on a built-in crystal */
    Crystal_Struct *c = Crystal_GetCrystal(s, NULL, e);
    if (!c) break;
    switch (r->fn) {
    case XS_Crystal_dSpacing: o.v[0] = Crystal_dSpacing(c, r->i[0], r->i[1], r->i[2], e); break;
    case XS_Bragg_angle: o.v[0] = Bragg_angle(c, r->d[0], r->i[0], r->i[1], r->i[2], e); break;
    case XS_Q_scattering_amplitude: o.v[0] = Q_scattering_amplitude(c, r->d[0], r->i[0], r->i[1], r->i[2], r->d[1], e); break;
    case XS_Crystal_F_H_StructureFactor: case 2004: { xrlComplex z = Crystal_F_H_StructureFactor(c, r->d[0], r->i[0], r->i[1], r->i[2], r->d[1], r->d[2], e); o.v[0] = z.re; o.v[1] = z.im; break; }
    case XS_Crystal_F_H_StructureFactor_Partial: { xrlComplex z = Crystal_F_H_StructureFactor_Partial(c, r->d[0], r->i[0], r->i[1], r->i[2], r->d[1], r->d[2], r->i[3], r->i[4], r->i[5], e); o.v[0] = z.re; o.v[1] = z.im; break; }
    case XS_Crystal_UnitCellVolume: o.v[0] = Crystal_UnitCellVolume(c, e); o.v[1] = c->volume; o.aux = c->n_atom; { double h = c->a + 2 * c->b + 3 * c->c + 5 * c->alpha + 7 * c->beta + 11 * c->gamma; for (int k = 0; k < c->n_atom; k++) h += c->atom[k].Zatom * (k + 1.0) + c->atom[k].fraction + c->atom[k].x * 3 + c->atom[k].y * 5 + c->atom[k].z * 7; o.v[2] = h; o.what = c->name; } break;
    default: o.kind = 9; break;
    }
    Crystal_Free(c);
  } }
  return o;
}

static Out cpp_side(const xv_req *r) {
  const char *s = S(r->s);
  /* string arguments reach the wrappers as std::string or, for NULL and for every third request, as a plain C string */
  if (r->fn < XV_NFN && strchr(XV_FN[r->fn].sig, 's') && (s == NULL || (r->i[5] + r->fn + (int)(r->d[0] * 8)) % 3 == 0))
    return guarded([&](Out &o) { if (!cpp_numeric_cstr(r->fn, r->i, r->d, s, o)) { if (s == NULL || !cpp_numeric(r->fn, r->i, r->d, s, o)) o.kind = 8; } });
  if (r->fn < XV_NFN) return guarded([&](Out &o) { if (!cpp_numeric(r->fn, r->i, r->d, s, o)) o.kind = 9; });
  std::string str = s ? s : "";
  switch (r->fn) {
  case XS_Refractive_Index: return guarded([&](Out &o) { std::complex<double> z = xrlpp::Refractive_Index(str, r->d[0], r->d[1]); o.v[0] = z.real(); o.v[1] = z.imag(); });
  case XS_SymbolToAtomicNumber: return guarded([&](Out &o) { o.v[0] = xrlpp::SymbolToAtomicNumber(str); });
  case XS_AtomicNumberToSymbol: return guarded([&](Out &o) { o.what = xrlpp::AtomicNumberToSymbol(r->i[0]); });
  case XS_Atomic_Factors: return guarded([&](Out &o) { int m = AF_MASK(r); o.aux = xrlpp::Crystal::Atomic_Factors(r->i[0], r->d[0], r->d[1], r->d[2], (m & 1) ? &o.v[0] : NULL, (m & 2) ? &o.v[1] : NULL, (m & 4) ? &o.v[2] : NULL); });
  case XS_CompoundParser_summary: return guarded([&](Out &o) { xrlpp::compoundData c = xrlpp::CompoundParser(str); o.aux = c.nElements; o.v[0] = c.nAtomsAll; o.v[1] = c.molarMass; o.v[2] = dg(c.Elements, c.massFractions, c.nAtoms); });
  case XS_NISTByName_summary: return guarded([&](Out &o) { xrlpp::compoundDataNIST c = xrlpp::GetCompoundDataNISTByName(str); o.aux = c.nElements; o.v[0] = c.density; o.what = c.name; o.v[2] = dg(c.Elements, c.massFractions, std::vector<double>()); });
  case XS_NISTByIndex_summary: return guarded([&](Out &o) { xrlpp::compoundDataNIST c = xrlpp::GetCompoundDataNISTByIndex(r->i[0]); o.aux = c.nElements; o.v[0] = c.density; o.what = c.name; o.v[2] = dg(c.Elements, c.massFractions, std::vector<double>()); });
  case XS_RadioByName_summary: case XS_RadioByIndex_summary: return guarded([&](Out &o) { xrlpp::radioNuclideData c = r->fn == XS_RadioByName_summary ? xrlpp::GetRadioNuclideDataByName(str) : xrlpp::GetRadioNuclideDataByIndex(r->i[0]);
      o.aux = c.Z * 1000 + c.A; o.what = c.name; o.v[0] = c.N + 1000.0 * c.Z_xray + 1e6 * c.nXrays + 1e9 * c.nGammas; o.v[1] = dg(c.XrayLines, c.XrayIntensities, std::vector<double>());
      o.v[2] = dg(std::vector<int>(c.nGammas, 1), c.GammaEnergies, c.GammaIntensities); });
  case 2001: case 2002: case 2003: return guarded([&](Out &o) { std::vector<std::string> l = r->fn == 2001 ? xrlpp::GetCompoundDataNISTList() : r->fn == 2002 ? xrlpp::GetRadioNuclideDataList() : xrlpp::Crystal::GetCrystalsList();
      o.aux = (int)l.size(); for (size_t k = 0; k < l.size(); k++) { o.what += l[k]; o.what += '|'; } });
  case XS_Crystal_dSpacing: return guarded([&](Out &o) { xrlpp::Crystal::Struct c = xrlpp::Crystal::GetCrystal(str); o.v[0] = xrlpp::Crystal::dSpacing(c, r->i[0], r->i[1], r->i[2]); });
  case XS_Bragg_angle: return guarded([&](Out &o) { xrlpp::Crystal::Struct c = xrlpp::Crystal::GetCrystal(str); o.v[0] = c.Bragg_angle(r->d[0], r->i[0], r->i[1], r->i[2]); });
  case XS_Q_scattering_amplitude: return guarded([&](Out &o) { xrlpp::Crystal::Struct c = xrlpp::Crystal::GetCrystal(str); o.v[0] = xrlpp::Crystal::Q_scattering_amplitude(c, r->d[0], r->i[0], r->i[1], r->i[2], r->d[1]); });
  case XS_Crystal_F_H_StructureFactor: return guarded([&](Out &o) { xrlpp::Crystal::Struct c = xrlpp::Crystal::GetCrystal(str); std::complex<double> z = c.F_H_StructureFactor(r->d[0], r->i[0], r->i[1], r->i[2], r->d[1], r->d[2]); o.v[0] = z.real(); o.v[1] = z.imag(); });
  case XS_Crystal_F_H_StructureFactor_Partial: return guarded([&](Out &o) { xrlpp::Crystal::Struct c = xrlpp::Crystal::GetCrystal(str); std::complex<double> z = xrlpp::Crystal::F_H_StructureFactor_Partial(c, r->d[0], r->i[0], r->i[1], r->i[2], r->d[1], r->d[2], r->i[3], r->i[4], r->i[5]); o.v[0] = z.real(); o.v[1] = z.imag(); });
  case XS_Crystal_UnitCellVolume: return guarded([&](Out &o) { xrlpp::Crystal::Struct c = xrlpp::Crystal::GetCrystal(str); o.v[0] = c.UnitCellVolume(); o.v[1] = c.volume; o.aux = c.n_atom;
      double h = c.a + 2 * c.b + 3 * c.c + 5 * c.alpha + 7 * c.beta + 11 * c.gamma; for (int k = 0; k < c.n_atom; k++) h += c.atom[k].Zatom * (k + 1.0) + c.atom[k].fraction + c.atom[k].x * 3 + c.atom[k].y * 5 + c.atom[k].z * 7; o.v[2] = h; o.what = c.name; });
  case 2004: return guarded([&](Out &o) {   /* wrapper objects stay valid after the originals are released: copy, destroy the original, rebuild from fields, use */
      xrlpp::Crystal::Struct *orig = new xrlpp::Crystal::Struct(xrlpp::Crystal::GetCrystal(str));
      xrlpp::Crystal::Struct copy(*orig);
      xrlpp::Crystal::Struct rebuilt(orig->name, orig->a, orig->b, orig->c, orig->alpha, orig->beta, orig->gamma, orig->volume, orig->atom);
      delete orig;
      {   /* construction from rvalues (explicit move, a temporary pushed into a container): whatever constructor the class offers for it,
           * both objects must stay usable and release their C objects exactly once */
        xrlpp::Crystal::Struct src(copy);
        xrlpp::Crystal::Struct moved(std::move(src));
        std::vector<xrlpp::Crystal::Struct> v; v.push_back(xrlpp::Crystal::GetCrystal(str)); v.push_back(std::move(moved));
        std::complex<double> zm = v[0].F_H_StructureFactor(r->d[0], r->i[0], r->i[1], r->i[2], r->d[1], r->d[2]);
        std::complex<double> zn = v[1].F_H_StructureFactor(r->d[0], r->i[0], r->i[1], r->i[2], r->d[1], r->d[2]);
        std::complex<double> z0 = copy.F_H_StructureFactor(r->d[0], r->i[0], r->i[1], r->i[2], r->d[1], r->d[2]);
        if ((zm != z0 && !(zm != zm && z0 != z0)) || (zn != z0 && !(zn != zn && z0 != z0))) { o.kind = 4; o.what = "crystal constructed from an rvalue disagrees with its source"; }
      }
      std::complex<double> z = copy.F_H_StructureFactor(r->d[0], r->i[0], r->i[1], r->i[2], r->d[1], r->d[2]);
      std::complex<double> z2 = rebuilt.F_H_StructureFactor(r->d[0], r->i[0], r->i[1], r->i[2], r->d[1], r->d[2]);
      if (z != z2 && !(z != z && z2 != z2)) { o.kind = 4; o.what = "copy and rebuilt crystal disagree"; }
      o.v[0] = z.real(); o.v[1] = z.imag(); });
  default: break;
  }
  Out o; o.kind = 9; return o;
}

struct Stat { long calls, values, exc[5]; };
struct Viol { std::string what, witness; long count; };

static std::string witness(const xv_req *r, const char *name) {
  char b[400]; snprintf(b, sizeof b, "%s i=[%d,%d,%d,%d,%d,%d] d=[%.17g,%.17g,%.17g,%.17g] s=%s", name, r->i[0], r->i[1], r->i[2], r->i[3], r->i[4], r->i[5], r->d[0], r->d[1], r->d[2], r->d[3], S(r->s) ? S(r->s) : "NULL");
  for (char *p = b; *p; p++) if ((unsigned char)*p < 32 || (unsigned char)*p > 126 || *p == '"' || *p == '\\') *p = '?';
  return b;
}
static const char *KN[] = { "value", "invalid_argument", "bad_alloc", "runtime_error", "other-exception" };

static const char *fname(int fn) {
  static std::map<int, std::string> sp = { {XS_Refractive_Index, "Refractive_Index"}, {XS_Crystal_dSpacing, "Crystal::dSpacing"}, {XS_Bragg_angle, "Crystal::Bragg_angle"}, {XS_Q_scattering_amplitude, "Crystal::Q_scattering_amplitude"},
    {XS_Crystal_F_H_StructureFactor, "Crystal::F_H_StructureFactor"}, {XS_Crystal_F_H_StructureFactor_Partial, "Crystal::F_H_StructureFactor_Partial"}, {XS_Crystal_UnitCellVolume, "Crystal::GetCrystal+UnitCellVolume"},
    {XS_Atomic_Factors, "Crystal::Atomic_Factors"}, {XS_SymbolToAtomicNumber, "SymbolToAtomicNumber"}, {XS_CompoundParser_summary, "CompoundParser"}, {XS_NISTByName_summary, "GetCompoundDataNISTByName"},
    {XS_NISTByIndex_summary, "GetCompoundDataNISTByIndex"}, {XS_RadioByIndex_summary, "GetRadioNuclideDataByIndex"}, {XS_RadioByName_summary, "GetRadioNuclideDataByName"}, {XS_AtomicNumberToSymbol, "AtomicNumberToSymbol"},
    {2001, "GetCompoundDataNISTList"}, {2002, "GetRadioNuclideDataList"}, {2003, "Crystal::GetCrystalsList"}, {2004, "Crystal::Struct copy/rebuild"} };
  if (fn < XV_NFN) return XV_FN[fn].name;
  return sp.count(fn) ? sp[fn].c_str() : "?";
}

/* Scenario run in a forked child (it fills the built-in collection): additions through the wrapper until the fixed capacity
 * is reached exercise the one error code that is neither INVALID_ARGUMENT nor MEMORY (RUNTIME -> std::runtime_error), plus the
 * duplicate path; after every wrapper call the C view (list length, retrievability) is compared. Lines "key\twhat" on fd. */
/* Two results of the same wrapper IN USE AT ONCE, the first one bound to a const reference (`const auto &a = f(x); const auto &b = f(y);` - legal and
 * common: a + b, two .c_str() in one printf): every result is an independent value, as the C function returns an independent object per call.  The
 * first result is digested before and after the second call. */
template <class F1, class F2, class D> static void two_alive(const char *name, F1 f1, F2 f2, D digest, const std::function<void(const std::string &, const std::string &)> &say) {
  try {
    const auto &a = f1(); std::string da = digest(a);
    const auto &b = f2(); std::string db = digest(b), da2 = digest(a);
    if (da != da2) say(std::string("c18:") + name + ":first-result-changes-when-the-wrapper-is-called-again", "the result of the first call read '" + da.substr(0, 60) + "' before and '" + da2.substr(0, 60) + "' after a second call (which returned '" + db.substr(0, 60) + "')");
  } catch (...) { say(std::string("harness:two_alive:") + name, "unexpected exception"); }
}
static void scenario_two_alive(const std::function<void(const std::string &, const std::string &)> &say) {
  auto vs = [](const std::vector<std::string> &v) { std::string s; for (auto &x : v) { s += x; s += '|'; } return s; };
  auto vd = [](const std::vector<double> &v) { std::string s; char b[40]; for (double x : v) { snprintf(b, sizeof b, "%.17g,", x); s += b; } return s; };
  auto vi = [](const std::vector<int> &v) { std::string s; for (int x : v) { s += std::to_string(x); s += ','; } return s; };
  for (int k = 0; k < 6; k++) { int z1 = 26 + 7 * k, z2 = 8 + k;
    two_alive("AtomicNumberToSymbol", [&] () -> decltype(xrlpp::AtomicNumberToSymbol(1)) { return xrlpp::AtomicNumberToSymbol(z1); }, [&] () -> decltype(xrlpp::AtomicNumberToSymbol(1)) { return xrlpp::AtomicNumberToSymbol(z2); }, [](const std::string &s) { return s; }, say); }
  two_alive("CompoundParser", [] () -> decltype(xrlpp::CompoundParser("H2O")) { return xrlpp::CompoundParser("Ca5(PO4)3F"); }, [] () -> decltype(xrlpp::CompoundParser("H2O")) { return xrlpp::CompoundParser("SiO2"); },
            [&](const xrlpp::compoundData &c) { return std::to_string(c.nElements) + ";" + vi(c.Elements) + vd(c.massFractions) + vd(c.nAtoms); }, say);
  two_alive("GetCompoundDataNISTByIndex", [] () -> decltype(xrlpp::GetCompoundDataNISTByIndex(0)) { return xrlpp::GetCompoundDataNISTByIndex(5); }, [] () -> decltype(xrlpp::GetCompoundDataNISTByIndex(0)) { return xrlpp::GetCompoundDataNISTByIndex(177); },
            [&](const xrlpp::compoundDataNIST &c) { return c.name + ";" + vi(c.Elements) + vd(c.massFractions) + std::to_string(c.density); }, say);
  two_alive("GetCompoundDataNISTByName", [] () -> decltype(xrlpp::GetCompoundDataNISTByName("x")) { return xrlpp::GetCompoundDataNISTByName("Water, Liquid"); }, [] () -> decltype(xrlpp::GetCompoundDataNISTByName("x")) { return xrlpp::GetCompoundDataNISTByName("Kapton Polyimide Film"); },
            [&](const xrlpp::compoundDataNIST &c) { return c.name + ";" + vi(c.Elements) + vd(c.massFractions); }, say);
  two_alive("GetRadioNuclideDataByIndex", [] () -> decltype(xrlpp::GetRadioNuclideDataByIndex(0)) { return xrlpp::GetRadioNuclideDataByIndex(0); }, [] () -> decltype(xrlpp::GetRadioNuclideDataByIndex(0)) { return xrlpp::GetRadioNuclideDataByIndex(4); },
            [&](const xrlpp::radioNuclideData &c) { return c.name + ";" + vi(c.XrayLines) + vd(c.XrayIntensities) + vd(c.GammaEnergies); }, say);
  two_alive("Crystal::GetCrystal", [] () -> decltype(xrlpp::Crystal::GetCrystal("Si")) { return xrlpp::Crystal::GetCrystal("Si"); }, [] () -> decltype(xrlpp::Crystal::GetCrystal("Si")) { return xrlpp::Crystal::GetCrystal("AlphaQuartz"); },
            [&](const xrlpp::Crystal::Struct &c) { char b[80]; snprintf(b, sizeof b, ";%.17g;%.17g;%d", c.a, c.volume, c.n_atom); return c.name + b; }, say);
  two_alive("GetCompoundDataNISTList / GetRadioNuclideDataList", [] () -> decltype(xrlpp::GetCompoundDataNISTList()) { return xrlpp::GetCompoundDataNISTList(); }, [] () -> decltype(xrlpp::GetCompoundDataNISTList()) { return xrlpp::GetRadioNuclideDataList(); }, vs, say);
  two_alive("Crystal::GetCrystalsList", [] () -> decltype(xrlpp::Crystal::GetCrystalsList()) { return xrlpp::Crystal::GetCrystalsList(); }, [] () -> decltype(xrlpp::Crystal::GetCrystalsList()) { return xrlpp::GetRadioNuclideDataList(); }, vs, say);
  say("info2", "two_alive=14");
}

static void scenario_addcrystal(int fd) {
  auto say = [&](const std::string &k, const std::string &w) { std::string l = k + "\t" + w + "\n"; if (write(fd, l.c_str(), l.size()) < 0) {} };
  scenario_two_alive(say);
  int n0 = 0; char **l0 = Crystal_GetCrystalsList(NULL, &n0, NULL); if (l0) { for (int k = 0; l0[k]; k++) xrlFree(l0[k]); xrlFree(l0); }
  xrlpp::Crystal::Struct base = xrlpp::Crystal::GetCrystal("Si");
  int accepted = 0, refused = 0;
  {   /* names longer than the 20 characters a crystal FILE can carry are legal through the constructor: added, listed and found under the full name */
    const std::string ln[2] = { "XvCppLongName_0123456789_abcdef", "XvCppLongName_012345Z789_abcdef" };     /* equal in their first 20 characters */
    for (int j = 0; j < 2; j++) {
      xrlpp::Crystal::Struct c(ln[j], base.a + 0.5 + j, base.b, base.c, base.alpha, base.beta, base.gamma, 0.0, base.atom);
      Out w = guarded([&](Out &o) { o.v[0] = c.AddCrystal(); });
      if (w.kind != 0 || w.v[0] != 1) { say("c18:Crystal::AddCrystal:long-name-refused", "adding a crystal named '" + ln[j] + "': " + KN[w.kind > 4 ? 4 : w.kind] + " " + w.what); continue; }
      Crystal_Struct *cc = Crystal_GetCrystal(ln[j].c_str(), NULL, NULL);
      if (!cc) say("c18:Crystal::Struct:name-differs-in-C-object", "a crystal constructed with the name '" + ln[j] + "' and added through the wrapper is not found by C under that name");
      else { if (cc->a != base.a + 0.5 + j) say("c18:Crystal::Struct:name-differs-in-C-object", "C finds another crystal under the name '" + ln[j] + "'"); Crystal_Free(cc); }
      Out g = guarded([&](Out &o) { xrlpp::Crystal::Struct f = xrlpp::Crystal::GetCrystal(ln[j]); o.what = f.name; o.v[0] = f.a; });
      if (g.kind != 0 || g.what != ln[j] || g.v[0] != base.a + 0.5 + j) say("c18:Crystal::GetCrystal:long-name-not-found", "wrapper lookup of '" + ln[j] + "': " + KN[g.kind > 4 ? 4 : g.kind] + " " + g.what);
      Out lw = guarded([&](Out &o) { std::vector<std::string> v = xrlpp::Crystal::GetCrystalsList(); for (auto &x : v) if (x == ln[j]) o.aux = 1; });
      if (lw.kind != 0 || lw.aux != 1) say("c18:Crystal::GetCrystalsList:long-name-missing", "the wrapper's list does not hold '" + ln[j] + "'");
    }
  }
  {   /* atoms handed to the public constructor arrive in the owned C crystal as they were given: occupancies and coordinates that are exact in no
       * narrower type than double (2^-40 tails, thirds), compared bit for bit with a C struct holding the same numbers - structure factors of the
       * wrapper object, of a copy, and the atoms C reads back once the object was added */
    const double tail = 1.0 / 1099511627776.0;
    const std::string nm = "XvCppExactAtoms";
    /* (wrapper Atoms can only be obtained from a crystal: the numbers go in through C under another name and come back through GetCrystal) */
    std::vector<Crystal_Atom> cat(base.atom.size());
    for (size_t j = 0; j < cat.size(); j++) { cat[j].Zatom = base.atom[j].Zatom; cat[j].fraction = (j % 3 == 0) ? 0.7 + tail : (j % 3 == 1 ? 1.0 / 3.0 : 0.984);
      cat[j].x = base.atom[j].x + (j % 2 ? tail : 1e-9); cat[j].y = base.atom[j].y * (1.0 - 1e-10) + 1.0 / 7.0 * 1e-3; cat[j].z = base.atom[j].z + 3 * tail; }
    Crystal_Struct cs; memset(&cs, 0, sizeof cs); std::string nmc = "XvCExactSource"; cs.name = &nmc[0]; cs.a = base.a + 0.25; cs.b = base.b; cs.c = base.c; cs.alpha = base.alpha; cs.beta = base.beta; cs.gamma = base.gamma; cs.volume = 0.0;
    cs.n_atom = (int)cat.size(); cs.atom = cat.data();
    if (Crystal_AddCrystal(&cs, NULL, NULL) != 1) { say("harness:scenario", "C refused the source crystal of the exact-atoms scenario"); return; }
    xrlpp::Crystal::Struct srcw = xrlpp::Crystal::GetCrystal(nmc);
    std::vector<xrlpp::Crystal::Atom> at = srcw.atom;
    xrlpp::Crystal::Struct c(nm, base.a + 0.25, base.b, base.c, base.alpha, base.beta, base.gamma, 0.0, at);
    std::string nmc2 = nm; cs.name = &nmc2[0];
    for (int h = 1; h <= 3; h++) {
      xrl_error *ce = NULL; xrlComplex zc = Crystal_F_H_StructureFactor(&cs, 8.0 + h, h, 1, 1, 1.0, 1.0, &ce); int cfail = ce != NULL; if (ce) xrl_error_free(ce);
      Out w = guarded([&](Out &o) { std::complex<double> z = c.F_H_StructureFactor(8.0 + h, h, 1, 1, 1.0, 1.0); o.v[0] = z.real(); o.v[1] = z.imag(); });
      Out w2 = guarded([&](Out &o) { xrlpp::Crystal::Struct c2(c); std::complex<double> z = xrlpp::Crystal::F_H_StructureFactor(c2, 8.0 + h, h, 1, 1, 1.0, 1.0); o.v[0] = z.real(); o.v[1] = z.imag(); });
      for (Out *o : { &w, &w2 })
        if ((o->kind != 0) != (cfail != 0) || (!cfail && (memcmp(&o->v[0], &zc.re, sizeof(double)) || memcmp(&o->v[1], &zc.im, sizeof(double))))) {
          char b[300]; snprintf(b, sizeof b, "F_H(%d,1,1) of a crystal built with the public constructor%s: (%.17g, %.17g), C on a struct with the same atoms: (%.17g, %.17g)", h, o == &w2 ? " (copy)" : "", o->v[0], o->v[1], zc.re, zc.im);
          say("c18:Crystal::Struct:constructed-object-differs-from-C-struct", b); break; }
    }
    Out wa = guarded([&](Out &o) { o.v[0] = c.AddCrystal(); });
    if (wa.kind != 0 || wa.v[0] != 1) say("c18:Crystal::AddCrystal:wrapper-fails-on-success", "adding '" + nm + "': " + KN[wa.kind > 4 ? 4 : wa.kind] + " " + wa.what);
    else { Crystal_Struct *cc = Crystal_GetCrystal(nm.c_str(), NULL, NULL);
      if (!cc || cc->n_atom != (int)cat.size()) say("c18:Crystal::Struct:atoms-differ-in-C-object", "C finds " + std::to_string(cc ? cc->n_atom : -1) + " atoms under '" + nm + "'");
      else for (size_t j = 0; j < cat.size(); j++) if (cc->atom[j].Zatom != cat[j].Zatom || memcmp(&cc->atom[j].fraction, &cat[j].fraction, sizeof(double)) || memcmp(&cc->atom[j].x, &cat[j].x, sizeof(double)) ||
                                                        memcmp(&cc->atom[j].y, &cat[j].y, sizeof(double)) || memcmp(&cc->atom[j].z, &cat[j].z, sizeof(double))) {
        char b[300]; snprintf(b, sizeof b, "atom %d given to the constructor as (%d, %.17g, %.17g, %.17g, %.17g) is stored by C as (%d, %.17g, %.17g, %.17g, %.17g)", (int)j, cat[j].Zatom, cat[j].fraction, cat[j].x, cat[j].y, cat[j].z,
                                   cc->atom[j].Zatom, cc->atom[j].fraction, cc->atom[j].x, cc->atom[j].y, cc->atom[j].z);
        say("c18:Crystal::Struct:atoms-differ-in-C-object", b); break; }
      if (cc) Crystal_Free(cc); }
    say("info", "exact_atoms=" + std::to_string(at.size()));
  }
  { int nn = 0; char **l1 = Crystal_GetCrystalsList(NULL, &nn, NULL); if (l1) { for (int k = 0; l1[k]; k++) xrlFree(l1[k]); xrlFree(l1); n0 = nn; } }
  for (int k = 0; k < CRYSTALARRAY_MAX + 8 - n0; k++) {
    char name[40]; snprintf(name, sizeof name, "XvCpp%04d", k);
    /* the caller's stored volume is whatever the caller says (here deliberately not the cell's): C's Crystal_AddCrystal recomputes it for the
     * STORED copy only, so the object itself must answer the same before and after it was added, and like the equivalent C struct */
    double vol = (k % 3 == 0) ? 0.0 : (k % 3 == 1 ? 150.0 + k : base.volume);
    xrlpp::Crystal::Struct c(name, base.a + 0.001 * k, base.b, base.c, base.alpha, base.beta, base.gamma, vol, base.atom);
    Out d_before = guarded([&](Out &o) { o.v[0] = c.dSpacing(1, 1, 1); });
    int before = 0, after = 0; char **l = Crystal_GetCrystalsList(NULL, &before, NULL); if (l) { for (int j = 0; l[j]; j++) xrlFree(l[j]); xrlFree(l); }
    /* additions alternate between the free function and the member; the wrapper's own list must track C's list either way */
    Out w = guarded([&](Out &o) { o.v[0] = (k % 4 >= 2) ? xrlpp::Crystal::AddCrystal(c) : c.AddCrystal(); });   /* member, member, free, free, ... */
    if (k < 12 || k % 16 < 4 || before >= CRYSTALARRAY_MAX - 2) {
      std::string cl, wl; int nc = 0; char **ll = Crystal_GetCrystalsList(NULL, &nc, NULL); if (ll) { for (int j = 0; ll[j]; j++) { cl += ll[j]; cl += '|'; xrlFree(ll[j]); } xrlFree(ll); }
      Out lw = guarded([&](Out &o) { std::vector<std::string> v = xrlpp::Crystal::GetCrystalsList(); o.aux = (int)v.size(); for (auto &x : v) { o.what += x; o.what += '|'; } });
      if (lw.kind != 0 || lw.what != cl) say("c18:Crystal::GetCrystalsList:differs-from-C-after-additions", "after " + std::to_string(k + 1) + " additions the wrapper lists " + std::to_string(lw.aux) + " crystals, C lists " + std::to_string(nc));
    }
    l = Crystal_GetCrystalsList(NULL, &after, NULL); if (l) { for (int j = 0; l[j]; j++) xrlFree(l[j]); xrlFree(l); }
    if (k < 40 || k % 16 == 0) {
      Out d_after = guarded([&](Out &o) { o.v[0] = c.dSpacing(1, 1, 1); });
      Out d_copy = guarded([&](Out &o) { xrlpp::Crystal::Struct c2(c); o.v[0] = c2.dSpacing(1, 1, 1); });
      Crystal_Struct cs; memset(&cs, 0, sizeof cs); cs.name = name; cs.a = base.a + 0.001 * k; cs.b = base.b; cs.c = base.c; cs.alpha = base.alpha; cs.beta = base.beta; cs.gamma = base.gamma; cs.volume = vol;
      cs.n_atom = 0; cs.atom = NULL; xrl_error *ce = NULL; double dc = Crystal_dSpacing(&cs, 1, 1, 1, &ce); int cfail = ce != NULL; if (ce) xrl_error_free(ce);
      bool same = d_before.kind == d_after.kind && d_after.kind == d_copy.kind && !memcmp(&d_before.v[0], &d_after.v[0], sizeof(double)) && !memcmp(&d_after.v[0], &d_copy.v[0], sizeof(double));
      if (!same) say("c18:Crystal::Struct:object-answers-differently-after-AddCrystal", "dSpacing(1,1,1) of one wrapper object (stored volume " + std::to_string(vol) + "): " + std::to_string(d_before.v[0]) + " before AddCrystal, " + std::to_string(d_after.v[0]) + " after, " + std::to_string(d_copy.v[0]) + " on a copy");
      else if ((d_after.kind != 0) != (cfail != 0) || (!cfail && memcmp(&d_after.v[0], &dc, sizeof(double)))) say("c18:Crystal::dSpacing:wrapper-object-differs-from-C-struct", "wrapper " + std::to_string(d_after.v[0]) + " (kind " + KN[d_after.kind > 4 ? 4 : d_after.kind] + "), C " + std::to_string(dc) + (cfail ? " (error)" : ""));
    }
    bool full = before >= CRYSTALARRAY_MAX;
    if (!full) {
      if (w.kind != 0 || w.v[0] != 1 || after != before + 1) { say("c18:Crystal::AddCrystal:wrapper-fails-on-success", "adding a new crystal below capacity: kind " + std::string(KN[w.kind > 4 ? 4 : w.kind]) + " " + w.what); break; }
      accepted++;
      if (k % 37 == 0) { Out d = guarded([&](Out &o) { o.v[0] = c.AddCrystal(); });     /* duplicate: C reports INVALID_ARGUMENT */
        if (d.kind != 1 || d.what != "Crystal already present in array") say("c18:Crystal::AddCrystal:duplicate-not-invalid_argument", std::string(KN[d.kind > 4 ? 4 : d.kind]) + " '" + d.what + "'"); }
    } else {
      /* what C says for the same situation (another new name on the full array) */
      Crystal_Struct *cc = Crystal_GetCrystal("Si", NULL, NULL); xrl_error *e = NULL; int rv = 1; std::string cmsg; int ccode = -1;
      if (cc) { free(cc->name); cc->name = strdup("XvCppProbe"); rv = Crystal_AddCrystal(cc, NULL, &e); Crystal_Free(cc); }
      if (e) { cmsg = e->message; ccode = (int)e->code; xrl_error_free(e); }
      int want = ccode == XRL_ERROR_MEMORY ? 2 : ccode == XRL_ERROR_INVALID_ARGUMENT ? 1 : 3;
      if (rv != 0 || ccode < 0) { say("harness:scenario", "C accepted an addition on the full built-in array"); break; }
      if (w.kind == 0) say("c18:Crystal::AddCrystal:no-exception-on-error", "C reports '" + cmsg + "' (code " + std::to_string(ccode) + ") on the full built-in array, the wrapper returned " + std::to_string(w.v[0]));
      else if (w.kind != want) say("c18:Crystal::AddCrystal:wrong-exception-type", std::string(KN[w.kind > 4 ? 4 : w.kind]) + " instead of " + KN[want]);
      else if (w.what != cmsg) say("c18:Crystal::AddCrystal:wrong-exception-message", "what()='" + w.what + "' C message='" + cmsg + "'");
      if (after != before) say("c18:Crystal::AddCrystal:array-changed-on-error", "list length changed on a refused addition");
      refused++;
    }
  }
  say("info", "accepted=" + std::to_string(accepted) + " refused=" + std::to_string(refused));
}

struct DuringUnwind { std::function<void()> f; ~DuringUnwind() { f(); } };
static long unwound = 0;

int main(int argc, char **argv) {
  if (argc < 5 || strcmp(argv[1], "run")) { fprintf(stderr, "usage: cppmon run req str out\n"); return 2; }
  FILE *f = fopen(argv[2], "rb"); if (!f) return 2;
  fseek(f, 0, SEEK_END); long n = ftell(f) / (long)sizeof(xv_req); fseek(f, 0, SEEK_SET);
  xv_req *rq = (xv_req *)malloc(sizeof(xv_req) * (n + 1)); if (fread(rq, sizeof(xv_req), n, f) != (size_t)n) return 2; fclose(f);
  f = fopen(argv[3], "rb"); if (!f) return 2;
  fseek(f, 0, SEEK_END); long slen = ftell(f); fseek(f, 0, SEEK_SET);
  char *sbuf = (char *)malloc(slen + 1); if (slen && fread(sbuf, 1, slen, f) != (size_t)slen) return 2; fclose(f); sbuf[slen] = 0;
  for (long k = 0; k < slen; k++) if (sbuf[k] == 0) g_nstr++;
  g_str = (char **)malloc(sizeof(char *) * (g_nstr + 1));
  { long p = 0; int j = 0; while (p < slen) { g_str[j++] = sbuf + p; p += strlen(sbuf + p) + 1; } }
  std::map<int, Stat> stats; std::map<std::string, Viol> viol; long skipped = 0, leakchecks = 0;
  auto V = [&](const std::string &key, const std::string &what, const xv_req *r) { Viol &v = viol[key]; if (!v.count) { v.what = what; v.witness = witness(r, fname(r->fn)); } v.count++; };
  for (long k = 0; k < n; k++) {
    const xv_req *r = &rq[k];
    if (r->fn < XV_NFN && !CPP_WRAPPED[r->fn]) { skipped++; continue; }
    if (S(r->s) == NULL && r->fn >= XV_NFN && (r->fn != XS_AtomicNumberToSymbol && r->fn != XS_Atomic_Factors && r->fn != XS_NISTByIndex_summary && r->fn != XS_RadioByIndex_summary && r->fn < 2001)) { skipped++; continue; }   /* the object wrappers take std::string: it cannot be NULL */
    size_t b0 = bal();
    xrl_error *e = NULL; Out c = c_side(r, &e); Out w;
    /* one wrapper call in five is made from a destructor WHILE A HOST EXCEPTION PROPAGATES (an RAII object of the host that uses the library
     * during stack unwinding): std::uncaught_exception() is then true although nothing is wrong with this call */
    if (k % 5 == 3) { try { DuringUnwind g{[&] { w = cpp_side(r); }}; throw 17; } catch (int) {} unwound++; } else w = cpp_side(r);
    Stat &st = stats[r->fn]; st.calls++;
    std::string fn = fname(r->fn);
    if (w.kind == 8) { skipped++; if (e) xrl_error_free(e); continue; }      /* no way to hand this wrapper a NULL compound */
    if (w.kind == 9 || c.kind == 9) { V("harness:unhandled:" + fn, "request not handled", r); if (e) xrl_error_free(e); continue; }
    if (w.kind < 5) { if (w.kind == 0) st.values++; st.exc[w.kind]++; }
    if (!e) {
      if (w.kind != 0) V("c18:" + fn + ":throws-on-success:" + KN[w.kind], "wrapper threw '" + w.what + "' although the C function succeeded", r);
      else if (memcmp(c.v, w.v, sizeof c.v) && !(c.v[0] != c.v[0] && w.v[0] != w.v[0])) V("c18:" + fn + ":different-value", "wrapper returned a different value than the C function", r);
      else if (c.aux != w.aux || c.what != w.what) V("c18:" + fn + ":different-object", "wrapper object differs from the C object (" + c.what.substr(0, 40) + " vs " + w.what.substr(0, 40) + ")", r);
    } else {
      int want = e->code == XRL_ERROR_MEMORY ? 2 : e->code == XRL_ERROR_INVALID_ARGUMENT ? 1 : 3;
      if (w.kind == 0) V("c18:" + fn + ":no-exception-on-error", std::string("C reported '") + e->message + "' but the wrapper returned normally", r);
      else if (w.kind != want) V("c18:" + fn + ":wrong-exception-type:" + KN[w.kind] + "-instead-of-" + KN[want], std::string("C error code ") + std::to_string((int)e->code), r);
      else if (want != 2 && w.what != e->message) V("c18:" + fn + ":wrong-exception-message", std::string("what()='") + w.what + "' C message='" + e->message + "'", r);
      xrl_error_free(e);
    }
    c.what.clear(); w.what.clear(); c.what.shrink_to_fit(); w.what.shrink_to_fit();
    if (XV_ASAN && bal() > b0) {
      int grew = 0; leakchecks++;
      for (int rep = 0; rep < 3; rep++) { size_t c0 = bal(); { Out w2 = cpp_side(r); (void)w2; } if (bal() > c0) grew++; }
      if (grew == 3) V("leak:wrapper:" + std::string(w.kind == 0 ? "value-path" : "exception-path") + ":" + (r->fn < XV_NFN ? "generated-wrappers" : fn), "allocation balance grows on every repetition of the wrapper call", r);
    }
  }
  long sc_accepted = -1, sc_refused = -1;
  if (getenv("XV_CPP_SCENARIO")) {
    int pfd[2]; if (pipe(pfd) == 0) { fflush(NULL); pid_t pid = fork();
      if (pid == 0) { close(pfd[0]); scenario_addcrystal(pfd[1]); close(pfd[1]); _exit(0); }
      close(pfd[1]); std::string all; char b[4096]; ssize_t m; while ((m = read(pfd[0], b, sizeof b)) > 0) all.append(b, m); close(pfd[0]);
      int st = 0; waitpid(pid, &st, 0);
      if (!WIFEXITED(st) || WEXITSTATUS(st) != 0) { xv_req dummy; memset(&dummy, 0, sizeof dummy); dummy.fn = 2003; dummy.s = -1; V("c18:Crystal::AddCrystal:scenario-died", "the add-until-full scenario process died (status " + std::to_string(st) + ")", &dummy); }
      size_t p = 0; while (p < all.size()) { size_t q = all.find('\n', p); if (q == std::string::npos) q = all.size(); std::string line = all.substr(p, q - p); p = q + 1;
        size_t t = line.find('\t'); if (t == std::string::npos) continue; std::string k = line.substr(0, t), w = line.substr(t + 1);
        if (k == "info") { sscanf(w.c_str(), "accepted=%ld refused=%ld", &sc_accepted, &sc_refused); continue; }
        if (k == "info2") continue;
        xv_req dummy; memset(&dummy, 0, sizeof dummy); dummy.fn = 2003; dummy.s = -1; V(k, w, &dummy); } } }
  FILE *o = fopen(argv[4], "w"); if (!o) return 2;
  auto js = [&](const std::string &s) { fputc('"', o); for (char ch : s) { unsigned char c = (unsigned char)ch; if (c == '"' || c == '\\') { fputc('\\', o); fputc(c, o); } else if (c < 32 || c > 126) fputc('?', o); else fputc(c, o); } fputc('"', o); };
  for (auto &kv : viol) { fprintf(o, "{\"type\":\"viol\",\"key\":"); js(kv.first); fprintf(o, ",\"what\":"); js(kv.second.what); fprintf(o, ",\"witness\":"); js(kv.second.witness); fprintf(o, ",\"count\":%ld}\n", kv.second.count); }
  for (auto &kv : stats) { fprintf(o, "{\"type\":\"fn\",\"fn\":"); js(fname(kv.first)); fprintf(o, ",\"calls\":%ld,\"value\":%ld,\"invalid_argument\":%ld,\"bad_alloc\":%ld,\"runtime_error\":%ld,\"other\":%ld}\n", kv.second.calls, kv.second.exc[0], kv.second.exc[1], kv.second.exc[2], kv.second.exc[3], kv.second.exc[4]); }
  fprintf(o, "{\"type\":\"summary\",\"requests\":%ld,\"skipped\":%ld,\"leakchecks\":%ld,\"asan\":%d,\"scenario_accepted\":%ld,\"scenario_refused\":%ld,\"during_unwinding\":%ld}\n", n, skipped, leakchecks, XV_ASAN, sc_accepted, sc_refused, unwound);
  fclose(o);
  free(rq); free(sbuf); free(g_str);
  return 0;
}
