/* sweep of the non-numeric API (objects, strings, crystals, error objects); included by mon_sweep.c */

static int sp_reg(const char *name) { sw_special_names[sw_nspecial] = name; return XV_NFN + sw_nspecial++; }
static char sp_w[512];
#define SP_LAST(...) do { snprintf(sp_w, sizeof sp_w, __VA_ARGS__); sw_last->id = -3; memcpy(sw_last->special, sp_w, 63); sw_last->special[63] = 0; } while (0)

static const char *sp_q(const char *s) { static char b[4][160]; static int r; char *o = b[r = (r + 1) & 3]; int j = 0;
  if (!s) return "NULL"; o[j++] = '\''; for (; *s && j < 150; s++) o[j++] = ((unsigned char)*s < 32 || (unsigned char)*s > 126 || *s == '"' || *s == '\\') ? '?' : *s; o[j++] = '\''; o[j] = 0; return o; }

/* generic leak check for a closure-like re-execution */
typedef void (*sp_redo)(void *u);
static void sp_leak(const char *fn, size_t b0, sp_redo redo, void *u) {
  size_t b1 = sw_alloc();
  if (b1 > b0) { int rep, grew = 0; sw_leakchecks++;
    for (rep = 0; rep < 3; rep++) { size_t c0 = sw_alloc(), c1; redo(u); c1 = sw_alloc(); if (c1 > c0) grew++; }
    if (grew == 3) sw_violation(fn, "leak", "", sp_w); }
}

XRL_EXTERN void Refractive_Index2(const char compound[], double E, double density, xrlComplex* result, xrl_error **error);
XRL_EXTERN void Crystal_F_H_StructureFactor2(Crystal_Struct* crystal, double energy, int i_miller, int j_miller, int k_miller, double debye_factor, double rel_angle, xrlComplex* result, xrl_error **error);
XRL_EXTERN void Crystal_F_H_StructureFactor_Partial2(Crystal_Struct* crystal, double energy, int i_miller, int j_miller, int k_miller, double debye_factor, double rel_angle, int f0_flag, int f_prime_flag, int f_prime2_flag, xrlComplex* result, xrl_error **error);

/* ---------------- digests of objects (to compare the slot / no-slot results) */
static uint64_t dg_cd(const struct compoundData *c) { uint64_t h = XV_FNV0; if (!c) return 0; h = xv_fnv(&c->nElements, 4, h); h = xv_fnv(&c->nAtomsAll, 8, h); h = xv_fnv(&c->molarMass, 8, h);
  h = xv_fnv(c->Elements, 4 * c->nElements, h); h = xv_fnv(c->massFractions, 8 * c->nElements, h); h = xv_fnv(c->nAtoms, 8 * c->nElements, h); return h; }
static int fin_cd(const struct compoundData *c) { int k; if (!isfinite(c->nAtomsAll) || !isfinite(c->molarMass)) return 0; for (k = 0; k < c->nElements; k++) if (!isfinite(c->massFractions[k]) || !isfinite(c->nAtoms[k])) return 0; return 1; }
static uint64_t dg_nist(const struct compoundDataNIST *c) { uint64_t h = XV_FNV0; if (!c) return 0; h = xv_fnv(c->name, strlen(c->name), h); h = xv_fnv(&c->nElements, 4, h); h = xv_fnv(&c->density, 8, h);
  h = xv_fnv(c->Elements, 4 * c->nElements, h); h = xv_fnv(c->massFractions, 8 * c->nElements, h); return h; }
static uint64_t dg_rn(const struct radioNuclideData *c) { uint64_t h = XV_FNV0; if (!c) return 0; h = xv_fnv(c->name, strlen(c->name), h); h = xv_fnv(&c->Z, 4, h); h = xv_fnv(&c->A, 4, h); h = xv_fnv(&c->N, 4, h); h = xv_fnv(&c->Z_xray, 4, h);
  h = xv_fnv(&c->nXrays, 4, h); h = xv_fnv(c->XrayLines, 4 * c->nXrays, h); h = xv_fnv(c->XrayIntensities, 8 * c->nXrays, h); h = xv_fnv(&c->nGammas, 4, h);
  h = xv_fnv(c->GammaEnergies, 8 * c->nGammas, h); h = xv_fnv(c->GammaIntensities, 8 * c->nGammas, h); return h; }
static uint64_t dg_cr(const Crystal_Struct *c) { uint64_t h = XV_FNV0; int k; if (!c) return 0; h = xv_fnv(c->name, strlen(c->name), h); h = xv_fnv(&c->a, 8 * 7, h); h = xv_fnv(&c->n_atom, 4, h);
  for (k = 0; k < c->n_atom; k++) { h = xv_fnv(&c->atom[k].Zatom, 4, h); h = xv_fnv(&c->atom[k].fraction, 32, h); } return h; }
static uint64_t dg_list(char **l, int n) { uint64_t h = XV_FNV0; int k; if (!l) return 0; for (k = 0; k < n && l[k]; k++) h = xv_fnv(l[k], strlen(l[k]) + 1, h); return h; }
static void free_list(char **l) { int k; if (!l) return; for (k = 0; l[k]; k++) xrlFree(l[k]); xrlFree(l); }

/* ---------------- string pools */
static char **sp_nist; static int sp_nnist; static char **sp_rn; static int sp_nrn; static char **sp_cr; static int sp_ncr;
static const char *sp_pool[1024]; static int sp_npool;
static Crystal_Struct *sp_crs[64]; static int sp_ncrs; /* built-in crystals + NULL at the end */

static void sp_build(void) {
  int k; char *sym;
  sp_nist = GetCompoundDataNISTList(&sp_nnist, NULL); sp_rn = GetRadioNuclideDataList(&sp_nrn, NULL); sp_cr = Crystal_GetCrystalsList(NULL, &sp_ncr, NULL);
  for (k = 0; k < sw_nSTR; k++) sp_pool[sp_npool++] = sw_STR[k];
  for (k = 0; sp_nist && k < sp_nnist; k++) sp_pool[sp_npool++] = sp_nist[k];
  for (k = 0; sp_rn && k < sp_nrn; k++) sp_pool[sp_npool++] = sp_rn[k];
  for (k = 0; sp_cr && k < sp_ncr; k++) sp_pool[sp_npool++] = sp_cr[k];
  for (k = 1; k <= 110; k++) if ((sym = AtomicNumberToSymbol(k, NULL)) != NULL) sp_pool[sp_npool++] = sym; /* kept for the process lifetime */
  for (k = 0; sp_cr && k < sp_ncr && k < 62; k++) { sp_crs[sp_ncrs] = Crystal_GetCrystal(sp_cr[k], NULL, NULL); if (sp_crs[sp_ncrs]) sp_ncrs++; }
  sp_crs[sp_ncrs++] = NULL;
}

/* ---------------- individual functions */
static int F_CompoundParser, F_NISTByName, F_NISTByIndex, F_NISTList, F_RNByName, F_RNByIndex, F_RNList, F_A2S, F_S2A, F_Refr,
  F_GetCrystal, F_MakeCopy, F_ArrayInit, F_CrList, F_dSp, F_Vol, F_Bragg, F_Qs, F_FH, F_FHP, F_AF, F_AddCr, F_ReadFile, F_misc;

static void redo_parser(void *u) { xrl_error *e = NULL; struct compoundData *c = CompoundParser((const char *)u, &e); if (c) FreeCompoundData(c); if (e) xrl_error_free(e); c = CompoundParser((const char *)u, NULL); if (c) FreeCompoundData(c); }
static void cb_parser(const int *idx, void *u) { const char *s = sp_pool[idx[0]]; xrl_error *e = NULL; struct compoundData *c1, *c2; size_t b0; (void)u;
  SP_LAST("CompoundParser(%s)", sp_q(s)); b0 = sw_alloc();
  c1 = CompoundParser(s, &e); c2 = CompoundParser(s, NULL);
  if (dg_cd(c1) != dg_cd(c2)) sw_violation("CompoundParser", "slot-dependent-result", "", sp_w);
  sw_contract(F_CompoundParser, e, c1 == NULL, c1 ? fin_cd(c1) : 1, c1 == NULL, sp_w);
  if (c1) FreeCompoundData(c1); if (c2) FreeCompoundData(c2);
  sp_leak("CompoundParser", b0, redo_parser, (void *)s); }

static void redo_nistn(void *u) { xrl_error *e = NULL; struct compoundDataNIST *c = GetCompoundDataNISTByName((const char *)u, &e); if (c) FreeCompoundDataNIST(c); if (e) xrl_error_free(e); c = GetCompoundDataNISTByName((const char *)u, NULL); if (c) FreeCompoundDataNIST(c); }
static void cb_nistn(const int *idx, void *u) { const char *s = sp_pool[idx[0]]; xrl_error *e = NULL; struct compoundDataNIST *c1, *c2; size_t b0; (void)u;
  SP_LAST("GetCompoundDataNISTByName(%s)", sp_q(s)); b0 = sw_alloc();
  c1 = GetCompoundDataNISTByName(s, &e); c2 = GetCompoundDataNISTByName(s, NULL);
  if (dg_nist(c1) != dg_nist(c2)) sw_violation("GetCompoundDataNISTByName", "slot-dependent-result", "", sp_w);
  sw_contract(F_NISTByName, e, c1 == NULL, 1, c1 == NULL, sp_w);
  if (c1) FreeCompoundDataNIST(c1); if (c2) FreeCompoundDataNIST(c2);
  sp_leak("GetCompoundDataNISTByName", b0, redo_nistn, (void *)s); }

static void redo_nisti(void *u) { xrl_error *e = NULL; struct compoundDataNIST *c = GetCompoundDataNISTByIndex(*(int *)u, &e); if (c) FreeCompoundDataNIST(c); if (e) xrl_error_free(e); }
static void cb_nisti(const int *idx, void *u) { int i = idx[0] < 200 ? idx[0] - 5 : sw_XI[idx[0] - 200]; xrl_error *e = NULL; struct compoundDataNIST *c1, *c2; size_t b0; (void)u;
  SP_LAST("GetCompoundDataNISTByIndex(%d)", i); b0 = sw_alloc();
  c1 = GetCompoundDataNISTByIndex(i, &e); c2 = GetCompoundDataNISTByIndex(i, NULL);
  if (dg_nist(c1) != dg_nist(c2)) sw_violation("GetCompoundDataNISTByIndex", "slot-dependent-result", "", sp_w);
  sw_contract(F_NISTByIndex, e, c1 == NULL, 1, c1 == NULL, sp_w);
  if (c1) FreeCompoundDataNIST(c1); if (c2) FreeCompoundDataNIST(c2);
  sp_leak("GetCompoundDataNISTByIndex", b0, redo_nisti, &i); }

static void redo_rnn(void *u) { xrl_error *e = NULL; struct radioNuclideData *c = GetRadioNuclideDataByName((const char *)u, &e); if (c) FreeRadioNuclideData(c); if (e) xrl_error_free(e); c = GetRadioNuclideDataByName((const char *)u, NULL); if (c) FreeRadioNuclideData(c); }
static void cb_rnn(const int *idx, void *u) { const char *s = sp_pool[idx[0]]; xrl_error *e = NULL; struct radioNuclideData *c1, *c2; size_t b0; (void)u;
  SP_LAST("GetRadioNuclideDataByName(%s)", sp_q(s)); b0 = sw_alloc();
  c1 = GetRadioNuclideDataByName(s, &e); c2 = GetRadioNuclideDataByName(s, NULL);
  if (dg_rn(c1) != dg_rn(c2)) sw_violation("GetRadioNuclideDataByName", "slot-dependent-result", "", sp_w);
  sw_contract(F_RNByName, e, c1 == NULL, 1, c1 == NULL, sp_w);
  if (c1) FreeRadioNuclideData(c1); if (c2) FreeRadioNuclideData(c2);
  sp_leak("GetRadioNuclideDataByName", b0, redo_rnn, (void *)s); }

static void redo_rni(void *u) { xrl_error *e = NULL; struct radioNuclideData *c = GetRadioNuclideDataByIndex(*(int *)u, &e); if (c) FreeRadioNuclideData(c); if (e) xrl_error_free(e); }
static void cb_rni(const int *idx, void *u) { int i = idx[0] < 30 ? idx[0] - 5 : sw_XI[idx[0] - 30]; xrl_error *e = NULL; struct radioNuclideData *c1, *c2; size_t b0; (void)u;
  SP_LAST("GetRadioNuclideDataByIndex(%d)", i); b0 = sw_alloc();
  c1 = GetRadioNuclideDataByIndex(i, &e); c2 = GetRadioNuclideDataByIndex(i, NULL);
  if (dg_rn(c1) != dg_rn(c2)) sw_violation("GetRadioNuclideDataByIndex", "slot-dependent-result", "", sp_w);
  sw_contract(F_RNByIndex, e, c1 == NULL, 1, c1 == NULL, sp_w);
  if (c1) FreeRadioNuclideData(c1); if (c2) FreeRadioNuclideData(c2);
  sp_leak("GetRadioNuclideDataByIndex", b0, redo_rni, &i); }

static void redo_lists(void *u) { int n; (void)u; free_list(GetCompoundDataNISTList(&n, NULL)); free_list(GetRadioNuclideDataList(NULL, NULL)); free_list(Crystal_GetCrystalsList(NULL, &n, NULL)); }
static void do_lists(void) { xrl_error *e = NULL; int n1 = -1, n2 = -1; char **l1, **l2; size_t b0 = sw_alloc();
  SP_LAST("GetCompoundDataNISTList()"); l1 = GetCompoundDataNISTList(&n1, &e); l2 = GetCompoundDataNISTList(NULL, NULL);
  if (dg_list(l1, 100000) != dg_list(l2, 100000)) sw_violation("GetCompoundDataNISTList", "slot-dependent-result", "", sp_w);
  sw_contract(F_NISTList, e, l1 == NULL, 1, l1 == NULL || n1 <= 0, sp_w); free_list(l1); free_list(l2);
  e = NULL; SP_LAST("GetRadioNuclideDataList()"); l1 = GetRadioNuclideDataList(&n1, &e); l2 = GetRadioNuclideDataList(&n2, NULL);
  if (dg_list(l1, 100000) != dg_list(l2, 100000) || n1 != n2) sw_violation("GetRadioNuclideDataList", "slot-dependent-result", "", sp_w);
  sw_contract(F_RNList, e, l1 == NULL, 1, l1 == NULL || n1 <= 0, sp_w); free_list(l1); free_list(l2);
  e = NULL; SP_LAST("Crystal_GetCrystalsList(NULL)"); l1 = Crystal_GetCrystalsList(NULL, &n1, &e); l2 = Crystal_GetCrystalsList(NULL, NULL, NULL);
  if (dg_list(l1, 100000) != dg_list(l2, 100000)) sw_violation("Crystal_GetCrystalsList", "slot-dependent-result", "", sp_w);
  sw_contract(F_CrList, e, l1 == NULL, 1, l1 == NULL || n1 <= 0, sp_w); free_list(l1); free_list(l2);
  sp_leak("lists", b0, redo_lists, NULL); }

static void redo_a2s(void *u) { xrl_error *e = NULL; char *s = AtomicNumberToSymbol(*(int *)u, &e); if (s) xrlFree(s); if (e) xrl_error_free(e); }
static void cb_a2s(const int *idx, void *u) { int Z = sw_Zs[idx[0]]; xrl_error *e = NULL; char *s1, *s2; size_t b0; (void)u;
  SP_LAST("AtomicNumberToSymbol(%d)", Z); b0 = sw_alloc();
  s1 = AtomicNumberToSymbol(Z, &e); s2 = AtomicNumberToSymbol(Z, NULL);
  if ((s1 == NULL) != (s2 == NULL) || (s1 && strcmp(s1, s2))) sw_violation("AtomicNumberToSymbol", "slot-dependent-result", "", sp_w);
  sw_contract(F_A2S, e, s1 == NULL, 1, s1 == NULL || !s1[0], sp_w);
  if (s1) xrlFree(s1); if (s2) xrlFree(s2);
  sp_leak("AtomicNumberToSymbol", b0, redo_a2s, &Z); }

static void redo_s2a(void *u) { xrl_error *e = NULL; SymbolToAtomicNumber((const char *)u, &e); if (e) xrl_error_free(e); SymbolToAtomicNumber((const char *)u, NULL); }
static void cb_s2a(const int *idx, void *u) { const char *s = sp_pool[idx[0]]; xrl_error *e = NULL; int z1, z2; size_t b0; (void)u;
  SP_LAST("SymbolToAtomicNumber(%s)", sp_q(s)); b0 = sw_alloc();
  z1 = SymbolToAtomicNumber(s, &e); z2 = SymbolToAtomicNumber(s, NULL);
  if (z1 != z2) sw_violation("SymbolToAtomicNumber", "slot-dependent-result", "", sp_w);
  sw_contract(F_S2A, e, z1 == 0, 1, z1 == 0, sp_w);
  sp_leak("SymbolToAtomicNumber", b0, redo_s2a, (void *)s); }

typedef struct { const char *s; double E, d; } refr_a;
static void redo_refr(void *u) { refr_a *a = (refr_a *)u; xrl_error *e = NULL; Refractive_Index(a->s, a->E, a->d, &e); if (e) xrl_error_free(e); }
static void cb_refr(const int *idx, void *u) { refr_a a; xrl_error *e = NULL; xrlComplex z1, z2; size_t b0; int zz = 1 + (idx[1] * 7) % ZMAX; (void)u;
  a.s = sp_pool[idx[0]]; a.E = sw_EZ[zz][idx[1] % sw_nEZ[zz]]; a.d = sw_DN[idx[2]];
  SP_LAST("Refractive_Index(%s,%.17g,%.17g)", sp_q(a.s), a.E, a.d); b0 = sw_alloc();
  z1 = Refractive_Index(a.s, a.E, a.d, &e); z2 = Refractive_Index(a.s, a.E, a.d, NULL);
  if (xv_bits(z1.re) != xv_bits(z2.re) || xv_bits(z1.im) != xv_bits(z2.im)) sw_violation("Refractive_Index", "slot-dependent-result", "", sp_w);
  sw_contract(F_Refr, e, z1.re == 0.0 && z1.im == 0.0, isfinite(z1.re) && isfinite(z1.im), z1.im == 0.0, sp_w);
  sp_leak("Refractive_Index", b0, redo_refr, &a); }

static void redo_getcr(void *u) { xrl_error *e = NULL; Crystal_Struct *c = Crystal_GetCrystal((const char *)u, NULL, &e); if (c) Crystal_Free(c); if (e) xrl_error_free(e); }
static void cb_getcr(const int *idx, void *u) { const char *s = sp_pool[idx[0]]; xrl_error *e = NULL; Crystal_Struct *c1, *c2, *c3 = NULL; size_t b0; (void)u;
  SP_LAST("Crystal_GetCrystal(%s,NULL)", sp_q(s)); b0 = sw_alloc();
  c1 = Crystal_GetCrystal(s, NULL, &e); c2 = Crystal_GetCrystal(s, NULL, NULL);
  if (dg_cr(c1) != dg_cr(c2)) sw_violation("Crystal_GetCrystal", "slot-dependent-result", "", sp_w);
  sw_contract(F_GetCrystal, e, c1 == NULL, 1, c1 == NULL, sp_w);
  if (c1) { e = NULL; SP_LAST("Crystal_MakeCopy(<%s>)", c1->name); c3 = Crystal_MakeCopy(c1, &e); if (dg_cr(c3) != dg_cr(c1)) sw_violation("Crystal_MakeCopy", "copy-differs", "", sp_w);
    sw_contract(F_MakeCopy, e, c3 == NULL, 1, c3 == NULL, sp_w); }
  if (c1) Crystal_Free(c1); if (c2) Crystal_Free(c2); if (c3) Crystal_Free(c3);
  sp_leak("Crystal_GetCrystal", b0, redo_getcr, (void *)s); }

static void do_misc_crystal(void) { xrl_error *e = NULL; Crystal_Struct *c; Crystal_Array *a; int k;
  /* capacities: invalid, tiny, and large ones whose byte size leaves 32 bits (1<<28 * sizeof(Crystal_Struct) etc.): refused cleanly or really that large */
  static const int ns[] = { -5, -1, 0, 1, 7, INT_MIN, 1 << 28, 53687092, 161061274, 1 << 29 };
  SP_LAST("Crystal_MakeCopy(NULL)"); c = Crystal_MakeCopy(NULL, &e); Crystal_MakeCopy(NULL, NULL); sw_contract(F_MakeCopy, e, c == NULL, 1, c == NULL, sp_w);
  /* a caller-described crystal (stored volume left 0) added so that it sorts BEFORE an existing entry, then used */
  e = NULL; SP_LAST("ArrayInit(2); AddCrystal(<Si as 'Zzz'>); AddCrystal(<from scratch 'Aaa', volume 0>); GetCrystal('Aaa'); Crystal_dSpacing");
  a = Crystal_ArrayInit(2, NULL); c = Crystal_GetCrystal("Si", NULL, NULL);
  if (a && c) { Crystal_Struct u; Crystal_Atom at[2]; Crystal_Struct *g; double v; int r1, r2;
    free(c->name); c->name = strdup("Zzz"); r1 = Crystal_AddCrystal(c, a, NULL);
    memset(&u, 0, sizeof u); u.name = (char *)"Aaa"; u.a = 4.0; u.b = 5.0; u.c = 6.0; u.alpha = 80; u.beta = 95; u.gamma = 100; u.volume = 0.0; u.n_atom = 2; u.atom = at;
    at[0].Zatom = 14; at[0].fraction = 1; at[0].x = at[0].y = at[0].z = 0; at[1] = at[0]; at[1].Zatom = 8; at[1].x = 0.5;
    r2 = Crystal_AddCrystal(&u, a, &e); sw_contract(F_AddCr, e, r2 == 0, 1, r2 == 0, sp_w);
    e = NULL; g = Crystal_GetCrystal("Aaa", a, &e); sw_contract(F_GetCrystal, e, g == NULL, 1, g == NULL, sp_w);
    if (g) { e = NULL; v = Crystal_dSpacing(g, 1, 1, 1, &e); sw_contract(F_dSp, e, v == 0.0, isfinite(v), v == 0.0, sp_w);
      e = NULL; v = Bragg_angle(g, 12.0, 1, 1, 1, &e); sw_contract(F_Bragg, e, v == 0.0, isfinite(v), v == 0.0, sp_w); Crystal_Free(g); }
    (void)r1; }
  if (c) Crystal_Free(c); if (a) Crystal_ArrayFree(a);
  /* crystal files with ONE defect and with TWO defects at once (each rejection path alone may be right and a pair of them store two errors) */
  { static const char *files[] = {
      "#S 14 A\n#UCELL 5 5 5 90 90 90\n#L x\n14 1 0 0 0\n#EOF\n",                                                    /* well-formed */
      "#S 14 A\n#UCELL 5 5 5 90 90 90\n#UCELL 5 5 5 90 90 90\n#L x\n14 1 0 0 0\n",                                    /* repeated #UCELL */
      "#S 14 A\n#UCELL 5 5 5 90 90\n#L x\n14 1 0 0 0\n",                                                              /* short #UCELL */
      "#S 14 A\n#UCELL 5 5 5 90 90 90\n#UCELL 5 5 5 90\n#L x\n14 1 0 0 0\n",                                          /* repeated AND short */
      "#S 14 A\n#UCELL 5 5 5 90\n#UCELL 5 5 5 90 90 90\n#L x\n14 1 0 0 0\n",                                          /* short, then a second one */
      "#S A\n#UCELL 5 5 5 90 90\n#L x\n14 1 0 0 0\n",                                                                  /* malformed #S and short #UCELL */
      "#S 14 A\n#L x\n14 1 0 0 0\n",                                                                                   /* no #UCELL */
      "#S 14 A\n#UCELL 5 5 5 90 90 90\n#L x\n14 1 0 0 0\n#S 14 A\n#UCELL 5 5 5 90 90\n#L x\n14 1 0 0 0\n",           /* duplicate name AND short #UCELL in the second */
      "#S 14 A\n#UCELL 5 5 5 90 90 90\n#L x\n14 1 x 0 0\n14 1 0 y 0\n",                                               /* two unparsable atom lines */
      "#S 14 A\n#UCELL 5 5 5 90 90 90\n#UCELL x\n#L x\n",                                                             /* repeated+malformed and no atoms */
      "#S 14 Si\n#UCELL 5 5 5 90 90\n#L x\n14 1 0 0 0\n" };                                                           /* built-in name and short #UCELL */
    char path[64]; int fd, r; size_t j;
    for (j = 0; j < sizeof files / sizeof files[0]; j++) {
      strcpy(path, "/tmp/xv-sweep-cr-XXXXXX"); fd = mkstemp(path); if (fd < 0) break;
      if (write(fd, files[j], strlen(files[j])) < 0) {} close(fd);
      a = Crystal_ArrayInit(1, NULL);
      if (a) { e = NULL; SP_LAST("Crystal_ReadFile(<generated file %d>, <user array>)", (int)j); r = Crystal_ReadFile(path, a, &e); sw_contract(F_ReadFile, e, r == 0, 1, r == 0, sp_w);
        if (j > 0 && r) sw_violation("Crystal_ReadFile", "wrong-answer", "a malformed file was accepted", sp_w);
        r = Crystal_ReadFile(path, a, NULL); Crystal_ArrayFree(a); }
      /* the same content through something that is NOT a regular file: a pipe (as /proc/self/fd/N; what <(...) or /dev/stdin give a program), which
       * cannot be repositioned - whatever the library makes of it, the outcome is a success or a failure WITH an error */
      { int pp[2]; if (pipe(pp) == 0) { char ppath[64]; if (write(pp[1], files[j], strlen(files[j])) < 0) {} close(pp[1]); snprintf(ppath, sizeof ppath, "/proc/self/fd/%d", pp[0]);
          a = Crystal_ArrayInit(1, NULL);
          if (a) { e = NULL; SP_LAST("Crystal_ReadFile(<generated file %d through a pipe>, <user array>)", (int)j); r = Crystal_ReadFile(ppath, a, &e); sw_contract(F_ReadFile, e, r == 0, 1, r == 0, sp_w);
            if (j > 0 && r) sw_violation("Crystal_ReadFile", "wrong-answer", "a malformed file was accepted (pipe)", sp_w); Crystal_ArrayFree(a); }
          close(pp[0]); } }
      if (j == 0) { a = Crystal_ArrayInit(1, NULL); if (a) { e = NULL; SP_LAST("Crystal_ReadFile('/dev/null', <user array>)"); r = Crystal_ReadFile("/dev/null", a, &e); sw_contract(F_ReadFile, e, r == 0, 1, r == 0, sp_w);
          e = NULL; SP_LAST("Crystal_ReadFile(<a directory>, <user array>)"); r = Crystal_ReadFile("/tmp", a, &e); sw_contract(F_ReadFile, e, r == 0, 1, r == 0, sp_w); Crystal_ArrayFree(a); } }
      if (j == 10) { e = NULL; SP_LAST("Crystal_ReadFile(<generated file %d>, <built-in array>)", (int)j); r = Crystal_ReadFile(path, NULL, &e); sw_contract(F_ReadFile, e, r == 0, 1, r == 0, sp_w); }
      unlink(path); } }
  e = NULL;
  for (k = 0; k < (int)(sizeof ns / sizeof ns[0]); k++) { e = NULL; SP_LAST("Crystal_ArrayInit(%d)", ns[k]); a = Crystal_ArrayInit(ns[k], &e); sw_contract(F_ArrayInit, e, a == NULL, 1, a == NULL, sp_w);
    if (a) { int n = -1; char **l; e = NULL; SP_LAST("Crystal_GetCrystalsList(<empty array>)"); l = Crystal_GetCrystalsList(a, &n, &e); sw_contract(F_CrList, e, l == NULL, 1, l == NULL, sp_w); if (n != 0) sw_violation("Crystal_GetCrystalsList", "wrong-count", "", sp_w); free_list(l);
      e = NULL; SP_LAST("Crystal_AddCrystal(NULL,<array>)"); { int r = Crystal_AddCrystal(NULL, a, &e); Crystal_AddCrystal(NULL, a, NULL); sw_contract(F_AddCr, e, r == 0, 1, r == 0, sp_w); }
      e = NULL; SP_LAST("Crystal_ReadFile(NULL,<array>)"); { int r = Crystal_ReadFile(NULL, a, &e); Crystal_ReadFile(NULL, a, NULL); sw_contract(F_ReadFile, e, r == 0, 1, r == 0, sp_w); }
      e = NULL; SP_LAST("Crystal_ReadFile('/nonexistent/xv',<array>)"); { int r = Crystal_ReadFile("/nonexistent/xv", a, &e); Crystal_ReadFile("/nonexistent/xv", a, NULL); sw_contract(F_ReadFile, e, r == 0, 1, r == 0, sp_w); }
      e = NULL; SP_LAST("Crystal_GetCrystal('Si',<empty array>)"); c = Crystal_GetCrystal("Si", a, &e); sw_contract(F_GetCrystal, e, c == NULL, 1, c == NULL, sp_w); if (c) Crystal_Free(c);
      /* the array announces room for ns[k] crystals: store two and read them back */
      { Crystal_Struct *s1 = Crystal_GetCrystal("Si", NULL, NULL), *s2 = Crystal_GetCrystal("Ge", NULL, NULL), *g; int r;
        if (s1 && s2) { e = NULL; SP_LAST("Crystal_ArrayInit(%d) then AddCrystal(Si), AddCrystal(Ge), GetCrystal", ns[k]);
          r = Crystal_AddCrystal(s1, a, &e); sw_contract(F_AddCr, e, r == 0, 1, r == 0, sp_w); e = NULL; r = Crystal_AddCrystal(s2, a, &e); sw_contract(F_AddCr, e, r == 0, 1, r == 0, sp_w);
          e = NULL; g = Crystal_GetCrystal("Ge", a, &e); sw_contract(F_GetCrystal, e, g == NULL, 1, g == NULL, sp_w); if (g) { if (g->n_atom != s2->n_atom) sw_violation("Crystal_GetCrystal", "wrong-answer", "", sp_w); Crystal_Free(g); } }
        if (s1) Crystal_Free(s1); if (s2) Crystal_Free(s2); }
      Crystal_ArrayFree(a); }
    a = Crystal_ArrayInit(ns[k], NULL); if (a) Crystal_ArrayFree(a); }
  e = NULL; SP_LAST("Crystal_AddCrystal(<Si copy>,NULL) duplicate"); c = Crystal_GetCrystal("Si", NULL, NULL);
  if (c) { int r = Crystal_AddCrystal(c, NULL, &e); sw_contract(F_AddCr, e, r == 0, 1, r == 0, sp_w); if (r) sw_violation("Crystal_AddCrystal", "duplicate-accepted", "", sp_w); Crystal_Free(c); }
  Crystal_ArrayFree(NULL); Crystal_Free(NULL); }
/* run a sequence once to warm the monitor's own tables, then three times under the allocation balance */
static void sp_leak_seq(const char *name, void (*seq)(void), const char *what) { int rep, grew = 0; seq();
  for (rep = 0; rep < 3; rep++) { size_t c0 = sw_alloc(), c1; seq(); c1 = sw_alloc(); if (c1 > c0) grew++; }
  if (grew == 3) sw_violation(name, "leak", "", what); }

static const int sp_M[] = { -2, -1, 0, 1, 2, 3, 4 };
static const double sp_CE[] = { -1.0, 0.0, 0.5, 3.0, 8.0, 17.4, 100.0, /* codes: energies aimed at the no-reflection cut-off of the reflection */ -101, -102, -103, -104, -105, -106, -107, -108, -109 };
/* the energy below which (h k l) does not reflect is hc/(2 d): the exact double, its neighbours, and the same quantity rounded along other paths */
static double sp_energy(Crystal_Struct *c, int i, int j, int k, double code) { double d, E0;
  if (code > -100.0) return code;
  d = c ? Crystal_dSpacing(c, i, j, k, NULL) : 0.0; if (!(d > 0.0)) return 8.0;
  E0 = KEV2ANGST / (2.0 * d);
  switch ((int)code) { case -101: return E0; case -102: return nextafter(E0, INFINITY); case -103: return nextafter(E0, 0.0);
    case -104: return (KEV2ANGST / d) / 2.0; case -105: return 0.5 * KEV2ANGST / d; case -107: return E0 * (1.0 - 1e-9); case -108: return E0 * (1.0 - 3e-7); case -109: return E0 * (1.0 - 1e-12); default: return E0 * (1.0 + 1e-12); } }
static const double sp_DB[] = { -1.0, 0.0, 0.5, 1.0 };
static const double sp_RL[] = { 0.0, 0.5, 1.0, 1.5, -1.0 };
static const int sp_FL[] = { -1, 0, 1, 2, 3 };

static void cb_dsp(const int *idx, void *u) { Crystal_Struct *c = sp_crs[idx[0]]; int i = sp_M[idx[1]], j = sp_M[idx[2]], k = sp_M[idx[3]]; xrl_error *e = NULL; double v, v2; (void)u;
  SP_LAST("Crystal_dSpacing(%s,%d,%d,%d)", c ? c->name : "NULL", i, j, k);
  v = Crystal_dSpacing(c, i, j, k, &e); v2 = Crystal_dSpacing(c, i, j, k, NULL);
  if (xv_bits(v) != xv_bits(v2)) sw_violation("Crystal_dSpacing", "slot-dependent-result", "", sp_w);
  sw_contract(F_dSp, e, v == 0.0, isfinite(v), v == 0.0, sp_w); }
static void cb_vol(const int *idx, void *u) { Crystal_Struct *c = sp_crs[idx[0]]; xrl_error *e = NULL; double v, v2; (void)u;
  SP_LAST("Crystal_UnitCellVolume(%s)", c ? c->name : "NULL");
  v = Crystal_UnitCellVolume(c, &e); v2 = Crystal_UnitCellVolume(c, NULL);
  if (xv_bits(v) != xv_bits(v2)) sw_violation("Crystal_UnitCellVolume", "slot-dependent-result", "", sp_w);
  sw_contract(F_Vol, e, v == 0.0, isfinite(v), v == 0.0, sp_w); }
static void cb_bragg(const int *idx, void *u) { Crystal_Struct *c = sp_crs[idx[0]]; int i = sp_M[idx[1]], j = sp_M[idx[2]], k = sp_M[idx[3]]; double E = sp_energy(c, i, j, k, sp_CE[idx[4]]); xrl_error *e = NULL; double v, v2; (void)u;
  SP_LAST("Bragg_angle(%s,%.17g,%d,%d,%d)", c ? c->name : "NULL", E, i, j, k);
  v = Bragg_angle(c, E, i, j, k, &e); v2 = Bragg_angle(c, E, i, j, k, NULL);
  if (xv_bits(v) != xv_bits(v2) && !(isnan(v) && isnan(v2))) sw_violation("Bragg_angle", "slot-dependent-result", "", sp_w);
  sw_contract(F_Bragg, e, v == 0.0, isfinite(v), v == 0.0, sp_w); }
static void cb_qs(const int *idx, void *u) { Crystal_Struct *c = sp_crs[idx[0]]; int i = sp_M[idx[1]], j = sp_M[idx[2]], k = sp_M[idx[3]]; double E = sp_energy(c, i, j, k, sp_CE[idx[4]]), rl = sp_RL[idx[5]]; xrl_error *e = NULL; double v, v2; (void)u;
  SP_LAST("Q_scattering_amplitude(%s,%.17g,%d,%d,%d,%g)", c ? c->name : "NULL", E, i, j, k, rl);
  v = Q_scattering_amplitude(c, E, i, j, k, rl, &e); v2 = Q_scattering_amplitude(c, E, i, j, k, rl, NULL);
  if (xv_bits(v) != xv_bits(v2) && !(isnan(v) && isnan(v2))) sw_violation("Q_scattering_amplitude", "slot-dependent-result", "", sp_w);
  sw_contract(F_Qs, e, v == 0.0, isfinite(v), 0, sp_w); }
typedef struct { Crystal_Struct *c; double E, db, rl; int i, j, k, f0, f1, f2; } fh_a;
static void redo_fh(void *u) { fh_a *a = (fh_a *)u; xrl_error *e = NULL; Crystal_F_H_StructureFactor_Partial(a->c, a->E, a->i, a->j, a->k, a->db, a->rl, a->f0, a->f1, a->f2, &e); if (e) xrl_error_free(e); }
static void cb_fhp(const int *idx, void *u) { fh_a a; xrl_error *e = NULL; xrlComplex z1, z2; size_t b0; (void)u;
  a.c = sp_crs[idx[0]]; a.i = sp_M[idx[1]]; a.j = sp_M[idx[2]]; a.k = sp_M[idx[3]]; a.E = sp_energy(a.c, a.i, a.j, a.k, sp_CE[idx[4]]); a.db = sp_DB[idx[5]]; a.rl = sp_RL[idx[6]]; a.f0 = sp_FL[idx[7]]; a.f1 = sp_FL[idx[8]]; a.f2 = sp_FL[idx[9]];
  SP_LAST("Crystal_F_H_StructureFactor_Partial(%s,%.17g,%d,%d,%d,%g,%g,%d,%d,%d)", a.c ? a.c->name : "NULL", a.E, a.i, a.j, a.k, a.db, a.rl, a.f0, a.f1, a.f2); b0 = sw_alloc();
  z1 = Crystal_F_H_StructureFactor_Partial(a.c, a.E, a.i, a.j, a.k, a.db, a.rl, a.f0, a.f1, a.f2, &e);
  z2 = Crystal_F_H_StructureFactor_Partial(a.c, a.E, a.i, a.j, a.k, a.db, a.rl, a.f0, a.f1, a.f2, NULL);
  if ((xv_bits(z1.re) != xv_bits(z2.re) && !(isnan(z1.re) && isnan(z2.re))) || (xv_bits(z1.im) != xv_bits(z2.im) && !(isnan(z1.im) && isnan(z2.im)))) sw_violation("Crystal_F_H_StructureFactor_Partial", "slot-dependent-result", "", sp_w);
  sw_contract(F_FHP, e, z1.re == 0.0 && z1.im == 0.0, isfinite(z1.re) && isfinite(z1.im), 0, sp_w);
  sp_leak("Crystal_F_H_StructureFactor_Partial", b0, redo_fh, &a); }
static void cb_fh(const int *idx, void *u) { fh_a a; xrl_error *e = NULL; xrlComplex z1, z2; (void)u;
  a.c = sp_crs[idx[0]]; a.i = sp_M[idx[1]]; a.j = sp_M[idx[2]]; a.k = sp_M[idx[3]]; a.E = sp_energy(a.c, a.i, a.j, a.k, sp_CE[idx[4]]); a.db = sp_DB[idx[5]]; a.rl = sp_RL[idx[6]];
  SP_LAST("Crystal_F_H_StructureFactor(%s,%.17g,%d,%d,%d,%g,%g)", a.c ? a.c->name : "NULL", a.E, a.i, a.j, a.k, a.db, a.rl);
  z1 = Crystal_F_H_StructureFactor(a.c, a.E, a.i, a.j, a.k, a.db, a.rl, &e); z2 = Crystal_F_H_StructureFactor(a.c, a.E, a.i, a.j, a.k, a.db, a.rl, NULL);
  if ((xv_bits(z1.re) != xv_bits(z2.re) && !(isnan(z1.re) && isnan(z2.re))) || (xv_bits(z1.im) != xv_bits(z2.im) && !(isnan(z1.im) && isnan(z2.im)))) sw_violation("Crystal_F_H_StructureFactor", "slot-dependent-result", "", sp_w);
  sw_contract(F_FH, e, z1.re == 0.0 && z1.im == 0.0, isfinite(z1.re) && isfinite(z1.im), 0, sp_w); }
static void cb_af(const int *idx, void *u) { int Z = sw_Zs[idx[0]], zi = (Z >= 1 && Z <= ZMAX) ? Z : 0; double E, q, db = sp_DB[idx[3]], f0 = 7, f1 = 7, f2 = 7, g0 = 7, g1 = 7, g2 = 7; xrl_error *e = NULL; int r, r2, mask = idx[4]; (void)u;
  if (idx[1] >= sw_nEZ[zi] || idx[2] >= sw_nQZ[zi]) return; E = sw_EZ[zi][idx[1]]; q = sw_QZ[zi][idx[2]];
  SP_LAST("Atomic_Factors(%d,%.17g,%.17g,%g,mask=%d)", Z, E, q, db, mask);
  r = Atomic_Factors(Z, E, q, db, (mask & 1) ? &f0 : NULL, (mask & 2) ? &f1 : NULL, (mask & 4) ? &f2 : NULL, &e);
  r2 = Atomic_Factors(Z, E, q, db, (mask & 1) ? &g0 : NULL, (mask & 2) ? &g1 : NULL, (mask & 4) ? &g2 : NULL, NULL);
  if (r != r2 || xv_bits(f0) != xv_bits(g0) || xv_bits(f1) != xv_bits(g1) || xv_bits(f2) != xv_bits(g2)) sw_violation("Atomic_Factors", "slot-dependent-result", "", sp_w);
  sw_contract(F_AF, e, r == 0, isfinite(f0) && isfinite(f1) && isfinite(f2), mask && r == 0, sp_w); }

static void do_misc(void) { xrl_error *e = NULL, *c, *d = NULL; xrlComplex a = {1.5, -2.0}, b = {0.25, 4.0}, m; struct compoundData *p, *q, *s;
  SP_LAST("xrl_error API"); CS_Total(-1, 1.0, &e);
  if (e) { c = xrl_error_copy(e); if (!c || c == e || c->code != e->code || strcmp(c->message, e->message) || c->message == e->message) sw_violation("xrl_error_copy", "copy-differs", "", sp_w);
    if (!xrl_error_matches(e, e->code) || xrl_error_matches(e, XRL_ERROR_IO) || xrl_error_matches(NULL, XRL_ERROR_IO)) sw_violation("xrl_error_matches", "wrong-answer", "", sp_w);
    xrl_propagate_error(&d, c); if (d != c) sw_violation("xrl_propagate_error", "not-moved", "", sp_w);
    xrl_propagate_error(NULL, e); e = NULL; xrl_clear_error(&d); if (d) sw_violation("xrl_clear_error", "not-cleared", "", sp_w); xrl_clear_error(&d); xrl_clear_error(NULL); }
  if (xrl_error_copy(NULL)) sw_violation("xrl_error_copy", "copy-of-null", "", sp_w);
  xrl_error_free(NULL);
  SP_LAST("c_abs/c_mul"); m = c_mul(a, b); if (m.re != 1.5 * 0.25 + 2.0 * 4.0 || m.im != 1.5 * 4.0 - 2.0 * 0.25 || c_abs(a) != 2.5) sw_violation("c_mul", "wrong-answer", "", sp_w);
  SP_LAST("add_compound_data"); p = CompoundParser("H2O", NULL); q = CompoundParser("SiO2", NULL);
  if (p && q) { s = add_compound_data(*p, 0.25, *q, 0.75); if (!s || s->nElements != 3 || !fin_cd(s)) sw_violation("add_compound_data", "wrong-answer", "", sp_w); if (s) FreeCompoundData(s); }
  if (p) FreeCompoundData(p); if (q) FreeCompoundData(q);
  { char *x = xrl_strdup("abc"), *y = xrl_strndup("abcdef", 2); void *z = xrl_malloc(10); if (!x || strcmp(x, "abc") || !y || strcmp(y, "ab") || !z) sw_violation("xrl_strdup", "wrong-answer", "", sp_w); xrlFree(x); xrlFree(y); xrlFree(z); }
  SP_LAST("exported helper entry points of the bindings");
  { xrlComplex z = {7, 7}, z2; Crystal_Struct *si = Crystal_GetCrystal("Si", NULL, NULL); xrl_error *e2 = NULL;
    Refractive_Index2("H2O", 8.0, 1.0, &z, &e2); z2 = Refractive_Index("H2O", 8.0, 1.0, NULL);
    if (e2 || xv_bits(z.re) != xv_bits(z2.re) || xv_bits(z.im) != xv_bits(z2.im)) sw_violation("Refractive_Index2", "wrong-answer", "", sp_w); if (e2) xrl_clear_error(&e2);
    Refractive_Index2("nope(", 8.0, 1.0, &z, &e2); if (!e2 || z.re != 0.0 || z.im != 0.0) sw_violation("Refractive_Index2", "error-with-value", "", sp_w); if (e2) xrl_clear_error(&e2);
    if (si) { Crystal_F_H_StructureFactor2(si, 8.0, 1, 1, 1, 1.0, 1.0, &z, &e2); z2 = Crystal_F_H_StructureFactor(si, 8.0, 1, 1, 1, 1.0, 1.0, NULL);
      if (e2 || xv_bits(z.re) != xv_bits(z2.re) || xv_bits(z.im) != xv_bits(z2.im)) sw_violation("Crystal_F_H_StructureFactor2", "wrong-answer", "", sp_w); if (e2) xrl_clear_error(&e2);
      Crystal_F_H_StructureFactor_Partial2(si, 8.0, 1, 1, 1, 1.0, 1.0, 2, 0, 2, &z, &e2); z2 = Crystal_F_H_StructureFactor_Partial(si, 8.0, 1, 1, 1, 1.0, 1.0, 2, 0, 2, NULL);
      if (e2 || xv_bits(z.re) != xv_bits(z2.re) || xv_bits(z.im) != xv_bits(z2.im)) sw_violation("Crystal_F_H_StructureFactor_Partial2", "wrong-answer", "", sp_w); if (e2) xrl_clear_error(&e2);
      Crystal_F_H_StructureFactor_Partial2(si, -1.0, 1, 1, 1, 1.0, 1.0, 2, 0, 2, &z, &e2); if (!e2 || z.re != 0.0 || z.im != 0.0) sw_violation("Crystal_F_H_StructureFactor_Partial2", "error-with-value", "", sp_w); if (e2) xrl_clear_error(&e2);
      Crystal_Free(si); } }
  SP_LAST("XRayInit"); XRayInit();
  sw_check_stderr("misc");
  /* deprecated stubs are allowed to print their deprecation message: swallow it */
#pragma GCC diagnostic push
#pragma GCC diagnostic ignored "-Wdeprecated-declarations"
  SetHardExit(1); SetExitStatus(1); GetExitStatus(); SetErrorMessages(1); GetErrorMessages();
#pragma GCC diagnostic pop
  { struct stat st; if (sw_errfd >= 0 && !fstat(sw_errfd, &st)) sw_errpos = st.st_size; }
  sw_fs[F_misc].calls += 20; sw_fs[F_misc].ok += 20; }

static void sw_do_specials(void) {
  sw_space sp; int nM = (int)(sizeof sp_M / sizeof sp_M[0]), nE = (int)(sizeof sp_CE / sizeof sp_CE[0]), maxE = 0, maxQ = 0, Z;
  for (Z = 0; Z <= ZMAX; Z++) { if (sw_nEZ[Z] > maxE) maxE = sw_nEZ[Z]; if (sw_nQZ[Z] > maxQ) maxQ = sw_nQZ[Z]; }
  F_CompoundParser = sp_reg("CompoundParser"); F_NISTByName = sp_reg("GetCompoundDataNISTByName"); F_NISTByIndex = sp_reg("GetCompoundDataNISTByIndex"); F_NISTList = sp_reg("GetCompoundDataNISTList");
  F_RNByName = sp_reg("GetRadioNuclideDataByName"); F_RNByIndex = sp_reg("GetRadioNuclideDataByIndex"); F_RNList = sp_reg("GetRadioNuclideDataList"); F_A2S = sp_reg("AtomicNumberToSymbol"); F_S2A = sp_reg("SymbolToAtomicNumber");
  F_Refr = sp_reg("Refractive_Index"); F_GetCrystal = sp_reg("Crystal_GetCrystal"); F_MakeCopy = sp_reg("Crystal_MakeCopy"); F_ArrayInit = sp_reg("Crystal_ArrayInit"); F_CrList = sp_reg("Crystal_GetCrystalsList");
  F_dSp = sp_reg("Crystal_dSpacing"); F_Vol = sp_reg("Crystal_UnitCellVolume"); F_Bragg = sp_reg("Bragg_angle"); F_Qs = sp_reg("Q_scattering_amplitude"); F_FH = sp_reg("Crystal_F_H_StructureFactor");
  F_FHP = sp_reg("Crystal_F_H_StructureFactor_Partial"); F_AF = sp_reg("Atomic_Factors"); F_AddCr = sp_reg("Crystal_AddCrystal"); F_ReadFile = sp_reg("Crystal_ReadFile"); F_misc = sp_reg("misc(error API, c_mul, add_compound_data, strdup, XRayInit, deprecated)");
  sw_last->id = -3; strcpy(sw_last->special, "special-pool-construction");
  sp_build();
#define RUN1(name, F, cb, n0) if (sw_wanted(name)) { sp.n = 1; sp.radix[0] = (n0); sw_run_space(&sp, (uint64_t)(F) * 7919, cb, NULL); sw_check_stderr(name); }
  RUN1("CompoundParser", F_CompoundParser, cb_parser, sp_npool)
  RUN1("GetCompoundDataNISTByName", F_NISTByName, cb_nistn, sp_npool)
  RUN1("GetCompoundDataNISTByIndex", F_NISTByIndex, cb_nisti, 206)
  RUN1("GetRadioNuclideDataByName", F_RNByName, cb_rnn, sp_npool)
  RUN1("GetRadioNuclideDataByIndex", F_RNByIndex, cb_rni, 36)
  RUN1("AtomicNumberToSymbol", F_A2S, cb_a2s, sw_nZ)
  RUN1("SymbolToAtomicNumber", F_S2A, cb_s2a, sp_npool)
  RUN1("Crystal_GetCrystal", F_GetCrystal, cb_getcr, sp_npool)
  RUN1("Crystal_UnitCellVolume", F_Vol, cb_vol, sp_ncrs)
  if (sw_wanted("lists") && sw_shard == 0) { do_lists(); sw_check_stderr("lists"); }
  if (sw_wanted("crystal-misc") && sw_shard == 0) { sp_leak_seq("crystal-misc", do_misc_crystal, "Crystal_ArrayInit/AddCrystal(NULL)/ReadFile(NULL)/GetCrystal sequence"); sw_check_stderr("crystal-misc"); }
  if (sw_wanted("Refractive_Index")) { sp.n = 3; sp.radix[0] = sp_npool; sp.radix[1] = maxE; sp.radix[2] = 4; sw_run_space(&sp, 991, cb_refr, NULL); sw_check_stderr("Refractive_Index"); }
  if (sw_wanted("Crystal_dSpacing")) { sp.n = 4; sp.radix[0] = sp_ncrs; sp.radix[1] = sp.radix[2] = sp.radix[3] = nM; sw_run_space(&sp, 992, cb_dsp, NULL); sw_check_stderr("Crystal_dSpacing"); }
  if (sw_wanted("Bragg_angle")) { sp.n = 5; sp.radix[0] = sp_ncrs; sp.radix[1] = sp.radix[2] = sp.radix[3] = nM; sp.radix[4] = nE; sw_run_space(&sp, 993, cb_bragg, NULL); sw_check_stderr("Bragg_angle"); }
  if (sw_wanted("Q_scattering_amplitude")) { sp.n = 6; sp.radix[0] = sp_ncrs; sp.radix[1] = sp.radix[2] = sp.radix[3] = nM; sp.radix[4] = nE; sp.radix[5] = 5; sw_run_space(&sp, 994, cb_qs, NULL); sw_check_stderr("Q_scattering_amplitude"); }
  if (sw_wanted("Crystal_F_H_StructureFactor")) { sp.n = 7; sp.radix[0] = sp_ncrs; sp.radix[1] = sp.radix[2] = sp.radix[3] = nM; sp.radix[4] = nE; sp.radix[5] = 4; sp.radix[6] = 5; sw_run_space(&sp, 995, cb_fh, NULL); sw_check_stderr("Crystal_F_H_StructureFactor"); }
  if (sw_wanted("Crystal_F_H_StructureFactor_Partial")) { sp.n = 10; sp.radix[0] = sp_ncrs; sp.radix[1] = sp.radix[2] = sp.radix[3] = nM; sp.radix[4] = nE; sp.radix[5] = 4; sp.radix[6] = 5; sp.radix[7] = sp.radix[8] = sp.radix[9] = 5; sw_run_space(&sp, 996, cb_fhp, NULL); sw_check_stderr("Crystal_F_H_StructureFactor_Partial"); }
  if (sw_wanted("Atomic_Factors")) { sp.n = 5; sp.radix[0] = sw_nZ; sp.radix[1] = maxE; sp.radix[2] = maxQ; sp.radix[3] = 4; sp.radix[4] = 8; sw_run_space(&sp, 997, cb_af, NULL); sw_check_stderr("Atomic_Factors"); }
  if (sw_wanted("misc") && sw_shard == 0) sp_leak_seq("misc", do_misc, "error API / add_compound_data / strdup / XRayInit sequence");
}
