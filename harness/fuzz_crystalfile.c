/* libFuzzer target: arbitrary bytes as a crystal file (C04/C14 thorough tier).
 * Contract: Crystal_ReadFile returns 1 xor stores an error; on failure the array is as it was; every crystal of an accepted
 * file is retrievable; everything is released (LSan). */
#include "mon_common.h"

int LLVMFuzzerTestOneInput(const uint8_t *data, size_t size) {
  static char path[64]; FILE *f; xrl_error *e = NULL; Crystal_Array *a; int rv, n0 = -1, n1 = -1, k; char **l; Crystal_Struct *seed_c;
  if (!path[0]) snprintf(path, sizeof path, "/tmp/xv-fuzz-%d.dat", (int)getpid());
  f = fopen(path, "wb"); if (!f) return 0; fwrite(data, 1, size, f); fclose(f);
  a = Crystal_ArrayInit(size % 3, NULL); if (!a) return 0;
  seed_c = Crystal_GetCrystal("Si", NULL, NULL); if (seed_c) { Crystal_AddCrystal(seed_c, a, NULL); Crystal_Free(seed_c); }
  l = Crystal_GetCrystalsList(a, &n0, NULL); if (l) { for (k = 0; l[k]; k++) xrlFree(l[k]); xrlFree(l); }
  rv = Crystal_ReadFile(path, a, &e);
  if ((rv != 0) == (e != NULL)) { fprintf(stderr, "CONTRACT: Crystal_ReadFile rv=%d error=%p\n", rv, (void *)e); abort(); }
  l = Crystal_GetCrystalsList(a, &n1, NULL);
  if (!rv && n1 != n0) { fprintf(stderr, "CONTRACT: rejected file changed the array (%d -> %d)\n", n0, n1); abort(); }
  for (k = 0; l && l[k]; k++) {
    Crystal_Struct *c = Crystal_GetCrystal(l[k], a, NULL);
    if (!c) { fprintf(stderr, "CONTRACT: listed crystal '%s' not retrievable\n", l[k]); abort(); }
    if (k && strcmp(l[k - 1], l[k]) >= 0) { fprintf(stderr, "CONTRACT: list not strictly sorted at '%s'\n", l[k]); abort(); }
    Crystal_Free(c);
  }
  for (k = 0; l && l[k]; k++) xrlFree(l[k]);
  if (l) xrlFree(l);
  if (e) xrl_clear_error(&e);
  Crystal_ArrayFree(a);
  unlink(path);
  return 0;
}
