/* sweep mode: enumerates the argument space of every exported function and applies the
 * inline error-contract monitor (C03) to every call; in the asan flavour the same sweep is
 * the sanitizer workload of C04 and every call is also checked for allocation conservation.
 *
 *   xrlmon sweep --shard k/n --budget N --out FILE --lastcall FILE [--skipfn NAME]... [--onlyfn NAME]...
 */
#include "mon_common.h"
#define POSITIVE_RC 2

/* ------------------------------------------------------------------ output tables */
typedef struct { char *fn; char *kind; char *msg; char *witness; long count; } sw_viol;
static sw_viol *sw_v; static int sw_nv, sw_av;
typedef struct { int fn; int code; char *msg; long count; } sw_path;
static sw_path *sw_p; static int sw_np, sw_ap;
static long sw_calls, sw_ok, sw_err, sw_leakchecks;
typedef struct { long calls, ok, err; } sw_fnstat;
static sw_fnstat sw_fs[XV_NFN + 64];
static const char *sw_special_names[64]; static int sw_nspecial;

static int sw_shard = 0, sw_nshards = 1; static long sw_budget = 300000; static uint64_t sw_seed;
static const char *sw_skip[64]; static int sw_nskip; static const char *sw_only[64]; static int sw_nonly;
static int sw_errfd = -1; static off_t sw_errpos; static char sw_errpath[512];
static FILE *sw_log;

/* last-call slot (mmap) */
typedef struct { int32_t id; int32_t I[6]; int32_t has_s; double D[12]; char s[128]; char special[64]; } sw_last_t;
static sw_last_t sw_last_local; static sw_last_t *sw_last = &sw_last_local;

static size_t sw_alloc(void) {
#if XV_ASAN
  return __sanitizer_get_current_allocated_bytes();
#else
  return 0;
#endif
}

static char *sw_normmsg(const char *m) {
  /* replace runs of digits by '#' so that messages with embedded numbers form one class */
  static char buf[256]; int j = 0; const char *p;
  if (!m) return strcpy(buf, "(null)");
  for (p = m; *p && j < 250; p++) {
    if (isdigit((unsigned char)*p)) { if (j == 0 || buf[j - 1] != '#') buf[j++] = '#'; }
    else buf[j++] = (*p == '\n' || *p == '"' || *p == '\\' || (unsigned char)*p < 32 || (unsigned char)*p > 126) ? ' ' : *p;
  }
  buf[j] = 0; return buf;
}

static void sw_violation(const char *fn, const char *kind, const char *msg, const char *witness) {
  int i; char *nm = sw_normmsg(msg);
  for (i = 0; i < sw_nv; i++) if (!strcmp(sw_v[i].fn, fn) && !strcmp(sw_v[i].kind, kind) && !strcmp(sw_v[i].msg, nm)) { sw_v[i].count++; return; }
  if (sw_nv == sw_av) { sw_av = sw_av ? 2 * sw_av : 64; sw_v = realloc(sw_v, sizeof(sw_viol) * sw_av); }
  sw_v[sw_nv].fn = strdup(fn); sw_v[sw_nv].kind = strdup(kind); sw_v[sw_nv].msg = strdup(nm);
  sw_v[sw_nv].witness = strdup(witness); sw_v[sw_nv].count = 1; sw_nv++;
}

static void sw_pathcount(int fn, int code, const char *msg) {
  int i; char *nm = sw_normmsg(msg);
  for (i = sw_np - 1; i >= 0; i--) if (sw_p[i].fn == fn && sw_p[i].code == code && !strcmp(sw_p[i].msg, nm)) { sw_p[i].count++; return; }
  if (sw_np == sw_ap) { sw_ap = sw_ap ? 2 * sw_ap : 256; sw_p = realloc(sw_p, sizeof(sw_path) * sw_ap); }
  sw_p[sw_np].fn = fn; sw_p[sw_np].code = code; sw_p[sw_np].msg = strdup(nm); sw_p[sw_np].count = 1; sw_np++;
}

static const char *sw_fnname(int fn) { return fn < XV_NFN ? XV_FN[fn].name : sw_special_names[fn - XV_NFN]; }

static int sw_wanted(const char *name) {
  int i;
  for (i = 0; i < sw_nskip; i++) if (!strcmp(sw_skip[i], name)) return 0;
  if (!sw_nonly) return 1;
  for (i = 0; i < sw_nonly; i++) if (!strcmp(sw_only[i], name)) return 1;
  return 0;
}

/* stderr capture: anything the library prints is a violation of the contract ("set over the top ...") */
static void sw_check_stderr(const char *fn) {
  struct stat st; char buf[200]; ssize_t n;
  if (sw_errfd < 0) return;
  if (fstat(sw_errfd, &st) || st.st_size <= sw_errpos) return;
  n = pread(sw_errfd, buf, sizeof buf - 1, sw_errpos); if (n < 0) n = 0; buf[n] = 0;
  sw_errpos = st.st_size;
  sw_violation(fn, strstr(buf, "over the top") ? "error-set-twice" : "stderr-output", buf, "(see message)");
}

/* ------------------------------------------------------------------ generic result contract */
/* e: error object after the call (freed here); sentinel: result equals the failure sentinel;
 * finite: all returned numbers finite; zero_positive: a strictly positive quantity came back as 0 */
static void sw_contract(int fn, xrl_error *e, int sentinel, int finite, int zero_positive, const char *witness) {
  const char *name = sw_fnname(fn);
  sw_calls++; sw_fs[fn].calls++;
  if (e) {
    sw_err++; sw_fs[fn].err++;
    sw_pathcount(fn, (int)e->code, e->message);
    if ((int)e->code < 0 || (int)e->code > (int)XRL_ERROR_RUNTIME) sw_violation(name, "bad-error-code", e->message, witness);
    if (!e->message || !e->message[0]) sw_violation(name, "empty-message", "", witness);   /* messages may echo the caller's string: no printability demand */
    if (!sentinel) sw_violation(name, "error-with-value", e->message, witness);
    xrl_error_free(e);
  } else {
    sw_ok++; sw_fs[fn].ok++;
    if (!finite) sw_violation(name, "nonfinite-without-error", "", witness);
    else if (zero_positive) sw_violation(name, "zero-without-error", "", witness);
  }
}

/* ------------------------------------------------------------------ argument domains */
#define NE_MAX 400
static double sw_EZ[ZMAX + 1][NE_MAX]; static int sw_nEZ[ZMAX + 1];
static double sw_QZ[ZMAX + 1][64]; static int sw_nQZ[ZMAX + 1];
static double sw_PZ[ZMAX + 1][32]; static int sw_nPZ[ZMAX + 1];
static const double sw_E0[] = { -1.0, 0.0, 1e-6, 1e-3, 0.1, 1.0, 8.047, 10.0, 59.54, 100.0, 1e3, 1e4, 1e4 * (1 + 1e-9), 1e6 };
static const double sw_Q0[] = { -1.0, 0.0, 1e-9, 1e-3, 0.5, 1.0, 10.0, 100.0, 1e4, 1e9, 1e10 };
static const double sw_P0[] = { -1.0, 0.0, 1e-3, 1.0, 10.0, 99.9, 100.0, 100.0001, 1e3 };
static const double sw_TH[] = { 0.0, 1.5707963267948966, -1.5707963267948966, 3.141592653589793, 6.583185307179586, -7.0, 1e6, 0.3, 1e-8 };
static const double sw_PH[] = { 0.0, 1.5707963267948966, 3.141592653589793, -1.0, 4.0, 1e6 };
static const double sw_DN[] = { -1.0, 0.0, 0.5, 2.7 };
static const double sw_PV[] = { 0.0, 1.5, 1234.5 };
static int sw_Zs[160], sw_nZ, sw_SH[64], sw_nSH, sw_LN[420], sw_nLN, sw_TR[32], sw_nTR, sw_AU[1024], sw_nAU;
static const char *sw_STR[400]; static int sw_nSTR;
static const int sw_XI[] = { INT_MIN, INT_MAX, -65536, 65536, -(1 << 20), (1 << 20) };

static void sw_addE(int Z, double e) { if (sw_nEZ[Z] < NE_MAX) sw_EZ[Z][sw_nEZ[Z]++] = e; }
static void sw_add3(int Z, double e) { if (e > 0 && isfinite(e)) { sw_addE(Z, e * (1 - 1e-9)); sw_addE(Z, e); sw_addE(Z, e * (1 + 1e-9)); } }

/* boundary of the success region of f(Z, x) between a failing and a succeeding abscissa (bisection) */
static double sw_bisect_id(double (*f)(int, double, xrl_error **), int Z, double bad, double good) {
  int k; xrl_error *e = NULL;
  f(Z, bad, &e); if (!e) return 0; xrl_error_free(e); e = NULL;
  f(Z, good, &e); if (e) { xrl_error_free(e); return 0; }
  for (k = 0; k < 200 && fabs(good - bad) > 1e-15 * fabs(good); k++) {
    double m = 0.5 * (good + bad); e = NULL; f(Z, m, &e);
    if (e) { xrl_error_free(e); bad = m; } else good = m;
  }
  return good;
}
static int sw_bis_shell;
static double sw_partial_wrap(int Z, double E, xrl_error **e) { return CS_Photo_Partial(Z, sw_bis_shell, E, e); }

static void sw_build_domains(void) {
  int Z, k, s;
  typedef double (*f_id)(int, double, xrl_error **);
  f_id ef[] = { CS_Photo, CS_Rayl, CS_Compt, CS_Energy, Fi, Fii, CS_Photo_Total };
  for (k = -3; k <= 125; k++) sw_Zs[sw_nZ++] = k;
  for (k = 0; k < 6; k++) sw_Zs[sw_nZ++] = sw_XI[k];
  for (k = -3; k <= 34; k++) sw_SH[sw_nSH++] = k;
  for (k = 0; k < 6; k++) sw_SH[sw_nSH++] = sw_XI[k];
  for (k = -390; k <= 6; k++) sw_LN[sw_nLN++] = k;
  for (k = 0; k < 6; k++) sw_LN[sw_nLN++] = sw_XI[k];
  for (k = -2; k <= 17; k++) sw_TR[sw_nTR++] = k;
  for (k = 0; k < 6; k++) sw_TR[sw_nTR++] = sw_XI[k];
  for (k = -3; k <= 1000; k++) sw_AU[sw_nAU++] = k;
  for (k = 0; k < 6; k++) sw_AU[sw_nAU++] = sw_XI[k];
  for (Z = 0; Z <= ZMAX; Z++) {
    for (k = 0; k < (int)(sizeof sw_E0 / sizeof sw_E0[0]); k++) sw_addE(Z, sw_E0[k]);
    for (k = 0; k < (int)(sizeof sw_Q0 / sizeof sw_Q0[0]); k++) sw_QZ[Z][sw_nQZ[Z]++] = sw_Q0[k];
    for (k = 0; k < (int)(sizeof sw_P0 / sizeof sw_P0[0]); k++) sw_PZ[Z][sw_nPZ[Z]++] = sw_P0[k];
    if (Z == 0) continue;
    for (s = 0; s <= 8; s++) { double ee = EdgeEnergy(Z, s, NULL); sw_add3(Z, ee); if (ee > 0) sw_addE(Z, ee * 1.01); }
    for (k = 0; k < (int)(sizeof ef / sizeof ef[0]); k++) {
      sw_add3(Z, sw_bisect_id(ef[k], Z, 1e-7, 50.0));
      sw_add3(Z, sw_bisect_id(ef[k], Z, 1e8, 50.0));
    }
    for (s = 0; s < 31; s++) { sw_bis_shell = s; sw_add3(Z, sw_bisect_id(sw_partial_wrap, Z, 1e-7, 900.0)); }
    { double q;
      q = sw_bisect_id(FF_Rayl, Z, 1e12, 1.0); if (q > 0) { sw_QZ[Z][sw_nQZ[Z]++] = q; sw_QZ[Z][sw_nQZ[Z]++] = q * (1 + 1e-9); sw_QZ[Z][sw_nQZ[Z]++] = q * (1 - 1e-9); }
      q = sw_bisect_id(SF_Compt, Z, 1e12, 1.0); if (q > 0) { sw_QZ[Z][sw_nQZ[Z]++] = q; sw_QZ[Z][sw_nQZ[Z]++] = q * (1 + 1e-9); sw_QZ[Z][sw_nQZ[Z]++] = q * (1 - 1e-9); }
      q = sw_bisect_id(ComptonProfile, Z, 1e6, 1.0); if (q > 0) { sw_PZ[Z][sw_nPZ[Z]++] = q; sw_PZ[Z][sw_nPZ[Z]++] = q * (1 + 1e-9); sw_PZ[Z][sw_nPZ[Z]++] = q * (1 - 1e-9); }
    }
  }
  { static const char *strs[] = { NULL, "", "H2O", "Ca5(PO4)3F", "SiO2", "C6H12O6", "Pb", "U", "Fm", "Uuo", "Rf", "Water, Liquid", "Air, Dry (near sea level)",
      "Lead Glass", "Gadolinium Oxysulfide", "Bone, Compact (ICRU)", "water", "H2o", "h2o", "0H", "(", ")", "H(", "(H2", "H2)", "()", "(())", "H 2", "H2O ", "H-2", "Xx", "A", "Fe0", "Fe0.0",
      "Fe1.2.3", "Fe..", ".", "Fe.", "C.5", "((Ca)2(OH)4)0.5Zr1.5", "\xc3\xa9", "H2O\n", "He1e3", "Mg(OH)2(", "CuSO4(H2O)5", "Og", "Cf", "Es2O3", "Uub", "LiF" };
    for (k = 0; k < (int)(sizeof strs / sizeof strs[0]); k++) sw_STR[sw_nSTR++] = strs[k]; }
  { /* zero / malformed multipliers after groups, and seeded generated formulas (valid and mutated into the rejection classes) */
    static const char *z[] = { "()()()()", "H()()()()()", "(()()()())2", "Ca(()()()()()O)2", "()()()()()()()()()()()()", "((()()()()))", "(H2O)0", "Fe(OH)0", "(SiO2)0.0", "((H)0)2", "(H2O)00", "Ca(OH)2.", "(CH3)3COH", "((CH3)2(CH2))0.5O", "K2(SO4)", "(Es2O3)2H", "GaAs", "PuO2" };
    xv_rng rg; char buf[256]; rg.s = sw_seed * 0x9E3779B97F4A7C15ULL + 4242;
    for (k = 0; k < (int)(sizeof z / sizeof z[0]); k++) sw_STR[sw_nSTR++] = z[k];
    { /* very long inputs: a valid formula of ~6000 characters, a 700-character name, bytes >= 0x80 */
      static char longf[6100], longn[720], hi[40]; int o = 0;
      while (o < 6000) o += sprintf(longf + o, "(H2O)%d", 1 + o % 7);
      memset(longn, 'A', 700); longn[0] = 'Q'; longn[700] = 0;
      for (k = 0; k < 30; k++) hi[k] = (char)(0x80 + 4 * k); hi[30] = 0;
      sw_STR[sw_nSTR++] = longf; sw_STR[sw_nSTR++] = longn; sw_STR[sw_nSTR++] = hi; }
    { /* deeply nested groups: 17, 33, 100 and 1000 bracket pairs around H2O (valid formulas; whatever bound an implementation may have, refusing
       * them is a failure that has to be reported), and one unbalanced deep one */
      static const int depth[] = { 17, 33, 100, 1000 }; int d_;
      for (d_ = 0; d_ < 4; d_++) { int n_ = depth[d_], j_; char *b_ = malloc(2 * n_ + 3 * n_ + 16), *q_ = b_;
        for (j_ = 0; j_ < n_; j_++) *q_++ = '('; q_ += sprintf(q_, "H2O"); for (j_ = 0; j_ < n_; j_++) { *q_++ = ')'; if (j_ % 5 == 4) *q_++ = '2'; } *q_ = 0; sw_STR[sw_nSTR++] = b_; }
      { char *b_ = malloc(80), *q_ = b_; int j_; for (j_ = 0; j_ < 20; j_++) *q_++ = '('; q_ += sprintf(q_, "SiO2"); for (j_ = 0; j_ < 19; j_++) *q_++ = ')'; *q_ = 0; sw_STR[sw_nSTR++] = b_; } }
    for (k = 0; k < 160 && sw_nSTR < 390; k++) { buf[0] = 0; if (k % 2) xv_gen_formula(&rg, buf, sizeof buf - 8, 0); else xv_hostile(&rg, buf, sizeof buf - 8); sw_STR[sw_nSTR++] = strdup(buf); } }
}

/* ------------------------------------------------------------------ sampled mixed-radix enumeration */
typedef struct { int n; int radix[20]; } sw_space;
typedef void (*sw_cb)(const int *idx, void *u);

static inline uint64_t sw_mix(uint64_t z) { z = (z ^ (z >> 30)) * 0xBF58476D1CE4E5B9ULL; z = (z ^ (z >> 27)) * 0x94D049BB133111EBULL; return z ^ (z >> 31); }

static void sw_run_space(const sw_space *sp, uint64_t salt, sw_cb cb, void *u) {
  double total = 1; uint64_t tot, t, stride; int k, idx[20];
  for (k = 0; k < sp->n; k++) total *= sp->radix[k];
  if (total > 4e12) total = 4e12; /* never reached */
  tot = (uint64_t)total;
  stride = (tot + sw_budget - 1) / sw_budget; if (stride < 1) stride = 1;
  if (stride == 1 || tot < 50000000ULL) {
    for (t = 0; t < tot; t++) {
      uint64_t h = sw_mix(t * 0x9E3779B97F4A7C15ULL + salt + sw_seed * 0x2545F4914F6CDD1DULL), r = t;
      if (h % stride) continue;
      if ((h / stride) % (uint64_t)sw_nshards != (uint64_t)sw_shard) continue;
      for (k = sp->n - 1; k >= 0; k--) { idx[k] = (int)(r % sp->radix[k]); r /= sp->radix[k]; }
      cb(idx, u);
    }
  } else {
    /* huge space: draw budget/nshards random tuples */
    xv_rng rg; long j, n = sw_budget / sw_nshards + 1;
    rg.s = salt ^ (sw_seed * 0x2545F4914F6CDD1DULL) ^ ((uint64_t)sw_shard << 40);
    for (j = 0; j < n; j++) { for (k = 0; k < sp->n; k++) idx[k] = (int)xv_below(&rg, sp->radix[k]); cb(idx, u); }
  }
}

/* ------------------------------------------------------------------ generated numeric functions */
enum { AK_Z, AK_SHELL, AK_LINE, AK_TRANS, AK_AUGER, AK_E, AK_THETA, AK_PHI, AK_Q, AK_PZ, AK_DENS, AK_P, AK_STR };
typedef struct { int id; int n; int kind[16]; int zpos; int strpos; } sw_numfn;

static int sw_kind_of(const char *nm, char sig) {
  if (sig == 's') return AK_STR;
  if (sig == 'i') {
    if (!strcmp(nm, "Z")) return AK_Z; if (!strcmp(nm, "shell")) return AK_SHELL; if (!strcmp(nm, "line")) return AK_LINE;
    if (!strcmp(nm, "trans")) return AK_TRANS; if (!strcmp(nm, "auger_trans")) return AK_AUGER; return -1;
  }
  if (!strcmp(nm, "E") || !strcmp(nm, "E0") || !strcmp(nm, "energy")) return AK_E;
  if (!strcmp(nm, "theta")) return AK_THETA; if (!strcmp(nm, "phi")) return AK_PHI; if (!strcmp(nm, "q")) return AK_Q;
  if (!strcmp(nm, "pz")) return AK_PZ; if (!strcmp(nm, "density")) return AK_DENS;
  if (nm[0] == 'P' && (nm[1] == 'K' || nm[1] == 'L' || nm[1] == 'M')) return AK_P;
  return -1;
}

static void sw_witness_num(char *buf, size_t n, int id, const int *I, const double *D, const char *S) {
  const xv_fn *f = &XV_FN[id]; int ii = 0, dd = 0; const char *p; size_t o = 0;
  o += snprintf(buf + o, n - o, "%s(", f->name);
  for (p = f->sig; *p && o < n - 40; p++) {
    if (*p == 'i') o += snprintf(buf + o, n - o, "%d,", I[ii++]);
    else if (*p == 'd') o += snprintf(buf + o, n - o, "%.17g,", D[dd++]);
    else if (S) { const char *q; buf[o++] = '\''; for (q = S; *q && o < n - 8; q++) buf[o++] = ((unsigned char)*q < 32 || (unsigned char)*q > 126 || *q == '"' || *q == '\\') ? '?' : *q; buf[o++] = '\''; buf[o++] = ','; }
    else o += snprintf(buf + o, n - o, "NULL,");
  }
  if (buf[o - 1] == ',') o--;
  snprintf(buf + o, n - o, ")");
}

static void sw_num_call(int id, const int *I, const double *D, const char *S) {
  xrl_error *e = NULL; double v, v2; size_t b0, b1; char w[400];
  sw_last->id = id; memcpy(sw_last->I, I, 3 * sizeof(int)); memcpy(sw_last->D, D, 12 * sizeof(double));
  sw_last->has_s = S ? 1 : 0; if (S) { strncpy(sw_last->s, S, sizeof sw_last->s - 1); sw_last->s[sizeof sw_last->s - 1] = 0; }
  b0 = sw_alloc();
  v = xv_call(id, I, D, S, &e);
  v2 = xv_call(id, I, D, S, NULL);
  if (xv_bits(v) != xv_bits(v2) && !(isnan(v) && isnan(v2))) { sw_witness_num(w, sizeof w, id, I, D, S); sw_violation(XV_FN[id].name, "slot-dependent-result", "", w); }
  if (e || !isfinite(v) || (XV_FN[id].rclass == POSITIVE_RC && v == 0.0)) sw_witness_num(w, sizeof w, id, I, D, S); else w[0] = 0;
  sw_contract(id, e, v == 0.0, isfinite(v), XV_FN[id].rclass == POSITIVE_RC && v == 0.0, w);
  b1 = sw_alloc();
  if (b1 > b0) {
    int rep, grew = 0; sw_leakchecks++;
    for (rep = 0; rep < 3; rep++) { size_t c0 = sw_alloc(), c1; e = NULL; xv_call(id, I, D, S, &e); if (e) xrl_error_free(e); xv_call(id, I, D, S, NULL); c1 = sw_alloc(); if (c1 > c0) grew++; }
    if (grew == 3) { sw_witness_num(w, sizeof w, id, I, D, S); sw_violation(XV_FN[id].name, "leak", "", w); }
  }
}

static void sw_num_cb(const int *idx, void *u) {
  const sw_numfn *nf = (const sw_numfn *)u; int I[6] = {0}; double D[12] = {0}; const char *S = NULL;
  int k, ii = 0, dd = 0, Z = 0, zi;
  if (nf->zpos >= 0) Z = sw_Zs[idx[nf->zpos]];
  zi = (Z >= 1 && Z <= ZMAX) ? Z : 0;
  for (k = 0; k < nf->n; k++) {
    int x = idx[k];
    switch (nf->kind[k]) {
    case AK_Z: I[ii++] = sw_Zs[x]; break;
    case AK_SHELL: I[ii++] = sw_SH[x]; break;
    case AK_LINE: I[ii++] = sw_LN[x]; break;
    case AK_TRANS: I[ii++] = sw_TR[x]; break;
    case AK_AUGER: I[ii++] = sw_AU[x]; break;
    case AK_E: if (nf->strpos >= 0) { int zz = 1 + (x * 7) % ZMAX; D[dd++] = sw_EZ[zz][x % sw_nEZ[zz]]; } else { if (x >= sw_nEZ[zi]) return; D[dd++] = sw_EZ[zi][x]; } break;
    case AK_THETA: D[dd++] = sw_TH[x]; break;
    case AK_PHI: D[dd++] = sw_PH[x]; break;
    case AK_Q: if (x >= sw_nQZ[zi]) return; D[dd++] = sw_QZ[zi][x]; break;
    case AK_PZ: if (x >= sw_nPZ[zi]) return; D[dd++] = sw_PZ[zi][x]; break;
    case AK_DENS: D[dd++] = sw_DN[x]; break;
    case AK_P: D[dd++] = sw_PV[x]; break;
    case AK_STR: S = sw_STR[x]; break;
    }
  }
  sw_num_call(nf->id, I, D, S);
}

static void sw_do_numeric(int id) {
  const xv_fn *f = &XV_FN[id]; sw_numfn nf; sw_space sp; char names[256]; char *tok, *save; int k = 0, Z, maxE = 0, maxQ = 0, maxP = 0;
  if (!sw_wanted(f->name)) return;
  for (Z = 0; Z <= ZMAX; Z++) { if (sw_nEZ[Z] > maxE) maxE = sw_nEZ[Z]; if (sw_nQZ[Z] > maxQ) maxQ = sw_nQZ[Z]; if (sw_nPZ[Z] > maxP) maxP = sw_nPZ[Z]; }
  nf.id = id; nf.n = (int)strlen(f->sig); nf.zpos = -1; nf.strpos = -1; sp.n = nf.n;
  strncpy(names, f->argnames, sizeof names - 1); names[sizeof names - 1] = 0;
  for (tok = strtok_r(names, ",", &save); tok && k < nf.n; tok = strtok_r(NULL, ",", &save), k++) {
    int kd = sw_kind_of(tok, f->sig[k]);
    if (kd < 0) { fprintf(sw_log, "HARNESS: no domain for argument %s of %s\n", tok, f->name); exit(2); }
    nf.kind[k] = kd;
    switch (kd) {
    case AK_Z: sp.radix[k] = sw_nZ; nf.zpos = k; break;
    case AK_SHELL: sp.radix[k] = sw_nSH; break;
    case AK_LINE: sp.radix[k] = sw_nLN; break;
    case AK_TRANS: sp.radix[k] = sw_nTR; break;
    case AK_AUGER: sp.radix[k] = sw_nAU; break;
    case AK_E: sp.radix[k] = maxE; break;
    case AK_THETA: sp.radix[k] = (int)(sizeof sw_TH / sizeof sw_TH[0]); break;
    case AK_PHI: sp.radix[k] = (int)(sizeof sw_PH / sizeof sw_PH[0]); break;
    case AK_Q: sp.radix[k] = maxQ; break;
    case AK_PZ: sp.radix[k] = maxP; break;
    case AK_DENS: sp.radix[k] = (int)(sizeof sw_DN / sizeof sw_DN[0]); break;
    case AK_P: sp.radix[k] = (int)(sizeof sw_PV / sizeof sw_PV[0]); break;
    case AK_STR: sp.radix[k] = sw_nSTR; nf.strpos = k; break;
    }
  }
  if (k != nf.n) { fprintf(sw_log, "HARNESS: argument name/signature mismatch for %s\n", f->name); exit(2); }
  sw_run_space(&sp, (uint64_t)id * 0x1000193ULL + 77, sw_num_cb, &nf);
  sw_check_stderr(f->name);
}

#include "mon_sweep_special.c"

/* ------------------------------------------------------------------ main */
static void sw_json_str(FILE *f, const char *s) {
  fputc('"', f);
  for (; s && *s; s++) { unsigned char c = (unsigned char)*s; if (c == '"' || c == '\\') { fputc('\\', f); fputc(c, f); } else if (c < 32 || c > 126) fputc('?', f); else fputc(c, f); }
  fputc('"', f);
}

static int sw_main(int argc, char **argv) {
  xv_fptrap_from_env();      /* XV_FPTRAP: the whole sweep runs in a host that traps FP exceptions */
  int a, k; const char *out = NULL, *lastp = NULL; FILE *fo;
  sw_seed = xv_seed_env();
  for (a = 2; a < argc; a++) {
    if (!strcmp(argv[a], "--shard") && a + 1 < argc) { sscanf(argv[++a], "%d/%d", &sw_shard, &sw_nshards); }
    else if (!strcmp(argv[a], "--budget") && a + 1 < argc) sw_budget = atol(argv[++a]);
    else if (!strcmp(argv[a], "--out") && a + 1 < argc) out = argv[++a];
    else if (!strcmp(argv[a], "--lastcall") && a + 1 < argc) lastp = argv[++a];
    else if (!strcmp(argv[a], "--skipfn") && a + 1 < argc) { if (sw_nskip < 64) sw_skip[sw_nskip++] = argv[++a]; }
    else if (!strcmp(argv[a], "--onlyfn") && a + 1 < argc) { if (sw_nonly < 64) sw_only[sw_nonly++] = argv[++a]; }
    else { fprintf(stderr, "sweep: bad argument %s\n", argv[a]); return 2; }
  }
  if (!out) { fprintf(stderr, "sweep: --out required\n"); return 2; }
  sw_log = fdopen(dup(2), "w");
  if (lastp) {
    int fd = open(lastp, O_RDWR | O_CREAT | O_TRUNC, 0644);
    if (fd >= 0 && ftruncate(fd, sizeof(sw_last_t)) == 0) { void *m = mmap(NULL, sizeof(sw_last_t), PROT_READ | PROT_WRITE, MAP_SHARED, fd, 0); if (m != MAP_FAILED) sw_last = (sw_last_t *)m; }
  }
  /* capture the library's stderr */
  snprintf(sw_errpath, sizeof sw_errpath, "%s.stderr", out);
  sw_errfd = open(sw_errpath, O_RDWR | O_CREAT | O_TRUNC, 0644);
  if (sw_errfd >= 0) { fflush(stderr); dup2(sw_errfd, 2); }
  sw_last->id = -1; strcpy(sw_last->special, "domain-construction");
  sw_build_domains();
  sw_last->special[0] = 0;
  for (k = 0; k < XV_NFN; k++) sw_do_numeric(k);
  sw_do_specials();
  sw_last->id = -2; strcpy(sw_last->special, "done");
  fo = fopen(out, "w"); if (!fo) return 2;
  for (k = 0; k < sw_nv; k++) {
    fprintf(fo, "{\"type\":\"viol\",\"fn\":"); sw_json_str(fo, sw_v[k].fn); fprintf(fo, ",\"kind\":"); sw_json_str(fo, sw_v[k].kind);
    fprintf(fo, ",\"msg\":"); sw_json_str(fo, sw_v[k].msg); fprintf(fo, ",\"witness\":"); sw_json_str(fo, sw_v[k].witness); fprintf(fo, ",\"count\":%ld}\n", sw_v[k].count);
  }
  for (k = 0; k < sw_np; k++) {
    fprintf(fo, "{\"type\":\"path\",\"fn\":"); sw_json_str(fo, sw_fnname(sw_p[k].fn)); fprintf(fo, ",\"code\":%d,\"msg\":", sw_p[k].code); sw_json_str(fo, sw_p[k].msg); fprintf(fo, ",\"count\":%ld}\n", sw_p[k].count);
  }
  for (k = 0; k < XV_NFN + sw_nspecial; k++) if (sw_fs[k].calls) {
    fprintf(fo, "{\"type\":\"fn\",\"fn\":"); sw_json_str(fo, sw_fnname(k)); fprintf(fo, ",\"calls\":%ld,\"ok\":%ld,\"err\":%ld}\n", sw_fs[k].calls, sw_fs[k].ok, sw_fs[k].err);
  }
  fprintf(fo, "{\"type\":\"summary\",\"calls\":%ld,\"ok\":%ld,\"err\":%ld,\"leakchecks\":%ld,\"asan\":%d,\"shard\":%d,\"nshards\":%d,\"seed\":%llu}\n",
          sw_calls, sw_ok, sw_err, sw_leakchecks, XV_ASAN, sw_shard, sw_nshards, (unsigned long long)sw_seed);
  fclose(fo);
  return 0;
}
