/* common definitions of the xraylib runtime monitors */
#ifndef XV_MON_COMMON_H
#define XV_MON_COMMON_H
#ifndef _GNU_SOURCE
#define _GNU_SOURCE
#endif
#include <stdio.h>
#include <stdlib.h>
#include <string.h>
#include <stdint.h>
#include <math.h>
#include <limits.h>
#include <unistd.h>
#include <fcntl.h>
#include <errno.h>
#include <ctype.h>
#include <locale.h>
#include <sys/mman.h>
#include <sys/stat.h>
#include "sigtab.h"
#include "xraylib-verif.h"

#if defined(__SANITIZE_ADDRESS__)
#define XV_ASAN 1
#elif defined(__has_feature)
#if __has_feature(address_sanitizer)
#define XV_ASAN 1
#endif
#endif
#ifndef XV_ASAN
#define XV_ASAN 0
#else
/* gcc ships the runtime but not <sanitizer/allocator_interface.h> */
size_t __sanitizer_get_current_allocated_bytes(void);
void __lsan_do_leak_check(void);
int __lsan_do_recoverable_leak_check(void);
#endif

/* ---------------------------------------------------------------- PRNG */
typedef struct { uint64_t s; } xv_rng;
static inline uint64_t xv_next(xv_rng *r) {
  uint64_t z = (r->s += 0x9E3779B97F4A7C15ULL);
  z = (z ^ (z >> 30)) * 0xBF58476D1CE4E5B9ULL;
  z = (z ^ (z >> 27)) * 0x94D049BB133111EBULL;
  return z ^ (z >> 31);
}
static inline uint32_t xv_below(xv_rng *r, uint32_t n) { return n ? (uint32_t)(xv_next(r) % n) : 0; }
static inline double xv_unit(xv_rng *r) { return (xv_next(r) >> 11) * (1.0 / 9007199254740992.0); }
static inline uint64_t xv_seed_env(void) {
  const char *s = getenv("VERIF_SEED");
  return s && *s ? strtoull(s, NULL, 10) : 1ULL;
}

/* ---------------------------------------------------------------- exec protocol */
typedef struct { int32_t fn; int32_t i[6]; int32_t s; double d[10]; } xv_req;    /* 112 bytes */
typedef struct { int32_t status; int32_t code; double v[3]; int32_t msg; int32_t aux; } xv_resp; /* 40 bytes */

/* special (non generated) function ids of the exec protocol */
enum {
  XS_Refractive_Index = 1000, XS_Crystal_dSpacing, XS_Bragg_angle, XS_Q_scattering_amplitude,
  XS_Crystal_F_H_StructureFactor, XS_Crystal_F_H_StructureFactor_Partial, XS_Crystal_UnitCellVolume,
  XS_Atomic_Factors, XS_SymbolToAtomicNumber, XS_CompoundParser_summary, XS_NISTByName_summary,
  XS_NISTByIndex_summary, XS_RadioByIndex_summary, XS_RadioByName_summary, XS_AtomicNumberToSymbol,
  XS_END
};

static inline int xv_is_sentinel(double v) { return v == 0.0 && !signbit(v) ? 1 : (v == 0.0); }

static inline uint64_t xv_fnv(const void *p, size_t n, uint64_t h) {
  const unsigned char *b = (const unsigned char *)p;
  for (size_t i = 0; i < n; i++) { h ^= b[i]; h *= 1099511628211ULL; }
  return h;
}
#define XV_FNV0 1469598103934665603ULL

static inline uint64_t xv_bits(double v) { uint64_t b; memcpy(&b, &v, 8); return b; }

/* ---------------------------------------------------------------- seeded formula generators (valid and hostile) */
static const char *xv_syms[] = { "H", "He", "Li", "C", "N", "O", "F", "Na", "Mg", "Al", "Si", "P", "S", "Cl", "K", "Ca", "Ti", "Fe", "Cu", "Zn", "Ge", "As", "Br", "Sr", "Zr", "Ag", "Sn", "I", "Ba", "Gd", "W", "Au", "Pb", "U", "Pu", "Fm", "Rf", "Uuo", "Xx", "h", "Hh" };
#define XV_NSYM ((int)(sizeof xv_syms / sizeof xv_syms[0]))
static inline void xv_gen_formula(xv_rng *r, char *buf, size_t n, int depth) {
  size_t o = strlen(buf); int terms = 1 + xv_below(r, 4), t;
  for (t = 0; t < terms && o < n - 40; t++) {
    int k = xv_below(r, 100);
    if (k < 18 && depth < 4) { buf[o++] = '('; buf[o] = 0; xv_gen_formula(r, buf, n, depth + 1); o = strlen(buf); buf[o++] = ')'; buf[o] = 0; }
    else { int s = xv_below(r, k < 92 ? 34 : XV_NSYM); o += snprintf(buf + o, n - o, "%s", xv_syms[s]); }
    k = xv_below(r, 100);
    if (k < 40) o += snprintf(buf + o, n - o, "%d", 1 + xv_below(r, 12));
    else if (k < 55) o += snprintf(buf + o, n - o, "%d.%d", xv_below(r, 4), 1 + xv_below(r, 99));
    else if (k < 58) o += snprintf(buf + o, n - o, "0");
    else if (k < 60) o += snprintf(buf + o, n - o, "1.2.3");
    buf[o] = 0;
  }
}
static inline void xv_hostile(xv_rng *r, char *buf, size_t n) {
  /* mutate a generated formula into one of the rejection classes */
  size_t l; int k;
  buf[0] = 0; xv_gen_formula(r, buf, n - 4, 0); l = strlen(buf);
  switch (xv_below(r, 8)) {
  case 0: buf[l++] = '('; break;
  case 1: buf[l++] = ')'; break;
  case 2: if (l) buf[xv_below(r, (uint32_t)l)] = ' '; break;
  case 3: if (l) buf[xv_below(r, (uint32_t)l)] = (char)(1 + xv_below(r, 254)); break;
  case 4: memmove(buf + 1, buf, l + 1); buf[0] = '7'; l++; break;
  case 5: k = l ? xv_below(r, (uint32_t)l) : 0; memmove(buf + k + 2, buf + k, l - k + 1); buf[k] = 'X'; buf[k + 1] = 'x'; l += 2; break;
  case 6: buf[0] = 0; l = 0; break;
  default: buf[l++] = '.'; buf[l++] = '.'; break;
  }
  buf[l] = 0;
}




/* Hostile process environment for the calls under observation (each is legal for a host program and must not change any result):
 * - the stack below the caller is filled with 0xFF bytes, so that a read of a never-written local shows up as NaN / -1 instead of a
 *   leftover that happens to be harmless;
 * - XV_FPTRAP: floating-point exceptions for invalid operation, division by zero and overflow trap (as under gfortran -ffpe-trap or
 *   feenableexcept in the host): a query that computes 0/0 or log(-1) before rejecting its arguments dies instead of answering. */
#include <fenv.h>
static void __attribute__((noinline)) xv_poison_stack(void) { volatile unsigned char b[24576]; size_t i; for (i = 0; i < sizeof b; i += 8) *(volatile uint64_t *)(b + i) = 0xFFFFFFFFFFFFFFFFULL; }
/* host floating-point set-ups a program may legitimately have when it calls the library:
 *   XV_FPTRAP     invalid / divide-by-zero / overflow exceptions trap (feenableexcept, gfortran -ffpe-trap)
 *   XV_X87PC=24|53  the x87 precision-control field set to single / double (Direct3D 9, some audio and JIT engines, old BSD defaults): SSE
 *                 arithmetic - all a double computation on x86-64 uses - is not affected, x87 long double arithmetic is
 *   XV_ROUND=up|down|zero   the rounding mode of the calling thread (fesetround): results may then differ in the last bits, not more */
static void xv_fptrap_from_env(void) {
  const char *pc = getenv("XV_X87PC"), *rm = getenv("XV_ROUND");
  if (rm) fesetround(rm[0] == 'u' ? FE_UPWARD : rm[0] == 'd' ? FE_DOWNWARD : rm[0] == 'z' ? FE_TOWARDZERO : FE_TONEAREST);   /* XV_ROUND=up|down|zero: a host doing interval arithmetic / directed rounding */
  if (getenv("XV_FPTRAP")) feenableexcept(FE_INVALID | FE_DIVBYZERO | FE_OVERFLOW);
#if defined(__x86_64__) || defined(__i386__)
  if (pc) { unsigned short cw = 0; __asm__ volatile("fnstcw %0" : "=m"(cw)); cw &= (unsigned short)~0x0300; if (atoi(pc) == 53) cw |= 0x0200; __asm__ volatile("fldcw %0" : : "m"(cw)); }
#else
  (void)pc;
#endif
}

#endif
