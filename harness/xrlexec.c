/* xrlexec: the executor alone (xrlmon exec), for a host that links the library STATICALLY and references nothing but the functions it calls:
 * in particular it never mentions XRayInit, so whatever lives only in the archive member of an unreferenced function is not linked in
 * (a constructor there never runs).   xrlexec exec req str resp msg */
#define XV_NO_XRAYINIT 1
#include "mon_common.h"
#include "mon_exec.c"

int main(int argc, char **argv) {
  if (argc < 2 || strcmp(argv[1], "exec")) { fprintf(stderr, "usage: xrlexec exec req str resp msg\n"); return 2; }
  return xe_main(argc, argv);
}
