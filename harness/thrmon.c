/* thrmon: concurrency monitor (C17).  Built twice: -fsanitize=thread (race detector) and plain (real parallelism).
 *
 *   thrmon run <requests> <strings> <report> --threads N --calls M --yield PERMILLE
 *
 * 1. serial reference: every request executed once (twice, to make sure the reference itself is deterministic)
 * 2. N threads execute seeded random mixes of the same requests, each with its own error slot, each result compared
 *    bit for bit (status, code, message hash, values) with the serial reference; thread-private error objects are
 *    copied / propagated / cleared on the way
 * 3. the library's hook points (XRL_VERIF_POINT) feed an overlap monitor: how often a thread entered the parser window,
 *    the compound-resolution window, a crystal copy or an error store while other threads were inside one of them,
 *    and which distinct overlap signatures were seen; seeded yields/sleeps at the hook points widen the windows.
 */
#include "mon_common.h"
#include <pthread.h>
#include <sched.h>
#include <stdatomic.h>
#include <time.h>
#include "mon_exec.c"
#ifndef TSCHOONJ_XRAYLIB_VERIF
/* a library built WITHOUT the hook points (the project's own build): the overlap monitor then sees no events; results, locale and
 * race reports are judged as usual */
static void (*xrl_verif_hook)(int);
enum { XRL_VERIF_PARSER_ENTER = 1, XRL_VERIF_PARSER_LOCALE_SET, XRL_VERIF_PARSER_LOCALE_RESET, XRL_VERIF_PARSER_EXIT, XRL_VERIF_ERROR_STORE,
       XRL_VERIF_CP_RESOLVED, XRL_VERIF_CRYSTAL_LOOKUP, XRL_VERIF_CRYSTAL_ADD, XRL_VERIF_CP_DONE, XRL_VERIF_CRYSTAL_COPIED };
#endif

typedef struct { int32_t status, code, aux; uint64_t mh; double v[3]; } tm_res;
static xv_req *tm_rq; static long tm_n; static tm_res *tm_ref;
static int tm_threads = 8; static long tm_calls = 20000; static int tm_yield = 20; static long tm_first = -1; static pthread_barrier_t tm_bar;

/* ---------------------------------------------------------------- overlap monitor (hook callback) */
#define NREG 4   /* 0 parser, 1 locale window, 2 compound body, 3 crystal copy */
static atomic_int tm_inside[NREG];
static atomic_long tm_enter[NREG + 1], tm_overlap[NREG + 1], tm_sig[(NREG + 1) * 64];
static atomic_long tm_events, tm_yields;
#define RING 4096
static atomic_int tm_ring_tid[RING], tm_ring_pt[RING];
static __thread int tm_tid = -1; static __thread xv_rng tm_rng; static __thread int tm_depth[NREG];

static int tm_mask(void) { int m = 0, r; for (r = 0; r < NREG; r++) if (atomic_load_explicit(&tm_inside[r], memory_order_relaxed) > 0) m |= 1 << r; return m; }
static void tm_hook(int point) {
  int r = -1, enter = 0; long ev;
  if (tm_tid < 0) return;                       /* serial phase */
  ev = atomic_fetch_add(&tm_events, 1);
  atomic_store_explicit(&tm_ring_tid[ev % RING], tm_tid, memory_order_relaxed); atomic_store_explicit(&tm_ring_pt[ev % RING], point, memory_order_relaxed);
  switch (point) {
  case XRL_VERIF_PARSER_ENTER: r = 0; enter = 1; break;
  case XRL_VERIF_PARSER_EXIT: r = 0; break;
  case XRL_VERIF_PARSER_LOCALE_SET: r = 1; enter = 1; break;
  case XRL_VERIF_PARSER_LOCALE_RESET: r = 1; break;
  case XRL_VERIF_CP_RESOLVED: r = 2; enter = 1; break;
  case XRL_VERIF_CP_DONE: r = 2; break;
  case XRL_VERIF_CRYSTAL_LOOKUP: r = 3; enter = 1; break;
  case XRL_VERIF_CRYSTAL_COPIED: r = 3; break;
  default: break;
  }
  if (point == XRL_VERIF_ERROR_STORE) {
    int m = tm_mask(); atomic_fetch_add(&tm_enter[NREG], 1); if (m) atomic_fetch_add(&tm_overlap[NREG], 1); atomic_fetch_add(&tm_sig[NREG * 64 + m * 2], 1);
  } else if (r >= 0 && enter) {
    int others_before = tm_mask(); int prev = atomic_fetch_add(&tm_inside[r], 1); tm_depth[r]++;
    atomic_fetch_add(&tm_enter[r], 1);
    if (others_before) atomic_fetch_add(&tm_overlap[r], 1);
    atomic_fetch_add(&tm_sig[r * 64 + others_before * 2 + (prev > 0)], 1);
  } else if (r >= 0) {
    if (tm_depth[r] > 0) { tm_depth[r]--; atomic_fetch_sub(&tm_inside[r], 1); }
  }
  if (tm_yield && (int)xv_below(&tm_rng, 1000) < tm_yield) {
    atomic_fetch_add(&tm_yields, 1);
    if (xv_below(&tm_rng, 4)) sched_yield(); else { struct timespec ts = { 0, 1000 + (long)xv_below(&tm_rng, 40000) }; nanosleep(&ts, NULL); }
  }
}

/* ---------------------------------------------------------------- thread-safe execution of one request */
static void tm_exec_ns(const xv_req *r, tm_res *o, xrl_error **keep, int noslot) {
  xrl_error *e = NULL; xv_resp rs; memset(&rs, 0, sizeof rs);
  if (r->fn >= 0 && r->fn < XV_NFN) rs.v[0] = xv_call(r->fn, r->i, r->d, xe_s(r->s), noslot ? NULL : &e);
  else if (r->fn >= 2010 && r->fn <= 2015) {
    /* entry points a legacy host calls from every worker: XRayInit (documented as a no-op kept for compatibility) and the deprecated
     * error-handling switches; nothing to compare, they just have to be harmless next to everything else */
#pragma GCC diagnostic push
#pragma GCC diagnostic ignored "-Wdeprecated-declarations"
    switch (r->fn) { case 2010: XRayInit(); break; case 2011: SetHardExit(0); break; case 2012: SetExitStatus(0); break; case 2013: rs.aux = 0 * GetExitStatus(); break;
      case 2014: SetErrorMessages(0); break; default: rs.aux = 0 * GetErrorMessages(); break; }
#pragma GCC diagnostic pop
  }
  else xe_special(r, &rs, noslot ? NULL : &e);
  o->status = rs.status | (e ? 1 : 0); o->aux = rs.aux; o->v[0] = rs.v[0]; o->v[1] = rs.v[1]; o->v[2] = rs.v[2]; o->code = 0; o->mh = 0;
  if (e) { o->code = (int)e->code; o->mh = xv_fnv(e->message, strlen(e->message), XV_FNV0);
    if (keep) *keep = e; else xrl_error_free(e); }
}
static void tm_exec(const xv_req *r, tm_res *o, xrl_error **keep) { tm_exec_ns(r, o, keep, 0); }
/* a call made WITHOUT an error slot returns the same values (the failure sentinel where the reference holds an error) */
static int tm_same_values(const tm_res *a, const tm_res *b) { return a->aux == b->aux && !memcmp(a->v, b->v, sizeof a->v); }
static int tm_same(const tm_res *a, const tm_res *b) {
  return a->status == b->status && a->code == b->code && a->aux == b->aux && a->mh == b->mh && !memcmp(a->v, b->v, sizeof a->v);
}

typedef struct { int tid; long calls, mismatches, errors, errapi, noslot; long first_bad_req; tm_res bad; } tm_targ;
static uint64_t tm_seed; static char tm_loc0[512];

static int tm_perthread = 0; static atomic_int tm_perthread_on;
static void *tm_worker(void *p) {
  tm_targ *a = (tm_targ *)p; long k; xrl_error *slot = NULL;
  tm_tid = a->tid; tm_rng.s = tm_seed * 0x9E3779B97F4A7C15ULL + (uint64_t)(a->tid + 1) * 0xD1B54A32D192ED03ULL;
  a->first_bad_req = -1;
  /* every second thread runs under its OWN numeric locale (uselocale): the other decimal separator than the process-wide one.  Nothing in the
   * thread-safe API reads LC_NUMERIC, so the results are still the serial ones; whatever goes through a process-wide libc buffer (localeconv,
   * strtod with a patched separator) now sees two locales at once */
  locale_t mine = (locale_t)0;
  if (tm_perthread && a->tid % 2) { const char *cur = localeconv()->decimal_point; mine = newlocale(LC_NUMERIC_MASK, (cur && cur[0] == ',') ? "C" : "xx_VERIF", (locale_t)0);
    if (mine) { uselocale(mine); atomic_fetch_add(&tm_perthread_on, 1); } }
  pthread_barrier_wait(&tm_bar);        /* all threads enter the library at the same moment */
  for (k = 0; k < tm_calls; k++) {
    long q = (k == 0 && tm_first >= 0 && tm_first < tm_n) ? tm_first : (long)(xv_next(&tm_rng) % (uint64_t)tm_n); tm_res o; xrl_error *e = NULL;
    int noslot = xv_below(&tm_rng, 4) == 0;           /* one call in four passes no error slot at all */
    tm_exec_ns(&tm_rq[q], &o, &e, noslot); a->calls++; a->noslot += noslot;
    if (noslot ? !tm_same_values(&o, &tm_ref[q]) : !tm_same(&o, &tm_ref[q])) { a->mismatches++; if (a->first_bad_req < 0) { a->first_bad_req = q; a->bad = o; if (noslot) { a->bad.status = tm_ref[q].status; a->bad.code = -7; } } }
    if (e) {
      a->errors++;
      if (xv_below(&tm_rng, 4) == 0) {       /* error API on thread-private objects */
        xrl_error *c = xrl_error_copy(e); a->errapi++;
        if (!c || c->code != e->code || strcmp(c->message, e->message)) a->mismatches++;
        if (slot) xrl_clear_error(&slot);
        xrl_propagate_error(&slot, c);
        if (slot != c) a->mismatches++;
        if (!xrl_error_matches(slot, e->code)) a->mismatches++;
      }
      xrl_error_free(e);
    }
  }
  if (slot) xrl_clear_error(&slot);
  if (mine) { uselocale(LC_GLOBAL_LOCALE); freelocale(mine); }
  tm_tid = -1;
  return NULL;
}

/* ---------------------------------------------------------------- thread-private crystal arrays fed from files
 * Documented as needing no lock: every thread owns its array.  An episode = ArrayInit, Crystal_ReadFile of one of a few small
 * files written before the threads start (well-formed with 1 / 3 / 6 definitions, long names, one corrupt, one duplicate-defining),
 * listing, look-ups, ArrayFree; its digest is compared with the digest of the same episode executed serially. */
#define NFILES 6
static char tm_fpath[NFILES][700]; static uint64_t tm_fref[NFILES]; static long tm_fileeps = 0; static atomic_long tm_fmis, tm_fdone; static atomic_int tm_fbad = -1;
static void tm_write_files(const char *base) {
  static const char *body[NFILES] = {
    "#F xv\n#S 14 XvOne\n#UCELL 5.5 6.25 7.125 80.5 95.25 101.75\n#N 5\n#L Z F X Y Z\n14 1.0 0 0 0\n8 0.5 0.25 0.5 0.75\n#EOF\n",
    "#F xv\n#S 1 XvC\n#UCELL 3.5 3.5 3.5 90 90 90\n#L x\n6 1 0 0 0\n#S 2 XvA\n#UCELL 4.25 4.5 4.75 90 100 90\n#L x\n29 1 0 0 0\n29 1 0.5 0.5 0\n#S 3 XvB\n#UCELL 6 6 9 90 90 120\n#L x\n13 0.75 0.125 0.25 0.375\n#EOF\n",
    "#F xv\n#S 9 Quartz_like\n#UCELL 4.9 4.9 5.4 90 90 120\n#L x\n14 1 0.47 0 0.667\n8 1 0.41 0.27 0.78\n#S 8 Rutile_like\n#UCELL 4.59 4.59 2.96 90 90 90\n#L x\n22 1 0 0 0\n8 1 0.3 0.3 0\n"
      "#S 7 Mmm\n#UCELL 3 4 5 90 90 90\n#L x\n26 1 0 0 0\n#S 6 Zz9\n#UCELL 7 7 7 60 60 60\n#L x\n3 1 0 0 0\n#S 5 Aa0\n#UCELL 2.5 2.5 2.5 90 90 90\n#L x\n4 1 0 0 0\n#S 4 K2\n#UCELL 8 9 10 91 92 93\n#L x\n19 0.5 0.1 0.2 0.3\n#EOF\n",
    "#F xv\n#S 11 ABCDEFGHIJKLMNOPQRSTUVWXYZ\n#UCELL 5 5 5 90 90 90\n#L x\n14 1 0 0 0\n#S 12 ABCDEFGHIJKLMNOPQRS\n#UCELL 5 5 6 90 90 90\n#L x\n32 1 0 0 0\n#EOF\n",
    "#F xv\n#S 14 XvGood\n#UCELL 5.5 6.25 7.125 80.5 95.25 101.75\n#L x\n14 1.0 0 0 0\n#S 6 XvBad\n#USYSTEM no cell line\n#L x\n6 1 0 0 0\n#EOF\n",
    "#F xv\n#S 14 Twice\n#UCELL 5 5 5 90 90 90\n#L x\n14 1 0 0 0\n#S 15 Twice\n#UCELL 4 4 4 90 90 90\n#L x\n14 1 0 0 0\n#EOF\n" };
  int j; for (j = 0; j < NFILES; j++) { FILE *f; snprintf(tm_fpath[j], sizeof tm_fpath[j], "%s.cr%d.dat", base, j); f = fopen(tm_fpath[j], "w"); if (f) { fputs(body[j], f); fclose(f); } }
}
static uint64_t tm_file_episode(int j, int cap) {
  uint64_t h = XV_FNV0; xrl_error *e = NULL; int rv, n = -1, k; char **l; Crystal_Array *a = Crystal_ArrayInit(cap, NULL);
  if (!a) return 1;
  rv = Crystal_ReadFile(tm_fpath[j], a, &e);
  h = xv_fnv(&rv, sizeof rv, h);
  if (e) { int c = (int)e->code; h = xv_fnv(&c, sizeof c, h); h = xv_fnv(e->message, strlen(e->message), h); xrl_error_free(e); }
  l = Crystal_GetCrystalsList(a, &n, NULL); h = xv_fnv(&n, sizeof n, h);
  for (k = 0; l && l[k]; k++) { Crystal_Struct *g = Crystal_GetCrystal(l[k], a, NULL); h = xv_fnv(l[k], strlen(l[k]) + 1, h);
    if (g) { double d = Crystal_dSpacing(g, 1, 1, 1, NULL); h = xv_fnv(&g->volume, sizeof(double), h); h = xv_fnv(&d, sizeof d, h); h = xv_fnv(&g->n_atom, sizeof(int), h); Crystal_Free(g); } else h ^= 0x5555;
    xrlFree(l[k]); }
  if (l) xrlFree(l);
  Crystal_ArrayFree(a);
  return h;
}
static void *tm_file_worker(void *p) {
  tm_targ *a = (tm_targ *)p; long k; xv_rng r; r.s = tm_seed * 0x2545F4914F6CDD1DULL + (uint64_t)(a->tid + 7) * 0x9E3779B97F4A7C15ULL;
  tm_tid = a->tid;
  pthread_barrier_wait(&tm_bar);
  for (k = 0; k < tm_fileeps; k++) { int j = (int)xv_below(&r, NFILES); uint64_t h = tm_file_episode(j, (int)xv_below(&r, 4));
    atomic_fetch_add(&tm_fdone, 1);
    if (h != tm_fref[j]) { atomic_fetch_add(&tm_fmis, 1); atomic_store(&tm_fbad, j); } }
  tm_tid = -1;
  return NULL;
}

int main(int argc, char **argv) {
  FILE *f; long k, slen, nondet = 0, total = 0, mism = 0, errs = 0, errapi = 0; char *sbuf; int a, t, cold = 0; pthread_t *th; tm_targ *ta; int nsig = 0; const char *refresp = NULL, *refmsg = NULL;
  if (argc < 5 || strcmp(argv[1], "run")) { fprintf(stderr, "usage: thrmon run req str report [--threads N --calls M --yield P]\n"); return 2; }
  for (a = 5; a < argc; a++) {
    if (!strcmp(argv[a], "--ref") && a + 2 < argc) { refresp = argv[++a]; refmsg = argv[++a]; }
    else if (!strcmp(argv[a], "--first") && a + 1 < argc) tm_first = atol(argv[++a]);
    else if (!strcmp(argv[a], "--threads") && a + 1 < argc) tm_threads = atoi(argv[++a]);
    else if (!strcmp(argv[a], "--calls") && a + 1 < argc) tm_calls = atol(argv[++a]);
    else if (!strcmp(argv[a], "--yield") && a + 1 < argc) tm_yield = atoi(argv[++a]);
    else if (!strcmp(argv[a], "--fileeps") && a + 1 < argc) tm_fileeps = atol(argv[++a]);
    else if (!strcmp(argv[a], "--perthread-locale")) tm_perthread = 1;
    else return 2;
  }
  tm_seed = xv_seed_env();
  setlocale(LC_ALL, "");
  f = fopen(argv[2], "rb"); if (!f) return 2;
  fseek(f, 0, SEEK_END); tm_n = ftell(f) / (long)sizeof(xv_req); fseek(f, 0, SEEK_SET);
  tm_rq = malloc(sizeof(xv_req) * (tm_n + 1)); if (fread(tm_rq, sizeof(xv_req), tm_n, f) != (size_t)tm_n) return 2; fclose(f);
  f = fopen(argv[3], "rb"); if (!f) return 2;
  fseek(f, 0, SEEK_END); slen = ftell(f); fseek(f, 0, SEEK_SET);
  sbuf = malloc(slen + 1); if (slen && fread(sbuf, 1, slen, f) != (size_t)slen) return 2; fclose(f); sbuf[slen] = 0;
  for (k = 0; k < slen; k++) if (sbuf[k] == 0) xe_nstr++;
  xe_str = malloc(sizeof(char *) * (xe_nstr + 1));
  { long p = 0; int j = 0; while (p < slen) { xe_str[j++] = sbuf + p; p += strlen(sbuf + p) + 1; } }
  if (tm_n < 1) return 2;
  tm_ref = calloc(tm_n, sizeof(tm_res));
  if (refresp) {
    /* COLD start: the reference was computed by another process (xrlmon exec), so the very first library calls of this
     * process happen concurrently - lazily initialised state is raced on, not warmed up by a serial pass */
    xv_resp *rr = malloc(sizeof(xv_resp) * tm_n); char **msgs = NULL; long nm = 0, am = 0; char line[4096];
    f = fopen(refresp, "rb"); if (!f || fread(rr, sizeof(xv_resp), tm_n, f) != (size_t)tm_n) return 2; fclose(f);
    f = fopen(refmsg, "r"); if (!f) return 2;
    while (fgets(line, sizeof line, f)) { size_t l = strlen(line); if (l && line[l - 1] == '\n') line[l - 1] = 0; if (nm == am) { am = am ? 2 * am : 256; msgs = realloc(msgs, sizeof(char *) * am); } msgs[nm++] = strdup(line); }
    fclose(f);
    for (k = 0; k < tm_n; k++) { tm_ref[k].status = rr[k].status; tm_ref[k].code = rr[k].code; tm_ref[k].aux = rr[k].aux; memcpy(tm_ref[k].v, rr[k].v, sizeof rr[k].v);
      tm_ref[k].mh = (rr[k].msg >= 0 && rr[k].msg < nm) ? xv_fnv(msgs[rr[k].msg], strlen(msgs[rr[k].msg]), XV_FNV0) : 0; }
    cold = 1;
  } else {
    /* serial reference */
    for (k = 0; k < tm_n; k++) tm_exec(&tm_rq[k], &tm_ref[k], NULL);
    for (k = 0; k < tm_n; k++) { tm_res o; tm_exec(&tm_rq[k], &o, NULL); if (!tm_same(&o, &tm_ref[k])) nondet++; }
  }
  snprintf(tm_loc0, sizeof tm_loc0, "%s", setlocale(LC_ALL, NULL));
  xrl_verif_hook = tm_hook;
  th = calloc(tm_threads, sizeof *th); ta = calloc(tm_threads, sizeof *ta);
  pthread_barrier_init(&tm_bar, NULL, tm_threads);
  for (t = 0; t < tm_threads; t++) { ta[t].tid = t; if (pthread_create(&th[t], NULL, tm_worker, &ta[t])) return 2; }
  for (t = 0; t < tm_threads; t++) pthread_join(th[t], NULL);
  if (tm_fileeps > 0) {       /* second phase: thread-private crystal arrays read from files (serial digests first) */
    int j, nd = 0; tm_write_files(argv[4]);
    for (j = 0; j < NFILES; j++) { tm_fref[j] = tm_file_episode(j, 2); if (tm_file_episode(j, 0) != tm_fref[j]) nd++; }
    nondet += nd;
    for (t = 0; t < tm_threads; t++) if (pthread_create(&th[t], NULL, tm_file_worker, &ta[t])) return 2;
    for (t = 0; t < tm_threads; t++) pthread_join(th[t], NULL);
    for (j = 0; j < NFILES; j++) unlink(tm_fpath[j]);
  }
  xrl_verif_hook = NULL;
  f = fopen(argv[4], "w"); if (!f) return 2;
  fprintf(f, "{\"threads_with_their_own_numeric_locale\":%d,\"locale_before_threads\":\"%s\",\"file_episodes\":%ld,\"file_mismatches\":%ld,\"file_bad\":%d,\"threads\":%d,\"requests\":%ld,\"cold\":%d,\"serial_nondeterministic\":%ld,\"locale\":\"%s\",\"bad\":[", atomic_load(&tm_perthread_on), tm_loc0, (long)atomic_load(&tm_fdone), (long)atomic_load(&tm_fmis), atomic_load(&tm_fbad), tm_threads, tm_n, cold, nondet, setlocale(LC_ALL, NULL));
  for (t = 0, a = 0; t < tm_threads; t++) { total += ta[t].calls; mism += ta[t].mismatches; errs += ta[t].errors; errapi += ta[t].errapi;
    if (ta[t].first_bad_req >= 0) { const tm_res *r = &tm_ref[ta[t].first_bad_req], *b = &ta[t].bad;
      /* values as bit patterns: printf of a double follows the process locale (decimal comma under xx_VERIF) */
      fprintf(f, "%s{\"thread\":%d,\"request\":%ld,\"fn\":%d,\"ref\":[%d,%d,\"%016llx\",\"%016llx\"],\"got\":[%d,%d,\"%016llx\",\"%016llx\"]}", a++ ? "," : "", t, ta[t].first_bad_req, tm_rq[ta[t].first_bad_req].fn,
              r->status, r->code, (unsigned long long)xv_bits(r->v[0]), (unsigned long long)xv_bits(r->v[1]), b->status, b->code, (unsigned long long)xv_bits(b->v[0]), (unsigned long long)xv_bits(b->v[1])); } }
  fprintf(f, "],\"calls\":%ld,\"mismatches\":%ld,\"failing_calls\":%ld,\"error_api_uses\":%ld,\"hook_events\":%ld,\"yields\":%ld,\"enter\":[", total, mism, errs, errapi, (long)atomic_load(&tm_events), (long)atomic_load(&tm_yields));
  for (k = 0; k <= NREG; k++) fprintf(f, "%s%ld", k ? "," : "", (long)atomic_load(&tm_enter[k]));
  fprintf(f, "],\"overlap\":[");
  for (k = 0; k <= NREG; k++) fprintf(f, "%s%ld", k ? "," : "", (long)atomic_load(&tm_overlap[k]));
  fprintf(f, "],\"signatures\":{");
  for (k = 0; k < (NREG + 1) * 64; k++) if (atomic_load(&tm_sig[k])) fprintf(f, "%s\"r%ld.m%ld.s%ld\":%ld", nsig++ ? "," : "", k / 64, (k % 64) / 2, k % 2, (long)atomic_load(&tm_sig[k]));
  fprintf(f, "},\"ring_tail\":[");
  { long ev = atomic_load(&tm_events), s0 = ev > 40 ? ev - 40 : 0; for (k = s0; k < ev; k++) fprintf(f, "%s[%d,%d]", k > s0 ? "," : "", atomic_load(&tm_ring_tid[k % RING]), atomic_load(&tm_ring_pt[k % RING])); }
  fprintf(f, "]}\n");
  fclose(f);
  return 0;
}
