/* exec mode: batch executor used by the offline oracles.
 *   xrlmon exec <requests> <strings> <responses> <messages>
 * requests : array of xv_req        strings : NUL separated strings (index = position)
 * responses: array of xv_resp       messages: distinct error messages, one per line (index = resp.msg)
 */
#include "mon_common.h"

/* by-pointer entry points exported for the bindings (no public prototype): d[9] == 1 in a request routes the call through them */
XRL_EXTERN void Refractive_Index2(const char compound[], double E, double density, xrlComplex *result, xrl_error **error);
XRL_EXTERN void Crystal_F_H_StructureFactor2(Crystal_Struct* crystal, double energy, int i_miller, int j_miller, int k_miller, double debye_factor, double rel_angle, xrlComplex* result, xrl_error **error);
XRL_EXTERN void Crystal_F_H_StructureFactor_Partial2(Crystal_Struct* crystal, double energy, int i_miller, int j_miller, int k_miller, double debye_factor, double rel_angle, int f0_flag, int f_prime_flag, int f_prime2_flag, xrlComplex* result, xrl_error **error);

static char **xe_str; static int xe_nstr;
static char **xe_msg; static int xe_nmsg, xe_amsg;

static int xe_msgid(const char *m) {
  int i;
  if (!m) m = "(null)";
  for (i = xe_nmsg - 1; i >= 0 && i >= xe_nmsg - 64; i--) if (!strcmp(xe_msg[i], m)) return i;
  for (i = 0; i < xe_nmsg; i++) if (!strcmp(xe_msg[i], m)) return i;
  if (xe_nmsg == xe_amsg) { xe_amsg = xe_amsg ? 2 * xe_amsg : 256; xe_msg = realloc(xe_msg, sizeof(char *) * xe_amsg); }
  xe_msg[xe_nmsg] = strdup(m);
  return xe_nmsg++;
}

static const char *xe_s(int idx) { return (idx < 0 || idx >= xe_nstr) ? NULL : xe_str[idx]; }

static void xe_special(const xv_req *r, xv_resp *o, xrl_error **e) {
  const char *s = xe_s(r->s);
  Crystal_Struct *c = NULL;
  xrlComplex z;
  int k;
  switch (r->fn) {
  case XS_Refractive_Index:
    if (r->d[9] == 1.0) { z.re = z.im = 7; Refractive_Index2(s, r->d[0], r->d[1], &z, e); } else z = Refractive_Index(s, r->d[0], r->d[1], e);
    o->v[0] = z.re; o->v[1] = z.im; return;
  case XS_SymbolToAtomicNumber:
    o->v[0] = SymbolToAtomicNumber(s, e); return;
  case XS_AtomicNumberToSymbol: {
    char *sym = AtomicNumberToSymbol(r->i[0], e);
    if (sym) { o->v[0] = (double)(unsigned char)sym[0] + 256.0 * (unsigned char)sym[1] + (sym[1] ? 65536.0 * (unsigned char)sym[2] : 0); xrlFree(sym); }
    return; }
  case XS_Atomic_Factors:
    o->aux = Atomic_Factors(r->i[0], r->d[0], r->d[1], r->d[2], &o->v[0], &o->v[1], &o->v[2], e); return;
  case XS_CompoundParser_summary: {
    struct compoundData *cd = CompoundParser(s, e);
    if (cd) { double h = 0; o->aux = cd->nElements; o->v[0] = cd->nAtomsAll; o->v[1] = cd->molarMass;
      for (k = 0; k < cd->nElements; k++) h += cd->Elements[k] * cd->massFractions[k] + 1e3 * (k + 1) * cd->nAtoms[k];
      o->v[2] = h; FreeCompoundData(cd); }
    return; }
  case XS_NISTByName_summary: case XS_NISTByIndex_summary: {
    struct compoundDataNIST *cd = r->fn == XS_NISTByName_summary ? GetCompoundDataNISTByName(s, e) : GetCompoundDataNISTByIndex(r->i[0], e);
    if (cd) { double h = 0, g = 0; o->aux = cd->nElements; o->v[0] = cd->density;
      for (k = 0; k < cd->nElements; k++) { h += cd->Elements[k] * cd->massFractions[k]; g += (k + 1) * cd->massFractions[k]; }
      o->v[1] = h; o->v[2] = g; FreeCompoundDataNIST(cd); }
    return; }
  case XS_RadioByName_summary: case XS_RadioByIndex_summary: {
    struct radioNuclideData *rd = r->fn == XS_RadioByName_summary ? GetRadioNuclideDataByName(s, e) : GetRadioNuclideDataByIndex(r->i[0], e);
    if (rd) { double h = 0, g = 0; o->aux = rd->Z * 1000 + rd->A; o->v[0] = rd->N + 1000.0 * rd->Z_xray + 1e6 * rd->nXrays + 1e9 * rd->nGammas;
      for (k = 0; k < rd->nXrays; k++) h += rd->XrayIntensities[k] * (rd->XrayLines[k] - 1000 * k);
      for (k = 0; k < rd->nGammas; k++) g += rd->GammaEnergies[k] * rd->GammaIntensities[k] * (k + 1);
      o->v[1] = h; o->v[2] = g; FreeRadioNuclideData(rd); }
    return; }
  default: break;
  }
  /* crystal functions on built-in crystals (s = name; NULL string -> NULL crystal) */
  if (s) {
    c = Crystal_GetCrystal(s, NULL, NULL);
    if (!c) { o->status = 8; return; } /* harness: unknown crystal */
  }
  switch (r->fn) {
  case XS_Crystal_dSpacing: o->v[0] = Crystal_dSpacing(c, r->i[0], r->i[1], r->i[2], e); break;
  case XS_Bragg_angle: o->v[0] = Bragg_angle(c, r->d[0], r->i[0], r->i[1], r->i[2], e); break;
  case XS_Q_scattering_amplitude: o->v[0] = Q_scattering_amplitude(c, r->d[0], r->i[0], r->i[1], r->i[2], r->d[1], e); break;
  case XS_Crystal_F_H_StructureFactor:
    if (r->d[9] == 1.0) { z.re = z.im = 7; Crystal_F_H_StructureFactor2(c, r->d[0], r->i[0], r->i[1], r->i[2], r->d[1], r->d[2], &z, e); }
    else z = Crystal_F_H_StructureFactor(c, r->d[0], r->i[0], r->i[1], r->i[2], r->d[1], r->d[2], e);
    o->v[0] = z.re; o->v[1] = z.im; break;
  case XS_Crystal_F_H_StructureFactor_Partial:
    if (r->d[9] == 1.0) { z.re = z.im = 7; Crystal_F_H_StructureFactor_Partial2(c, r->d[0], r->i[0], r->i[1], r->i[2], r->d[1], r->d[2], r->i[3], r->i[4], r->i[5], &z, e); }
    else z = Crystal_F_H_StructureFactor_Partial(c, r->d[0], r->i[0], r->i[1], r->i[2], r->d[1], r->d[2], r->i[3], r->i[4], r->i[5], e);
    o->v[0] = z.re; o->v[1] = z.im; break;
  case XS_Crystal_UnitCellVolume: o->v[0] = Crystal_UnitCellVolume(c, e); if (c) o->v[1] = c->volume; break;
  default: o->status = 16; break;
  }
  if (c) Crystal_Free(c);
}

static const int xe_errnos[8] = { 0, ERANGE, ENOMEM, EDOM, 0, EINVAL, ENOENT, EINTR };

static int xe_main(int argc, char **argv) {
  FILE *f; long n, k; char *sbuf = NULL; long slen = 0; int noslot, direct, fpflags;
  xv_req *rq; xv_resp *rs;
  if (argc < 6) { fprintf(stderr, "usage: xrlmon exec req str resp msg\n"); return 2; }
  f = fopen(argv[2], "rb"); if (!f) { perror(argv[2]); return 2; }
  fseek(f, 0, SEEK_END); n = ftell(f) / (long)sizeof(xv_req); fseek(f, 0, SEEK_SET);
  rq = malloc(sizeof(xv_req) * (n + 1)); if (fread(rq, sizeof(xv_req), n, f) != (size_t)n) return 2; fclose(f);
  f = fopen(argv[3], "rb"); if (!f) { perror(argv[3]); return 2; }
  fseek(f, 0, SEEK_END); slen = ftell(f); fseek(f, 0, SEEK_SET);
  sbuf = malloc(slen + 1); if (slen && fread(sbuf, 1, slen, f) != (size_t)slen) return 2; fclose(f); sbuf[slen] = 0;
  for (k = 0; k < slen; k++) if (sbuf[k] == 0) xe_nstr++;
  xe_str = malloc(sizeof(char *) * (xe_nstr + 1));
  { long p = 0; int j = 0; while (p < slen) { xe_str[j++] = sbuf + p; p += strlen(sbuf + p) + 1; } }
  rs = calloc(n + 1, sizeof(xv_resp));
  xv_fptrap_from_env();
  if (getenv("XV_SETLOCALE")) setlocale(LC_ALL, "");      /* run under the locale of the environment (the thread monitor's reference for its comma-locale runs) */
#ifndef XV_NO_XRAYINIT
  if (getenv("XV_XRAYINIT")) XRayInit();
#endif
  noslot = getenv("XV_NOSLOT") != NULL;
  fpflags = getenv("XV_FPFLAGS") != NULL && !getenv("XV_FPTRAP");
  direct = getenv("XV_DIRECT") != NULL;     /* call everything WITHOUT an error slot (status is then always 0) */
  for (k = 0; k < n; k++) {
    xrl_error *e = NULL; const xv_req *r = &rq[k]; xv_resp *o = &rs[k];
    o->msg = -1;
    xv_poison_stack();
    errno = xe_errnos[k & 7];      /* whatever an earlier call of the process may have left behind: no query may depend on it */
    if (fpflags) feraiseexcept(FE_DIVBYZERO | FE_INVALID | FE_OVERFLOW | FE_UNDERFLOW | FE_INEXACT);   /* XV_FPFLAGS: sticky status flags the HOST's own arithmetic left raised (no traps) */
    if (direct && r->fn >= 0 && r->fn < XV_NFN) { int st = 0; o->v[0] = XV_DIRECT[r->fn](r->i, r->d, xe_s(r->s), &st); o->status |= st; }    /* user-style direct calls */
    else if (r->fn >= 0 && r->fn < XV_NFN) o->v[0] = xv_call(r->fn, r->i, r->d, xe_s(r->s), noslot ? NULL : &e);
    else if (r->fn >= 1000 && r->fn < XS_END) xe_special(r, o, noslot ? NULL : &e);
    else o->status = 16;
    if (e) { o->status |= 1; o->code = (int)e->code; o->msg = xe_msgid(e->message); xrl_error_free(e); }
  }
  f = fopen(argv[4], "wb"); if (!f) { perror(argv[4]); return 2; }
  if (fwrite(rs, sizeof(xv_resp), n, f) != (size_t)n) return 2; fclose(f);
  f = fopen(argv[5], "w"); if (!f) { perror(argv[5]); return 2; }
  for (k = 0; k < xe_nmsg; k++) { char *p; for (p = xe_msg[k]; *p; p++) if (*p == '\n') *p = ' '; fprintf(f, "%s\n", xe_msg[k]); free(xe_msg[k]); }
  fclose(f);
  free(xe_msg); free(rq); free(rs); free(sbuf); free(xe_str);
  return 0;
}
