/* histmon: history-based monitors (linked against the ASan+UBSan or plain static library)
 *
 *   histmon crystal --histories N --maxlen L --out FILE [--builtin]   C14: crystal collections vs a shadow model
 *   histmon alloc   --histories N --maxlen L --out FILE               C04: allocation conservation over the allocating APIs
 *
 * All randomness: splitmix64 seeded from VERIF_SEED, --shard and the history number; every history
 * can be replayed with --only K.  Output: JSON lines (viol / stat / summary) like the sweep.
 */
#include "mon_common.h"
#include <fcntl.h>
#include <sys/wait.h>

static FILE *hm_out; static uint64_t hm_seed; static int hm_shard, hm_nshards = 1;
static long hm_steps, hm_checks;
typedef struct { char *key; char *what; char *witness; long count; } hm_viol_t;
static hm_viol_t *hm_v; static int hm_nv, hm_av;
static char hm_trace[8192]; static size_t hm_tl;           /* textual prefix of the current history (the replay witness) */
static long hm_opcount[64][4]; static const char *hm_opname[64];

static size_t hm_self;    /* bytes the monitor itself holds (violation records): excluded from the balance */
static size_t hm_raw(void) {
#if XV_ASAN
  return __sanitizer_get_current_allocated_bytes();
#else
  return 0;
#endif
}
static size_t hm_alloc(void) { return hm_raw() - hm_self; }

static void hm_violation(const char *key, const char *what) {
  int i; size_t a0;
  for (i = 0; i < hm_nv; i++) if (!strcmp(hm_v[i].key, key)) { hm_v[i].count++; return; }
  a0 = hm_raw();
  if (hm_nv == hm_av) { hm_av = hm_av ? 2 * hm_av : 32; hm_v = realloc(hm_v, sizeof(hm_viol_t) * hm_av); }
  hm_v[hm_nv].key = strdup(key); hm_v[hm_nv].what = strdup(what); hm_v[hm_nv].witness = strdup(hm_trace); hm_v[hm_nv].count = 1; hm_nv++;
  hm_self += hm_raw() - a0;
}
#define TR(...) do { if (hm_tl < sizeof hm_trace - 200) hm_tl += snprintf(hm_trace + hm_tl, sizeof hm_trace - hm_tl, __VA_ARGS__); } while (0)

static void hm_json_str(FILE *f, const char *s) {
  fputc('"', f);
  for (; s && *s; s++) { unsigned char c = (unsigned char)*s; if (c == '"' || c == '\\') { fputc('\\', f); fputc(c, f); } else if (c == '\n') fputs("\\n", f); else if (c < 32 || c > 126) fputc('?', f); else fputc(c, f); }
  fputc('"', f);
}

/* ------------------------------------------------------------------ last-step slot for crash witnesses */
typedef struct { long history; long step; char op[200]; } hm_last_t;
static hm_last_t hm_last_local, *hm_last = &hm_last_local;
#define LAST(...) do { snprintf(hm_last->op, sizeof hm_last->op, __VA_ARGS__); } while (0)

/* ================================================================== C14 crystal model */
#define MAXC 700
#define MAXAT 200
typedef struct { char name[48]; double cell[6]; int n_atom; Crystal_Atom atom[MAXAT]; } m_crystal;
typedef struct { Crystal_Array *arr; int builtin; int cap0; int n; m_crystal *c; int grew; } m_array;

static double m_volume(const double *cell) {
  double ca = cos(cell[3] * M_PI / 180), cb = cos(cell[4] * M_PI / 180), cg = cos(cell[5] * M_PI / 180);
  return cell[0] * cell[1] * cell[2] * sqrt(1 - ca * ca - cb * cb - cg * cg + 2 * ca * cb * cg);
}
static void gen_crystal(xv_rng *r, m_crystal *c, const char *forced_name) {
  static const char al[] = "ABCDEFGHIJKLMNOPQRSTUVWXYZabcdefghijklmnopqrstuvwxyz0123456789_";
  int k, n;
  if (forced_name) strncpy(c->name, forced_name, 47), c->name[47] = 0;
  else if (xv_below(r, 6) == 0) {   /* families of long names that share their first 20+ characters (files cannot express them: %20s) */
    static const char *fam[] = { "Quartz_alpha_lowtemp_", "LongCrystalNamePrefix__", "abcdefghijklmnopqrst", "Muscovite_2M1_polytype_sample" };
    int o = snprintf(c->name, sizeof c->name, "%s", fam[xv_below(r, 4)]); n = xv_below(r, 5); for (k = 0; k < n && o < 46; k++) c->name[o++] = al[xv_below(r, 63)]; c->name[o] = 0; }
  else if (xv_below(r, 5) == 0) {   /* names holding bytes >= 0x80 (UTF-8 / Latin-1 letters) among short ASCII stems: they sort AFTER every ASCII byte (strcmp compares
                                     * unsigned chars) and first differ from their ASCII neighbours exactly at such a byte */
    static const char *stem[] = { "S", "Si", "q", "qu", "b", "Z", "a" }; static const unsigned char hi[] = { 0xC3, 0xA9, 0xE9, 0xFC, 0xFF, 0x80, 0xCE, 0xB2 };
    int o = snprintf(c->name, sizeof c->name, "%s", stem[xv_below(r, 7)]); n = 1 + xv_below(r, 4);
    for (k = 0; k < n && o < 18; k++) c->name[o++] = xv_below(r, 2) ? (char)hi[xv_below(r, 8)] : al[xv_below(r, 63)];
    c->name[o] = 0; }
  else if (xv_below(r, 12) == 0) {  /* names a user may really give that happen to hold '%' and a conversion letter: they are data wherever the library puts them into a message */
    static const char *pc[] = { "Steel-2%strained", "LiF%20sheet", "Si-0.1%doped", "Ge%n", "a%%b", "Cu%5$s", "Fe50%Ni50", "%s", "q%x%x%x%x", "In%ld" };
    int o = snprintf(c->name, sizeof c->name, "%s", pc[xv_below(r, 10)]); if (xv_below(r, 2) && o < 18) { c->name[o++] = al[xv_below(r, 63)]; c->name[o] = 0; } }
  else { n = 1 + xv_below(r, 14); for (k = 0; k < n; k++) c->name[k] = al[xv_below(r, k ? 63 : 52)]; c->name[n] = 0; }
  for (;;) {
    double v;
    /* values are multiples of 2^-10 so that they print exactly in a few characters (the file reader takes 99 characters per line) */
    for (k = 0; k < 3; k++) c->cell[k] = 2.0 + xv_below(r, 13 * 1024) / 1024.0;
    for (k = 3; k < 6; k++) c->cell[k] = xv_below(r, 4) == 0 ? 90.0 : 55.0 + xv_below(r, 70 * 1024) / 1024.0;
    /* half of the cells are 3-decimal numbers instead (printed with 15 digits they read back as the same double, and they are exact in no narrower type) */
    if (xv_below(r, 2)) { for (k = 0; k < 3; k++) c->cell[k] = (2000 + (double)xv_below(r, 13000)) / 1000.0; for (k = 3; k < 6; k++) if (c->cell[k] != 90.0) c->cell[k] = (55000 + (double)xv_below(r, 70000)) / 1000.0; }
    v = m_volume(c->cell);
    /* well-conditioned cells only: the volume formula cancels when 1-cos2a-cos2b-cos2g+2cacbcg is small */
    if (isfinite(v) && v > 0.3 * c->cell[0] * c->cell[1] * c->cell[2]) break;
  }
  /* now and then angles that cannot close a parallelepiped (the library takes such a cell; its volume is then NaN) */
  if (xv_below(r, 40) == 0) { static const double bad[4][3] = { {60, 60, 125}, {130, 125, 120}, {55, 60, 120}, {100, 140, 130} }; int j = (int)xv_below(r, 4); c->cell[3] = bad[j][0]; c->cell[4] = bad[j][1]; c->cell[5] = bad[j][2]; }
  c->n_atom = xv_below(r, 16) ? 1 + xv_below(r, 12) : 0;     /* now and then a crystal without atoms (legal through Crystal_AddCrystal) */
  for (k = 0; k < c->n_atom; k++) { c->atom[k].Zatom = 1 + xv_below(r, 92); c->atom[k].fraction = xv_below(r, 3) ? 1.0 : (1 + xv_below(r, 1024)) / 1024.0;
    c->atom[k].x = xv_below(r, 4096) / 4096.0; c->atom[k].y = xv_below(r, 4096) / 4096.0; c->atom[k].z = xv_below(r, 4096) / 4096.0;
    /* one coordinate and the occupancy carry a 2^-40 tail: exact in a double (and in 17 printed digits), lost in any narrower type on the way */
    if (xv_below(r, 2)) { c->atom[k].x += 1.0 / 1099511627776.0; if (c->atom[k].fraction < 1.0) c->atom[k].fraction += 1.0 / 1099511627776.0; } }

}
static int m_find(const m_array *a, const char *name) { int k; for (k = 0; k < a->n; k++) if (!strcmp(a->c[k].name, name)) return k; return -1; }
static int m_cmp(const void *x, const void *y) { return strcmp(((const m_crystal *)x)->name, ((const m_crystal *)y)->name); }
static void m_add(m_array *a, const m_crystal *c) { a->c = realloc(a->c, sizeof(m_crystal) * (a->n + 1)); a->c[a->n++] = *c; qsort(a->c, a->n, sizeof(m_crystal), m_cmp); }

static Crystal_Struct *to_struct(const m_crystal *c, double volume) {   /* caller-owned crystal, as a user would build it */
  Crystal_Struct *s = malloc(sizeof *s); s->name = strdup(c->name);
  s->a = c->cell[0]; s->b = c->cell[1]; s->c = c->cell[2]; s->alpha = c->cell[3]; s->beta = c->cell[4]; s->gamma = c->cell[5];
  s->volume = volume; s->n_atom = c->n_atom; s->atom = malloc(sizeof(Crystal_Atom) * (c->n_atom ? c->n_atom : 1)); memcpy(s->atom, c->atom, sizeof(Crystal_Atom) * c->n_atom);
  return s;
}
static void free_struct(Crystal_Struct *s) { free(s->name); free(s->atom); free(s); }

static int same_crystal(const Crystal_Struct *s, const m_crystal *c, int check_volume, char *why, size_t nwhy) {
  int k; double v = m_volume(c->cell);
  if (strcmp(s->name, c->name)) { snprintf(why, nwhy, "name '%s' != '%s'", s->name, c->name); return 0; }
  if (s->a != c->cell[0] || s->b != c->cell[1] || s->c != c->cell[2] || s->alpha != c->cell[3] || s->beta != c->cell[4] || s->gamma != c->cell[5]) { snprintf(why, nwhy, "cell differs"); return 0; }
  if (s->n_atom != c->n_atom) { snprintf(why, nwhy, "n_atom %d != %d", s->n_atom, c->n_atom); return 0; }
  for (k = 0; k < c->n_atom; k++) if (s->atom[k].Zatom != c->atom[k].Zatom || s->atom[k].fraction != c->atom[k].fraction || s->atom[k].x != c->atom[k].x || s->atom[k].y != c->atom[k].y || s->atom[k].z != c->atom[k].z) { snprintf(why, nwhy, "atom %d differs", k); return 0; }
  /* forward error bound of V = abc*sqrt(D): dV = (abc)^2 dD / (2V), dD of order 10 ulp */
  if (check_volume && isnan(v)) { if (!isnan(s->volume)) { snprintf(why, nwhy, "volume %.17g for a cell whose angles cannot close (recomputed NaN)", s->volume); return 0; } return 1; }
  if (check_volume && !(fabs(s->volume - v) <= 1e-12 * fabs(v) + 1e-14 * (c->cell[0] * c->cell[1] * c->cell[2]) * (c->cell[0] * c->cell[1] * c->cell[2]) / fabs(v))) { snprintf(why, nwhy, "volume %.17g, recomputed %.17g", s->volume, v); return 0; }
  return 1;
}

/* compare the observable state of a library array with the model */
static void check_array(m_array *a, const char *after) {
  int n = -12345, k; xrl_error *e = NULL; char **l; char why[160], key[200];
  hm_checks++;
  LAST("check(list) after %s", after);
  l = Crystal_GetCrystalsList(a->arr, &n, &e);
  if (!l || e) { snprintf(key, sizeof key, "c14:list-failed:after-%s", after); hm_violation(key, e ? e->message : "NULL list"); if (e) xrl_error_free(e); return; }
  if (n != a->n) { snprintf(key, sizeof key, "c14:count-mismatch:after-%s", after); snprintf(why, sizeof why, "library lists %d crystals, model holds %d", n, a->n); hm_violation(key, why); }
  for (k = 0; l[k]; k++) {
    if (k < a->n && k < n && strcmp(l[k], a->c[k].name)) { snprintf(key, sizeof key, "c14:list-order-or-content:after-%s", after); snprintf(why, sizeof why, "entry %d is '%s', model (sorted) has '%s'", k, l[k], a->c[k].name); hm_violation(key, why); break; }
  }
  if (k != n) { snprintf(key, sizeof key, "c14:list-not-terminated-at-count:after-%s", after); hm_violation(key, "NULL terminator position != reported count"); }
  for (k = 0; l[k]; k++) xrlFree(l[k]);
  xrlFree(l);
  /* every model entry retrievable and equal (sample up to 6 per check + first/last) */
  for (k = 0; k < a->n; k++) {
    Crystal_Struct *s;
    if (a->n > 8 && k != 0 && k != a->n - 1 && (k * 7 + hm_steps) % (a->n / 6 + 1)) continue;
    e = NULL; LAST("check(get %s) after %s", a->c[k].name, after);
    s = Crystal_GetCrystal(a->c[k].name, a->arr, &e);
    if (!s) { snprintf(key, sizeof key, "c14:added-crystal-not-retrievable:after-%s", after); snprintf(why, sizeof why, "'%s': %s", a->c[k].name, e ? e->message : "no error"); hm_violation(key, why); if (e) xrl_error_free(e); continue; }
    if (e) { hm_violation("c14:error-with-object", e->message); xrl_error_free(e); }
    if (!same_crystal(s, &a->c[k], !a->builtin, why, sizeof why)) { snprintf(key, sizeof key, "c14:retrieved-crystal-differs:after-%s:%s", after, strstr(why, "volume") ? "volume" : "fields"); hm_violation(key, why); }
    /* lookups are independent deep copies: scribble over the copy, free it, look again next time */
    if (s->name[0]) s->name[0] = '#'; if (s->n_atom > 0) { s->atom[0].Zatom = -77; s->atom[s->n_atom - 1].x = 9e9; } s->a = -1;
    Crystal_Free(s);
  }
}

static void write_crystal_file(FILE *f, const m_crystal *c, int corrupt, xv_rng *r) {
  int k;
  if (corrupt == 1) fprintf(f, "#S %s\n", c->name);                         /* malformed #S (number missing) */
  else { static const char *nf[] = { "#S %d %s\n", "#S %02d %s\n", "#S %03d %s\n", "#S %d %s\n", "#S +%d %s\n", "#S %05d %s\n" };     /* scan numbers as SPEC files write them: plain, zero-padded, signed */
    fprintf(f, nf[xv_below(r, 6)], c->atom[0].Zatom, c->name); }
  if (corrupt == 2) fprintf(f, "#UCELL %.15g %.15g %.15g\n", c->cell[0], c->cell[1], c->cell[2]);   /* short UCELL */
  else if (corrupt != 3) fprintf(f, "#UCELL %.15g %.15g %.15g %.15g %.15g %.15g\n", c->cell[0], c->cell[1], c->cell[2], c->cell[3], c->cell[4], c->cell[5]);
  if (corrupt == 4) fprintf(f, "#UCELL 1 2 3 90 90 90\n");                    /* two UCELL lines */
  fprintf(f, "#USYSTEM generated\n#N 5\n#L AtomicNumber Fraction X Y Z\n");
  for (k = 0; k < (corrupt == 7 ? 0 : c->n_atom); k++) {
    if (xv_below(r, 9) == 0) { static const char *ws[] = { "\n", " \n", "\t\n", "   \t \n", "\n\n" }; fputs(ws[xv_below(r, 5)], f); }   /* empty and blank-only lines inside the atom block (hand-edited files): white space */
    if (corrupt == 5 && k == c->n_atom / 2) { fprintf(f, "%d %.17g xx %.17g\n", c->atom[k].Zatom, c->atom[k].fraction, c->atom[k].y); continue; }   /* unparsable atom line */
    fprintf(f, "%d %.17g %.17g %.17g %.17g\n", c->atom[k].Zatom, c->atom[k].fraction, c->atom[k].x, c->atom[k].y, c->atom[k].z);
  }
  (void)r;
}

enum { OP_ADD, OP_ADD_DUP, OP_ADD_NULL, OP_READ_OK, OP_READ_BAD, OP_READ_DUP, OP_GET_ABSENT, OP_GET_NULL, OP_COPY, OP_LIST, OP_REINIT, OP_READ_MISSING, OP_NOPS };
static const char *c14_opnames[] = { "add", "add-duplicate", "add-null", "readfile-wellformed", "readfile-corrupt", "readfile-duplicate", "get-absent", "get-null", "makecopy", "list", "free+init", "readfile-missing" };

static void count_op(int op, int outcome) { hm_opname[op] = c14_opnames[op]; hm_opcount[op][outcome]++; }

static void crystal_history(long hno, int maxlen, int builtin, const char *tmpdir) {
  xv_rng r; m_array A; int len, step, big = 0; size_t b0 = hm_alloc(); xrl_error *e; char key[200], why[200], path[600];
  r.s = hm_seed * 0x9E3779B97F4A7C15ULL + (uint64_t)hno * 0xD1B54A32D192ED03ULL + 12345;
  hm_tl = 0; hm_trace[0] = 0;
  memset(&A, 0, sizeof A); A.builtin = builtin;
  if (builtin) {
    char **l; int n = 0, k; A.arr = NULL; A.cap0 = CRYSTALARRAY_MAX;
    l = Crystal_GetCrystalsList(NULL, &n, NULL);
    for (k = 0; l && k < n; k++) { Crystal_Struct *s = Crystal_GetCrystal(l[k], NULL, NULL); m_crystal c; memset(&c, 0, sizeof c);
      if (s) { strncpy(c.name, s->name, 47); c.cell[0] = s->a; c.cell[1] = s->b; c.cell[2] = s->c; c.cell[3] = s->alpha; c.cell[4] = s->beta; c.cell[5] = s->gamma; c.n_atom = s->n_atom; if (s->n_atom > MAXAT) { fprintf(stderr, "histmon: built-in crystal with %d atoms\n", s->n_atom); exit(2); } memcpy(c.atom, s->atom, sizeof(Crystal_Atom) * c.n_atom);
        m_add(&A, &c); Crystal_Free(s); } xrlFree(l[k]); }
    if (l) xrlFree(l);
    TR("builtin;");
  } else {
    A.cap0 = xv_below(&r, 13); e = NULL; LAST("Crystal_ArrayInit(%d)", A.cap0);
    A.arr = Crystal_ArrayInit(A.cap0, &e); TR("init(%d);", A.cap0);
    if (!A.arr) { hm_violation("c14:arrayinit-failed", e ? e->message : "NULL"); if (e) xrl_error_free(e); return; }
  }
  len = 1 + xv_below(&r, maxlen);
  if (builtin) len = maxlen;   /* built-in runs are long so that the fixed capacity is reached */
  /* one history in 150 fills a USER array past the size of the built-in table (capacities that hit exactly CRYSTALARRAY_MAX on their way) */
  if (!builtin && hno % 150 == 7) { static const int caps[3] = { CRYSTALARRAY_MAX, 2, 12 }; Crystal_ArrayFree(A.arr); A.cap0 = caps[(hno / 150) % 3]; A.arr = Crystal_ArrayInit(A.cap0, NULL); big = 1; len = CRYSTALARRAY_MAX + 80; TR("big(%d);", A.cap0);
    if (!A.arr) { hm_violation("c14:arrayinit-failed", "NULL"); return; } }
  for (step = 0; step < len; step++) {
    int op = big ? (int)xv_below(&r, 40) : (int)xv_below(&r, 100), rv; m_crystal c; Crystal_Struct *s;
    /* one step in four passes NO error slot: the outcome and the state of the collection must be the same */
    xrl_error **ep = xv_below(&r, 4) ? &e : NULL;
    if (!ep) TR("noslot:");
    hm_steps++; hm_last->step = step;
    if (op < 40 || (builtin && op < 72)) {                                  /* ---- add a fresh crystal */
      gen_crystal(&r, &c, NULL);
      if (m_find(&A, c.name) >= 0) continue;
      s = to_struct(&c, -1.0 - step); e = NULL; LAST("Crystal_AddCrystal(%s)", c.name); TR("add(%s,%d atoms);", c.name, c.n_atom);
      rv = Crystal_AddCrystal(s, A.arr, ep); free_struct(s);
      if (builtin && A.n >= CRYSTALARRAY_MAX) {
        count_op(OP_ADD, 2);
        if (rv || (ep && !e)) hm_violation("c14:builtin-grew-past-capacity", "Crystal_AddCrystal succeeded or set no error on the full built-in array");
        if (e) xrl_error_free(e);
        check_array(&A, "add-on-full-builtin");
        continue;
      }
      if (!rv || e) { snprintf(key, sizeof key, "c14:add-rejected:%s", A.n >= A.cap0 ? "beyond-initial-capacity" : "within-capacity"); hm_violation(key, e ? e->message : "returned 0 without error"); if (e) xrl_error_free(e); count_op(OP_ADD, 1); check_array(&A, "rejected-add"); continue; }
      if (A.n >= A.cap0) A.grew = 1;
      m_add(&A, &c); count_op(OP_ADD, 0);
      if (!big || step % 16 == 0 || (A.n >= CRYSTALARRAY_MAX - 2 && A.n <= CRYSTALARRAY_MAX + 3)) check_array(&A, A.n > A.cap0 ? "add-beyond-capacity" : "add");
    } else if (op < 50) {                                                   /* ---- duplicate */
      if (!A.n) continue;
      c = A.c[xv_below(&r, A.n)]; c.cell[0] += 1.0;                          /* same name, different content */
      s = to_struct(&c, 0.0); e = NULL; LAST("Crystal_AddCrystal(dup %s)", c.name); TR("adddup(%s);", c.name);
      rv = Crystal_AddCrystal(s, A.arr, ep); free_struct(s); count_op(OP_ADD_DUP, rv ? 1 : 0);
      if (rv || (ep && !e)) hm_violation("c14:duplicate-accepted", rv ? "Crystal_AddCrystal returned 1 for a name already present" : "0 without error");
      if (e) xrl_error_free(e);
      check_array(&A, "duplicate-add");
    } else if (op < 53) {
      e = NULL; LAST("Crystal_AddCrystal(NULL)"); TR("addnull;"); rv = Crystal_AddCrystal(NULL, A.arr, ep); count_op(OP_ADD_NULL, 0);
      if (rv || (ep && !e)) hm_violation("c14:null-crystal-accepted", "no error for a NULL crystal"); if (e) xrl_error_free(e);
      check_array(&A, "null-add");
    } else if ((op < 68 && !builtin) || (builtin && op >= 72 && op < 85)) {  /* ---- crystal files (into the built-in collection too: its capacity is fixed) */
      int kind = xv_below(&r, 10), ncr = 1 + xv_below(&r, kind < 5 ? 30 : 6), k, corrupt = 0, badpos = -1, dup = 0; m_crystal *fc = malloc(sizeof(m_crystal) * ncr); FILE *f; int ok = 1;
      for (k = 0; k < ncr; k++) { int j, clash; do { gen_crystal(&r, &fc[k], NULL); clash = m_find(&A, fc[k].name) >= 0 || fc[k].n_atom == 0 || strlen(fc[k].name) > 20; for (j = 0; j < k; j++) if (!strcmp(fc[j].name, fc[k].name)) clash = 1; } while (clash); }
      if (kind >= 5 && kind < 8) { corrupt = 1 + xv_below(&r, 6); if (corrupt == 6) corrupt = 7; badpos = xv_below(&r, ncr); }   /* 7: a definition without atom rows */
      else if (kind == 8 && A.n) { int pick = xv_below(&r, A.n);      /* a file can only name an existing crystal whose name fits its 20-character field */
        if (strlen(A.c[pick].name) <= 20) { dup = 1; badpos = xv_below(&r, ncr); strcpy(fc[badpos].name, A.c[pick].name); } }
      else if (kind == 9) { corrupt = 6; }                                   /* truncated mid-definition */
      snprintf(path, sizeof path, "%s/h%ld_s%d.dat", tmpdir, hno, step);
      f = fopen(path, "w"); if (!f) { fprintf(stderr, "histmon: cannot write %s\n", path); exit(2); }
      fprintf(f, "#F generated\n#UT test\n\n");
      for (k = 0; k < ncr; k++) write_crystal_file(f, &fc[k], k == badpos ? corrupt : 0, &r);   /* canonical layout: next "#S" follows the last atom line */
      if (corrupt == 6) { long pos; fflush(f); pos = ftell(f); if (ftruncate(fileno(f), pos > 25 ? pos - 25 - (long)xv_below(&r, 20) : 0)) {} }
      else switch (xv_below(&r, 6)) {                   /* how the file ends is not part of a definition: all of these are the same crystals */
        case 0: case 1: fprintf(f, "#EOF\n"); break;
        case 2: break;                                   /* the last atom line is the last line */
        case 3: { long pos; fflush(f); pos = ftell(f); if (pos > 0 && ftruncate(fileno(f), pos - 1)) {} TR("nonl:"); } break;   /* ... and has no newline */
        case 4: fprintf(f, "\n\n"); break;
        default: fprintf(f, "#EOF"); break; }
      fclose(f);
      if (xv_below(&r, 5) == 0) {       /* the same file with CR LF line ends (written on another system): the same crystals - provided no line outgrows the reader's 99 characters */
        FILE *g = fopen(path, "rb"); long flen = 0, j_, o_ = 0, cur = 0, longest = 0; char *in_ = NULL, *out_ = NULL;
        if (g) { fseek(g, 0, SEEK_END); flen = ftell(g); fseek(g, 0, SEEK_SET); in_ = malloc(flen + 1); out_ = malloc(2 * flen + 2); if (fread(in_, 1, flen, g) != (size_t)flen) flen = 0; fclose(g); }
        for (j_ = 0; j_ < flen; j_++) { if (in_[j_] == '\n') { if (cur > longest) longest = cur; cur = 0; out_[o_++] = '\r'; } else cur++; out_[o_++] = in_[j_]; }
        if (flen > 0 && longest <= 95 && (g = fopen(path, "wb")) != NULL) { if (fwrite(out_, 1, o_, g) != (size_t)o_) {} fclose(g); TR("crlf:"); }
        free(in_); free(out_); }
      e = NULL; LAST("Crystal_ReadFile(%s) kind=%d corrupt=%d dup=%d n=%d", path, kind, corrupt, dup, ncr);
      TR("readfile(n=%d,corrupt=%d@%d,dup=%d);", ncr, corrupt, badpos, dup);
      { /* one file in twelve arrives through a pipe (/proc/self/fd/N): fopen works, fseek does not.  Whatever the library makes of such a
         * stream, the contract holds (failure with an error and an untouched collection, or success) and nothing stays allocated */
        int pfd[2] = { -1, -1 }, viapipe = xv_below(&r, 12) == 0; char fdpath[64]; long flen = 0; char *fbuf = NULL;
        if (viapipe) { FILE *g = fopen(path, "rb"); if (g) { fseek(g, 0, SEEK_END); flen = ftell(g); fseek(g, 0, SEEK_SET); fbuf = malloc(flen + 1); if (fread(fbuf, 1, flen, g) != (size_t)flen) flen = -1; fclose(g); } else flen = -1;
          if (flen < 0 || flen > 60000 || pipe(pfd)) viapipe = 0;
          else { if (write(pfd[1], fbuf, flen) != flen) {} close(pfd[1]); snprintf(fdpath, sizeof fdpath, "/proc/self/fd/%d", pfd[0]); }
          free(fbuf); }
        if (viapipe) { TR("viapipe:"); LAST("Crystal_ReadFile(<pipe>) kind=%d corrupt=%d dup=%d n=%d", kind, corrupt, dup, ncr);
          rv = Crystal_ReadFile(fdpath, A.arr, ep); close(pfd[0]); unlink(path);
          count_op(OP_READ_BAD, 2);
          if (ep && (rv != 0) == (e != NULL)) hm_violation("c14:readfile-from-pipe:error-iff-failure-broken", "return value and error slot disagree");
          if (e) xrl_error_free(e);
          if (!rv) check_array(&A, "readfile-from-pipe");
          else { int n2 = 0, j2; char **l2 = Crystal_GetCrystalsList(A.arr, &n2, NULL); for (j2 = 0; l2 && l2[j2]; j2++) { int q; for (q = 0; q < ncr; q++) if (!strcmp(fc[q].name, l2[j2]) && m_find(&A, l2[j2]) < 0) { Crystal_Struct *g2 = Crystal_GetCrystal(l2[j2], A.arr, NULL); if (g2) { m_crystal t = fc[q]; t.n_atom = g2->n_atom > MAXAT ? MAXAT : g2->n_atom; memcpy(t.atom, g2->atom, sizeof(Crystal_Atom) * t.n_atom); m_add(&A, &t); Crystal_Free(g2); } } xrlFree(l2[j2]); } if (l2) xrlFree(l2); }
          free(fc); continue; } }
      if (xv_below(&r, 8) == 0) {       /* a host that has closed its standard input (daemon, GUI program): descriptor 0 is free, the file the library opens gets it */
        int saved = fcntl(0, F_DUPFD, 3); close(0); TR("fd0free:");   /* (a local variable is called dup here) */
        rv = Crystal_ReadFile(path, A.arr, ep);
        if (saved >= 0) { dup2(saved, 0); close(saved); } }
      else rv = Crystal_ReadFile(path, A.arr, ep);
      unlink(path);
      if (!corrupt && !dup && builtin && A.n + ncr > CRYSTALARRAY_MAX) {
        /* more definitions than the fixed table has room for: refused as a whole, nothing of the file stays behind */
        count_op(OP_READ_BAD, 2);
        if (rv || (ep && !e)) hm_violation("c14:builtin-grew-past-capacity", rv ? "Crystal_ReadFile returned 1 for a file that does not fit into the built-in collection" : "0 without error");
        if (e) xrl_error_free(e);
        check_array(&A, "readfile-over-capacity");
      } else if (!corrupt && !dup) {
        count_op(OP_READ_OK, rv ? 0 : 1);
        if (!rv || e) { snprintf(key, sizeof key, "c14:wellformed-file-rejected:%s", A.n + ncr > A.cap0 ? "beyond-initial-capacity" : "within-capacity"); hm_violation(key, e ? e->message : "returned 0 without error"); ok = 0; }
        else { if (A.n + ncr > A.cap0) A.grew = 1; for (k = 0; k < ncr; k++) m_add(&A, &fc[k]); }
        if (e) xrl_error_free(e);
        check_array(&A, ok ? (A.n > A.cap0 ? "readfile-beyond-capacity" : "readfile") : "rejected-readfile");
      } else if (corrupt == 6) {
        /* truncation may by chance leave a well-formed prefix: only the contract is checked (error xor success) */
        count_op(OP_READ_BAD, 2);
        if (ep && (rv != 0) == (e != NULL)) hm_violation("c14:readfile-truncated:error-iff-failure-broken", "return value and error slot disagree");
        if (e) xrl_error_free(e);
        if (!rv) check_array(&A, "truncated-readfile");
        else { /* accepted a prefix: resynchronise the model from the library (not judged) */
          int n = 0, j; char **l = Crystal_GetCrystalsList(A.arr, &n, NULL); for (j = 0; l && l[j]; j++) { int q; for (q = 0; q < ncr; q++) if (!strcmp(fc[q].name, l[j]) && m_find(&A, l[j]) < 0) { Crystal_Struct *g = Crystal_GetCrystal(l[j], A.arr, NULL); if (g) { m_crystal t = fc[q]; t.n_atom = g->n_atom > MAXAT ? MAXAT : g->n_atom; memcpy(t.atom, g->atom, sizeof(Crystal_Atom) * t.n_atom); m_add(&A, &t); Crystal_Free(g); } } xrlFree(l[j]); } if (l) xrlFree(l); }
      } else {
        count_op(dup ? OP_READ_DUP : OP_READ_BAD, rv ? 1 : 0);
        if (rv || (ep && !e)) { snprintf(key, sizeof key, dup ? "c14:readfile:duplicate-accepted" : "c14:readfile:corrupt-file-accepted:kind%d", corrupt); hm_violation(key, rv ? "Crystal_ReadFile returned 1" : "0 without error"); }
        if (e) xrl_error_free(e);
        check_array(&A, dup ? "rejected-readfile-duplicate" : "rejected-readfile-corrupt");
      }
      free(fc);
    } else if (op < 70 && !builtin) {
      e = NULL; LAST("Crystal_ReadFile(missing)"); TR("readmissing;"); rv = Crystal_ReadFile("/nonexistent/xv-file.dat", A.arr, ep); count_op(OP_READ_MISSING, 0);
      if (rv || (ep && !e)) hm_violation("c14:readfile:missing-file-accepted", "no error"); if (e) xrl_error_free(e);
      check_array(&A, "missing-file");
    } else if (op < 76) {
      e = NULL; LAST("Crystal_GetCrystal(absent)"); TR("getabsent;"); s = Crystal_GetCrystal("no such crystal!", A.arr, ep); count_op(OP_GET_ABSENT, 0);
      if (s || (ep && !e)) hm_violation("c14:absent-lookup-succeeded", "non-NULL or no error"); if (s) Crystal_Free(s); if (e) xrl_error_free(e);
    } else if (op < 78) {
      e = NULL; LAST("Crystal_GetCrystal(NULL)"); TR("getnull;"); s = Crystal_GetCrystal(NULL, A.arr, ep); count_op(OP_GET_NULL, 0);
      if (s || (ep && !e)) hm_violation("c14:null-lookup-succeeded", "non-NULL or no error"); if (s) Crystal_Free(s); if (e) xrl_error_free(e);
    } else if (op < 88) {                                                   /* ---- copies stay valid after the original and the array entry are gone */
      Crystal_Struct *g, *cp; int k;
      if (!A.n) continue;
      k = xv_below(&r, A.n); e = NULL; LAST("Crystal_MakeCopy(%s)", A.c[k].name); TR("copy(%s);", A.c[k].name);
      g = Crystal_GetCrystal(A.c[k].name, A.arr, &e); if (e) { xrl_error_free(e); e = NULL; }
      if (!g) continue;
      cp = Crystal_MakeCopy(g, &e); count_op(OP_COPY, cp ? 0 : 1);
      if (g->n_atom > 0) g->atom[0].Zatom = -5; g->name[0] = '!'; Crystal_Free(g);
      if (!cp || e) { hm_violation("c14:makecopy-failed", e ? e->message : "NULL"); if (e) xrl_error_free(e); }
      if (cp) { if (!same_crystal(cp, &A.c[k], !builtin, why, sizeof why)) hm_violation("c14:copy-differs-after-original-freed", why); Crystal_Free(cp); }
    } else if (op < 94) {
      TR("list;"); count_op(OP_LIST, 0); check_array(&A, "list");
    } else if (!builtin) {                                                  /* ---- free everything, start again with a new capacity */
      LAST("Crystal_ArrayFree"); TR("free;"); Crystal_ArrayFree(A.arr); free(A.c); A.c = NULL; A.n = 0; count_op(OP_REINIT, 0);
      if (hm_alloc() > b0) { hm_violation("c14:arrayfree-leaves-memory", "allocation balance above the start of the history after Crystal_ArrayFree"); b0 = hm_alloc(); }
      A.cap0 = xv_below(&r, 13); e = NULL; A.arr = Crystal_ArrayInit(A.cap0, &e); TR("init(%d);", A.cap0);
      if (!A.arr) { hm_violation("c14:arrayinit-failed", e ? e->message : "NULL"); if (e) xrl_error_free(e); return; }
    }
  }
  if (!builtin) { LAST("final Crystal_ArrayFree"); Crystal_ArrayFree(A.arr); }
  free(A.c);
  if (!builtin && hm_alloc() > b0) hm_violation("c14:arrayfree-leaves-memory", "allocation balance above the start of the history after the final Crystal_ArrayFree");
  hm_opcount[60][A.grew ? 1 : 0]++;
}

#include "histmon_alloc.c"

/* ================================================================== main */
int main(int argc, char **argv) {
  int a, k, j, maxlen = 200, builtin = 0; long n = 100, only = -1, h; const char *out = NULL, *mode, *lastp = NULL; char tmpdir[256];
  if (argc < 2) { fprintf(stderr, "usage: histmon crystal|alloc ...\n"); return 2; }
  mode = argv[1]; hm_seed = xv_seed_env();
  for (a = 2; a < argc; a++) {
    if (!strcmp(argv[a], "--histories") && a + 1 < argc) n = atol(argv[++a]);
    else if (!strcmp(argv[a], "--maxlen") && a + 1 < argc) maxlen = atoi(argv[++a]);
    else if (!strcmp(argv[a], "--out") && a + 1 < argc) out = argv[++a];
    else if (!strcmp(argv[a], "--only") && a + 1 < argc) only = atol(argv[++a]);
    else if (!strcmp(argv[a], "--builtin")) builtin = 1;
    else if (!strcmp(argv[a], "--lastcall") && a + 1 < argc) lastp = argv[++a];
    else if (!strcmp(argv[a], "--shard") && a + 1 < argc) sscanf(argv[++a], "%d/%d", &hm_shard, &hm_nshards);
    else { fprintf(stderr, "histmon: bad argument %s\n", argv[a]); return 2; }
  }
  if (!out) return 2;
  if (lastp) { int fd = open(lastp, O_RDWR | O_CREAT | O_TRUNC, 0644); if (fd >= 0 && ftruncate(fd, sizeof(hm_last_t)) == 0) { void *m = mmap(NULL, sizeof(hm_last_t), PROT_READ | PROT_WRITE, MAP_SHARED, fd, 0); if (m != MAP_FAILED) hm_last = (hm_last_t *)m; } }
  snprintf(tmpdir, sizeof tmpdir, "%s.files", out); mkdir(tmpdir, 0755);
  for (h = 0; h < n; h++) {
    long hno = h * hm_nshards + hm_shard;
    if (only >= 0 && hno != only) continue;
    hm_last->history = hno; hm_last->step = -1; LAST("start");
    if (!strcmp(mode, "crystal")) crystal_history(hno, maxlen, builtin, tmpdir);
    else if (!strcmp(mode, "alloc")) alloc_history(hno, maxlen);
    else { fprintf(stderr, "histmon: unknown mode %s\n", mode); return 2; }
    if (builtin) break;   /* the built-in array cannot be reset: one history per process */
  }
  rmdir(tmpdir);
  hm_last->history = -2; LAST("done");
  hm_out = fopen(out, "w"); if (!hm_out) return 2;
  for (k = 0; k < hm_nv; k++) { fprintf(hm_out, "{\"type\":\"viol\",\"key\":"); hm_json_str(hm_out, hm_v[k].key); fprintf(hm_out, ",\"what\":"); hm_json_str(hm_out, hm_v[k].what);
    fprintf(hm_out, ",\"witness\":"); hm_json_str(hm_out, hm_v[k].witness); fprintf(hm_out, ",\"count\":%ld}\n", hm_v[k].count); }
  for (k = 0; k < 64; k++) for (j = 0; j < 4; j++) if (hm_opcount[k][j]) { fprintf(hm_out, "{\"type\":\"op\",\"op\":"); hm_json_str(hm_out, k == 60 ? "history-crossed-capacity" : (hm_opname[k] ? hm_opname[k] : "?")); fprintf(hm_out, ",\"outcome\":%d,\"count\":%ld}\n", j, hm_opcount[k][j]); }
  for (k = 0; k < T_NTYPES; k++) if (al_created[k]) { fprintf(hm_out, "{\"type\":\"op\",\"op\":"); hm_json_str(hm_out, al_tname[k]); fprintf(hm_out, ",\"outcome\":0,\"count\":%ld}\n", al_created[k]); }
  if (al_ok_ops || al_failed_ops) fprintf(hm_out, "{\"type\":\"op\",\"op\":\"library-calls-succeeded\",\"outcome\":0,\"count\":%ld}\n{\"type\":\"op\",\"op\":\"library-calls-failed\",\"outcome\":1,\"count\":%ld}\n", al_ok_ops, al_failed_ops);
  fprintf(hm_out, "{\"type\":\"summary\",\"mode\":\"%s\",\"histories\":%ld,\"steps\":%ld,\"checks\":%ld,\"asan\":%d,\"seed\":%llu}\n", mode, only >= 0 ? 1 : (builtin ? 1 : n), hm_steps, hm_checks, XV_ASAN, (unsigned long long)hm_seed);
  fclose(hm_out);
  return 0;
}
