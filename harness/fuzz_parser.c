/* libFuzzer target: hostile strings through the parser and every string-taking entry point (C04/C07 thorough tier).
 * The contract monitor is inline: NULL <=> error, no NaN in an accepted composition, locale untouched. */
#include "mon_common.h"
#include <locale.h>

int LLVMFuzzerTestOneInput(const uint8_t *data, size_t size) {
  char buf[300]; xrl_error *e = NULL; struct compoundData *cd; struct compoundDataNIST *cn; struct radioNuclideData *rn; Crystal_Struct *cs; int k; double v;
  if (size > 280) size = 280;
  memcpy(buf, data, size); buf[size] = 0;
  cd = CompoundParser(buf, &e);
  if ((cd == NULL) == (e == NULL)) { fprintf(stderr, "CONTRACT: CompoundParser NULL/error mismatch on '%s'\n", buf); abort(); }
  if (cd) {
    double sum = 0; for (k = 0; k < cd->nElements; k++) { if (!(cd->massFractions[k] > 0) || !(cd->nAtoms[k] > 0) || (k && cd->Elements[k] <= cd->Elements[k - 1])) { fprintf(stderr, "CONTRACT: malformed composition for '%s'\n", buf); abort(); } sum += cd->massFractions[k]; }
    if (!(fabs(sum - 1.0) < 1e-9) || !(cd->molarMass > 0)) { fprintf(stderr, "CONTRACT: fractions of '%s' sum to %g\n", buf, sum); abort(); }
    FreeCompoundData(cd);
  }
  if (e) xrl_clear_error(&e);
  v = CS_Total_CP(buf, 10.0, &e); if ((v == 0.0) != (e != NULL) || !isfinite(v)) { fprintf(stderr, "CONTRACT: CS_Total_CP('%s') = %g, error %p\n", buf, v, (void *)e); abort(); } if (e) xrl_clear_error(&e);
  v = Refractive_Index_Im(buf, 8.0, 1.0, &e); if ((v == 0.0) != (e != NULL) || !isfinite(v)) { fprintf(stderr, "CONTRACT: Refractive_Index_Im('%s')\n", buf); abort(); } if (e) xrl_clear_error(&e);
  cn = GetCompoundDataNISTByName(buf, &e); if (cn) FreeCompoundDataNIST(cn); if (e) xrl_clear_error(&e);
  rn = GetRadioNuclideDataByName(buf, &e); if (rn) FreeRadioNuclideData(rn); if (e) xrl_clear_error(&e);
  cs = Crystal_GetCrystal(buf, NULL, &e); if (cs) Crystal_Free(cs); if (e) xrl_clear_error(&e);
  SymbolToAtomicNumber(buf, &e); if (e) xrl_clear_error(&e);
  return 0;
}
