/* xrlmon: runtime monitor / executor for xraylib (see /verif/DESIGN.md section 1.2)
 *   xrlmon exec  req str resp msg
 *   xrlmon sweep --shard k/n --budget N --out FILE [--lastcall FILE] [--skipfn F] [--onlyfn F]
 *   xrlmon lastcall FILE         decode the last-call slot written by a sweep
 */
#include "mon_common.h"
#include "mon_exec.c"
#include "mon_sweep.c"

static int lastcall_main(int argc, char **argv) {
  sw_last_t l; FILE *f; char w[600];
  if (argc < 3) return 2;
  f = fopen(argv[2], "rb"); if (!f) return 2;
  if (fread(&l, sizeof l, 1, f) != 1) { fclose(f); return 2; }
  fclose(f);
  l.s[sizeof l.s - 1] = 0; l.special[sizeof l.special - 1] = 0;
  if (l.id >= 0 && l.id < XV_NFN) { sw_witness_num(w, sizeof w, l.id, l.I, l.D, l.has_s ? l.s : NULL); printf("%s\t%s\n", XV_FN[l.id].name, w); }
  else { char fn[64]; int k = 0; while (l.special[k] && l.special[k] != '(' && k < 63) { fn[k] = l.special[k]; k++; } fn[k] = 0; printf("%s\t%s\n", fn, l.special); }
  return 0;
}

int main(int argc, char **argv) {
  if (argc < 2) { fprintf(stderr, "usage: xrlmon exec|sweep|lastcall ...\n"); return 2; }
  if (!strcmp(argv[1], "exec")) return xe_main(argc, argv);
  if (!strcmp(argv[1], "sweep")) return sw_main(argc, argv);
  if (!strcmp(argv[1], "lastcall")) return lastcall_main(argc, argv);
  fprintf(stderr, "xrlmon: unknown mode %s\n", argv[1]);
  return 2;
}
