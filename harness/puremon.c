/* puremon: purity monitor (C16), linked against the SHARED plain library (libxrl-verif.so, -z now).
 *
 *   puremon <requests> <strings> <responses> <messages> <report>
 *
 * Executes the request stream like `xrlmon exec`, and around it observes what a pure query must leave untouched:
 *   - FNV-1a hash of every writable PT_LOAD segment of the library (name-agnostic: any static cache, scratch buffer
 *     or table normalised in place shows up even if results stay right)
 *   - setlocale(LC_ALL, NULL), getcwd(), bytes written to fd 1 / fd 2
 *   - the first error objects returned are kept alive (not freed) with a private copy, and re-compared at the end.
 * Request id 2000 (puremon only) inserts a crystal into the built-in collection: used to prove the hash can see writes.
 */
#include "mon_common.h"
#include <link.h>
#include "mon_exec.c"

static uint64_t pm_h; static size_t pm_nb, pm_tls; static int pm_nseg;
static int pm_cb(struct dl_phdr_info *i, size_t sz, void *d) {
  int k; (void)sz; (void)d;
  if (!i->dlpi_name || !strstr(i->dlpi_name, "libxrl")) return 0;
  for (k = 0; k < i->dlpi_phnum; k++) { const ElfW(Phdr) *p = &i->dlpi_phdr[k];
    if (p->p_type == PT_LOAD && (p->p_flags & PF_W)) { pm_h = xv_fnv((const void *)(i->dlpi_addr + p->p_vaddr), p->p_memsz, pm_h); pm_nb += p->p_memsz; pm_nseg++; }
    /* thread-local storage of the library (this thread's block; before it is instantiated: its initialisation image, zero-extended) */
    if (p->p_type == PT_TLS && p->p_memsz) { size_t j; pm_tls += p->p_memsz;
      if (i->dlpi_tls_data) pm_h = xv_fnv(i->dlpi_tls_data, p->p_memsz, pm_h);
      else { static const unsigned char z = 0; pm_h = xv_fnv((const void *)(i->dlpi_addr + p->p_vaddr), p->p_filesz, pm_h); for (j = p->p_filesz; j < p->p_memsz; j++) pm_h = xv_fnv(&z, 1, pm_h); } } }
  return 0;
}
#include <dirent.h>
static int pm_nfd(void) { int n = 0; DIR *d = opendir("/proc/self/fd"); struct dirent *e; if (!d) return -1; while ((e = readdir(d))) if (e->d_name[0] != '.') n++; closedir(d); return n; }
static uint64_t pm_hash(void) { pm_h = XV_FNV0; pm_nb = 0; pm_nseg = 0; pm_tls = 0; dl_iterate_phdr(pm_cb, NULL); return pm_h; }

/* request 2001: an episode on a caller-owned crystal array (explicitly allowed to be modified; the process and the
 * built-in tables are not).  i[0] selects the variant; the observable result goes into the response like any query. */
static void pm_write(const char *path, const char *txt) { FILE *f = fopen(path, "w"); if (f) { fputs(txt, f); fclose(f); } }
static void pm_user_array(const xv_req *r, xv_resp *o, xrl_error **e, const char *base) {
  static int files; static char good[700], bad[700], dup[700], empty[700], nodef[700];
  Crystal_Array *a; Crystal_Struct *c, *g; int rv = 0, n = -1; char **l;
  if (!files) { files = 1;
    snprintf(good, sizeof good, "%s.good.dat", base); snprintf(bad, sizeof bad, "%s.bad.dat", base); snprintf(dup, sizeof dup, "%s.dup.dat", base);
    pm_write(good, "#F xv\n#S 14 XvA\n#UCELL 5.5 6.25 7.125 80.5 95.25 101.75\n#N 5\n#L Z F X Y Z\n14 1.0 0 0 0\n8 0.5 0.25 0.5 0.75\n#S 6 XvB\n#UCELL 3.5 3.5 3.5 90 90 90\n#L x\n6 1 0 0 0\n#EOF\n");
    pm_write(bad, "#F xv\n#S 14 XvA\n#UCELL 5.5 6.25 7.125 80.5 95.25 101.75\n#N 5\n#L Z F X Y Z\n14 1.0 0 0 0\n#S 6 XvB\n#USYSTEM no cell line\n#L x\n6 1 0 0 0\n#EOF\n");
    snprintf(empty, sizeof empty, "%s.empty.dat", base); snprintf(nodef, sizeof nodef, "%s.nodef.dat", base);
    pm_write(empty, ""); pm_write(nodef, "#F xv\n#UT a file without any crystal definition\n\n#EOF\n");
    pm_write(dup, "#F xv\n#S 14 Aaa\n#UCELL 5 5 5 90 90 90\n#L x\n14 1 0 0 0\n#S 14 Si\n#UCELL 4 4 4 90 90 90\n#L x\n14 1 0 0 0\n#EOF\n"); }
  a = Crystal_ArrayInit(r->i[1] & 3, NULL); if (!a) { o->status = 16; return; }
  c = Crystal_GetCrystal("Si", NULL, NULL); if (!c) { Crystal_ArrayFree(a); o->status = 16; return; }
  c->a = 6.5; c->b = 7.5; c->c = 8.5; c->alpha = 85; c->beta = 95; c->gamma = 100; c->volume = -1;    /* a user crystal that shares a built-in name */
  rv = Crystal_AddCrystal(c, a, NULL); Crystal_Free(c);
  switch (r->i[0]) {
  case 0: break;
  case 1: rv = rv * 10 + Crystal_ReadFile(good, a, e); break;
  case 2: rv = rv * 10 + Crystal_ReadFile(bad, a, e); break;
  case 3: rv = rv * 10 + Crystal_ReadFile("/nonexistent/xv.dat", a, e); break;
  case 5: rv = rv * 10 + Crystal_ReadFile(empty, a, e); break;
  case 6: rv = rv * 10 + Crystal_ReadFile(nodef, a, e); break;
  default: rv = rv * 10 + Crystal_ReadFile(dup, a, e); break;
  }
  g = Crystal_GetCrystal("Si", a, NULL);
  if (g) { o->v[0] = Crystal_dSpacing(g, 1, 1, 1, NULL); o->v[1] = g->volume; Crystal_Free(g); }
  g = Crystal_GetCrystal("XvA", a, NULL); if (g) { o->v[2] = Crystal_dSpacing(g, 1, -1, 2, NULL); Crystal_Free(g); }
  l = Crystal_GetCrystalsList(a, &n, NULL); if (l) { int k; for (k = 0; l[k]; k++) xrlFree(l[k]); xrlFree(l); }
  o->aux = rv * 100 + n;
  Crystal_ArrayFree(a);
}

/* requests 2002-2004: the three catalogue listings (count + hash of the names) */
static void pm_list(const xv_req *r, xv_resp *o, xrl_error **e) { int n = -1, k; uint64_t h = XV_FNV0; char **l;
  l = r->fn == 2002 ? GetCompoundDataNISTList(&n, e) : r->fn == 2003 ? GetRadioNuclideDataList(&n, e) : Crystal_GetCrystalsList(NULL, &n, e);
  if (l) { for (k = 0; l[k]; k++) { h = xv_fnv(l[k], strlen(l[k]) + 1, h); xrlFree(l[k]); } xrlFree(l); o->v[0] = (double)(h >> 11); }
  o->aux = n; }
/* request 2005: Crystal_ArrayInit(i[0]) - with INT_MAX the one call of the API that fails for want of memory */
static void pm_arrayinit(const xv_req *r, xv_resp *o, xrl_error **e) { Crystal_Array *a = Crystal_ArrayInit(r->i[0], e); o->aux = a != NULL; if (a) Crystal_ArrayFree(a); }
/* request 2006: several queries on ONE caller-owned crystal object (s = built-in name, i[0] = order of the queries, i[1] = 1: the
 * caller has edited the cell and left the stored volume alone).  Queries take the crystal as an input: they must not write to it,
 * and a query repeated on the same object must repeat its answer whatever was asked in between. */
static long pm_objmod, pm_objdep;
static uint64_t pm_crhash(const Crystal_Struct *c) { uint64_t h = XV_FNV0; h = xv_fnv(c->name, strlen(c->name) + 1, h); h = xv_fnv(&c->a, sizeof(double) * 7, h); h = xv_fnv(&c->n_atom, sizeof c->n_atom, h);
  if (c->n_atom > 0) h = xv_fnv(c->atom, sizeof(Crystal_Atom) * c->n_atom, h); return h; }
static void pm_object(const xv_req *r, xv_resp *o) {
  Crystal_Struct *g = Crystal_GetCrystal(xe_s(r->s), NULL, NULL); uint64_t h0; double d0, d1, b0, b1; xrlComplex f0, f1; int k, ord = r->i[0];
  if (!g) { o->status = 8; return; }
  if (r->i[1]) { g->a *= 1.01; g->gamma += 0.5; }
  h0 = pm_crhash(g);
  d0 = Crystal_dSpacing(g, 1, 1, 1, NULL); b0 = Bragg_angle(g, 12.0, 1, 1, 1, NULL); f0 = Crystal_F_H_StructureFactor(g, 12.0, 1, 1, 1, 1.0, 1.0, NULL);
  for (k = 0; k < 4; k++) switch ((ord >> (2 * k)) & 3) {
    case 0: Crystal_UnitCellVolume(g, NULL); break;
    case 1: Q_scattering_amplitude(g, 12.0, 2, 2, 0, 1.0, NULL); break;
    case 2: Crystal_F_H_StructureFactor_Partial(g, 20.0, 2, 2, 0, 1.0, 1.0, 2, 0, 2, NULL); break;
    default: { Crystal_Struct *c2 = Crystal_MakeCopy(g, NULL); if (c2) Crystal_Free(c2); } break; }
  d1 = Crystal_dSpacing(g, 1, 1, 1, NULL); b1 = Bragg_angle(g, 12.0, 1, 1, 1, NULL); f1 = Crystal_F_H_StructureFactor(g, 12.0, 1, 1, 1, 1.0, 1.0, NULL);
  if (pm_crhash(g) != h0) { pm_objmod++; o->aux |= 1; }
  if (xv_bits(d0) != xv_bits(d1) || xv_bits(b0) != xv_bits(b1) || xv_bits(f0.re) != xv_bits(f1.re) || xv_bits(f0.im) != xv_bits(f1.im)) { pm_objdep++; o->aux |= 2; }
  o->v[0] = d1; o->v[1] = f1.re; o->v[2] = g->volume;
  Crystal_Free(g); }

/* process state a library call may not touch, beyond locale / cwd / streams / descriptors: environment, umask, signal dispositions,
 * FP rounding mode, and the hidden cursors of libc (strtok position, rand sequence) that belong to the host program */
#include <signal.h>
#include <stdio_ext.h>
#include <sys/stat.h>
extern char **environ;
static uint64_t pm_procstate(void) { uint64_t h = XV_FNV0; int k; char **e; mode_t m = umask(0); umask(m); h = xv_fnv(&m, sizeof m, h);
  for (e = environ; e && *e; e++) h = xv_fnv(*e, strlen(*e) + 1, h);
  for (k = 1; k < 32; k++) { struct sigaction sa; memset(&sa, 0, sizeof sa); if (!sigaction(k, NULL, &sa)) { h = xv_fnv(&sa.sa_handler, sizeof sa.sa_handler, h); h = xv_fnv(&sa.sa_flags, sizeof sa.sa_flags, h); } }
  k = fegetround(); h = xv_fnv(&k, sizeof k, h);
  /* the buffering the HOST's standard streams are in (libc's FILE objects: the line-buffered flag) */
  { FILE *fs[3]; int j; fs[0] = stdin; fs[1] = stdout; fs[2] = stderr; for (j = 0; j < 3; j++) { int lb = __flbf(fs[j]) != 0; h = xv_fnv(&lb, sizeof lb, h); } }     /* (the buffer SIZE is decided at first use, e.g. by a deprecation notice on stderr: not state the library may not touch) */
#if defined(__x86_64__) || defined(__i386__)
  { unsigned int mx = 0; unsigned short cw = 0; __asm__ volatile("stmxcsr %0" : "=m"(mx)); __asm__ volatile("fnstcw %0" : "=m"(cw));
    mx &= 0xFFC0u;          /* control bits only (flush-to-zero, rounding, exception masks, denormals-are-zero), not the sticky status flags */
    h = xv_fnv(&mx, sizeof mx, h); h = xv_fnv(&cw, sizeof cw, h); }
#endif
  return h; }

#define KEEP 4000
typedef struct { xrl_error *e; int code; char *msg; char *msgptr; } pm_kept;

static const int pm_errnos[8] = { ENOMEM, 0, ERANGE, EDOM, EINVAL, ENOENT, EINTR, EAGAIN };

static int fpflags; static long deprec_bytes, legacy_calls;
int main(int argc, char **argv) {
  int poison = 0, nfd0, nfd1, tok_ok = 1, rnd_ok = 1, rnd_expect = 0; uint64_t ps0, ps1; char *tok_expect = NULL; FILE *f; long n, k; char *sbuf = NULL; long slen = 0; xv_req *rq; xv_resp *rs; pm_kept *kept; int nkept = 0, changed = 0;
  uint64_t h0, h1; char loc0[512], loc1[512], cwd0[1024], cwd1[1024], p1[600], p2[600]; int fd1, fd2; struct stat st1, st2; long added = 0;
  if (argc < 7 || strcmp(argv[1], "run")) { fprintf(stderr, "usage: puremon run req str resp msg report\n"); return 2; }
  setlocale(LC_ALL, "");
  f = fopen(argv[2], "rb"); if (!f) return 2;
  fseek(f, 0, SEEK_END); n = ftell(f) / (long)sizeof(xv_req); fseek(f, 0, SEEK_SET);
  rq = malloc(sizeof(xv_req) * (n + 1)); if (fread(rq, sizeof(xv_req), n, f) != (size_t)n) return 2; fclose(f);
  f = fopen(argv[3], "rb"); if (!f) return 2;
  fseek(f, 0, SEEK_END); slen = ftell(f); fseek(f, 0, SEEK_SET);
  sbuf = malloc(slen + 1); if (slen && fread(sbuf, 1, slen, f) != (size_t)slen) return 2; fclose(f); sbuf[slen] = 0;
  for (k = 0; k < slen; k++) if (sbuf[k] == 0) xe_nstr++;
  xe_str = malloc(sizeof(char *) * (xe_nstr + 1));
  { long p = 0; int j = 0; while (p < slen) { xe_str[j++] = sbuf + p; p += strlen(sbuf + p) + 1; } }
  rs = calloc(n + 1, sizeof(xv_resp)); kept = calloc(KEEP, sizeof(pm_kept));
  /* the library's stdout/stderr go to files whose size is measured */
  snprintf(p1, sizeof p1, "%s.fd1", argv[6]); snprintf(p2, sizeof p2, "%s.fd2", argv[6]);
  fd1 = open(p1, O_RDWR | O_CREAT | O_TRUNC, 0644); fd2 = open(p2, O_RDWR | O_CREAT | O_TRUNC, 0644);
  fflush(stdout); fflush(stderr); dup2(fd1, 1); dup2(fd2, 2);
  snprintf(loc0, sizeof loc0, "%s", setlocale(LC_ALL, NULL)); if (!getcwd(cwd0, sizeof cwd0)) cwd0[0] = 0;
  xv_fptrap_from_env();      /* host floating-point set-up (XV_ROUND, XV_X87PC, XV_FPTRAP) BEFORE the state is recorded: the calls may not change it */
  fpflags = getenv("XV_FPFLAGS") != NULL;
  h0 = pm_hash(); nfd0 = pm_nfd(); ps0 = pm_procstate();
  { static char tokbuf[] = "a;b;c"; strtok(tokbuf, ";"); tok_expect = tokbuf + 2; }       /* the host is in the middle of a strtok() walk ... */
  srand(12345); rnd_expect = rand(); srand(12345);                                            /* ... and of a rand() sequence */
  if (getenv("XV_XRAYINIT")) XRayInit();
  poison = getenv("XV_ERRNO") != NULL;
  for (k = 0; k < n; k++) {
    xrl_error *e = NULL; const xv_req *r = &rq[k]; xv_resp *o = &rs[k];
    o->msg = -1;
    if (poison) errno = pm_errnos[(k * 7 + 3) % 8];      /* what an arbitrary earlier call of the process may have left behind */
    if (fpflags && k % 2) feraiseexcept(FE_DIVBYZERO | FE_INVALID | FE_OVERFLOW | FE_UNDERFLOW | FE_INEXACT);   /* sticky status flags the host's own arithmetic left raised */
    if (r->fn >= 0 && r->fn < XV_NFN) o->v[0] = xv_call(r->fn, r->i, r->d, xe_s(r->s), &e);
    else if (r->fn >= 1000 && r->fn < XS_END) xe_special(r, o, &e);
    else if (r->fn == 2001) pm_user_array(r, o, &e, argv[6]);
    else if (r->fn >= 2002 && r->fn <= 2004) pm_list(r, o, &e);
    else if (r->fn == 2005) pm_arrayinit(r, o, &e);
    else if (r->fn == 2006) pm_object(r, o);
    else if (r->fn >= 2011 && r->fn <= 2015) {      /* the deprecated switches: nothing to compare; they may write their deprecation notice to stderr (counted apart), nothing else */
      struct stat sb, sa; fflush(stderr); fstat(fd2, &sb);
#pragma GCC diagnostic push
#pragma GCC diagnostic ignored "-Wdeprecated-declarations"
      switch (r->fn) { case 2011: SetHardExit(0); break; case 2012: SetExitStatus(0); break; case 2013: o->aux = 0 * GetExitStatus(); break; case 2014: SetErrorMessages(0); break; default: o->aux = 0 * GetErrorMessages(); break; }
#pragma GCC diagnostic pop
      fflush(stderr); fstat(fd2, &sa); deprec_bytes += (long)(sa.st_size - sb.st_size); legacy_calls++; }
    else if (r->fn == 2000) { Crystal_Struct *c = Crystal_GetCrystal("Si", NULL, NULL); if (c) { free(c->name); c->name = strdup(xe_s(r->s) ? xe_s(r->s) : "XvAdded"); o->aux = Crystal_AddCrystal(c, NULL, &e); added += o->aux; Crystal_Free(c); } }
    else o->status = 16;
    if (e) { o->status |= 1; o->code = (int)e->code; o->msg = xe_msgid(e->message);
      if (nkept < KEEP && (k % 3 == 0 || nkept < 64)) { kept[nkept].e = e; kept[nkept].code = (int)e->code; kept[nkept].msg = strdup(e->message); kept[nkept].msgptr = e->message; nkept++; }
      else xrl_error_free(e); }
  }
  for (k = 0; k < nkept; k++) { if ((int)kept[k].e->code != kept[k].code || kept[k].e->message != kept[k].msgptr || strcmp(kept[k].e->message, kept[k].msg)) changed++; }
  h1 = pm_hash(); nfd1 = pm_nfd(); ps1 = pm_procstate();
  { char *t = strtok(NULL, ";"); tok_ok = (t == tok_expect); rnd_ok = (rand() == rnd_expect); }
  snprintf(loc1, sizeof loc1, "%s", setlocale(LC_ALL, NULL)); if (!getcwd(cwd1, sizeof cwd1)) cwd1[0] = 0;
  fflush(stdout); fflush(stderr); fstat(fd1, &st1); fstat(fd2, &st2);
  for (k = 0; k < nkept; k++) { xrl_error_free(kept[k].e); free(kept[k].msg); }
  f = fopen(argv[4], "wb"); if (!f) return 2; if (fwrite(rs, sizeof(xv_resp), n, f) != (size_t)n) return 2; fclose(f);
  f = fopen(argv[5], "w"); if (!f) return 2;
  for (k = 0; k < xe_nmsg; k++) { char *p; for (p = xe_msg[k]; *p; p++) if (*p == '\n') *p = ' '; fprintf(f, "%s\n", xe_msg[k]); }
  fclose(f);
  f = fopen(argv[6], "w"); if (!f) return 2;
  fprintf(f, "{\"h0\":\"%016llx\",\"h1\":\"%016llx\",\"hashed_bytes\":%zu,\"segments\":%d,\"locale_before\":\"%s\",\"locale_after\":\"%s\",\"cwd_same\":%d,"
             "\"stdout_bytes\":%ld,\"stderr_bytes\":%ld,\"errors_kept\":%d,\"errors_changed\":%d,\"builtin_added\":%ld,\"requests\":%ld,\"caller_objects_modified\":%ld,\"answers_changed_on_same_object\":%ld,\"errno_poisoned\":%d,\"open_descriptors_before\":%d,\"open_descriptors_after\":%d,\"process_state_same\":%d,\"strtok_walk_intact\":%d,\"rand_sequence_intact\":%d,\"tls_bytes\":%zu,\"deprecation_notice_bytes\":%ld,\"deprecated_calls\":%ld}\n",
          (unsigned long long)h0, (unsigned long long)h1, pm_nb, pm_nseg, loc0, loc1, !strcmp(cwd0, cwd1), (long)st1.st_size, (long)st2.st_size, nkept, changed, added, n, pm_objmod, pm_objdep, poison, nfd0, nfd1, ps0 == ps1, tok_ok, rnd_ok, pm_tls, deprec_bytes, legacy_calls);
  fclose(f);
  unlink(p1); unlink(p2);
  { char t[700]; snprintf(t, sizeof t, "%s.good.dat", argv[6]); unlink(t); snprintf(t, sizeof t, "%s.bad.dat", argv[6]); unlink(t); snprintf(t, sizeof t, "%s.dup.dat", argv[6]); unlink(t);
    snprintf(t, sizeof t, "%s.empty.dat", argv[6]); unlink(t); snprintf(t, sizeof t, "%s.nodef.dat", argv[6]); unlink(t); }
  return 0;
}
