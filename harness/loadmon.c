/* loadmon: what LOADING the library does to the host process (C16).  Not linked against the library.
 *
 *   loadmon <path of libxrl.so> <report.json>
 *
 * The state a library may not touch is recorded three times - before dlopen, after dlopen (constructors, start-up objects the link pulled
 * in), after a few calls and dlclose - and printed component by component:
 *   floating-point control (MXCSR control bits: flush-to-zero, denormals-are-zero, rounding, exception masks; x87 control word; fegetround),
 *   what arithmetic on subnormal numbers gives, numeric locale and LC_ALL, working directory, umask, signal dispositions, environment,
 *   open descriptors, the rand() sequence position, stdout/stderr bytes (none may be written).
 */
#define _GNU_SOURCE
#include <dlfcn.h>
#include <dirent.h>
#include <fenv.h>
#include <locale.h>
#include <signal.h>
#include <stdint.h>
#include <stdio.h>
#include <stdlib.h>
#include <string.h>
#include <sys/stat.h>
#include <unistd.h>

extern char **environ;
static uint64_t fnv(const void *p, size_t n, uint64_t h) { const unsigned char *b = p; size_t i; for (i = 0; i < n; i++) { h ^= b[i]; h *= 1099511628211ULL; } return h; }
static int nfd(void) { int n = 0; DIR *d = opendir("/proc/self/fd"); struct dirent *e; if (!d) return -1; while ((e = readdir(d))) if (e->d_name[0] != '.') n++; closedir(d); return n; }

static void state(FILE *f, const char *when) {
  unsigned int mx = 0; unsigned short cw = 0; char cwd[4096]; mode_t m; int k; uint64_t hs = 14695981039346656037ULL, he = hs; char **e;
  volatile double tiny = 1e-310, mn = 2.2250738585072014e-308, q4 = 0.25, one = 1.0;
  volatile double a = tiny * one, b = mn * q4, c = tiny + tiny;
#if defined(__x86_64__) || defined(__i386__)
  __asm__ volatile("stmxcsr %0" : "=m"(mx)); __asm__ volatile("fnstcw %0" : "=m"(cw));
#endif
  if (!getcwd(cwd, sizeof cwd)) cwd[0] = 0;
  m = umask(0); umask(m);
  for (k = 1; k < 32; k++) { struct sigaction sa; memset(&sa, 0, sizeof sa); if (!sigaction(k, NULL, &sa)) { hs = fnv(&sa.sa_handler, sizeof sa.sa_handler, hs); hs = fnv(&sa.sa_flags, sizeof sa.sa_flags, hs); } }
  for (e = environ; e && *e; e++) he = fnv(*e, strlen(*e) + 1, he);
  fprintf(f, "\"%s\":{\"mxcsr_control\":%u,\"x87_control\":%u,\"rounding\":%d,\"subnormal_times_one_is_nonzero\":%d,\"min_normal_quarter_is_nonzero\":%d,"
             "\"subnormal_sum_is_nonzero\":%d,\"lc_all\":\"%s\",\"decimal_point\":\"%s\",\"cwd\":\"%s\",\"umask\":%u,\"signals\":\"%016llx\",\"environ\":\"%016llx\",\"descriptors\":%d}",
          when, mx & 0xFFC0u, (unsigned)cw, fegetround(), a != 0.0, b != 0.0, c != 0.0, setlocale(LC_ALL, NULL), localeconv()->decimal_point, cwd, (unsigned)m,
          (unsigned long long)hs, (unsigned long long)he, nfd());
}

int main(int argc, char **argv) {
  FILE *f; void *h; int calls = 0;
  if (argc < 3) return 2;
  if (getenv("XV_SETLOCALE")) setlocale(LC_ALL, "");
  f = fopen(argv[2], "w"); if (!f) return 2;
  fprintf(f, "{");
  state(f, "before_load"); fprintf(f, ",");
  h = dlopen(argv[1], RTLD_NOW | RTLD_GLOBAL);
  if (!h) { fprintf(f, "\"dlopen_error\":\"%s\"}", dlerror()); fclose(f); return 3; }
  state(f, "after_load"); fprintf(f, ",");
  { double (*aw)(int, void *) = (double (*)(int, void *))dlsym(h, "AtomicWeight"); double (*cs)(int, double, void *) = (double (*)(int, double, void *))dlsym(h, "CS_Total");
    double (*cp)(const char *, double, void *) = (double (*)(const char *, double, void *))dlsym(h, "CS_Total_CP"); void (*xi)(void) = (void (*)(void))dlsym(h, "XRayInit");
    volatile double s = 0; int z;
    if (xi) { xi(); calls++; }
    for (z = 0; z < 110; z++) { if (aw) { s += aw(z, NULL); calls++; } if (cs) { s += cs(z, 10.0 + z, NULL); calls++; } }
    if (cp) { s += cp("Ca5(PO4)3F", 12.5, NULL); s += cp("no such thing", 12.5, NULL); calls += 2; } }
  state(f, "after_calls"); fprintf(f, ",");
  dlclose(h);
  state(f, "after_unload");
  fprintf(f, ",\"calls\":%d}\n", calls);
  fclose(f);
  return 0;
}
