import com.github.tschoonj.xraylib.*;
import org.apache.commons.math3.complex.Complex;
import java.io.*;
import java.lang.reflect.*;
import java.nio.*;
import java.nio.file.*;
import java.util.*;

/** JMon: differential monitor of the pure-Java implementation against recorded C results (C19).
 *  JMon <requests> <strings> <c-responses> <fntable> <out>     fntable: lines "id name sig" of the generated dispatch table */
public class JMon {
  static final int REQ = 112, RESP = 40;
  static String[] strs;
  static final Map<String, long[]> stats = new TreeMap<>();          // fn -> calls, values compared, errors agreed
  static final Map<String, String[]> viol = new TreeMap<>();         // key -> what, witness
  static final Map<String, Long> violCount = new TreeMap<>();
  static long edgeCompared = 0, edgeSkipped = 0;
  static double worstRel = 0; static String worstWhere = "";

  static void violation(String key, String what, String witness) {
    violCount.merge(key, 1L, Long::sum);
    if (!viol.containsKey(key)) viol.put(key, new String[]{what, witness});
  }
  static String S(int i) { return (i < 0 || i >= strs.length) ? null : strs[i]; }

  static boolean close(double c, double j) {
    if (Double.isNaN(c) && Double.isNaN(j)) return true;
    if (c == j) return true;
    double d = Math.abs(c - j), tol = 5e-8 * Math.abs(c) + 1e-300;
    return d <= tol;
  }

  static String esc(String s) {
    if (s == null) return "null";
    StringBuilder b = new StringBuilder("\"");
    for (char ch : s.toCharArray()) { if (ch == '"' || ch == '\\') { b.append('\\').append(ch); } else if (ch < 32 || ch > 126) b.append('?'); else b.append(ch); }
    return b.append('"').toString();
  }

  interface Call { double[] run() throws Throwable; }

  public static void main(String[] a) throws Exception {
    ByteBuffer rq = ByteBuffer.wrap(Files.readAllBytes(Paths.get(a[0]))).order(ByteOrder.LITTLE_ENDIAN);
    byte[] sb = Files.readAllBytes(Paths.get(a[1]));
    ByteBuffer rs = ByteBuffer.wrap(Files.readAllBytes(Paths.get(a[2]))).order(ByteOrder.LITTLE_ENDIAN);
    List<String> sl = new ArrayList<>(); int p0 = 0;
    for (int i = 0; i < sb.length; i++) if (sb[i] == 0) { sl.add(new String(sb, p0, i - p0, java.nio.charset.StandardCharsets.UTF_8)); p0 = i + 1; }
    strs = sl.toArray(new String[0]);
    Map<Integer, String> fname = new HashMap<>(), fsig = new HashMap<>();
    for (String l : Files.readAllLines(Paths.get(a[3]))) { String[] t = l.trim().split(" "); if (t.length >= 3) { fname.put(Integer.parseInt(t[0]), t[1]); fsig.put(Integer.parseInt(t[0]), t[2]); } }
    Map<Integer, Method> meth = new HashMap<>(); Set<String> noCounterpart = new TreeSet<>();
    int n = rq.capacity() / REQ;
    for (int k = 0; k < n; k++) {
      final int o = k * REQ; final int fn = rq.getInt(o);
      final int[] I = new int[6]; for (int j = 0; j < 6; j++) I[j] = rq.getInt(o + 4 + 4 * j);
      final int si = rq.getInt(o + 28); final double[] D = new double[10]; for (int j = 0; j < 10; j++) D[j] = rq.getDouble(o + 32 + 8 * j);
      final String s = S(si);
      int ro = k * RESP; int status = rs.getInt(ro); double[] cv = { rs.getDouble(ro + 8), rs.getDouble(ro + 16), rs.getDouble(ro + 24) }; int caux = rs.getInt(ro + 36);
      boolean cerr = (status & 1) != 0;
      String name; Call call; int nv = 1; boolean useAux = false;
      if (fn < 1000) {
        name = fname.get(fn); final String sig = fsig.get(fn);
        if (name == null) continue;
        Method m = meth.get(fn);
        if (m == null && !meth.containsKey(fn)) {
          Class<?>[] cl = new Class<?>[sig.length()];
          for (int j = 0; j < sig.length(); j++) cl[j] = sig.charAt(j) == 'i' ? int.class : sig.charAt(j) == 'd' ? double.class : String.class;
          try { m = Xraylib.class.getMethod(name, cl); if (!Modifier.isStatic(m.getModifiers()) || m.getReturnType() != double.class) m = null; } catch (NoSuchMethodException e) { m = null; }
          meth.put(fn, m);
          if (m == null) noCounterpart.add(name);
        }
        if (m == null) continue;
        final Method mm = m;
        call = () -> { Object[] args = new Object[sig.length()]; int ii = 0, dd = 0;
          for (int j = 0; j < sig.length(); j++) { char ch = sig.charAt(j); if (ch == 'i') args[j] = I[ii++]; else if (ch == 'd') args[j] = D[dd++]; else args[j] = s; }
          try { return new double[]{ (Double) mm.invoke(null, args) }; } catch (InvocationTargetException e) { throw e.getCause(); } };
      } else {
        switch (fn) {
          case 1000: name = "Refractive_Index"; nv = 2; call = () -> { Complex z = Xraylib.Refractive_Index(s, D[0], D[1]); return new double[]{ z.getReal(), z.getImaginary() }; }; break;
          case 1001: name = "Crystal_dSpacing"; call = () -> new double[]{ Xraylib.Crystal_dSpacing(cr(s), I[0], I[1], I[2]) }; break;
          case 1002: name = "Bragg_angle"; call = () -> new double[]{ Xraylib.Bragg_angle(cr(s), D[0], I[0], I[1], I[2]) }; break;
          case 1003: name = "Q_scattering_amplitude"; call = () -> new double[]{ Xraylib.Q_scattering_amplitude(cr(s), D[0], I[0], I[1], I[2], D[1]) }; break;
          case 1004: name = "Crystal_F_H_StructureFactor"; nv = 2; call = () -> { Complex z = Xraylib.Crystal_F_H_StructureFactor(cr(s), D[0], I[0], I[1], I[2], D[1], D[2]); return new double[]{ z.getReal(), z.getImaginary() }; }; break;
          case 1005: name = "Crystal_F_H_StructureFactor_Partial"; nv = 2; call = () -> { Complex z = Xraylib.Crystal_F_H_StructureFactor_Partial(cr(s), D[0], I[0], I[1], I[2], D[1], D[2], I[3], I[4], I[5]); return new double[]{ z.getReal(), z.getImaginary() }; }; break;
          case 1006: name = "Crystal_UnitCellVolume"; nv = 2; call = () -> { Crystal_Struct c = cr(s); return new double[]{ Xraylib.Crystal_UnitCellVolume(c), c.volume }; }; break;
          case 1007: name = "Atomic_Factors"; nv = 3; call = () -> Xraylib.Atomic_Factors(I[0], D[0], D[1], D[2]); break;
          case 1008: name = "SymbolToAtomicNumber"; call = () -> new double[]{ Xraylib.SymbolToAtomicNumber(s) }; break;
          case 1009: name = "CompoundParser"; nv = 3; useAux = true; call = () -> { compoundData c = Xraylib.CompoundParser(s); double h = 0; for (int j = 0; j < c.nElements; j++) h += c.Elements[j] * c.massFractions[j] + 1e3 * (j + 1) * c.nAtoms[j];
                     for (int j = 0; j < c.nElements; j++) { c.massFractions[j] = -1; c.nAtoms[j] = -1; c.Elements[j] = 0; }
                     return new double[]{ c.nAtomsAll, c.molarMass, h, c.nElements }; }; break;
          case 1010: case 1011: name = fn == 1010 ? "GetCompoundDataNISTByName" : "GetCompoundDataNISTByIndex"; nv = 3; useAux = true; call = () -> { compoundDataNIST c = fn == 1010 ? Xraylib.GetCompoundDataNISTByName(s) : Xraylib.GetCompoundDataNISTByIndex(I[0]);
                     double h = 0, g = 0; for (int j = 0; j < c.nElements; j++) { h += c.Elements[j] * c.massFractions[j]; g += (j + 1) * c.massFractions[j]; }
                     /* the caller owns what a lookup returns (C hands out a fresh copy): scribble on it - later lookups of the same entry must not notice */
                     for (int j = 0; j < c.nElements; j++) { c.massFractions[j] *= 100.0; c.Elements[j] = 0; }
                     return new double[]{ c.density, h, g, c.nElements }; }; break;
          case 1012: case 1013: name = fn == 1013 ? "GetRadioNuclideDataByName" : "GetRadioNuclideDataByIndex"; nv = 3; useAux = true; call = () -> { radioNuclideData c = fn == 1013 ? Xraylib.GetRadioNuclideDataByName(s) : Xraylib.GetRadioNuclideDataByIndex(I[0]);
                     double h = 0, g = 0; for (int j = 0; j < c.nXrays; j++) h += c.XrayIntensities[j] * (c.XrayLines[j] - 1000 * j); for (int j = 0; j < c.nGammas; j++) g += c.GammaEnergies[j] * c.GammaIntensities[j] * (j + 1);
                     for (int j = 0; j < c.nXrays; j++) { c.XrayIntensities[j] = -1; c.XrayLines[j] = 0; } for (int j = 0; j < c.nGammas; j++) { c.GammaEnergies[j] = -1; c.GammaIntensities[j] = -1; }
                     return new double[]{ c.N + 1000.0 * c.Z_xray + 1e6 * c.nXrays + 1e9 * c.nGammas, h, g, c.Z * 1000 + c.A }; }; break;
          case 1014: name = "AtomicNumberToSymbol"; call = () -> { String t = Xraylib.AtomicNumberToSymbol(I[0]); return new double[]{ t.charAt(0) + (t.length() > 1 ? 256.0 * t.charAt(1) : 0) + (t.length() > 2 ? 65536.0 * t.charAt(2) : 0) }; }; break;
          default: continue;
        }
      }
      if (fn < 1000 && D[9] == 3.0) {           /* energy exactly on an edge: only where Java's edge is the very same double as C's */
        boolean same = false; int nd = 0; for (int j = 0; j < fsig.get(fn).length(); j++) if (fsig.get(fn).charAt(j) == 'd') nd++;
        try { same = nd == 1 && Double.doubleToLongBits(Xraylib.EdgeEnergy(I[0], I[5])) == Double.doubleToLongBits(D[0]); } catch (Throwable t) { same = false; }
        if (!same) { edgeSkipped++; continue; }
        edgeCompared++;
      }
      long[] st = stats.computeIfAbsent(name, x -> new long[4]); st[0]++;
      double[] jv = null; Throwable ex = null;
      try { jv = call.run(); } catch (Throwable t) { ex = t; }
      String wit = name + " i=" + Arrays.toString(I) + " d=[" + D[0] + "," + D[1] + "," + D[2] + "," + D[3] + "] s=" + esc(s);
      if (ex instanceof Error && !(ex instanceof StackOverflowError)) { violation("c19:" + name + ":java-vm-error", ex.toString(), wit); continue; }
      if (cerr && ex != null) { st[2]++; continue; }
      if (cerr) { violation("c19:" + name + ":java-returns-where-c-fails", "C reports an error, Java returned " + Arrays.toString(jv), wit); continue; }
      if (ex != null) { violation("c19:" + name + ":java-throws-where-c-succeeds", "C returned " + cv[0] + ", Java threw " + ex, wit); continue; }
      boolean ok = true;
      double extra = (fn == 1004 || fn == 1005) ? 5e-9 * scale(s) : 0.0;     /* structure factors cancel: tolerance relative to the size of the terms */
      for (int j = 0; j < nv && ok; j++) {
        if (!close(cv[j], jv[j]) && !(Math.abs(cv[j] - jv[j]) <= extra)) { ok = false; violation("c19:" + name + ":different-value", "C=" + cv[j] + " Java=" + jv[j] + " (component " + j + ")", wit); }
        else if (cv[j] != 0 && !Double.isNaN(cv[j])) { double rel = Math.abs(cv[j] - jv[j]) / Math.abs(cv[j]); if (rel > worstRel) { worstRel = rel; worstWhere = wit; } }
      }
      if (ok && useAux && (int) jv[nv] != caux) { ok = false; violation("c19:" + name + ":different-object", "C aux=" + caux + " Java=" + (int) jv[nv], wit); }
      if (ok) st[1]++;
    }
    try (PrintWriter w = new PrintWriter(new BufferedWriter(new FileWriter(a[4])))) {
      for (Map.Entry<String, String[]> e : viol.entrySet())
        w.println("{\"type\":\"viol\",\"key\":" + esc(e.getKey()) + ",\"what\":" + esc(e.getValue()[0]) + ",\"witness\":" + esc(e.getValue()[1]) + ",\"count\":" + violCount.get(e.getKey()) + "}");
      for (Map.Entry<String, long[]> e : stats.entrySet())
        w.println("{\"type\":\"fn\",\"fn\":" + esc(e.getKey()) + ",\"calls\":" + e.getValue()[0] + ",\"values_compared\":" + e.getValue()[1] + ",\"errors_agreed\":" + e.getValue()[2] + "}");
      for (String s : noCounterpart) w.println("{\"type\":\"nocounterpart\",\"fn\":" + esc(s) + "}");
      w.println("{\"type\":\"summary\",\"exact_edge_compared\":" + edgeCompared + ",\"exact_edge_skipped\":" + edgeSkipped + ",\"requests\":" + n + ",\"worst_rel\":" + worstRel + ",\"worst_where\":" + esc(worstWhere) + "}");
    }
  }

  static final Map<String, Crystal_Struct> crystals = new HashMap<>();
  /* the C build stores its built-in crystal table in single precision: compare against the same rounded data */
  static Crystal_Struct cr(String name) { if (name == null) return null; Crystal_Struct c = crystals.get(name);
    if (c == null) { c = XvCrystals.floatRounded(Xraylib.Crystal_GetCrystal(name)); crystals.put(name, c); } return c; }
  static double scale(String name) { Crystal_Struct c = crystals.get(name); double s = 0; if (c != null) for (Crystal_Atom a : c.atom) s += Math.abs(a.fraction * a.Zatom); return s; }
}
