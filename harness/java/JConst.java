import com.github.tschoonj.xraylib.Xraylib;
import java.lang.reflect.*;

/** prints every public static final numeric constant of the Java implementation: "NAME value" */
public class JConst {
  public static void main(String[] a) throws Exception {
    for (Field f : Xraylib.class.getFields()) {
      int m = f.getModifiers();
      if (!Modifier.isStatic(m) || !Modifier.isFinal(m)) continue;
      Class<?> t = f.getType();
      if (t == int.class) System.out.println(f.getName() + " " + f.getInt(null));
      else if (t == double.class) System.out.println(f.getName() + " " + String.format("%.17g", f.getDouble(null)));
    }
  }
}
