package com.github.tschoonj.xraylib;

import java.nio.ByteBuffer;
import java.nio.ByteOrder;
import java.nio.charset.StandardCharsets;

/** Verification helper (same package, to reach the protected ByteBuffer constructor): a copy of a built-in crystal with
 *  every real number rounded to six decimals and then to single precision, exactly as the C build stores its built-in crystal table
 *  (pr_data.c prints that table as float literals). Used so that the Java/C comparison can stay tight. */
public class XvCrystals {
  /* pr_data.c prints "%ff": six decimals of the exact binary value (round-half-even), read back by the compiler as a float literal */
  private static double f(double x) {
    if (Double.isNaN(x) || Double.isInfinite(x)) return x;
    return (double) Float.parseFloat(new java.math.BigDecimal(x).setScale(6, java.math.RoundingMode.HALF_EVEN).toPlainString());
  }

  public static Crystal_Struct floatRounded(Crystal_Struct cs) {
    byte[] name = cs.name.getBytes(StandardCharsets.US_ASCII);
    ByteBuffer b = ByteBuffer.allocate(name.length + 1 + 8 + 7 * 8 + 4 + cs.n_atom * (4 + 4 * 8) + 16).order(ByteOrder.LITTLE_ENDIAN);
    writeString(b, name);
    b.putDouble(f(cs.a)); b.putDouble(f(cs.b)); b.putDouble(f(cs.c)); b.putDouble(f(cs.alpha)); b.putDouble(f(cs.beta)); b.putDouble(f(cs.gamma)); b.putDouble(f(cs.volume));
    b.putInt(cs.n_atom);
    for (Crystal_Atom a : cs.atom) { b.putInt(a.Zatom); b.putDouble(f(a.fraction)); b.putDouble(f(a.x)); b.putDouble(f(a.y)); b.putDouble(f(a.z)); }
    b.flip();
    return new Crystal_Struct(b);
  }

  private static void writeString(ByteBuffer b, byte[] s) { b.put(s); b.put((byte) 0); }
}
