/* C04(b): allocation-conservation histories over the allocating APIs; included by histmon.c
 *
 * A history = random sequence of operations that create objects (kept in a pool), use them, and release them in a
 * random order with their documented free function.  At the end everything is released; the history is then replayed
 * twice more with the same seed and is a leak iff the allocation balance grows on all three runs.
 * ASan/UBSan watch every access meanwhile (use-after-free of shallow copies, double frees, overflows).
 */

enum { T_CD, T_NIST, T_RN, T_LIST, T_STR, T_ERR, T_CR, T_ARR, T_NTYPES };
static const char *al_tname[] = { "compoundData", "compoundDataNIST", "radioNuclideData", "name-list", "symbol", "xrl_error", "Crystal_Struct", "Crystal_Array" };
typedef struct { int type; void *p; } al_obj;
#define POOL 48
static long al_created[T_NTYPES], al_failed_ops, al_ok_ops;
static volatile double al_sink;

static void al_use(al_obj *o) {   /* read every field of a live object: ASan flags stale/shallow copies */
  double s = 0; int k;
  switch (o->type) {
  case T_CD: { struct compoundData *c = o->p; for (k = 0; k < c->nElements; k++) s += c->Elements[k] + c->massFractions[k] + c->nAtoms[k]; s += c->nAtomsAll + c->molarMass; break; }
  case T_NIST: { struct compoundDataNIST *c = o->p; s += strlen(c->name) + c->density; for (k = 0; k < c->nElements; k++) s += c->Elements[k] + c->massFractions[k]; break; }
  case T_RN: { struct radioNuclideData *c = o->p; s += strlen(c->name) + c->Z + c->A + c->N + c->Z_xray; for (k = 0; k < c->nXrays; k++) s += c->XrayLines[k] + c->XrayIntensities[k]; for (k = 0; k < c->nGammas; k++) s += c->GammaEnergies[k] + c->GammaIntensities[k]; break; }
  case T_LIST: { char **l = o->p; for (k = 0; l[k]; k++) s += strlen(l[k]); break; }
  case T_STR: s += strlen((char *)o->p); break;
  case T_ERR: { xrl_error *e = o->p; s += e->code + strlen(e->message); break; }
  case T_CR: { Crystal_Struct *c = o->p; s += strlen(c->name) + c->a + c->volume; for (k = 0; k < c->n_atom; k++) s += c->atom[k].Zatom + c->atom[k].fraction + c->atom[k].x; break; }
  case T_ARR: { Crystal_Array *a = o->p; int n = 0; char **l = Crystal_GetCrystalsList(a, &n, NULL); if (l) { for (k = 0; l[k]; k++) { s += strlen(l[k]); xrlFree(l[k]); } xrlFree(l); } break; }
  }
  al_sink += s;
}
static void al_release(al_obj *o) {
  switch (o->type) {
  case T_CD: FreeCompoundData(o->p); break;
  case T_NIST: FreeCompoundDataNIST(o->p); break;
  case T_RN: FreeRadioNuclideData(o->p); break;
  case T_LIST: { char **l = o->p; int k; for (k = 0; l[k]; k++) xrlFree(l[k]); xrlFree(l); break; }
  case T_STR: xrlFree(o->p); break;
  case T_ERR: xrl_error_free(o->p); break;
  case T_CR: Crystal_Free(o->p); break;
  case T_ARR: Crystal_ArrayFree(o->p); break;
  }
  o->p = NULL;
}

static size_t alloc_run(long hno, int maxlen, int record) {
  xv_rng r; al_obj pool[POOL]; int np = 0, len, step, k; size_t b0 = hm_alloc(); char buf[512];
  static char **nist, **rn, **crn; static int nnist, nrn, ncrn;
  if (!nist) { nist = GetCompoundDataNISTList(&nnist, NULL); rn = GetRadioNuclideDataList(&nrn, NULL); crn = Crystal_GetCrystalsList(NULL, &ncrn, NULL); b0 = hm_alloc(); }
  r.s = hm_seed * 0x9E3779B97F4A7C15ULL + (uint64_t)hno * 0xD1B54A32D192ED03ULL + 999;
  len = 1 + xv_below(&r, maxlen);
#define PUT(T, P) do { if ((P) != NULL) { pool[np].type = (T); pool[np].p = (P); np++; if (record) al_created[T]++; } } while (0)
#define OPT(E) do { xrl_error *e_ = (E); if (e_) { if (np < POOL && xv_below(&r, 3) == 0) PUT(T_ERR, e_); else xrl_error_free(e_); if (record) al_failed_ops++; } else if (record) al_ok_ops++; } while (0)
  for (step = 0; step < len; step++) {
    int op = xv_below(&r, 100); xrl_error *e = NULL;
    if (record) { hm_steps++; hm_last->step = step; }
    if (np >= POOL - 4 || (np && op < 22)) {                       /* release a random live object */
      k = xv_below(&r, np); if (record) LAST("release %s", al_tname[pool[k].type]); if (record) TR("rel(%s);", al_tname[pool[k].type]);
      al_use(&pool[k]); al_release(&pool[k]); pool[k] = pool[--np]; continue;
    }
    if (np && op < 28) { k = xv_below(&r, np); al_use(&pool[k]); continue; }
    if (op < 40) {                                                 /* parser: valid and every rejection class */
      struct compoundData *c; buf[0] = 0;
      if (xv_below(&r, 2)) xv_gen_formula(&r, buf, sizeof buf - 8, 0); else xv_hostile(&r, buf, sizeof buf - 8);
      if (record) { LAST("CompoundParser(...)"); TR("parse(%.40s);", buf); }
      c = CompoundParser(xv_below(&r, 40) ? buf : NULL, &e); PUT(T_CD, c); OPT(e);
    } else if (op < 45) {                                          /* add_compound_data on two live compositions */
      int a = -1, b = -1; for (k = 0; k < np; k++) if (pool[k].type == T_CD) { if (a < 0 || xv_below(&r, 2)) { b = a; a = k; } }
      if (a >= 0 && b >= 0) { struct compoundData *c; if (record) { LAST("add_compound_data"); TR("addcd;"); } c = add_compound_data(*(struct compoundData *)pool[a].p, xv_unit(&r), *(struct compoundData *)pool[b].p, xv_unit(&r)); PUT(T_CD, c); }
    } else if (op < 55) {                                          /* _CP / refractive functions: parse + free inside */
      static double (*cp1[])(const char *, double, xrl_error **) = { CS_Total_CP, CS_Photo_CP, CSb_Rayl_CP, CS_Energy_CP, CS_Total_Kissel_CP, CSb_Photo_Total_CP };
      const char *s; double E = xv_below(&r, 8) ? 0.5 + 80 * xv_unit(&r) : -1.0 + xv_below(&r, 2);
      buf[0] = 0; k = xv_below(&r, 10);
      if (k < 4) { xv_gen_formula(&r, buf, sizeof buf - 8, 0); s = buf; } else if (k < 7) s = nist[xv_below(&r, nnist)]; else if (k < 9) { xv_hostile(&r, buf, sizeof buf - 8); s = buf; } else s = NULL;
      if (record) { LAST("_CP/refractive"); TR("cp(%.30s,%g);", s ? s : "NULL", E); }
      switch (xv_below(&r, 5)) {
      case 0: al_sink += cp1[xv_below(&r, 6)](s, E, &e); break;
      case 1: al_sink += DCS_Rayl_CP(s, E, 3 * xv_unit(&r), &e); break;
      case 2: al_sink += DCSP_Compt_CP(s, E, 3 * xv_unit(&r), 6 * xv_unit(&r), &e); break;
      case 3: al_sink += Refractive_Index_Re(s, E, xv_below(&r, 3) ? 2.5 : -1.0, &e); break;
      default: al_sink += Refractive_Index(s, E, xv_below(&r, 3) ? 2.5 : 0.0, &e).im; break;
      }
      OPT(e);
    } else if (op < 63) {                                          /* catalogues */
      if (record) { LAST("catalogue lookup"); TR("cat;"); }
      switch (xv_below(&r, 7)) {
      case 0: { struct compoundDataNIST *c = GetCompoundDataNISTByName(xv_below(&r, 6) ? nist[xv_below(&r, nnist)] : (xv_below(&r, 2) ? "nope" : NULL), &e); PUT(T_NIST, c); break; }
      case 1: { struct compoundDataNIST *c = GetCompoundDataNISTByIndex((int)xv_below(&r, nnist + 6) - 3, &e); PUT(T_NIST, c); break; }
      case 2: { struct radioNuclideData *c = GetRadioNuclideDataByName(xv_below(&r, 6) ? rn[xv_below(&r, nrn)] : (xv_below(&r, 2) ? "nope" : NULL), &e); PUT(T_RN, c); break; }
      case 3: { struct radioNuclideData *c = GetRadioNuclideDataByIndex((int)xv_below(&r, nrn + 6) - 3, &e); PUT(T_RN, c); break; }
      case 4: { char **l = GetCompoundDataNISTList(NULL, &e); PUT(T_LIST, l); break; }
      case 5: { int n; char **l = xv_below(&r, 2) ? GetRadioNuclideDataList(&n, &e) : Crystal_GetCrystalsList(NULL, &n, &e); PUT(T_LIST, l); break; }
      default: { char *s = AtomicNumberToSymbol((int)xv_below(&r, 125) - 5, &e); PUT(T_STR, s); break; }
      }
      OPT(e);
    } else if (op < 72) {                                          /* error objects */
      if (record) { LAST("error api"); TR("err;"); }
      al_sink += CS_Total((int)xv_below(&r, 4) - 2, xv_below(&r, 2) ? -1.0 : 1e9, &e);
      if (e) { xrl_error *c = xrl_error_copy(e), *d = NULL; if (xv_below(&r, 2)) { xrl_propagate_error(&d, e); e = NULL; PUT(T_ERR, d); } else { xrl_clear_error(&e); }
        if (c) { if (xv_below(&r, 2)) PUT(T_ERR, c); else xrl_propagate_error(NULL, c); } }
      if (xv_below(&r, 3) == 0) {      /* a caller that REUSES a slot which is already set (a loop that forgot to clear it): the library keeps the first error, says so on
                                        * stderr and must release the new one - literal and formatted messages, object-valued and numeric calls */
        xrl_error *e5 = NULL; int j, m = 1 + (int)xv_below(&r, 4);
        al_sink += CS_Total(-1, 1.0, &e5);
        for (j = 0; j < m && e5; j++) switch (xv_below(&r, 6)) {
          case 0: { struct compoundDataNIST *c5 = GetCompoundDataNISTByName("no such compound", &e5); if (c5) FreeCompoundDataNIST(c5); break; }
          case 1: { Crystal_Struct *c5 = Crystal_GetCrystal("Unobtainium", NULL, &e5); if (c5) Crystal_Free(c5); break; }
          case 2: { struct compoundData *c5 = CompoundParser("Xx2O", &e5); if (c5) FreeCompoundData(c5); break; }
          case 3: { struct radioNuclideData *c5 = GetRadioNuclideDataByIndex(-7, &e5); if (c5) FreeRadioNuclideData(c5); break; }
          case 4: al_sink += CS_Photo(26, -1.0, &e5); break;
          default: { char *s5 = AtomicNumberToSymbol(-3, &e5); if (s5) xrlFree(s5); break; }
        }
        if (e5) { if (xv_below(&r, 2)) xrl_clear_error(&e5); else { xrl_error *d5 = NULL; xrl_propagate_error(&d5, e5); PUT(T_ERR, d5); } }
      }
    } else if (op < 88) {                                          /* crystals */
      Crystal_Struct *c = NULL;
      if (record) { LAST("crystal api"); TR("cr;"); }
      switch (xv_below(&r, 5)) {
      case 0: c = Crystal_GetCrystal(xv_below(&r, 6) ? crn[xv_below(&r, ncrn)] : (xv_below(&r, 2) ? "nope" : NULL), NULL, &e); PUT(T_CR, c); break;
      case 1: for (k = 0; k < np; k++) if (pool[k].type == T_CR) { c = Crystal_MakeCopy(pool[k].p, &e); PUT(T_CR, c); break; } break;
      case 2: for (k = 0; k < np; k++) if (pool[k].type == T_CR) { Crystal_Struct *u = pool[k].p; static const int hz[] = { -5, 0, 1, 14, 92, 98, 99, 110, 119, 120, 121, 500 };
                if (u->n_atom > 0 && xv_below(&r, 2)) u->atom[xv_below(&r, u->n_atom)].Zatom = hz[xv_below(&r, 12)];      /* hostile atom list in a user-owned copy */
                if (xv_below(&r, 12) == 0) u->n_atom = 0;                                                               /* ... or an empty one (the atom block stays allocated) */
                if (u->n_atom > 1 && xv_below(&r, 3) == 0) { int j = (int)xv_below(&r, u->n_atom); u->atom[j].fraction = 0.0; u->atom[j].Zatom = 71 + j; }   /* a vacant site of an element that occurs nowhere else in the cell */
                { xrlComplex z; xv_poison_stack();      /* whatever the library leaves unwritten on its stack now reads as NaN */
                  z = Crystal_F_H_StructureFactor_Partial(u, 1 + 30 * xv_unit(&r), (int)xv_below(&r, 5) - 2, (int)xv_below(&r, 5) - 2, (int)xv_below(&r, 5) - 2, xv_below(&r, 5) ? 1.0 : -1.0, 1.0, (int)xv_below(&r, 4), (int)xv_below(&r, 4), (int)xv_below(&r, 4), &e);
                  if (!e && !(isfinite(z.re) && isfinite(z.im))) hm_violation("c04:structure-factor-not-finite-without-error", "Crystal_F_H_StructureFactor_Partial returned a non-finite value without an error (stack poisoned with 0xFF before the call: a read of a never-written local)");
                  al_sink += z.re; }
                if (xv_below(&r, 5) == 0) {      /* a caller-built struct whose atom count is NEGATIVE (a by-value copy: the pool object keeps its own count) */
                  static const int neg[] = { -1, -2, -1000000, INT_MIN }; Crystal_Struct v = *u; xrl_error *e3 = NULL; xrlComplex z; Crystal_Struct *cc;
                  v.n_atom = neg[xv_below(&r, 4)]; if (xv_below(&r, 2)) v.atom = NULL;
                  z = Crystal_F_H_StructureFactor_Partial(&v, 1 + 30 * xv_unit(&r), 1, 1, (int)xv_below(&r, 3), 1.0, 1.0, (int)xv_below(&r, 4), (int)xv_below(&r, 4), (int)xv_below(&r, 4), &e3);
                  if (e3) { xrl_error_free(e3); e3 = NULL; } al_sink += z.re;
                  z = Crystal_F_H_StructureFactor(&v, 8.0, 1, 1, 1, 1.0, 1.0, &e3); if (e3) { xrl_error_free(e3); e3 = NULL; } al_sink += z.im;
                  /* (memcheck counts a negative size handed to malloc as an error of its own - "fishy value" - although the allocator simply refuses it: not under valgrind) */
                  if (!getenv("XV_UNDER_VALGRIND")) { cc = Crystal_MakeCopy(&v, &e3); if (e3) { xrl_error_free(e3); e3 = NULL; } if (cc) { cc->n_atom = 0; PUT(T_CR, cc); } } }
                break; } break;
      case 3: { Crystal_Array *a = Crystal_ArrayInit((int)xv_below(&r, 8) - 1, &e); PUT(T_ARR, a); break; }
      default: for (k = 0; k < np; k++) if (pool[k].type == T_ARR) { int j; for (j = 0; j < np; j++) if (pool[j].type == T_CR && xv_below(&r, 2)) { Crystal_Struct *u = pool[j].p; xrl_error *e2 = NULL; int z, okz = 1; for (z = 0; z < u->n_atom; z++) if (u->atom[z].Zatom < 1 || u->atom[z].Zatom > 98) okz = 0; (void)okz; Crystal_AddCrystal(u, pool[k].p, &e2); if (e2) { xrl_error_free(e2); e2 = NULL; } c = Crystal_GetCrystal(u->name, pool[k].p, &e2); if (e2) xrl_error_free(e2); PUT(T_CR, c); break; } break; } break;
      }
      OPT(e);
    } else {                                                        /* plain failing / succeeding numeric calls in between */
      al_sink += LineEnergy((int)xv_below(&r, 130) - 4, (int)xv_below(&r, 400) - 390, &e); OPT(e);
    }
  }
  while (np) { k = xv_below(&r, np); al_use(&pool[k]); al_release(&pool[k]); pool[k] = pool[--np]; }
  return hm_alloc() - b0;
}

static void alloc_history(long hno, int maxlen) {
  size_t g1, g2, g3; char what[160];
  hm_tl = 0; hm_trace[0] = 0;
  g1 = alloc_run(hno, maxlen, 1);
  hm_checks++;
  if (g1 == 0 || !XV_ASAN) return;
  g2 = alloc_run(hno, maxlen, 0); g3 = alloc_run(hno, maxlen, 0);
  if ((long)g1 > 0 && (long)g2 > 0 && (long)g3 > 0) { snprintf(what, sizeof what, "allocation balance grows by %zu/%zu/%zu bytes on three replays of the same history after full release", g1, g2, g3); hm_violation("leak:history", what); }
}
