"""ctypes binding to the plain shared library built from the current tree (object-valued API).

    X = XL('shipped')
    X.parse('H2O') -> dict(...) or Err(code, message)
Every wrapper returns either a python value/dict or an `Err`; all C objects are released here.
"""
import ctypes as C
import os
from . import build


class Err:
    def __init__(self, code, message):
        self.code, self.message = code, message

    def __repr__(self):
        return 'Err(%r, %r)' % (self.code, self.message)


class Complex(C.Structure):
    _fields_ = [('re', C.c_double), ('im', C.c_double)]


# The public structs are bound as the headers of the CURRENT tree declare them: a compiled probe (build.layout) gives offset, size and kind
# of every field, and the ctypes classes are made from that.  A field that changes type or place is then read as what it now is, and the
# oracles judge the VALUE they get (a float-narrowed volume, say) instead of reading garbage through a stale binding.
_FLT = {4: C.c_float, 8: C.c_double, 16: C.c_longdouble}
_INT = {1: C.c_int8, 2: C.c_int16, 4: C.c_int32, 8: C.c_int64}
_UNS = {1: C.c_uint8, 2: C.c_uint16, 4: C.c_uint32, 8: C.c_uint64}
_PTR = {'s': C.c_char_p, 'f4': C.POINTER(C.c_float), 'f8': C.POINTER(C.c_double), 'i4': C.POINTER(C.c_int32), 'u4': C.POINTER(C.c_uint32),
        'i2': C.POINTER(C.c_int16), 'i8': C.POINTER(C.c_int64)}
LAYOUT = build.layout()


def _struct(pyname, key, objptr=None):
    lay = LAYOUT[key]
    fields = []
    for f in sorted(lay['fields'], key=lambda f: f['offset']):
        if f['kind'] == 'f':
            t = _FLT[f['size']]
        elif f['kind'] == 'i':
            t = _INT[f['size']]
        elif f['kind'] == 'u':
            t = _UNS[f['size']]
        elif f['pkind'] == 'o':
            t = (objptr or {}).get(f['name'], C.c_void_p)
        else:
            t = _PTR[f['pkind']]
        fields.append((f['name'], t))
    cls = type(pyname, (C.Structure,), {'_fields_': fields})
    bad = [f['name'] for f in lay['fields'] if getattr(cls, f['name']).offset != f['offset']]
    if bad or C.sizeof(cls) != lay['size']:
        raise build.BuildError('ctypes cannot reproduce the layout of %s (fields %s, size %d vs %d)' % (key, bad, C.sizeof(cls), lay['size']))
    return cls


XrlError = _struct('XrlError', 'xrl_error')
CompoundData = _struct('CompoundData', 'compoundData')
CompoundDataNIST = _struct('CompoundDataNIST', 'compoundDataNIST')
RadioNuclideData = _struct('RadioNuclideData', 'radioNuclideData')
CrystalAtom = _struct('CrystalAtom', 'Crystal_Atom')
CrystalStruct = _struct('CrystalStruct', 'Crystal_Struct', {'atom': C.POINTER(CrystalAtom)})
CrystalArray = _struct('CrystalArray', 'Crystal_Array', {'crystal': C.POINTER(CrystalStruct)})


EP = C.POINTER(C.POINTER(XrlError))


def _b(s):
    if s is None:
        return None
    return s if isinstance(s, bytes) else s.encode('utf8', 'surrogateescape')


class XL:
    def __init__(self, config='shipped', so=None):
        """so: another build of the same tree to bind to (e.g. build.meson_lib(config, variant='release')['so']); default: the monitor's plain build"""
        self.config = config
        self.lib = lib = C.CDLL(so or build.lib(config, 'plain')['so'])
        self.calls = 0
        lib.xrl_error_free.argtypes = [C.POINTER(XrlError)]
        lib.xrlFree.argtypes = [C.c_void_p]
        lib.CompoundParser.restype = C.POINTER(CompoundData); lib.CompoundParser.argtypes = [C.c_char_p, EP]
        lib.FreeCompoundData.argtypes = [C.POINTER(CompoundData)]
        lib.add_compound_data.restype = C.POINTER(CompoundData)
        lib.add_compound_data.argtypes = [CompoundData, C.c_double, CompoundData, C.c_double]
        lib.GetCompoundDataNISTByName.restype = C.POINTER(CompoundDataNIST); lib.GetCompoundDataNISTByName.argtypes = [C.c_char_p, EP]
        lib.GetCompoundDataNISTByIndex.restype = C.POINTER(CompoundDataNIST); lib.GetCompoundDataNISTByIndex.argtypes = [C.c_int, EP]
        lib.FreeCompoundDataNIST.argtypes = [C.POINTER(CompoundDataNIST)]
        lib.GetCompoundDataNISTList.restype = C.POINTER(C.c_void_p); lib.GetCompoundDataNISTList.argtypes = [C.POINTER(C.c_int), EP]
        lib.GetRadioNuclideDataByName.restype = C.POINTER(RadioNuclideData); lib.GetRadioNuclideDataByName.argtypes = [C.c_char_p, EP]
        lib.GetRadioNuclideDataByIndex.restype = C.POINTER(RadioNuclideData); lib.GetRadioNuclideDataByIndex.argtypes = [C.c_int, EP]
        lib.FreeRadioNuclideData.argtypes = [C.POINTER(RadioNuclideData)]
        lib.GetRadioNuclideDataList.restype = C.POINTER(C.c_void_p); lib.GetRadioNuclideDataList.argtypes = [C.POINTER(C.c_int), EP]
        lib.AtomicNumberToSymbol.restype = C.c_void_p; lib.AtomicNumberToSymbol.argtypes = [C.c_int, EP]
        lib.SymbolToAtomicNumber.restype = C.c_int; lib.SymbolToAtomicNumber.argtypes = [C.c_char_p, EP]
        lib.Crystal_GetCrystal.restype = C.POINTER(CrystalStruct); lib.Crystal_GetCrystal.argtypes = [C.c_char_p, C.POINTER(CrystalArray), EP]
        lib.Crystal_MakeCopy.restype = C.POINTER(CrystalStruct); lib.Crystal_MakeCopy.argtypes = [C.POINTER(CrystalStruct), EP]
        lib.Crystal_Free.argtypes = [C.POINTER(CrystalStruct)]
        lib.Crystal_GetCrystalsList.restype = C.POINTER(C.c_void_p); lib.Crystal_GetCrystalsList.argtypes = [C.POINTER(CrystalArray), C.POINTER(C.c_int), EP]
        lib.Crystal_ArrayInit.restype = C.POINTER(CrystalArray); lib.Crystal_ArrayInit.argtypes = [C.c_int, EP]
        lib.Crystal_ArrayFree.argtypes = [C.POINTER(CrystalArray)]
        lib.Crystal_AddCrystal.restype = C.c_int; lib.Crystal_AddCrystal.argtypes = [C.POINTER(CrystalStruct), C.POINTER(CrystalArray), EP]
        lib.Crystal_ReadFile.restype = C.c_int; lib.Crystal_ReadFile.argtypes = [C.c_char_p, C.POINTER(CrystalArray), EP]
        lib.Crystal_dSpacing.restype = C.c_double; lib.Crystal_dSpacing.argtypes = [C.POINTER(CrystalStruct), C.c_int, C.c_int, C.c_int, EP]
        lib.Crystal_UnitCellVolume.restype = C.c_double; lib.Crystal_UnitCellVolume.argtypes = [C.POINTER(CrystalStruct), EP]
        lib.Bragg_angle.restype = C.c_double; lib.Bragg_angle.argtypes = [C.POINTER(CrystalStruct), C.c_double, C.c_int, C.c_int, C.c_int, EP]
        lib.Q_scattering_amplitude.restype = C.c_double
        lib.Q_scattering_amplitude.argtypes = [C.POINTER(CrystalStruct), C.c_double, C.c_int, C.c_int, C.c_int, C.c_double, EP]
        lib.Crystal_F_H_StructureFactor.restype = Complex
        lib.Crystal_F_H_StructureFactor.argtypes = [C.POINTER(CrystalStruct), C.c_double, C.c_int, C.c_int, C.c_int, C.c_double, C.c_double, EP]
        lib.Crystal_F_H_StructureFactor_Partial.restype = Complex
        lib.Crystal_F_H_StructureFactor_Partial.argtypes = [C.POINTER(CrystalStruct), C.c_double, C.c_int, C.c_int, C.c_int, C.c_double, C.c_double, C.c_int, C.c_int, C.c_int, EP]
        lib.Atomic_Factors.restype = C.c_int
        lib.Atomic_Factors.argtypes = [C.c_int, C.c_double, C.c_double, C.c_double, C.POINTER(C.c_double), C.POINTER(C.c_double), C.POINTER(C.c_double), EP]
        lib.Refractive_Index.restype = Complex; lib.Refractive_Index.argtypes = [C.c_char_p, C.c_double, C.c_double, EP]
        self._num = {}

    # ---- helpers ---------------------------------------------------------------------------
    def _err(self, e):
        if e:
            r = Err(e.contents.code, (e.contents.message or b'').decode('utf8', 'replace'))
            self.lib.xrl_error_free(e)
            return r
        return None

    def num(self, name, *args):
        """generic double f(int/double/str..., xrl_error**) call: ints, floats and str/bytes/None are mapped by python type"""
        f = getattr(self.lib, name)
        key = (name, tuple(type(a) for a in args))
        if key not in self._num:
            f.restype = C.c_double
        e = C.POINTER(XrlError)()
        cargs = []
        for a in args:
            if isinstance(a, bool) or isinstance(a, int):
                cargs.append(C.c_int(a))
            elif isinstance(a, float):
                cargs.append(C.c_double(a))
            else:
                cargs.append(C.c_char_p(_b(a)))
        v = f(*cargs, C.byref(e))
        self.calls += 1
        err = self._err(e)
        return err if err is not None else v

    # ---- compounds ----------------------------------------------------------------------------
    @staticmethod
    def _cd(p):
        c = p.contents
        n = c.nElements
        return dict(nElements=n, nAtomsAll=c.nAtomsAll, molarMass=c.molarMass, Elements=[c.Elements[i] for i in range(n)],
                    massFractions=[c.massFractions[i] for i in range(n)], nAtoms=[c.nAtoms[i] for i in range(n)])

    def parse(self, s, slot=True):
        if not slot:                     # the same call WITHOUT an error slot: a composition or None
            p = self.lib.CompoundParser(_b(s), None)
            self.calls += 1
            if not p:
                return None
            d = self._cd(p)
            self.lib.FreeCompoundData(p)
            return d
        e = C.POINTER(XrlError)()
        p = self.lib.CompoundParser(_b(s), C.byref(e))
        self.calls += 1
        err = self._err(e)
        if not p:
            return err if err is not None else Err(-1, 'NULL without error')
        d = self._cd(p)
        self.lib.FreeCompoundData(p)
        if err is not None:
            d['spurious_error'] = err
        return d

    def add_chain(self, sa, wa, sb, wb, w1, sc, wc):
        """add_compound_data(add_compound_data(A, wa, B, wb), w1, C, wc): the intermediate result is an operand"""
        ps = [self.lib.CompoundParser(_b(x), None) for x in (sa, sb, sc)]
        if not all(ps):
            for p in ps:
                if p: self.lib.FreeCompoundData(p)
            return Err(-1, 'operand does not parse')
        p1 = self.lib.add_compound_data(ps[0].contents, wa, ps[1].contents, wb)
        p2 = self.lib.add_compound_data(p1.contents, w1, ps[2].contents, wc) if p1 else None
        self.calls += 2
        d = self._cd(p2) if p2 else Err(-1, 'NULL')
        for p in ps + [p1, p2]:
            if p: self.lib.FreeCompoundData(p)
        return d

    def add_compounds(self, sa, wa, sb, wb, same=False, twice=False):
        """add_compound_data on freshly parsed operands.  same: the SAME object is passed as both operands (sb ignored);
        twice: the call is repeated on the same operand objects and the second result returned as d['second'].
        d['operands_changed'] tells whether the call modified the operand objects it was given (by value!)."""
        pa = self.lib.CompoundParser(_b(sa), None); pb = pa if same else self.lib.CompoundParser(_b(sb), None)
        if not pa or not pb:
            if pa: self.lib.FreeCompoundData(pa)
            if pb and not same: self.lib.FreeCompoundData(pb)
            return Err(-1, 'operand does not parse')
        before = (self._cd(pa), self._cd(pb))
        p = self.lib.add_compound_data(pa.contents, wa, pb.contents, wb)
        self.calls += 1
        d = self._cd(p) if p else Err(-1, 'NULL')
        if p: self.lib.FreeCompoundData(p)
        if not isinstance(d, Err):
            d['operands_changed'] = (self._cd(pa), self._cd(pb)) != before
            if twice:
                p2 = self.lib.add_compound_data(pa.contents, wa, pb.contents, wb)
                self.calls += 1
                d['second'] = self._cd(p2) if p2 else None
                if p2: self.lib.FreeCompoundData(p2)
        self.lib.FreeCompoundData(pa)
        if not same: self.lib.FreeCompoundData(pb)
        return d

    @staticmethod
    def _nist(p):
        c = p.contents
        n = c.nElements
        return dict(name=c.name.decode('utf8', 'replace'), nElements=n, density=c.density, Elements=[c.Elements[i] for i in range(n)],
                    massFractions=[c.massFractions[i] for i in range(n)])

    def nist(self, key):
        e = C.POINTER(XrlError)()
        p = self.lib.GetCompoundDataNISTByIndex(key, C.byref(e)) if isinstance(key, int) else self.lib.GetCompoundDataNISTByName(_b(key), C.byref(e))
        self.calls += 1
        err = self._err(e)
        if not p:
            return err if err is not None else Err(-1, 'NULL without error')
        d = self._nist(p); self.lib.FreeCompoundDataNIST(p)
        return d

    def _list(self, fn, *pre):
        n = C.c_int(-1); e = C.POINTER(XrlError)()
        p = fn(*pre, C.byref(n), C.byref(e))
        self.calls += 1
        err = self._err(e)
        if not p:
            return err if err is not None else Err(-1, 'NULL without error')
        out, k = [], 0
        while p[k]:
            out.append(C.cast(p[k], C.c_char_p).value.decode('utf8', 'replace')); self.lib.xrlFree(p[k]); k += 1
        self.lib.xrlFree(p)
        return dict(names=out, n=n.value)

    def nist_list(self):
        return self._list(self.lib.GetCompoundDataNISTList)

    def nuclide_list(self):
        return self._list(self.lib.GetRadioNuclideDataList)

    def crystal_list(self, arr=None):
        return self._list(self.lib.Crystal_GetCrystalsList, arr)

    def nuclide(self, key):
        e = C.POINTER(XrlError)()
        p = self.lib.GetRadioNuclideDataByIndex(key, C.byref(e)) if isinstance(key, int) else self.lib.GetRadioNuclideDataByName(_b(key), C.byref(e))
        self.calls += 1
        err = self._err(e)
        if not p:
            return err if err is not None else Err(-1, 'NULL without error')
        c = p.contents
        d = dict(name=c.name.decode(), Z=c.Z, A=c.A, N=c.N, Z_xray=c.Z_xray, nXrays=c.nXrays, nGammas=c.nGammas,
                 XrayLines=[c.XrayLines[i] for i in range(c.nXrays)], XrayIntensities=[c.XrayIntensities[i] for i in range(c.nXrays)],
                 GammaEnergies=[c.GammaEnergies[i] for i in range(c.nGammas)], GammaIntensities=[c.GammaIntensities[i] for i in range(c.nGammas)])
        self.lib.FreeRadioNuclideData(p)
        return d

    def symbol(self, Z):
        e = C.POINTER(XrlError)()
        p = self.lib.AtomicNumberToSymbol(Z, C.byref(e))
        self.calls += 1
        err = self._err(e)
        if not p:
            return err if err is not None else Err(-1, 'NULL without error')
        s = C.cast(p, C.c_char_p).value.decode(); self.lib.xrlFree(p)
        return s

    def atomic_number(self, sym):
        e = C.POINTER(XrlError)()
        z = self.lib.SymbolToAtomicNumber(_b(sym), C.byref(e))
        self.calls += 1
        err = self._err(e)
        return err if err is not None else z

    # ---- crystals ---------------------------------------------------------------------------------
    @staticmethod
    def crystal_dict(c):
        return dict(name=c.name.decode('utf8', 'replace'), a=c.a, b=c.b, c=c.c, alpha=c.alpha, beta=c.beta, gamma=c.gamma, volume=c.volume,
                    atoms=[(c.atom[i].Zatom, c.atom[i].fraction, c.atom[i].x, c.atom[i].y, c.atom[i].z) for i in range(c.n_atom)])

    def get_crystal(self, name, arr=None):
        """returns (ctypes pointer, dict) or Err; caller frees with free_crystal"""
        e = C.POINTER(XrlError)()
        p = self.lib.Crystal_GetCrystal(_b(name), arr, C.byref(e))
        self.calls += 1
        err = self._err(e)
        if not p:
            return err if err is not None else Err(-1, 'NULL without error')
        return p, self.crystal_dict(p.contents)

    def free_crystal(self, p):
        self.lib.Crystal_Free(p)

    def make_crystal(self, name, cell, atoms, volume=0.0):
        """a python-owned Crystal_Struct (keep the returned holder alive while it is in use)"""
        arr = (CrystalAtom * max(len(atoms), 1))()
        for k, a in enumerate(atoms):
            arr[k] = CrystalAtom(Zatom=a[0], fraction=a[1], x=a[2], y=a[3], z=a[4])
        cs = CrystalStruct(name=_b(name), a=cell[0], b=cell[1], c=cell[2], alpha=cell[3], beta=cell[4], gamma=cell[5], volume=volume,
                           n_atom=len(atoms), atom=C.cast(arr, C.POINTER(CrystalAtom)))
        cs._keep = arr
        return cs

    def cnum(self, name, cs, *args):
        """double-valued crystal function: cs = ctypes pointer/struct/None"""
        f = getattr(self.lib, name)
        e = C.POINTER(XrlError)()
        ref = None if cs is None else (cs if isinstance(cs, C.POINTER(CrystalStruct)) else C.pointer(cs))
        v = f(ref, *args, C.byref(e))
        self.calls += 1
        err = self._err(e)
        if err is not None:
            return err
        if isinstance(v, Complex):
            return complex(v.re, v.im)
        return v

    def atomic_factors(self, Z, E, q, debye):
        f0, f1, f2 = C.c_double(), C.c_double(), C.c_double(); e = C.POINTER(XrlError)()
        r = self.lib.Atomic_Factors(Z, E, q, debye, C.byref(f0), C.byref(f1), C.byref(f2), C.byref(e))
        self.calls += 1
        err = self._err(e)
        return err if err is not None else (r, f0.value, f1.value, f2.value)

    def refractive_index(self, s, E, rho):
        e = C.POINTER(XrlError)()
        v = self.lib.Refractive_Index(_b(s), E, rho, C.byref(e))
        self.calls += 1
        err = self._err(e)
        return err if err is not None else complex(v.re, v.im)
