"""Driver of harness/failmon.cpp: allocation failpoints under the C++ wrappers and the C functions they wrap."""
import os, json, subprocess, shutil
from . import build
from .common import scratch, Inconclusive


def run(config, maxk=400):
    """returns dict(viol=[records], scenarios=[records], summary={...})"""
    mon = build.failmon(config)
    d = scratch('xv-fail-')
    try:
        out = os.path.join(d, 'out.jsonl')
        p = subprocess.run([mon, 'run', out, str(maxk)], stdout=subprocess.PIPE, stderr=subprocess.STDOUT, timeout=1800)
        if p.returncode != 0 or not os.path.exists(out):
            raise Inconclusive('failmon failed (rc %d): %s' % (p.returncode, p.stdout.decode('utf8', 'replace')[-400:]))
        recs = [json.loads(l) for l in open(out)]
    finally:
        shutil.rmtree(d, ignore_errors=True)
    summ = [r for r in recs if r['type'] == 'summary']
    if not summ:
        raise Inconclusive('failmon wrote no summary')
    return dict(viol=[r for r in recs if r['type'] == 'viol'], scenarios=[r for r in recs if r['type'] == 'scenario'], summary=summ[0], config=config)


def report(ck, res, prop):
    """route the verdicts that belong to property `prop` into the check"""
    for r in res['viol']:
        if r['prop'] != prop:
            continue
        ck.violation(r['key'], r['what'], dict(scenario=r.get('scenario'), failing_library_allocation=r['k'],
                                               mode='that allocation only' if r['mode'] == 0 else 'that allocation and all later ones', config=res['config']))
