"""Writes MANIFEST.json from the table below (kept in code so that it stays consistent)."""
import json, os, subprocess
V = os.path.dirname(os.path.dirname(os.path.abspath(__file__)))

CHECKS = {
 'C01': dict(technique='exhaustive offline value checker over recorded API calls vs independently parsed data files',
             text='Every scalar accessor is called for every Z in [-3,125] and every macro value in and around the legal range in both data configurations; each (status, value) is compared with the record read from the shipped data file by an independent parser, names mapped to macro values through a compiled probe. The discrete space is enumerated completely.',
             note='Trusted: xv/refdata.py parsers, the compiled macro probe, numpy; tolerance 1e-10 relative (the 11 digits the build preserves).', ref='2 C01'),
 'C03': dict(technique='runtime contract monitor (inline assertions on every call of an exhaustive/sampled API sweep)',
             text='Every exported function is executed over its full discrete argument space (sampled where the product exceeds the budget) with an inline monitor asserting the error contract on each call, with and without an error slot, in both data configurations; held = no contract violation on the calls listed in the evidence.',
             note='Trusted: gcc/glibc, the monitor harness/mon_sweep*.c and the result classes of xv/sigtab.py; continuous arguments are sampled (table ends, edges +/-1e-9, found by bisection).', ref='2 C03'),
 'C04': dict(technique='compiler sanitizers (ASan+UBSan+LSan) and allocation-conservation monitor over API sweep, call histories, fuzzed inputs and allocation failpoints',
             text='The same sweep plus random allocating call histories run on an ASan+UBSan build with the allocation balance read around every call; any sanitizer report, crash or balance that grows on 3 of 3 repetitions is a violation. Held = no report on the executions counted in the evidence, not memory safety.',
             note='Red-zone tools miss non-adjacent overflows; zero-length libc calls with NULL (nonnull-attribute) are not flagged.', ref='2 C04'),
}
CHECKS['C14'] = dict(technique='model-based runtime monitor: random operation histories checked step by step against a shadow dictionary, under ASan/UBSan and valgrind',
             text='Seeded random histories of array creation, additions, crystal files (well-formed, corrupt, duplicate, truncated), listings, lookups, copies and frees are executed against the real library; after every step the observable state is compared with a model dictionary, on user arrays crossing their initial capacity and on the built-in array up to its fixed capacity.',
             note='Trusted: the shadow model in harness/histmon.c; files use the canonical layout; truncated files are only held to the error contract.', ref='2 C14')
CHECKS['C16'] = dict(technique='history-based runtime monitor: fresh-process baseline vs random call histories, writable-segment hashing and process-state probes',
             text='Each sampled query is executed as the only call of a fresh process and then re-observed thousands of times inside seeded random histories of the whole API (failing calls, parser, catalogues, crystal copies, with/without XRayInit, under a comma-decimal locale): every occurrence must be bit-identical; the library\'s writable memory is hashed before and after each history, and locale, cwd, stdout/stderr and earlier error objects are re-checked.',
             note='Trusted: harness/puremon.c, dl_iterate_phdr segment enumeration, library linked -z now; explicit built-in insertions are exercised separately to prove the hash sees writes.', ref='2 C16')
CHECKS['C17'] = dict(technique='ThreadSanitizer race detection plus serial-reference result monitor and hook-based overlap monitor under multi-threaded stress',
             text='8-16 threads run seeded mixes of all thread-safe entry points against a ThreadSanitizer build and a plain build, under C and a comma-decimal locale, with seeded yields at the library hook points; every result is compared bit for bit with a serial reference and the hook log proves how often threads were inside the parser / compound / crystal-copy / error-store windows simultaneously.',
             note='TSan only sees instrumented code and intercepted libc calls; held = no race report and no result mismatch on the runs counted, with the overlap counts of the evidence.', ref='2 C17')
CHECKS['C13'] = dict(technique='offline relation checker over recorded API calls vs an independent numpy crystallography reference',
             text='Built-in crystals and seeded triclinic cells are driven over Miller indices, energies, Debye factors, relative angles and all partial-term flags; d-spacings, volumes, Bragg angles, Q and structure factors returned by the library are compared with a metric-tensor reference and the explicit structure-factor sum, plus inversion/scaling/Friedel/additivity relations and the error side.',
             note='Trusted: numpy reference in xv/oracles/c13.py; tolerances 1e-10 (1e-5 where the float-printed built-in volume enters).', ref='2 C13')
CHECKS['C09'] = dict(technique='offline reference-model checker over recorded API calls (jump-ratio formulas recomputed from public primitives)',
             text='CS_FluorShell/CS_FluorLine and barn twins are called for all Z, shells, every line macro and energies bracketing every K/L edge; each result is compared at 1e-12 with the Krause jump-ratio formulas evaluated from the library\'s own primitives, including the failure side and all 11 reachable (shell, energy regime) cells.',
             note='Trusted: numpy reference in xv/oracles/c09.py; primitives themselves are checked by C01/C02.', ref='2 C09')
CHECKS['C10'] = dict(technique='exhaustive offline checker of group-line averages vs member lines (public calls only)',
             text='For Z 1..120 every group/doublet macro and Siegbahn alias is compared with the stated average of its member lines computed from the public single-line calls (rate- or cross-section-weighted, plain-mean fallback, error when no member has an energy), range containment, group rates and alias identities. Exhaustive.',
             note='Trusted: member lists derived from public macro names; KB accepts the two readings of DESIGN.md for the KO/KP group rates.', ref='2 C10')
CHECKS['C08'] = dict(technique='offline reference-model checker over recorded API calls (cascade recursion rebuilt from public primitives), Kissel table regenerated at check time',
             text='With the Kissel table regenerated from data/kissel, the 5 variants x {cm2/g, barn} of the shell and line XRF functions and the exported vacancy helpers are compared for all Z, 9 shells, all line macros and energies bracketing every edge with a numpy recursion built from the library\'s own primitives (Auger multiplicities from macro names), plus the ordering/alias/unit relations; as shipped (table emptied) every call must fail cleanly.',
             note='Trusted: xv/kissel_regen.py port of kissel.pro (both sides read the same regenerated file), numpy reference in xv/oracles/c08.py.', ref='2 C08')
CHECKS['C11'] = dict(technique='exhaustive offline value checker of Auger yields/rates vs independently parsed raw tables',
             text='AugerYield over all Z x shells and AugerRate over all Z x 996 macros (plus margins) are compared with 1 - yield - sum(CK) and raw/(total net of Coster-Kronig-type transitions) computed from an independent parse of auger_rates.dat, transition types decided from macro names. Exhaustive.',
             note='Trusted: refdata.auger_raw, macro probe; tolerance = forward error bound of the 11-digit tables.', ref='2 C11')
CHECKS['C15'] = dict(technique='exhaustive catalogue cross-checker through the public API (ctypes in forked children, plus ASan executor)',
             text='Every element symbol, NIST compound, radionuclide and crystal entry is fetched by name, by index, by published index macro and through the list; equality, uniqueness, bijections, per-entry invariants and deep-copy independence (mutate one copy, free in both orders, look up again) are checked for the complete catalogues.',
             note='Trusted: ctypes struct layouts in xv/xl.py; macro values from the compiled probe.', ref='2 C15')
CHECKS['C02'] = dict(technique='offline spline checker over recorded API calls vs independently parsed knots (reference interpolant with forward-error bound)',
             text='Every knot and every interval of every shipped table (photo/Rayleigh/Compton/energy cross sections, form factor, scattering function, f\', f\'\', total and sub-shell Compton profiles, regenerated Kissel sub-shell tables incl. the clamped log-log extension) is probed; values must equal the long-double cubic-spline reference within its forward error bound, and arguments straddling both table ends by 1e-12..1e-3 must fail outside the documented tolerance band.',
             note='Trusted: refdata parsers, numpy longdouble reference; duplicated abscissae and the one non-monotone table step are handled as described in DESIGN.md.', ref='2 C02')
CHECKS['C18'] = dict(technique='differential runtime monitor (C++ wrapper vs wrapped C function) under ASan/UBSan with allocation-conservation monitor and allocation failpoints',
             text='Each C function with a callable xrlpp wrapper (found by compile probes) is called with an error slot and through the wrapper in a try block over seeded samples of the argument space incl. every failing class; values/objects must agree bit for bit, exception type and what() must match the C error, neither path may leak (allocation balance, LSan), and wrapper objects are used after the C originals are released.',
             note='Trusted: g++/libstdc++, harness/cppmon.cpp; NULL strings cannot be expressed through std::string and are skipped.', ref='2 C18')
CHECKS['C05'] = dict(technique='offline identity checker over recorded API calls (both sides of each identity are library outputs)',
             text='For Z 0..121 and energies at all table knots, edges +/-1e-9 and range ends, x angle grids, every total / per-atom / differential entry point is compared with the defining combination of its parts fetched from the same library (1e-13), and must fail exactly when a part fails; both data configurations (all Kissel aggregates must fail as shipped).',
             note='Trusted: numpy; constants from the compiled macro probe.', ref='2 C05')
CHECKS['C12'] = dict(technique='offline relation/quadrature checker over recorded API calls',
             text='Thomson, Klein-Nishina and Compton-energy functions are sampled over 1e-6..1e6 keV x theta/phi grids; positivity, the solid-angle integral of DCS_KN (graded Gauss-Legendre with an error estimate), azimuthal averages, Thomson limits and bounds, the Compton-ratio form, monotonicity, evenness and periodicity are asserted on the returned values.',
             note='Trusted: numpy quadrature (points whose quadrature error estimate exceeds 1e-11 are counted as inconclusive, none observed).', ref='2 C12')
CHECKS['C06'] = dict(technique='offline mixture-rule checker over recorded API calls (composition and elemental values from the public API)',
             text='For generated formulas over all weighable elements, all NIST names, unknown names and NULL, the 21 _CP functions and the 3 refractive-index entry points are compared with sum(w_i f(Z_i)) and the refractive-index formulas built from the library\'s own composition and elemental results, including the density rules and the failure side, in both data configurations.',
             note='Trusted: numpy; refractive-index constants derived from header constants (compared on delta = 1 - Re).', ref='2 C06')
CHECKS['C07'] = dict(technique='reference-model differential monitor (independent exact-rational parser) with metamorphic rewrites, mutation-generated malformed strings and a locale monitor',
             text='Every symbol, ordered pair, grammar-generated formula and its algebraic rewrites is parsed by the library and by an independent recursive-descent model with exact rationals; single-character mutants of valid formulas (all bytes) must be rejected when the statement names their defect class; add_compound_data is compared with the union/weighted-sum model; runs are repeated under C, C.utf8 and a synthetic comma-decimal locale with the locale recorded before and after every call.',
             note='Trusted: xv/oracles/formula_model.py; forms the statement does not rule on (.5, 5., (), overflow) are not judged.', ref='2 C07')
CHECKS['C19'] = dict(technique='differential runtime monitor: the recorded C request/response stream replayed in the JVM against the pure-Java implementation',
             text='Seeded samples of the discrete argument space, energies/angles and strings (incl. NULL), formulas, all catalogue indices and crystal functions are executed by the C executor; the same stream is replayed by reflection in a JVM loaded with the data file generated from the same sources: exception iff C error, values within 5e-8 relative, objects field-digest equal; Java numeric constants published under a C macro name must carry the C value.',
             note='Trusted: JVM 17, stub Complex class; crystal data are rounded in the JVM exactly as the C build stores them (six decimals, single precision) so that the comparison stays tight.', ref='2 C19')
# what rounds 6-8 of the seeded changes added to every check: the same calls in other BUILDS of the tree and in other HOSTS (DESIGN.md 7.1, 7.5)
_PB = (' The same calls are replayed, bit for bit, on the library as the project\'s own build system makes it (meson: default options, release without '
       'assertions, plain char unsigned, strict C11, static archive) inside a host program that defines the library\'s internal names itself, and in hosts '
       'with other floating-point set-ups (exceptions trapping, sticky status flags raised, x87 precision control), without an error slot, in other call orders and as direct calls from optimised user code.')
EXTRA = {
 'C01': _PB + ' The project build is repeated in a tree that holds stale generated files, with a hostile build environment (XRAYLIB_DIR, MALLOC_PERTURB_) and with CR LF data files; the tables must follow data/*.dat alone.',
 'C02': _PB + ' The project build is repeated in a tree that holds stale generated files, with a hostile build environment (XRAYLIB_DIR, MALLOC_PERTURB_) and with CR LF data files; the tables must follow data/*.dat alone.',
 'C03': ' The sweep is repeated under floating-point traps and on the four shared project builds inside the hostile host; exported symbols of the monitor\'s and the project\'s build are compared with the public declarations; allocation failpoints check that a noticed failure stores an error.',
 'C04': ' Allocation histories also run under valgrind on the project\'s release build (b_ndebug=true), with callers that reuse an error slot which is already set, caller-built crystals with negative atom counts, files through pipes, CR LF files and descriptor 0 free.',
 'C05': _PB, 'C06': _PB + ' "Its own tabulated density" of a NIST compound is read from the source table of the tree.', 'C09': _PB, 'C10': _PB + ' The Siegbahn aliases are checked against the nomenclature.',
 'C08': _PB,
 'C11': _PB + ' The project build is repeated in a dirty tree / hostile build environment / with CR LF data files.',
 'C12': _PB + ' The documented constants (CODATA 2010) are the reference; the functions are re-run in directed rounding modes of the host (1e-9).',
 'C07': ' 40000 of the strings are replayed through ctypes on the project\'s builds (default, release, unsigned char, C11); a fourth locale child has Latin-1 character classes; bracket-order mutants keep the bracket totals balanced.',
 'C13': ' Structs edited in place between identical calls are compared with fresh structs holding the same numbers; geometry and structure factors are re-run in directed rounding modes of the host (1e-9); struct layouts come from a compiled probe of the tree\'s headers.',
 'C14': ' Names with bytes >= 0x80, zero-padded / signed scan numbers, CR LF files, files through pipes, descriptor 0 free, arrays filled past 512 entries.',
 'C15': ' Entries are compared with their source (NIST table in the sources, data/Crystals.dat); by-name / by-index / by-name for every pair of entries; all catalogues re-read under a national locale (Latin-1 classes, collation other than byte order).',
 'C16': ' The monitor also runs on the project\'s build; a load monitor (dlopen) records process state - FP control bits, subnormal arithmetic, locale, descriptors, signals, environment - around the load; histories with sticky FP flags raised, in directed rounding modes, and blocks of 70000 repetitions (2e6 calls) for long-run state.',
 'C17': ' Also on the project\'s default build (no hook points), plain and with meson\'s -Db_sanitize=thread; every second thread of two runs in three works under its own numeric locale (uselocale).',
 'C18': ' The header is also compiled with clang++, with -O2 -DNDEBUG -funsigned-char and with -std=c++17; one wrapper call in five is made from a destructor while a host exception propagates; constructor-built crystals with values exact in no narrower type are compared with C structs.',
 'C19': ' Every string request and one numeric request in six are replayed in JVMs started with -ea and de_DE / tr_TR default locales, another default charset and time zone.',
}
NOT_APPLICABLE = [
 dict(property_id='C20', reason='Fortran/Pascal/Cython/IDL/SWIG interface files cannot be compiled, loaded or executed in this sandbox (no gfortran, fpc, Cython, swig, IDL), so there is no execution for a runtime monitor to observe; comparing their text is static analysis, a different technique. The executable slices (Java constants, C++ header, exported symbols) are monitored as by-products of C19/C18/C03.'),
]


def main():
    hooks = subprocess.run(['git', '-C', '/repo', 'log', '--format=%h', '--grep', '^verif hooks'], stdout=subprocess.PIPE).stdout.decode().split()
    allp = [json.loads(l)['id'] for l in open(os.path.join(V, 'properties.jsonl'))]
    na = list(NOT_APPLICABLE)
    for p in allp:
        if p not in CHECKS and not any(n['property_id'] == p for n in na):
            raise SystemExit('property %s has neither a check nor a not_applicable reason' % p)
    m = dict(version=1, setup_cmd='bin/xv setup',
             hooks=dict(guard='TSCHOONJ_XRAYLIB_VERIF', enable='checks compile /repo/src themselves with -DTSCHOONJ_XRAYLIB_VERIF (xv/build.py); meson builds leave it undefined',
                        baseline_off_cmd='bin/xv baseline-off', source_commits=hooks, add_only=True),
             engines=[dict(name='xv', path='bin/xv', serves_properties=sorted(CHECKS), kind_free_text='python driver + C monitors (harness/xrlmon.c) built against the current /repo tree')],
             checks=[], not_applicable=na,
             notes='All checks rebuild the library from /repo working tree (content-hash cache under /verif/build). Exit 0 held / 1 VIOLATION / 2 inconclusive.')
    for pid in sorted(CHECKS):
        c = CHECKS[pid]
        m['checks'].append(dict(property_id=pid, quick_cmd='bin/xv check %s --tier quick' % pid,
                                thorough_cmd='bin/xv check %s --tier thorough' % pid,
                                evidence_file='evidence/%s.json' % pid, replay_cmd_template='bin/xv replay {path}', engine='xv',
                                level_claimed=dict(category='exploration', text=c['text'] + EXTRA.get(pid, ''), design_ref=c['ref']),
                                level_note=c['note'], technique=c['technique']))
    json.dump(m, open(os.path.join(V, 'MANIFEST.json'), 'w'), indent=1)
    try:
        import jsonschema
        jsonschema.validate(m, json.load(open('/root/.vp/MANIFEST.schema.json')))
        print('MANIFEST.json valid,', len(m['checks']), 'checks')
    except ImportError:
        print('MANIFEST.json written (jsonschema not available)')


if __name__ == '__main__':
    main()
