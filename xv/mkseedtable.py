"""Rewrites the block between <!-- SEEDTABLE --> markers of DESIGN.md from seeded/*/meta.json."""
import json, glob, os, re
V = os.path.dirname(os.path.dirname(os.path.abspath(__file__)))


def main():
    rows = []
    for m in sorted(glob.glob(os.path.join(V, 'seeded', '*', 'meta.json'))):
        d = json.load(open(m))
        sid = os.path.basename(os.path.dirname(m))
        owner = d.get('decided_by', d['property'])
        own = d.get('checks_run', {}).get(owner, {})
        keys = ', '.join('`%s`' % k for k in own.get('keys', [])[:2]) or '-'
        caught = ('yes' if owner in d.get('caught_by', []) else 'NO') + ('' if owner == d['property'] else ' (by %s: %s)' % (owner, d.get('decided_by_reason', 'shows under concurrency only')))
        others = [c for c in d.get('caught_by', []) if c != owner]
        conf = 'yes' if d.get('confirmation', {}).get('confirmed') else 'no'
        cross = '?'
        cp = os.path.join(os.path.dirname(m), 'cross.json')
        if os.path.exists(cp):          # all quick checks against the change in a scratch worktree (bin/xv-seeded cross)
            cj = json.load(open(cp))
            oth = [c for c in cj['caught_by'] if c != owner]
            cross = (', '.join(oth) or 'none') + (' (inconclusive: %s)' % ', '.join(cj['inconclusive']) if cj.get('inconclusive') else '')
            if owner not in cj['caught_by']:
                cross += ' [owner missed in this run]'
        rows.append('| %s | %s | %s | %s | %s%s | %s | %s |' % (sid, d['property'], d['needs_to_manifest'].replace('|', '/'), conf, caught,
                                                               (' (+' + ','.join(others) + ')') if others else '', keys, cross))
    tab = ['| id | property | what it needs in order to manifest | confirmed | caught by owning quick check | first keys reported | other quick checks that report it |', '|---|---|---|---|---|---|---|'] + rows
    p = os.path.join(V, 'DESIGN.md')
    s = open(p).read()
    block = '<!-- SEEDTABLE -->\n' + '\n'.join(tab) + '\n<!-- /SEEDTABLE -->'
    if '<!-- SEEDTABLE -->' in s:
        s = re.sub(r'<!-- SEEDTABLE -->.*?<!-- /SEEDTABLE -->', lambda _: block, s, flags=re.S)
    else:
        s += '\n' + block + '\n'
    open(p, 'w').write(s)
    print(len(rows), 'seeded changes,', sum(1 for r in rows if r.split('|')[5].strip().startswith('yes')), 'caught by the owning quick check')


if __name__ == '__main__':
    main()
