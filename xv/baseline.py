"""baseline-off: builds the repository with plain meson (guard OFF) in a scratch directory outside /repo and
/verif, runs its test suite and checks the stable tests of BASELINE.json still pass."""
import os, json, subprocess, shutil, tempfile, re, sys
from . import build


def main():
    base = json.load(open('/root/.vp/BASELINE.json'))
    stable = set(base['stable_pass'])
    d = tempfile.mkdtemp(prefix='xv-baseline-')
    try:
        def run(cmd, **kw):
            return subprocess.run(cmd, stdout=subprocess.PIPE, stderr=subprocess.STDOUT, **kw)
        p = run(['meson', 'setup', d, build.REPO, '-Dpython-bindings=disabled', '-Dpython-numpy-bindings=disabled',
                 '-Dfortran-bindings=disabled'])
        if p.returncode:
            print(p.stdout.decode()[-3000:]); print('baseline-off: meson setup failed'); return 2
        p = run(['ninja', '-C', d])
        if p.returncode:
            print(p.stdout.decode()[-3000:]); print('baseline-off: build failed'); return 1
        # the guard must be off in this build
        cc = open(os.path.join(d, 'compile_commands.json')).read()
        if build.GUARD in cc:
            print('baseline-off: guard unexpectedly defined'); return 2
        p = run(['meson', 'test', '-C', d, '--no-rebuild', '--num-processes', '8'])
        log = json_results(d)
        passed = {n for n, r in log.items() if r == 'OK'}
        failed = {n for n, r in log.items() if r != 'OK'}
        missing = sorted(stable - passed)
        print('baseline-off: %d passed, %d failed; stable tests not passing: %s' % (len(passed), len(failed), missing))
        print('failing (expected always_fail: %s): %s' % (sorted(base.get('always_fail', [])), sorted(failed)))
        return 1 if missing else 0
    finally:
        shutil.rmtree(d, ignore_errors=True)


def json_results(d):
    out = {}
    p = os.path.join(d, 'meson-logs', 'testlog.json')
    for l in open(p):
        try:
            r = json.loads(l)
        except ValueError:
            continue
        name = r['name']
        if '::' not in name:
            name = 'xraylib::' + name
        name = re.sub(r'^xraylib:[^:]*:?\s*/\s*', 'xraylib::', name)
        out[name] = r['result']
    return out
