"""replay: re-execute the witness of a recorded violation against the library built from the current tree.

Call-shaped witnesses ("CS_Total_CP('Es2O3',10)", "Crystal_dSpacing(Si,1,1,1)") are re-run in a single process through the
ctypes binding in both data configurations and the outcome is printed; history/interleaving witnesses print the recorded
prefix and the command (with seed) that regenerates the same history.
"""
import json, re, ast


def _parse_call(s):
    m = re.match(r"^\s*([A-Za-z_][A-Za-z0-9_:]*)\((.*)\)\s*$", s)
    if not m:
        return None
    name, args = m.group(1), m.group(2)
    out = []
    for a in re.findall(r"'(?:[^'\\]|\\.)*'|[^,]+", args):
        a = a.strip()
        if a == 'NULL':
            out.append(None)
        elif a.startswith("'"):
            out.append(a[1:-1])
        else:
            try:
                v = ast.literal_eval(a)
            except Exception:
                return None
            out.append(v)
    return name, out


def main(path):
    r = json.load(open(path))
    print('property %s  key %s' % (r['property'], r['key']))
    print('what: %s' % r['what'])
    w = r.get('witness')
    call = None
    if isinstance(w, dict):
        call = w.get('call') or w.get('witness')
    if isinstance(call, str):
        pc = _parse_call(call)
        if pc:
            from . import xl
            name, args = pc
            for cfg in ('shipped', 'kissel'):
                X = xl.XL(cfg)
                try:
                    if not hasattr(X.lib, name):
                        print('  [%s] %s is not a plain C entry point: see the witness below' % (cfg, name)); break
                    if name in ('CompoundParser',):
                        res = X.parse(args[0])
                    else:
                        res = X.num(name, *[float(a) if isinstance(a, float) else a for a in args])
                    print('  [%s] %s -> %r' % (cfg, call, res))
                except Exception as e:     # argument shapes the generic binding cannot express (crystal handles ...)
                    print('  [%s] cannot re-run generically (%s): see the witness below' % (cfg, e)); break
    print('witness:')
    print(json.dumps(w, indent=1, default=str)[:4000])
    print('re-run the owning monitor with the same seed:  VERIF_SEED=%s bin/xv check %s --tier %s' % (r.get('seed', 1), r['property'], r.get('tier', 'quick')))
    return 0
