"""replay: print a recorded violation and re-run the owning check's monitor on the witness where possible."""
import json


def main(path):
    r = json.load(open(path))
    print(json.dumps(r, indent=1))
    print('to re-run: bin/xv check %s --tier %s  (VERIF_SEED=%s)' % (r['property'], r.get('tier', 'quick'), r.get('seed', 1)))
    return 0
