"""Driver of `histmon` (history-based monitors): shards, crash handling, parsing."""
import os, json, subprocess, shutil, signal, time, struct
from concurrent.futures import ThreadPoolExecutor
from . import build
from .common import NCPU, scratch, Inconclusive
from .sweeprun import san_env, parse_san_logs


def _last(path):
    try:
        b = open(path, 'rb').read()
        h, s = struct.unpack('ll', b[:16])
        op = b[16:216].split(b'\0')[0].decode('utf8', 'replace')
        return h, s, op
    except Exception:
        return -1, -1, '?'


def _one(mon, mode, work, shard, nshards, histories, maxlen, flavour, extra, valgrind=False):
    out = os.path.join(work, '%s.s%d.json' % (mode, shard))
    last = os.path.join(work, '%s.s%d.last' % (mode, shard))
    logbase = os.path.join(work, 'san.%s.s%d' % (mode, shard))
    cmd = [mon, mode, '--shard', '%d/%d' % (shard, nshards), '--histories', str(histories), '--maxlen', str(maxlen),
           '--out', out, '--lastcall', last] + list(extra)
    env = san_env(logbase) if flavour != 'plain' else dict(os.environ)
    if valgrind:
        env = dict(env, XV_UNDER_VALGRIND='1')
        vlog = os.path.join(work, 'vg.%s.s%d.log' % (mode, shard))
        cmd = ['valgrind', '--error-exitcode=96', '--leak-check=full', '--errors-for-leak-kinds=definite,indirect',
               '--track-origins=yes', '-q', '--log-file=' + vlog] + cmd
    try:
        p = subprocess.run(cmd, env=env, stdout=subprocess.PIPE, stderr=subprocess.PIPE, timeout=7200)
    except subprocess.TimeoutExpired:
        return [], [dict(kind='watchdog', where='shard %d' % shard, reports=[], history=-1, op='?')]
    crashes = []
    reports = parse_san_logs(logbase, []) if flavour != 'plain' else []
    if valgrind and os.path.exists(vlog):
        t = open(vlog, errors='replace').read()
        if t.strip():
            import re
            for blk in re.split(r'(?m)^==\d+== \n', t):
                m = re.search(r'==\d+== ([A-Z][^\n]*)\n', blk) or re.search(r'==\d+== [\d,]+ (?:\([^)]*\) )?bytes in [\d,]+ blocks are ((?:definitely|indirectly) lost)[^\n]*\n', blk)
                if m and ('Invalid' in blk or 'uninitialised' in blk or 'lost' in blk or 'Mismatched' in blk):
                    fr = re.findall(r'(?:at|by) 0x[0-9A-F]+: (\S+) \(([^)]*)\)', blk)
                    func = next((f for f, loc in fr if loc.split(':')[0].endswith('.c') and not loc.startswith(('histmon', 'mon_', 'vg_'))), '?')
                    reports.append(dict(kind='valgrind:' + re.sub(r'[^A-Za-z]+', '-', m.group(1))[:50].strip('-'), func=func, text=blk[:2000]))
    rc = p.returncode
    recs = []
    if os.path.exists(out):
        recs = [json.loads(l) for l in open(out)]
    if rc != 0 or reports:
        h, s, op = _last(last)
        if rc == 2 and not reports:
            raise Inconclusive('histmon harness failure: ' + p.stderr.decode('utf8', 'replace')[-500:])
        kind = ('signal:' + signal.Signals(-rc).name) if rc < 0 else 'exit:%d' % rc
        crashes.append(dict(kind=kind, history=h, step=s, op=op, reports=reports, shard=shard,
                            tail=p.stderr.decode('utf8', 'replace')[-300:]))
    return recs, crashes


def run(config, flavour, mode, histories, maxlen, extra=(), nshards=None, valgrind=False, builtin_runs=0):
    """histories = total number (split over shards). returns dict(records, crashes)"""
    t0 = time.time()
    mon = build.harness(config, flavour, 'histmon')
    nshards = nshards or NCPU
    per = max(1, (histories + nshards - 1) // nshards)
    work = scratch('xv-hist-')
    try:
        jobs = [(s, nshards, per, list(extra)) for s in range(nshards)]
        for b in range(builtin_runs):
            jobs.append((1000 + b, 1, 1, list(extra) + ['--builtin']))
        def go(j):
            s, n, h, ex = j
            if '--builtin' in ex:
                return _one(mon, mode, work, s, 100003, 1, 700, flavour, ex, valgrind)
            return _one(mon, mode, work, s, n, h, maxlen, flavour, ex, valgrind)
        with ThreadPoolExecutor(NCPU) as ex:
            res = list(ex.map(go, jobs))
    finally:
        shutil.rmtree(work, ignore_errors=True)
    records, crashes = [], []
    for r, c in res:
        records += r
        crashes += c
    return dict(records=records, crashes=crashes, wall=time.time() - t0, config=config, flavour=flavour, mode=mode)


def merge(results):
    viol, ops, tot = {}, {}, dict(histories=0, steps=0, checks=0)
    for res in results:
        for r in res['records']:
            if r['type'] == 'viol':
                v = viol.setdefault(r['key'], dict(count=0, what=r['what'], witness=r['witness']))
                v['count'] += r['count']
            elif r['type'] == 'op':
                k = (r['op'], r['outcome'])
                ops[k] = ops.get(k, 0) + r['count']
            elif r['type'] == 'summary':
                for x in tot:
                    tot[x] += r.get(x, 0)
    return viol, ops, tot
