"""C15 - built-in databases are self-consistent and addressable in every documented way (exhaustive catalogue checker).

Everything is observed through the public API of the library built from the current tree (ctypes binding `xl.XL`,
plus the ASan executor for the lookup/free paths) and the macro values printed by a compiled probe of the headers:

  * element table: AtomicNumberToSymbol / SymbolToAtomicNumber form a bijection between 1..N (N = 107) and the symbols,
    every other Z and every other 1-3 letter string is an error;
  * NIST compounds, radionuclides: list order == by-index order == by-name, names unique, every index outside 0..N-1
    is an error, NIST_COMPOUND_* / RADIO_NUCLIDE_* macro values are a bijection onto 0..N-1 and the macro *name* is the
    entry's name (compared after reducing both to upper-case alphanumerics: the API names contain ' ', ',', '-', '/',
    '(' ')' that the macro names render as '_' or drop: 'Nylon, type 6/10' <-> NYLON_TYPE_610, '1,2-Dichloroethane' <->
    12_DICHLOROETHANE; the reduction is required to stay injective on the catalogue);
  * crystals: list == by-name, names unique, Crystal_MakeCopy equals the lookup;
  * entry invariants of the statement;
  * every lookup is an independent deep copy: two live results share no storage, scribbling over one (arrays, name
    buffer, scalars) changes neither the other nor any later lookup, and the results can be freed in either order.
    Those sequences run in a forked child per catalogue; an abnormal exit of the child is a violation.

Mass-fraction tolerance: the catalogue is printed with 6 decimals (measured: every fraction is a multiple of 1e-6), so
each fraction carries a rounding of at most 0.5e-6 and a correctly rounded entry of n elements sums to 1 within
n*0.5e-6 (+1e-14 for the double representation of the terms and of the sum). Measured worst deviation: 2e-6 ('Glass,
Pyrex', n = 6, bound 3e-6).
"""
import os, re, json, math, signal, tempfile, itertools
import ctypes as C
import numpy as np
from .. import srctab, common, refdata, xl, execlib, build

EXTREME = [-2147483648, 2147483647, -65536, 65536]
SYM_RE = re.compile(r'^[A-Z][a-z]{0,2}$')
DECIMALS = 6


def reduce_name(s):
    return re.sub(r'[^A-Za-z0-9]', '', s).upper()


class Facts:
    def __init__(self):
        self.n = {}
        self.samples = []

    def ok(self, kind, k=1):
        self.n[kind] = self.n.get(kind, 0) + k


def is_err(x):
    return isinstance(x, xl.Err)


def _step(ck, text):
    """announce the next risky call to the parent process (no-op outside a child)"""
    if hasattr(ck, 'step'):
        ck.step(text)


# ------------------------------------------------------------------------------------------------------------
# elements
# ------------------------------------------------------------------------------------------------------------
def check_elements(ck, X, F, tier):
    syms = {}
    Zs = list(range(-3, 126)) + (EXTREME if tier == 'thorough' else [])
    for Z in Zs:
        s = X.symbol(Z)
        if not is_err(s):
            syms[Z] = s
    N = max(syms) if syms else 0
    if sorted(syms) != list(range(1, N + 1)) or N != 107:
        extra = sorted(z for z in syms if not 1 <= z <= 107)
        missing = sorted(z for z in range(1, 108) if z not in syms)
        ck.violation('c15:elements:symbol-domain', 'AtomicNumberToSymbol is defined on %s instead of exactly 1..107' %
                     ('1..%d plus %s' % (N, extra[:5]) if not missing else 'a set missing %s' % missing[:5]),
                     dict(missing=missing[:10], unexpected=extra[:10]))
    else:
        F.ok('element:symbol-domain', len(Zs))
    seen = {}
    for Z, s in sorted(syms.items()):
        if not SYM_RE.match(s):
            ck.violation('c15:elements:malformed-symbol', 'AtomicNumberToSymbol(%d) = %r is not a chemical symbol' % (Z, s), dict(Z=Z, symbol=s))
        if s in seen:
            ck.violation('c15:elements:duplicate-symbol', 'symbol %r is returned for Z=%d and Z=%d' % (s, seen[s], Z), dict(symbol=s, Z=[seen[s], Z]))
        seen.setdefault(s, Z)
        z2 = X.atomic_number(s)
        if is_err(z2) or z2 != Z:
            ck.violation('c15:elements:roundtrip', 'SymbolToAtomicNumber(AtomicNumberToSymbol(%d) = %r) = %r' % (Z, s, z2),
                         dict(call='SymbolToAtomicNumber(%r)' % s, expected=Z, returned=repr(z2)))
        else:
            F.ok('element:roundtrip')
    # every other candidate string must be refused (otherwise symbol -> Z is not injective)
    lower = 'abcdefghijklmnopqrstuvwxyz'
    cands = [None, '', ' ', 'h', 'HE', 'he', 'H ', ' H', 'H2', 'Hydrogen']
    for a in 'ABCDEFGHIJKLMNOPQRSTUVWXYZ':
        cands.append(a)
        for b in lower:
            cands.append(a + b)
    for s in list(seen):
        cands += [s.lower(), s.upper(), s + 'x', s + ' ']
    for b, c in itertools.product(lower, lower):
        cands.append('U' + b + c)
    done = set()
    for s in cands:
        if s in seen or s in done:
            continue
        done.add(s)
        z = X.atomic_number(s)
        if not is_err(z):
            ck.violation('c15:elements:non-symbol-accepted', 'SymbolToAtomicNumber(%r) = %r although no element has that symbol' % (s, z),
                         dict(call='SymbolToAtomicNumber(%r)' % (s,), returned=z, symbol_of_that_Z=syms.get(z)))
        else:
            F.ok('element:non-symbol-refused')
    F.samples.append(dict(fact='symbol<->Z', Z=26, symbol=syms.get(26), back=X.atomic_number(syms.get(26, 'Fe'))))
    return syms


# ------------------------------------------------------------------------------------------------------------
# indexed catalogues (NIST compounds, radionuclides)
# ------------------------------------------------------------------------------------------------------------
def check_indexed(ck, X, F, tier, tag, lister, getter, macros, prefix):
    _step(ck, '%s: obtain the name list' % tag)
    lst = lister()
    if is_err(lst):
        ck.violation('c15:%s:list-failed' % tag, 'the name list could not be obtained: %r' % lst, None)
        return [], {}
    names, n = lst['names'], lst['n']
    N = len(names)
    if n != N:
        ck.violation('c15:%s:list-count' % tag, 'the list reports %d names but holds %d' % (n, N), dict(reported=n, held=N))
    else:
        F.ok(tag + ':list-count')
    pos = {}
    for i, nm in enumerate(names):
        if nm in pos:
            ck.violation('c15:%s:duplicate-name' % tag, 'name %r appears at list positions %d and %d' % (nm, pos[nm], i), dict(name=nm, positions=[pos[nm], i]))
        pos.setdefault(nm, i)
    F.ok(tag + ':names-unique', N)
    entries = {}
    for i, nm in enumerate(names):
        _step(ck, '%s: lookup by index %d and free' % (tag, i))
        bi = getter(i)
        _step(ck, '%s: lookup by name %r and free' % (tag, nm))
        bn = getter(nm)
        if is_err(bi):
            ck.violation('c15:%s:by-index-fails-inside-range' % tag, 'lookup by index %d failed: %r' % (i, bi), dict(index=i, listed_name=nm))
            continue
        entries[i] = bi
        if bi['name'] != nm:
            ck.violation('c15:%s:index-order-differs-from-list' % tag, 'entry at index %d is %r but the list has %r at that position' % (i, bi['name'], nm),
                         dict(index=i, by_index_name=bi['name'], listed_name=nm))
        else:
            F.ok(tag + ':index==list')
        if is_err(bn):
            ck.violation('c15:%s:listed-name-not-found' % tag, 'lookup by the listed name %r failed: %r' % (nm, bn), dict(name=nm))
        elif bn['name'] != nm:
            ck.violation('c15:%s:by-name-returns-other-entry' % tag, 'lookup by name %r returned the entry named %r' % (nm, bn['name']), dict(name=nm, returned=bn['name']))
        elif pos[nm] == i and bn != bi:
            diff = [k for k in bi if bi[k] != bn.get(k)]
            ck.violation('c15:%s:by-name-differs-from-by-index' % tag, 'entry %r looked up by name and by index %d differ in %s' % (nm, i, diff),
                         dict(name=nm, index=i, by_name={k: bn[k] for k in diff}, by_index={k: bi[k] for k in diff}))
        else:
            F.ok(tag + ':name==index')
    # out-of-range indices, unknown names
    outside = list(range(-3, 0)) + list(range(N, N + 3)) + (EXTREME if tier == 'thorough' else [-2147483648, 2147483647])
    for i in outside:
        r = getter(i)
        if not is_err(r):
            ck.violation('c15:%s:index-outside-range-accepted' % tag, 'lookup by index %d (catalogue has %d entries) returned an entry' % (i, N),
                         dict(index=i, n=N, returned_name=r.get('name')))
        else:
            F.ok(tag + ':index-outside-refused')
    for nm in [None, '', 'no such entry', names[0] + '\x01' if names else 'x']:
        r = getter(nm)
        if not is_err(r):
            ck.violation('c15:%s:unknown-name-accepted' % tag, 'lookup by name %r returned an entry' % (nm,), dict(name=nm, returned_name=r.get('name')))
        else:
            F.ok(tag + ':unknown-name-refused')
    # near misses of EVERY listed name: the name with something appended / prepended / its last character missing is not in the list
    # (unless that string happens to be another listed name), so it does not resolve
    nameset = set(names)
    for nm in names:
        for v in (nm + 'x', nm + ' ', nm + ' (2)', nm + nm[-1:], ' ' + nm, nm[:-1], nm + '\x01' + 'y' * 40):
            if v in nameset or not v:
                continue
            r = getter(v)
            if not is_err(r):
                ck.violation('c15:%s:near-miss-of-a-listed-name-accepted' % tag, 'lookup by %r (not in the list; near miss of the listed %r) returned the entry %r' % (v, nm, r.get('name')),
                             dict(name=v, listed=nm, returned_name=r.get('name')))
            else:
                F.ok(tag + ':near-miss-refused')
    # published index macros
    red = {}
    for i, nm in enumerate(names):
        red.setdefault(reduce_name(nm), []).append(i)
    amb = {k: v for k, v in red.items() if len(v) > 1}
    if amb:
        raise common.Inconclusive('%s: names are not distinguishable after reduction to alphanumerics: %r' % (tag, list(amb.items())[:3]))
    mvals = {}
    for mname, v in macros.items():
        mvals.setdefault(v, []).append(mname)
    for v, ms in sorted(mvals.items()):
        if len(ms) > 1:
            ck.violation('c15:%s:macros-share-index' % tag, 'macros %s all have the value %d' % ([prefix + m for m in ms], v), dict(value=v, macros=ms))
        if not 0 <= v < N:
            ck.violation('c15:%s:macro-outside-range' % tag, 'macro %s = %d does not index the catalogue (0..%d)' % (prefix + ms[0], v, N - 1), dict(macro=prefix + ms[0], value=v))
    uncovered = [i for i in range(N) if i not in mvals]
    for i in uncovered[:3]:
        ck.violation('c15:%s:index-without-macro' % tag, 'no published macro has the value %d (entry %r)' % (i, names[i]), dict(index=i, name=names[i]))
    if len(macros) != N:
        ck.violation('c15:%s:macro-count' % tag, '%d index macros are published for %d entries' % (len(macros), N), dict(macros=len(macros), entries=N))
    for mname, v in sorted(macros.items(), key=lambda kv: kv[1]):
        if 0 <= v < N:
            e = getter(v)
            got = e['name'] if not is_err(e) else repr(e)
            if is_err(e) or reduce_name(got) != reduce_name(mname):
                ck.violation('c15:%s:macro-indexes-other-entry' % tag, 'macro %s = %d indexes the entry %r' % (prefix + mname, v, got),
                             dict(macro=prefix + mname, value=v, entry_at_that_index=got,
                                  index_of_matching_name=red.get(reduce_name(mname), [None])[0]))
            else:
                F.ok(tag + ':macro==entry')
    return names, entries


def check_interleaved_lookups(ck, X, F, tag, names, getter, st):
    """by-name(a), by-index(j), by-name(a) again - for EVERY pair (a, j): the second by-name lookup describes the same entry as the first whatever
    was looked up by index in between; and a query that is a proper prefix of entry j's name (as long as name a) is refused unless it is itself a
    name.  A lookup is a function of its argument, not of the lookups before it."""
    N = len(names)
    nameset = set(names)
    key = lambda e: None if is_err(e) else (e['name'], repr(sorted((k, v) for k, v in e.items() if k != 'name')))
    first = [key(getter(a)) for a in names]
    n = bad = 0
    for ia, a in enumerate(names):
        if first[ia] is None:
            continue
        for j in range(N):
            _step(ck, '%s: by-name(%r), by-index(%d), by-name again' % (tag, a, j)) if (ia * N + j) % 997 == 0 else None
            getter(a); ej = getter(j); again = key(getter(a)); n += 3
            if again != first[ia]:
                bad += 1
                if bad <= 3:
                    ck.violation('c15:%s:by-name-depends-on-an-earlier-by-index-lookup' % tag, 'by-name(%r) returns the entry %r right after by-index(%d) = %r was looked up; it returned %r before' % (
                        a, again and again[0], j, None if is_err(ej) else ej['name'], first[ia][0]), dict(name=a, index=j, indexed_entry=None if is_err(ej) else ej['name']))
            nj = names[j]
            if len(nj) > len(a) and nj[:len(a)] != a and nj[:len(a)] not in nameset:
                q = nj[:len(a)]
                r = getter(q); n += 1
                if not is_err(r):
                    bad += 1
                    if bad <= 6:
                        ck.violation('c15:%s:unknown-name-accepted-after-other-lookups' % tag, 'by-name(%r) - no entry of the catalogue - returns the entry %r after by-name(%r) and by-index(%d)' % (q, r['name'], a, j),
                                     dict(query=q, returned=r['name'], after_name=a, after_index=j))
    st[tag + '_interleaved_lookups'] = n
    if not bad:
        F.ok(tag + ':lookups-independent-of-earlier-lookups', N * N)


def check_compound_entries(ck, X, F, entries, syms, st):
    worst = (0.0, None)
    src = srctab.nist_compounds()       # the table the catalogue is compiled from, read from the source text of the tree
    st['source_table_rows'] = len(src)
    st['copies_compared_with_source_table'] = 0
    for i, e in sorted(entries.items()):
        nm, n = e['name'], e['nElements']
        wit = dict(index=i, name=nm, Elements=e['Elements'], massFractions=e['massFractions'], density=e['density'])
        good = True
        # "every lookup returns a deep COPY": what comes out is what the table holds, bit for bit (a value narrowed or rounded on its way
        # through the public struct is not a copy of the tabulated one)
        r = src.get(nm)
        if r is not None and r['index'] == i:
            st['copies_compared_with_source_table'] += 1
            if e['density'] != r['density'] or e['Elements'] != r['Elements'] or e['massFractions'] != r['massFractions']:
                what = 'density' if e['density'] != r['density'] else ('Elements' if e['Elements'] != r['Elements'] else 'massFractions')
                ck.violation('c15:nist:entry:copy-differs-from-source-table:' + what, 'entry %d %r: the lookup returns %s = %r, the table in src/xraylib-nist-compounds-internal.h has %r' % (
                    i, nm, what, e[what], r[what]), dict(wit, source_row=r)); good = False
        if n < 1:
            ck.violation('c15:nist:entry:no-elements', 'compound %r has %d elements' % (nm, n), wit); continue
        if any(b <= a for a, b in zip(e['Elements'], e['Elements'][1:])):
            ck.violation('c15:nist:entry:elements-not-ascending', 'elements of %r are not strictly ascending: %r' % (nm, e['Elements']), wit); good = False
        if any(z not in syms for z in e['Elements']):
            ck.violation('c15:nist:entry:element-not-in-table', 'compound %r lists an atomic number that has no symbol: %r' % (nm, e['Elements']), wit); good = False
        if any(not (f > 0 and math.isfinite(f)) for f in e['massFractions']):
            ck.violation('c15:nist:entry:mass-fraction-not-positive', 'compound %r has a non-positive mass fraction: %r' % (nm, e['massFractions']), wit); good = False
        s = math.fsum(e['massFractions'])
        tol = n * 0.5 * 10.0 ** -DECIMALS + 1e-14
        dev = abs(s - 1.0)
        if not dev <= tol:
            ck.violation('c15:nist:entry:mass-fractions-do-not-sum-to-1', 'mass fractions of %r sum to %.9f (|dev| %.3g > %d x 0.5e-6 rounding of the printed catalogue)' % (nm, s, dev, n),
                         dict(wit, sum=s)); good = False
        elif dev > worst[0]:
            worst = (dev, dict(name=nm, n=n, sum=s, bound=tol))
        st['fractions'] += n
        st['fractions_finer_than_6_decimals'] += sum(1 for f in e['massFractions'] if abs(f * 1e6 - round(f * 1e6)) > 1e-6)
        if not (e['density'] > 0 and math.isfinite(e['density'])):
            ck.violation('c15:nist:entry:density-not-positive', 'density of %r is %r' % (nm, e['density']), wit); good = False
        # an entry that is a chemical compound carries the composition of its formula (the formula table is chemistry, refdata.NIST_FORMULAS;
        # the parser that expands it is checked by C07): ties the NAME of the entry to the numbers stored under it
        f_ = refdata.NIST_FORMULAS.get(nm)
        if f_:
            p_ = X.parse(f_.encode())
            if not is_err(p_):
                st['stoichiometry_checked'] = st.get('stoichiometry_checked', 0) + 1
                if p_['Elements'] != e['Elements'] or max(abs(a - b) for a, b in zip(p_['massFractions'], e['massFractions'])) > 1e-3:
                    ck.violation('c15:nist:entry:composition-is-not-that-of-the-named-compound', 'the catalogue entry %r holds Z=%r w=%r, the compound %s is Z=%r w=%r' % (
                        nm, e['Elements'], e['massFractions'], f_, p_['Elements'], [round(x, 6) for x in p_['massFractions']]), dict(wit, formula=f_)); good = False
        if good:
            F.ok('nist:entry-invariants', 4)
    st['worst_sum_deviation'] = worst[0]
    st['worst_sum_entry'] = worst[1]


RATIO_PAIRS = [('KA2', 'KA1'), ('KB3', 'KB1'), ('LB4', 'LB3'), ('LH', 'LB1'), ('LA2', 'LA1'), ('LL', 'LA1')]
LINE_MACROS = {}


def check_nuclide_entries(ck, X, F, entries, syms, st):
    if not LINE_MACROS:
        LINE_MACROS.update(refdata.Macros().by_suffix('_LINE') and {k + '_LINE': v for k, v in refdata.Macros().by_suffix('_LINE').items()})
    for i, e in sorted(entries.items()):
        nm = e['name']
        wit = dict(index=i, name=nm, Z=e['Z'], A=e['A'], N=e['N'], Z_xray=e['Z_xray'])
        good = True
        if e['A'] != e['Z'] + e['N']:
            ck.violation('c15:nuclide:entry:A!=Z+N', 'nuclide %r: A=%d, Z=%d, N=%d' % (nm, e['A'], e['Z'], e['N']), wit); good = False
        want = '%d%s' % (e['A'], syms.get(e['Z'], '?'))
        if nm != want:
            ck.violation('c15:nuclide:entry:name', 'nuclide at index %d is named %r, A followed by the symbol of Z is %r' % (i, nm, want), wit); good = False
        # "X-ray lines ... for the DAUGHTER element": which element that is follows from the decay mode of the nuclide (refdata.NUCLIDE_DECAY)
        dec = refdata.NUCLIDE_DECAY.get(nm)
        if dec is not None:
            st['nuclide_daughters_checked'] = st.get('nuclide_daughters_checked', 0) + 1
            if e['Z_xray'] != e['Z'] + dec[1]:
                ck.violation('c15:nuclide:entry:x-ray-element-is-not-the-daughter', 'nuclide %r decays by %s, its daughter is Z=%d (%s); the entry gives its X-ray lines for Z_xray=%d (%s)' % (
                    nm, dec[0], e['Z'] + dec[1], syms.get(e['Z'] + dec[1], '?'), e['Z_xray'], syms.get(e['Z_xray'], '?')), dict(wit, decay=dec[0], daughter=e['Z'] + dec[1])); good = False
        if e['nXrays'] < 1:
            ck.violation('c15:nuclide:entry:no-xrays', 'nuclide %r lists %d X-ray lines' % (nm, e['nXrays']), wit); good = False
        for k, (ln, inten) in enumerate(zip(e['XrayLines'], e['XrayIntensities'])):
            en = X.num('LineEnergy', e['Z_xray'], ln)
            st['nuclide_lines'] += 1
            if is_err(en) or not en > 0:
                ck.violation('c15:nuclide:entry:xray-line-without-energy', 'nuclide %r lists X-ray line %d but LineEnergy(%d, %d) = %r' % (nm, ln, e['Z_xray'], ln, en),
                             dict(wit, line=ln, position=k, call='LineEnergy(%d,%d)' % (e['Z_xray'], ln))); good = False
            if not (inten >= 0 and math.isfinite(inten)):
                ck.violation('c15:nuclide:entry:negative-intensity', 'nuclide %r X-ray intensity %r' % (nm, inten), dict(wit, line=ln, intensity=inten)); good = False
        # lines that start from the same sub-shell of the daughter are emitted in the ratio of their radiative rates: the intensities must
        # belong to the lines they are listed with (factor 1.5; the shipped entries agree within 1.3).  Line macros by name from the header.
        inten_of = dict(zip(e['XrayLines'], e['XrayIntensities']))
        for l1, l2 in RATIO_PAIRS:
            m1, m2 = LINE_MACROS.get(l1 + '_LINE'), LINE_MACROS.get(l2 + '_LINE')
            if m1 in inten_of and m2 in inten_of and inten_of[m1] > 0 and inten_of[m2] > 0:
                r1, r2 = X.num('RadRate', e['Z_xray'], m1), X.num('RadRate', e['Z_xray'], m2)
                if is_err(r1) or is_err(r2) or not (r1 > 0 and r2 > 0):
                    continue
                q = (inten_of[m1] / inten_of[m2]) / (r1 / r2)
                st['nuclide_ratio_pairs'] = st.get('nuclide_ratio_pairs', 0) + 1
                if not (1 / 1.5 <= q <= 1.5):
                    ck.violation('c15:nuclide:entry:intensities-do-not-belong-to-their-lines', 'nuclide %r: I(%s)/I(%s) = %.4g but RadRate ratio for Z=%d is %.4g (quotient %.3g)' % (
                        nm, l1, l2, inten_of[m1] / inten_of[m2], e['Z_xray'], r1 / r2, q), dict(wit, lines=[l1, l2])); good = False
        for k, (ge, gi) in enumerate(zip(e['GammaEnergies'], e['GammaIntensities'])):
            if not (gi >= 0 and math.isfinite(gi) and math.isfinite(ge)):
                ck.violation('c15:nuclide:entry:negative-intensity', 'nuclide %r gamma %r keV intensity %r' % (nm, ge, gi), dict(wit, gamma=ge, intensity=gi)); good = False
        if good:
            F.ok('nuclide:entry-invariants', 3 + e['nXrays'])
    if entries:
        e = entries[min(entries)]
        F.samples.append(dict(fact='nuclide entry', name=e['name'], Z=e['Z'], A=e['A'], N=e['N'], Z_xray=e['Z_xray'], first_line=e['XrayLines'][:1],
                              LineEnergy=X.num('LineEnergy', e['Z_xray'], e['XrayLines'][0]) if e['XrayLines'] else None))


# ------------------------------------------------------------------------------------------------------------
# crystals
# ------------------------------------------------------------------------------------------------------------
def check_crystals(ck, X, F, tier, st):
    lst = X.crystal_list()
    if is_err(lst):
        ck.violation('c15:crystal:list-failed', 'Crystal_GetCrystalsList failed: %r' % lst, None)
        return []
    names = lst['names']
    if lst['n'] != len(names):
        ck.violation('c15:crystal:list-count', 'the list reports %d names but holds %d' % (lst['n'], len(names)), dict(reported=lst['n'], held=len(names)))
    seen = {}
    for i, nm in enumerate(names):
        if nm in seen:
            ck.violation('c15:crystal:duplicate-name', 'crystal name %r appears at list positions %d and %d' % (nm, seen[nm], i), dict(name=nm))
        seen.setdefault(nm, i)
    F.ok('crystal:names-unique', len(names))
    builtin_dict = {}
    data_ok = {}
    def has_data(Z):
        if Z not in data_ok:
            data_ok[Z] = all(not is_err(v) and math.isfinite(v) for v in
                             (X.num('AtomicWeight', Z), X.num('FF_Rayl', Z, 0.0), X.num('Fi', Z, 10.0), X.num('Fii', Z, 10.0)))
        return data_ok[Z]
    src_crystals = srctab.crystals()
    st['crystals_in_the_data_file'] = len(src_crystals)
    for nm in names:
        _step(ck, 'crystal: lookup %r, copy, free both' % nm)
        g = X.get_crystal(nm)
        if is_err(g):
            ck.violation('c15:crystal:listed-name-not-found', 'Crystal_GetCrystal(%r) failed: %r' % (nm, g), dict(name=nm)); continue
        p, d = g
        builtin_dict[nm] = d
        e = C.POINTER(xl.XrlError)()
        q = X.lib.Crystal_MakeCopy(p, C.byref(e)); X.calls += 1
        err = X._err(e)
        d2 = X.crystal_dict(q.contents) if q else None
        if q:
            X.lib.Crystal_Free(q)
        X.free_crystal(p)
        # the catalogue is the compiled form of data/Crystals.dat: every entry holds the cell and the atoms its block of that file gives,
        # to the precision the generator writes them with (six decimals, single precision)
        srcc = src_crystals.get(nm)
        if srcc is not None:
            st['crystals_compared_with_the_data_file'] = st.get('crystals_compared_with_the_data_file', 0) + 1
            close = lambda a, b: abs(a - b) <= 0.6e-6 + 1.2e-7 * abs(b)
            cell = [d['a'], d['b'], d['c'], d['alpha'], d['beta'], d['gamma']]
            if not all(close(a, b) for a, b in zip(cell, srcc['cell'])):
                ck.violation('c15:crystal:entry:cell-differs-from-data-file', 'crystal %r has the cell %r, data/Crystals.dat gives %r' % (nm, cell, srcc['cell']), dict(name=nm, cell=cell, data_file=srcc['cell']))
            elif len(d['atoms']) != len(srcc['atoms']):
                ck.violation('c15:crystal:entry:atom-count-differs-from-data-file', 'crystal %r has %d atoms, data/Crystals.dat gives %d' % (nm, len(d['atoms']), len(srcc['atoms'])), dict(name=nm))
            else:
                for k, (a_, b_) in enumerate(zip(d['atoms'], srcc['atoms'])):
                    if a_[0] != b_[0] or not all(close(x, y) for x, y in zip(a_[1:], b_[1:])):
                        what = 'Z' if a_[0] != b_[0] else ('occupancy' if not close(a_[1], b_[1]) else 'position')
                        ck.violation('c15:crystal:entry:atom-differs-from-data-file:' + what, 'crystal %r atom %d is %r, data/Crystals.dat gives %r' % (nm, k, tuple(a_), b_),
                                     dict(name=nm, atom=k, catalogue=list(a_), data_file=list(b_)))
                        break
                else:
                    F.ok('crystal:entry==data-file', len(d['atoms']))
        if d['name'] != nm:
            ck.violation('c15:crystal:by-name-returns-other-entry', 'Crystal_GetCrystal(%r) returned the crystal named %r' % (nm, d['name']), dict(name=nm, returned=d['name']))
        else:
            F.ok('crystal:name==list')
        if d2 != d:
            ck.violation('c15:crystal:copy-differs', 'Crystal_MakeCopy of %r differs from the original (%r)' % (nm, err), dict(name=nm))
        else:
            F.ok('crystal:copy==lookup')
        good = True
        if len(d['atoms']) < 1:
            ck.violation('c15:crystal:entry:no-atoms', 'crystal %r has no atoms' % nm, dict(name=nm)); good = False
        for k, (Z, occ, x, y, z) in enumerate(d['atoms']):
            st['crystal_atoms'] += 1
            if not (1 <= Z <= 120 and has_data(Z)):
                ck.violation('c15:crystal:entry:atom-Z-invalid', 'crystal %r atom %d has Z=%d, for which the library has no atomic weight / form factor / anomalous factors' % (nm, k, Z),
                             dict(name=nm, atom=k, Z=Z)); good = False
            if not (0 < occ <= 1):
                ck.violation('c15:crystal:entry:occupancy-outside-(0,1]', 'crystal %r atom %d (Z=%d) has occupancy %r' % (nm, k, Z, occ),
                             dict(name=nm, atom=k, Z=Z, occupancy=occ)); good = False
        sites = {}
        for (Z, occ, x, y, z) in d['atoms']:
            key = (Z, round(x % 1.0, 5) % 1.0, round(y % 1.0, 5) % 1.0, round(z % 1.0, 5) % 1.0)       # one element on one position (OH groups legitimately share a position)
            sites[key] = sites.get(key, 0.0) + occ
        over = {k_: v_ for k_, v_ in sites.items() if v_ > 1.0 + 1e-6}
        if over:
            k_, v_ = sorted(over.items())[0]
            ck.violation('c15:crystal:entry:site-occupied-more-than-once', 'crystal %r: the Z=%d atoms at (%g, %g, %g) have a total occupancy of %g' % (nm, k_[0], k_[1], k_[2], k_[3], v_),
                         dict(name=nm, site=list(k_), occupancy=v_)); good = False
        if good:
            F.ok('crystal:entry-invariants', 2 * len(d['atoms']))
    near = [v for nm in names for v in (nm + 'x', nm + ' ', ' ' + nm, nm[:-1], nm + nm[-1:], nm + '\x01' + 'y' * 30)]
    for nm in [None, '', 'no such crystal', names[0] + '\x01' if names else 'x', names[0].swapcase() if names else 'y'] + near:
        if nm in seen:
            continue
        g = X.get_crystal(nm)
        if not is_err(g):
            X.free_crystal(g[0])
            ck.violation('c15:crystal:unknown-name-accepted', 'Crystal_GetCrystal(%r) returned the crystal %r' % (nm, g[1]['name']), dict(name=nm))
        else:
            F.ok('crystal:unknown-name-refused')
    if names:
        g = X.get_crystal(names[len(names) // 2])
        if not is_err(g):
            X.free_crystal(g[0])
            F.samples.append(dict(fact='crystal entry', name=g[1]['name'], atoms=g[1]['atoms'][:2], n_atom=len(g[1]['atoms'])))
    # explicit additions to the built-in collection (this function runs in a child process): wherever the new name sorts - before the
    # first entry, in the middle, behind the last - every catalogue crystal stays addressable by name, unchanged, and the list sorted
    have = list(names)
    for new in ('0_XvFirst', 'AAAA', names[len(names) // 2] + '_Xv' if names else 'M', 'zzzz_XvLast', 'A'):
        if new in have or not builtin_dict:
            continue
        _step(ck, 'crystal: Crystal_AddCrystal(%r) to the built-in collection, then re-read the catalogue' % new)
        cs = X.make_crystal(new, [4.0, 5.0, 6.0, 80.0, 95.0, 100.0], [(14, 1.0, 0.0, 0.0, 0.0), (8, 0.5, 0.25, 0.5, 0.75)])
        rc = X.lib.Crystal_AddCrystal(C.byref(cs), None, None); X.calls += 1
        if rc != 1:
            ck.violation('c15:crystal:addition-refused', 'Crystal_AddCrystal(%r) on the built-in collection returned %r' % (new, rc), dict(name=new)); continue
        have.append(new)
        l2 = X.crystal_list()
        if is_err(l2) or sorted(l2['names'], key=lambda x: x.encode()) != sorted(have, key=lambda x: x.encode()):
            ck.violation('c15:crystal:list-wrong-after-addition', 'after adding %r the list does not hold exactly the catalogue plus the additions' % new,
                         dict(added=new, listed=None if is_err(l2) else l2['names'][:60]))
        elif l2['names'] != sorted(have, key=lambda x: x.encode()):
            ck.violation('c15:crystal:list-unsorted-after-addition', 'after adding %r the list is no longer in strcmp order' % new, dict(added=new, listed=l2['names'][:60]))
        for nm in names:
            g = X.get_crystal(nm)
            if is_err(g):
                ck.violation('c15:crystal:catalogue-entry-lost-after-addition', 'after adding %r, Crystal_GetCrystal(%r) fails: %r' % (new, nm, g), dict(added=new, name=nm)); continue
            X.free_crystal(g[0])
            if g[1] != builtin_dict.get(nm, g[1]):
                ck.violation('c15:crystal:catalogue-entry-changed-after-addition', 'after adding %r the entry %r differs from what it was' % (new, nm), dict(added=new, name=nm))
            else:
                F.ok('crystal:entry-intact-after-addition')
    return names


# ------------------------------------------------------------------------------------------------------------
# deep-copy independence (forked child, raw ctypes pointers)
# ------------------------------------------------------------------------------------------------------------
def _faddr(obj, field):
    """address stored in a pointer-valued field of a ctypes structure"""
    return C.c_void_p.from_address(C.addressof(obj) + getattr(type(obj), field).offset).value


def _strlen(addr):
    return len(C.string_at(addr)) if addr else 0


class Kind:
    """how to look up / snapshot / scribble / free one catalogue's objects through the raw library"""

    def __init__(self, X, tag):
        self.X, self.tag, self.lib = X, tag, X.lib

    def lookup(self, key):
        e = C.POINTER(xl.XrlError)()
        lib = self.lib
        if self.tag == 'nist':
            p = lib.GetCompoundDataNISTByIndex(key, C.byref(e)) if isinstance(key, int) else lib.GetCompoundDataNISTByName(xl._b(key), C.byref(e))
        elif self.tag == 'nuclide':
            p = lib.GetRadioNuclideDataByIndex(key, C.byref(e)) if isinstance(key, int) else lib.GetRadioNuclideDataByName(xl._b(key), C.byref(e))
        else:
            p = lib.Crystal_GetCrystal(xl._b(key), None, C.byref(e))
        if e:
            lib.xrl_error_free(e)
        return p if p else None

    def free(self, p):
        {'nist': self.lib.FreeCompoundDataNIST, 'nuclide': self.lib.FreeRadioNuclideData, 'crystal': self.lib.Crystal_Free}[self.tag](p)

    def arrays(self, c):
        """[(field, element count, element size)] of the heap blocks an object owns"""
        if self.tag == 'nist':
            return [('Elements', c.nElements, 4), ('massFractions', c.nElements, 8)]
        if self.tag == 'nuclide':
            return [('XrayLines', c.nXrays, 4), ('XrayIntensities', c.nXrays, 8), ('GammaEnergies', c.nGammas, 8), ('GammaIntensities', c.nGammas, 8)]
        return [('atom', c.n_atom, C.sizeof(xl.CrystalAtom))]

    def snap(self, p):
        """full content as python bytes/values (reads only inside the blocks the object declares)"""
        c = p.contents
        na = _faddr(c, 'name')
        out = dict(name=C.string_at(na) if na else None)
        for f, _t in type(c)._fields_:
            if f == 'name':
                continue
            v = getattr(c, f)
            if isinstance(v, (int, float)):
                out[f] = v
        for f, n, sz in self.arrays(c):
            a = _faddr(c, f)
            out[f] = C.string_at(a, n * sz) if a and n > 0 else b''
        return out

    def blocks(self, p):
        c = p.contents
        b = {'struct': (C.addressof(c), C.sizeof(c)), 'name': (_faddr(c, 'name'), _strlen(_faddr(c, 'name')) + 1)}
        for f, n, sz in self.arrays(c):
            if n > 0:
                b[f] = (_faddr(c, f), n * sz)
        return b

    def scribble(self, p):
        c = p.contents
        na = _faddr(c, 'name')
        if na:
            C.memset(na, 0x58, _strlen(na))
        for f, n, sz in self.arrays(c):
            a = _faddr(c, f)
            if a and n > 0:
                C.memset(a, 0xA5, n * sz)
        for f, t in type(c)._fields_:
            if t is C.c_double:
                setattr(c, f, -12345.5)
        # integer members other than the counts (counts stay: they only describe the blocks)
        for f in ('Z', 'A', 'N', 'Z_xray'):
            if hasattr(c, f):
                setattr(c, f, -77)


def _overlap(b1, b2):
    out = []
    for f1, (a1, n1) in b1.items():
        for f2, (a2, n2) in b2.items():
            if a1 and a2 and a1 < a2 + n2 and a2 < a1 + n1:
                out.append((f1, f2))
    return out


def deepcopy_child(X, tag, c):
    """runs in the forked child; every entry is addressed in all available ways (index/index, index/name, name/name)"""
    K = Kind(X, tag)
    n_seq = 0
    emit = c.emit
    emit(step='%s: obtain the name list' % tag)
    lst = {'nist': X.nist_list, 'nuclide': X.nuclide_list, 'crystal': X.crystal_list}[tag]()
    names = [] if is_err(lst) else lst['names']
    if tag == 'crystal':
        keys = [(n, n) for n in names]
    else:
        stride = 9 if tag == 'nist' else 1
        keys = [(i, i) for i in range(len(names))] + [(i, names[i]) for i in range(len(names))] + \
               [(names[i], names[i]) for i in range(0, len(names), stride)]
    for j, (ka, kb) in enumerate(keys):
        for order in (0, 1):
            emit(step='%s %r/%r: two live lookups' % (tag, ka, kb))
            p1, p2 = K.lookup(ka), K.lookup(kb)
            if p1 is None or p2 is None:
                emit(viol='c15:deep-copy:lookup-failed:%s' % tag, what='lookup of %r / %r failed inside the deep-copy sequence' % (ka, kb), witness=dict(keys=[ka, kb]))
                break
            base = K.snap(p2)
            if K.snap(p1) != base:
                emit(viol='c15:deep-copy:repeated-lookup-differs:%s' % tag, what='two lookups of the same entry (%r, %r) differ' % (ka, kb), witness=dict(keys=[ka, kb]))
            ov = _overlap(K.blocks(p1), K.blocks(p2))
            if ov:
                emit(viol='c15:deep-copy:shared-storage:%s:%s' % (tag, ov[0][0]),
                     what='two live results for %r and %r share memory (%s of one overlaps %s of the other)' % (ka, kb, ov[0][0], ov[0][1]),
                     witness=dict(keys=[ka, kb], overlapping=ov))
            emit(step='%s %r: scribble over the first result (name buffer, arrays, scalars)' % (tag, ka))
            K.scribble(p1)
            if K.snap(p2) != base:
                emit(viol='c15:deep-copy:mutation-visible-in-other-result:%s' % tag, what='writing into one result of %r changed another live result' % (ka,),
                     witness=dict(keys=[ka, kb]))
            emit(step='%s %r: lookup while a scribbled result is alive' % (tag, ka))
            p3 = K.lookup(ka)
            if p3 is None or K.snap(p3) != base:
                emit(viol='c15:deep-copy:mutation-visible-in-later-lookup:%s' % tag, what='after writing into a result of %r a new lookup returns different content' % (ka,),
                     witness=dict(key=ka, lookup_failed=p3 is None))
            first, second = (p1, p2) if order == 0 else (p2, p1)
            emit(step='%s %r: free the %s result first' % (tag, ka, 'scribbled' if order == 0 else 'untouched'))
            K.free(first)
            if order == 0 and K.snap(p2) != base:
                emit(viol='c15:deep-copy:free-affects-other-result:%s' % tag, what='freeing one result of %r changed another live result' % (ka,), witness=dict(key=ka))
            emit(step='%s %r: lookup after the first free' % (tag, kb))
            p4 = K.lookup(kb)
            if p4 is None or K.snap(p4) != base:
                emit(viol='c15:deep-copy:free-affects-later-lookup:%s' % tag, what='after freeing a result of %r a new lookup returns different content' % (kb,),
                     witness=dict(key=kb, lookup_failed=p4 is None))
            emit(step='%s %r: free the second result' % (tag, ka))
            K.free(second)
            emit(step='%s %r: free the later lookups' % (tag, ka))
            if p3 is not None:
                K.free(p3)
            if p4 is not None:
                if K.snap(p4) != base:
                    emit(viol='c15:deep-copy:free-affects-other-result:%s' % tag, what='freeing results of %r changed another live result' % (ka,), witness=dict(key=ka))
                K.free(p4)
            emit(step='%s %r: final lookup' % (tag, ka))
            p5 = K.lookup(ka)
            if p5 is None or K.snap(p5) != base:
                emit(viol='c15:deep-copy:catalogue-changed:%s' % tag, what='after the mutate/free sequence entry %r reads differently' % (ka,), witness=dict(key=ka))
            if p5 is not None:
                K.free(p5)
            n_seq += 1
    return dict(sequences=n_seq, calls=n_seq * 5 + 1)


def strings_child(X, c):
    """name lists and symbol strings are caller-owned too: scribble, free, ask again"""
    lib = X.lib
    emit = c.emit
    def raw_list(which):
        n = C.c_int(-1)
        if which == 'nist':
            p = lib.GetCompoundDataNISTList(C.byref(n), None)
        elif which == 'nuclide':
            p = lib.GetRadioNuclideDataList(C.byref(n), None)
        else:
            p = lib.Crystal_GetCrystalsList(None, C.byref(n), None)
        addrs, k = [], 0
        while p[k]:
            addrs.append(p[k]); k += 1
        return p, addrs
    n_seq = 0
    for which in ('nist', 'nuclide', 'crystal'):
        for order in (0, 1):
            emit(step='list %s: two live lists' % which)
            pa, aa = raw_list(which)
            pb, ab = raw_list(which)
            base = [C.string_at(a) for a in ab]
            if [C.string_at(a) for a in aa] != base:
                emit(viol='c15:deep-copy:repeated-lookup-differs:list-%s' % which, what='two calls of the %s list differ' % which, witness=None)
            if set(aa) & set(ab) or C.cast(pa, C.c_void_p).value == C.cast(pb, C.c_void_p).value:
                emit(viol='c15:deep-copy:shared-storage:list-%s' % which, what='two live %s lists share strings' % which, witness=None)
            emit(step='list %s: scribble over one list' % which)
            for a in aa:
                C.memset(a, 0x58, _strlen(a))
            if [C.string_at(a) for a in ab] != base:
                emit(viol='c15:deep-copy:mutation-visible-in-other-result:list-%s' % which, what='writing into one %s list changed the other' % which, witness=None)
            emit(step='list %s: free (order %d)' % (which, order))
            for (p, addrs) in ((pa, aa), (pb, ab)) if order == 0 else ((pb, ab), (pa, aa)):
                for a in addrs:
                    lib.xrlFree(a)
                lib.xrlFree(p)
            emit(step='list %s: list again' % which)
            pc, ac = raw_list(which)
            if [C.string_at(a) for a in ac] != base:
                emit(viol='c15:deep-copy:mutation-visible-in-later-lookup:list-%s' % which, what='after writing into a %s list a new list differs' % which, witness=None)
            for a in ac:
                lib.xrlFree(a)
            lib.xrlFree(pc)
            n_seq += 1
            # the lookups by the (now re-listed) names still work
            X_names = [b.decode('utf8', 'replace') for b in base]
            K = Kind(X, which)
            for nm in X_names[:: max(1, len(X_names) // 7)]:
                p = K.lookup(nm)
                if p is None:
                    emit(viol='c15:deep-copy:catalogue-changed:list-%s' % which, what='after scribbling a name list, %r is no longer found' % nm, witness=dict(name=nm))
                else:
                    K.free(p)
    for Z in range(1, 108):
        emit(step='symbol %d' % Z)
        a = lib.AtomicNumberToSymbol(Z, None)
        b = lib.AtomicNumberToSymbol(Z, None)
        if not a or not b:
            continue
        base = C.string_at(b)
        if a == b:
            emit(viol='c15:deep-copy:shared-storage:symbol', what='two calls of AtomicNumberToSymbol(%d) return the same buffer' % Z, witness=dict(Z=Z))
        C.memset(a, 0x58, _strlen(a))
        if C.string_at(b) != base:
            emit(viol='c15:deep-copy:mutation-visible-in-other-result:symbol', what='writing into the symbol of Z=%d changed another result' % Z, witness=dict(Z=Z))
        if Z % 2:
            lib.xrlFree(a); lib.xrlFree(b)
        else:
            lib.xrlFree(b); lib.xrlFree(a)
        c = lib.AtomicNumberToSymbol(Z, None)
        if not c or C.string_at(c) != base:
            emit(viol='c15:deep-copy:mutation-visible-in-later-lookup:symbol', what='after writing into the symbol of Z=%d the next call differs' % Z, witness=dict(Z=Z))
        if c:
            lib.xrlFree(c)
        if lib.SymbolToAtomicNumber(base, None) != Z:
            emit(viol='c15:deep-copy:catalogue-changed:symbol', what='after writing into the symbol of Z=%d, SymbolToAtomicNumber(%r) no longer returns it' % (Z, base.decode()), witness=dict(Z=Z))
        n_seq += 1
    return dict(sequences=n_seq, calls=n_seq * 4)


class ChildCk:
    """stand-in for common.Check inside a forked child: findings travel to the parent as JSON lines"""

    def __init__(self, fd):
        self.fd = fd

    def emit(self, **kw):
        os.write(self.fd, (json.dumps(kw, default=str) + '\n').encode())

    def violation(self, key, what, witness=None):
        self.emit(viol=key, what=what, witness=witness)

    def step(self, text):
        self.emit(step=text)


def run_child(ck, crash_key, what, fn):
    """fork, run fn(ChildCk) in the child (its return value is the payload), route its findings to ck.
    Abnormal exit of the child = violation crash_key (+ ':' + phase if the child announced one). Returns payload or None."""
    import sys
    sys.stdout.flush(); sys.stderr.flush()
    r, w = os.pipe()
    errf = tempfile.TemporaryFile()
    pid = os.fork()
    if pid == 0:
        rc = 0
        try:
            os.close(r)
            os.dup2(errf.fileno(), 2)
            signal.alarm(300)
            c = ChildCk(w)
            try:
                c.emit(done=fn(c))
            except common.Inconclusive as e:
                c.emit(inconclusive=str(e))
        except BaseException as e:          # a python-level failure of the harness, not of the library
            try:
                import traceback
                os.write(w, (json.dumps(dict(harness_error=repr(e) + ' ' + traceback.format_exc()[-600:])) + '\n').encode())
            except Exception:
                pass
            rc = 3
        os._exit(rc)
    os.close(w)
    buf = b''
    while True:
        b = os.read(r, 1 << 16)
        if not b:
            break
        buf += b
    os.close(r)
    _, status = os.waitpid(pid, 0)
    last, phase, done, herr, inc = None, None, None, None, None
    for line in buf.decode('utf8', 'replace').split('\n'):
        if not line.strip():
            continue
        try:
            m = json.loads(line)
        except ValueError:
            continue
        if 'step' in m:
            last = m['step']
            phase = m.get('phase', phase)
        elif 'viol' in m:
            ck.violation(m['viol'], m['what'], m.get('witness'))
        elif 'done' in m:
            done = m['done']
        elif 'harness_error' in m:
            herr = m['harness_error']
        elif 'inconclusive' in m:
            inc = m['inconclusive']
    if herr is not None:
        raise common.Inconclusive('child process (%s) failed in the harness: %s (last step: %s)' % (what, herr, last))
    if inc is not None:
        raise common.Inconclusive(inc)
    errf.seek(0)
    tail = errf.read().decode('utf8', 'replace')[-400:]
    errf.close()
    if os.WIFSIGNALED(status) or (os.WIFEXITED(status) and os.WEXITSTATUS(status) != 0) or done is None:
        sig = os.WTERMSIG(status) if os.WIFSIGNALED(status) else None
        how = ('killed by signal %d (%s)' % (sig, signal.Signals(sig).name)) if sig else 'exit status %r' % (os.WEXITSTATUS(status) if os.WIFEXITED(status) else status)
        key = crash_key.replace(':crash', ':hang') if sig == signal.SIGALRM else crash_key
        if phase:
            key += ':' + phase
        ck.violation(key, 'the process %s died: %s' % (what, how), dict(last_step=last, stderr=tail.strip()))
        return None
    return done


# ------------------------------------------------------------------------------------------------------------
# second executor: the same lookups (lookup, read every member, free) under ASan+UBSan
# ------------------------------------------------------------------------------------------------------------
def _san_class(line):
    """'AddressSanitizer: attempting free on address which was not malloc()-ed: 0x... in thread T0' -> class without numbers"""
    t = re.split(r':? 0x| in thread', line)[0]
    t = re.sub(r'^(AddressSanitizer|LeakSanitizer): ', '', t)
    return re.sub(r'\d+', 'N', t)[:70].strip()


def asan_pass(ck, F, nist_names, nist, nucl_names, nucl, crystal_names, crystal_vol, syms, st):
    san = ('abort_on_error=0:halt_on_error=1:detect_leaks=1:allocator_may_return_null=1:detect_stack_use_after_return=0:'
           'malloc_context_size=12:exitcode=99')
    L = execlib.Lib('shipped', 'asan', env={'ASAN_OPTIONS': san, 'UBSAN_OPTIONS': 'print_stacktrace=1:halt_on_error=1:exitcode=98'})
    def nist_sum(e):
        h = g = 0.0
        for k, (z, f) in enumerate(zip(e['Elements'], e['massFractions'])):
            h += z * f; g += (k + 1) * f
        return e['nElements'], e['density'], h, g
    def nucl_sum(e):
        h = g = 0.0
        for k in range(e['nXrays']):
            h += e['XrayIntensities'][k] * (e['XrayLines'][k] - 1000 * k)
        for k in range(e['nGammas']):
            g += e['GammaEnergies'][k] * e['GammaIntensities'][k] * (k + 1)
        return e['Z'] * 1000 + e['A'], e['N'] + 1000.0 * e['Z_xray'] + 1e6 * e['nXrays'] + 1e9 * e['nGammas'], h, g
    def run(tag, name, expect, **kw):
        try:
            r = L.special(name, **kw)
        except execlib.ExecCrash as x:
            m = re.search(r'(AddressSanitizer|LeakSanitizer|runtime error)[^\n]*', x.tail)
            cls = _san_class(m.group(0)) if m else 'rc=%d' % x.rc
            ck.violation('c15:asan:%s:%s' % (name, cls.replace(' ', '-')), 'the instrumented executor died while looking up and freeing every %s entry: %s' % (tag, m.group(0) if m else 'rc=%d' % x.rc),
                         dict(function=name, tail=x.tail[-1200:]))
            return
        st['asan_calls'] += len(r)
        for k, ex in enumerate(expect):
            if ex is None:
                if r.ok[k]:
                    ck.violation('c15:asan:%s:unexpected-success' % name, 'instrumented build accepted a key the plain build refused', dict(request=k))
                continue
            got = (int(r.aux[k]), float(r.v3[k, 0]), float(r.v3[k, 1]), float(r.v3[k, 2]))
            bad = not r.ok[k] or got[0] != ex[0] or any(abs(a - b) > 1e-12 * max(1.0, abs(b)) for a, b in zip(got[1:], ex[1:]))
            if bad:
                ck.violation('c15:asan:%s:differs-from-plain-build' % name, 'the %s entry read through the instrumented executor differs from the ctypes view' % tag,
                             dict(request=k, got=got, expected=ex, ok=bool(r.ok[k])))
            else:
                F.ok('asan:%s' % name)
    N = len(nist_names)
    idx = list(range(-2, N + 2))
    run('NIST compound', 'NISTByIndex_summary', [nist_sum(nist[i]) if i in nist else None for i in idx], i=[np.array(idx)])
    run('NIST compound', 'NISTByName_summary', [nist_sum(nist[i]) if i in nist else None for i in range(N)] + [None], s=nist_names + ['no such entry'])
    M = len(nucl_names)
    idx = list(range(-2, M + 2))
    run('radionuclide', 'RadioByIndex_summary', [nucl_sum(nucl[i]) if i in nucl else None for i in idx], i=[np.array(idx)])
    run('radionuclide', 'RadioByName_summary', [nucl_sum(nucl[i]) if i in nucl else None for i in range(M)] + [None], s=nucl_names + ['no such entry'])
    # crystals: lookup + Crystal_UnitCellVolume + free ; symbols
    try:
        r = L.special('Crystal_UnitCellVolume', s=crystal_names)
        st['asan_calls'] += len(r)
        for k, nm in enumerate(crystal_names):
            if not r.ok[k] or abs(r.v3[k, 1] - crystal_vol[nm]) > 1e-12 * abs(crystal_vol[nm]):
                ck.violation('c15:asan:Crystal_GetCrystal:differs-from-plain-build', 'stored volume of %r differs between the executors' % nm,
                             dict(name=nm, asan=float(r.v3[k, 1]), plain=crystal_vol[nm]))
            else:
                F.ok('asan:Crystal_GetCrystal')
        zs = sorted(syms)
        r = L.special('AtomicNumberToSymbol', i=[np.array(zs)])
        st['asan_calls'] += len(r)
        for k, z in enumerate(zs):
            b = syms[z].encode() + b'\0\0\0'
            want = b[0] + 256.0 * b[1] + (65536.0 * b[2] if b[1] else 0)
            if not r.ok[k] or r.v[k] != want:
                ck.violation('c15:asan:AtomicNumberToSymbol:differs-from-plain-build', 'symbol of Z=%d differs between the executors' % z, dict(Z=z))
            else:
                F.ok('asan:AtomicNumberToSymbol')
    except execlib.ExecCrash as x:
        m = re.search(r'(AddressSanitizer|LeakSanitizer|runtime error)[^\n]*', x.tail)
        ck.violation('c15:asan:crystal-or-symbol:%s' % (_san_class(m.group(0)).replace(' ', '-') if m else 'rc=%d' % x.rc),
                     'the instrumented executor died while looking up and freeing crystals / symbols', dict(tail=x.tail[-1200:]))


# ------------------------------------------------------------------------------------------------------------
def _merge(F, st, pay):
    for k, v in pay['facts'].items():
        F.ok(k, v)
    F.samples += pay['samples']
    for k, v in pay['st'].items():
        if isinstance(v, (int, float)) and not isinstance(v, bool) and isinstance(st.get(k), (int, float)):
            st[k] += v
        elif v is not None:
            st[k] = v
    st['ctypes_calls'] = st.get('ctypes_calls', 0) + pay['calls']


def _fresh_st():
    return dict(fractions=0, fractions_finer_than_6_decimals=0, nuclide_lines=0, crystal_atoms=0)


def main(tier):
    ck = common.Check('C15', tier)
    mac = refdata.Macros()
    X = xl.XL('shipped')
    F = Facts()
    st = dict(_fresh_st(), asan_calls=0, ctypes_calls=0, worst_sum_deviation=None, worst_sum_entry=None)
    nist_mac = {k[len('NIST_COMPOUND_'):]: v for k, v in mac.int.items() if k.startswith('NIST_COMPOUND_')}
    rn_mac = {k[len('RADIO_NUCLIDE_'):]: v for k, v in mac.int.items() if k.startswith('RADIO_NUCLIDE_')}
    if len(nist_mac) < 2 or len(rn_mac) < 2:
        raise common.Inconclusive('the macro probe found %d NIST_COMPOUND_* and %d RADIO_NUCLIDE_* macros' % (len(nist_mac), len(rn_mac)))

    # ---- deep copies first (children): they give the precise diagnosis if a lookup is not an independent copy -------------
    seqs = {}
    for tag in ('nist', 'nuclide', 'crystal'):
        pay = run_child(ck, 'c15:deep-copy:crash:' + tag, 'running the mutate/free sequences on %s results' % tag,
                        lambda c, tag=tag: deepcopy_child(X, tag, c))
        if pay:
            seqs[tag] = pay['sequences']; st['ctypes_calls'] += pay['calls']
            F.ok('deep-copy:' + tag, pay['sequences'])
    pay = run_child(ck, 'c15:deep-copy:crash:strings', 'running the mutate/free sequences on name lists and symbols', lambda c: strings_child(X, c))
    if pay:
        seqs['lists+symbols'] = pay['sequences']; st['ctypes_calls'] += pay['calls']
        F.ok('deep-copy:strings', pay['sequences'])

    # ---- catalogue readers: one child per catalogue (the convenience wrappers free what they look up, which kills the
    #      process if a lookup is not an independent heap object) ------------------------------------------------------------
    def reader(fn):
        def body(c):
            f, s, c0 = Facts(), _fresh_st(), X.calls
            extra = fn(c, f, s)
            return dict(facts=f.n, samples=f.samples, st=s, calls=X.calls - c0, extra=extra)
        return body

    def r_elements(c, f, s):
        return dict(syms=check_elements(c, X, f, tier))
    pay = run_child(ck, 'c15:catalogue-read:crash:elements', 'reading the element table', reader(r_elements))
    syms = {}
    if pay:
        _merge(F, st, pay); syms = {int(k): v for k, v in pay['extra']['syms'].items()}

    def r_nist(c, f, s):
        names, ent = check_indexed(c, X, f, tier, 'nist', X.nist_list, X.nist, nist_mac, 'NIST_COMPOUND_')
        check_compound_entries(c, X, f, ent, syms, s)
        check_interleaved_lookups(c, X, f, 'nist', names, X.nist, s)
        return dict(names=names, entries=ent)
    pay = run_child(ck, 'c15:catalogue-read:crash:nist', 'reading the NIST compound catalogue', reader(r_nist))
    nist_names, nist = [], {}
    if pay:
        _merge(F, st, pay); nist_names = pay['extra']['names']; nist = {int(k): v for k, v in pay['extra']['entries'].items()}

    def r_nucl(c, f, s):
        names, ent = check_indexed(c, X, f, tier, 'nuclide', X.nuclide_list, X.nuclide, rn_mac, 'RADIO_NUCLIDE_')
        check_nuclide_entries(c, X, f, ent, syms, s)
        check_interleaved_lookups(c, X, f, 'nuclide', names, X.nuclide, s)
        return dict(names=names, entries=ent)
    pay = run_child(ck, 'c15:catalogue-read:crash:nuclide', 'reading the radionuclide catalogue', reader(r_nucl))
    nucl_names, nucl = [], {}
    if pay:
        _merge(F, st, pay); nucl_names = pay['extra']['names']; nucl = {int(k): v for k, v in pay['extra']['entries'].items()}

    def r_crystal(c, f, s):
        names = check_crystals(c, X, f, tier, s)
        vol = {}
        for nm in names:
            g = X.get_crystal(nm)
            if not is_err(g):
                vol[nm] = g[1]['volume']; X.free_crystal(g[0])
        return dict(names=names, vol=vol)
    pay = run_child(ck, 'c15:catalogue-read:crash:crystal', 'reading the crystal catalogue', reader(r_crystal))
    crystal_names, crystal_vol = [], {}
    if pay:
        _merge(F, st, pay); crystal_names = pay['extra']['names']; crystal_vol = pay['extra']['vol']

    # the catalogues in a host that has selected a national locale (setlocale(LC_ALL, "")): Latin-1 character classes and a collation order that
    # differs from byte order ('_' before digits and letters).  Names are byte strings: every listed name is still found, under that name, and
    # the lists are what they were - lookups may not depend on LC_COLLATE / LC_CTYPE of the host
    locdir = build.locale_dir()

    def r_locale(c, f, s):
        os.environ['LOCPATH'] = locdir; os.environ['LC_ALL'] = 'xx_COLL'
        libc = C.CDLL(None); libc.setlocale.restype = C.c_char_p; libc.setlocale.argtypes = [C.c_int, C.c_char_p]
        import locale as _l
        got = libc.setlocale(_l.LC_ALL, b'')
        if not got or b'xx_COLL' not in got or libc.strcoll(b'Si_NIST', b'Si2') >= 0:
            raise common.Inconclusive('the synthetic collation locale could not be activated: %r' % got)
        n = 0
        for tag, lister, getter, want in (('crystal', X.crystal_list, lambda nm: (lambda g: g if is_err(g) else (X.free_crystal(g[0]), g[1])[1])(X.get_crystal(nm)), crystal_names),
                                          ('nist', X.nist_list, X.nist, nist_names), ('nuclide', X.nuclide_list, X.nuclide, nucl_names)):
            _step(c, '%s under the national locale' % tag)
            lst = lister()
            if is_err(lst) or lst['names'] != want:
                c.violation('c15:%s:list-depends-on-the-locale-of-the-host' % tag, 'under a national locale the name list differs from the one under the C locale', dict(listed=None if is_err(lst) else lst['names'][:40]))
                continue
            for nm in want:
                e = getter(nm); n += 1
                if is_err(e) or e['name'] != nm:
                    c.violation('c15:%s:listed-name-not-found-under-a-national-locale' % tag, 'with LC_COLLATE / LC_CTYPE of a national locale selected by the host, the lookup of the listed name %r gives %r' % (
                        nm, e if is_err(e) else e['name']), dict(name=nm, locale='xx_COLL'))
                else:
                    f.ok(tag + ':found-under-national-locale')
            for bad in [w + '_' for w in want[:5]] + [w[:-1] for w in want[:5] if len(w) > 1 and w[:-1] not in want] + ['si', 'SI_NIST']:
                e = getter(bad); n += 1
                if not is_err(e):
                    c.violation('c15:%s:unknown-name-accepted-under-a-national-locale' % tag, 'the lookup of %r returns %r under a national locale' % (bad, e['name']), dict(name=bad, locale='xx_COLL'))
        s['lookups_under_national_locale'] = n
        return {}
    pay = run_child(ck, 'c15:catalogue-read:crash:national-locale', 'reading the catalogues under a national locale', reader(r_locale))
    if pay:
        _merge(F, st, pay)

    if nist:
        i = sorted(nist)[(common.seed() * 37) % len(nist)]
        F.samples.append(dict(fact='NIST entry: list[i] == by-index(i).name == by-name(list[i]).name, macro', index=i, name=nist[i]['name'],
                              macro=[('NIST_COMPOUND_' + m) for m, v in nist_mac.items() if v == i], sum_of_fractions=math.fsum(nist[i]['massFractions']),
                              Elements=nist[i]['Elements'], density=nist[i]['density']))

    # ---- the same lookups under ASan+UBSan (separate executor processes) ---------------------------------------------------
    asan_pass(ck, F, nist_names, nist, nucl_names, nucl, [n for n in crystal_names if n in crystal_vol], crystal_vol, syms, st)

    total = sum(F.n.values())
    if (len(nist) < 2 or len(nucl) < 2 or len(crystal_names) < 2 or len(syms) < 2) and not ck.viol:
        raise common.Inconclusive('a catalogue could not be enumerated (%d compounds, %d nuclides, %d crystals, %d symbols)' %
                                  (len(nist), len(nucl), len(crystal_names), len(syms)))
    cov = dict(evaluations=int(st['ctypes_calls'] + st['asan_calls']), distinct_nontrivial=int(total),
               rule='every symbol 1..107 (+ Z in [-3,125], every 1-2 letter and Uxx string), every NIST compound / radionuclide by list position, index '
                    '(-3..N+2 and INT extremes), name and published macro, every crystal by name; non-trivial = individual facts that held '
                    '(per entry: list==index, name==index, macro==entry, each entry invariant, each completed mutate/free sequence, each '
                    'lookup re-read under ASan), counted per kind in facts_by_kind',
               samples=F.samples[:8], exhaustive=True, facts_by_kind=F.n,
               catalogue_sizes=dict(symbols=len(syms), nist_compounds=len(nist_names), radionuclides=len(nucl_names), crystals=len(crystal_names),
                                    nist_macros=len(nist_mac), radionuclide_macros=len(rn_mac)),
               mass_fractions=st['fractions'], mass_fractions_finer_than_6_decimals=st['fractions_finer_than_6_decimals'],
               worst_sum_deviation=st['worst_sum_deviation'], worst_sum_entry=st['worst_sum_entry'],
               nuclide_xray_lines=st['nuclide_lines'], crystal_atoms=st['crystal_atoms'],
               entries_compared_with_their_source=dict(nist_table_rows=st.get('source_table_rows'), nist_entries=st.get('copies_compared_with_source_table'),
                                                       crystals_in_data_file=st.get('crystals_in_the_data_file'), crystals=st.get('crystals_compared_with_the_data_file')),
               lookups_under_a_national_locale=st.get('lookups_under_national_locale'), interleaved_lookups=dict(nist=st.get('nist_interleaved_lookups'), nuclide=st.get('nuclide_interleaved_lookups')),
               deep_copy_sequences=seqs, asan_lookups=st['asan_calls'])
    return ck.finish(cov, ['macro values come from a compiled probe of the public headers; macro names are matched to API names after reducing both '
                           'to upper-case alphanumerics (checked to be injective on the catalogue)',
                           'ctypes structure layouts in xl.py come from a compiled probe of the tree\'s headers (build.layout)',
                           'mass fractions are printed with 6 decimals: tolerance n x 0.5e-6',
                           'all ctypes work runs in forked children; a child that dies is reported as a violation with its last announced step'])
