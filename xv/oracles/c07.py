"""C07 - the formula parser computes the true composition of every well-formed formula.

Reference-model differential monitor: every string is classified VALID / INVALID / UNSPECIFIED by the independent
model in formula_model.py (exact rationals); the library's CompoundParser (ctypes, library built from the current tree)
must return the model composition for VALID strings, NULL + error for INVALID ones (the classes the statement names), and
is not alarmed either way on UNSPECIFIED forms (only "if accepted, well-formed").  Metamorphic rewrites (term
permutation, group expansion), add_compound_data against the union / weighted-sum model, and a locale monitor
(child processes in C, C.utf8 and the synthetic comma-decimal locale xx_VERIF) complete the check.
"""
import os, sys, json, random, collections, subprocess
from fractions import Fraction
from .. import common, xl, build
from . import formula_model as fm

TOL = 1e-12            # parser arithmetic: <= 6 nested products and <= ~40 positive additions => relative error < 1e-14


# ------------------------------------------------------------------------------------------------------------------
def depth_class(s):
    d = m = 0
    for c in s:
        if c == '(':
            d += 1; m = max(m, d)
        elif c == ')':
            d -= 1
    return 'flat' if m == 0 else ('group' if m == 1 else 'nested')


def invalid_class(s, reasons):
    """defect class of an accepted INVALID string: the class of the *first* (leftmost) reason - later ones are usually its consequences
    (e.g. the digits after a stray lower-case letter).  No per-call data in it."""
    kind, pos, detail = reasons[0]
    if kind in ('lone-dot', 'multi-dot', 'subscript-without-term') and s[pos] == '.' and detail in ('after-start', 'after-open'):
        return 'leading-dot'                          # a (sub)formula that starts with '.'
    if kind == 'stray-lowercase':
        return 'lowercase-' + detail                # after-group / after-dot / after-digit / after-start / after-open
    if kind in ('lone-dot', 'subscript-without-term'):
        return kind + '-' + detail
    return kind


def norm_msg(m):
    m = m or ''
    for pre in ('unknown symbol', 'could not convert subscript', 'no atomic weight available for element', 'Invalid character'):
        k = m.find(pre)
        if k >= 0:
            return m[:k + len(pre)]
    return m


class Mon:
    def __init__(self, ck, X):
        self.ck, self.X = ck, X
        self.n = collections.Counter()
        self.msgs = collections.Counter()
        self.shapes = set()
        self.samples = []
        self.unspec = collections.Counter()
        self.accepted_invalid = collections.Counter()
        self.worst = 0.0
        self.log = []           # (string, result) of every check() call: replayed on the other builds of the tree (variants pass)

    # -- well-formedness that holds for any accepted string --------------------------------------------
    def wellformed(self, r):
        E = r['Elements']
        if r['nElements'] != len(E) or len(E) == 0:
            return 'nElements'
        if any(b <= a for a, b in zip(E, E[1:])):
            return 'not-strictly-ascending'
        if any(not (f > 0) for f in r['massFractions']):
            return 'nonpositive-fraction'
        if not abs(sum(r['massFractions']) - 1.0) <= TOL:
            return 'fractions-do-not-sum-to-1'
        if any(not (a > 0) for a in r['nAtoms']):
            return 'nonpositive-count'
        return None

    def compare(self, s, r, comp, origin):
        """r = library dict, comp = {Z: Fraction}; returns True if equal to the model"""
        ck = self.ck
        dc = depth_class(s)
        m = fm.model(comp)
        wit = dict(formula=s, returned=r, expected=m, origin=origin)
        if 'spurious_error' in r:
            ck.violation('c07:error-set-with-result', 'a composition was returned together with an error (%s)' % r['spurious_error'].message, wit)
        w = self.wellformed(r)
        if r['Elements'] != m['Elements']:
            ck.violation('c07:wrong-elements:%s:%s' % (w or 'set-differs', dc), 'elements %r, expected %r' % (r['Elements'], m['Elements']), wit)
            return False
        def rel(a, b):
            return abs(a - b) / abs(b)
        for k, z in enumerate(m['Elements']):
            e = rel(r['nAtoms'][k], m['nAtoms'][k]); self.worst = max(self.worst, e if e < 1 else 0)
            if not e <= TOL:
                ck.violation('c07:wrong-nAtoms:%s' % dc, 'nAtoms[Z=%d] = %r, algebraic expansion gives %r' % (z, r['nAtoms'][k], m['nAtoms'][k]), wit)
                return False                           # the derived quantities follow the counts: one defect, one key
        ok = True
        if not rel(r['nAtomsAll'], m['nAtomsAll']) <= TOL:
            ck.violation('c07:wrong-nAtomsAll', 'nAtomsAll = %r, expected %r (the counts themselves are right)' % (r['nAtomsAll'], m['nAtomsAll']), wit); ok = False
        if not rel(r['molarMass'], m['molarMass']) <= TOL:
            ck.violation('c07:wrong-molarMass', 'molarMass = %r, expected %r (the counts themselves are right)' % (r['molarMass'], m['molarMass']), wit); ok = False
        for k, z in enumerate(m['Elements']):
            if not rel(r['massFractions'][k], m['massFractions'][k]) <= TOL:
                ck.violation('c07:wrong-massFractions', 'massFractions[Z=%d] = %r, expected %r (the counts themselves are right)' % (z, r['massFractions'][k], m['massFractions'][k]), wit); ok = False
                break
        if w and ok:
            ck.violation('c07:malformed-result:%s' % w, 'result is not a well-formed composition', wit); ok = False
        return ok

    def check(self, b, origin, expect=None):
        """b: bytes. classify, run, compare.  Returns (verdict, library result)"""
        v = fm.classify(b)
        if expect and v.cls != expect:
            raise common.Inconclusive('generator/model disagreement: %r generated as %s, classified %s %r' % (b, expect, v.cls, v.reasons))
        r = self.X.parse(b)
        s = b.decode('latin1')
        self.n[v.cls] += 1
        # the verdict and the composition do not depend on whether the caller passes an error slot
        r0 = self.X.parse(b, slot=False)
        self.n['without-slot'] += 1
        if isinstance(r, xl.Err) != (r0 is None) or (r0 is not None and not isinstance(r, xl.Err) and
                                                     any(repr(r0[k]) != repr(r[k]) for k in ('Elements', 'nAtoms', 'massFractions', 'nAtomsAll', 'molarMass'))):
            self.ck.violation('c07:result-without-error-slot-differs:%s' % v.cls.lower(),
                              'CompoundParser gives %s without an error slot and %s with one' % (
                                  'NULL' if r0 is None else 'Z=%r nAtoms=%r' % (r0['Elements'], r0['nAtoms']),
                                  'error (%s)' % r.message if isinstance(r, xl.Err) else 'Z=%r nAtoms=%r' % (r['Elements'], r['nAtoms'])),
                              dict(formula=s, origin=origin))
        if isinstance(r, xl.Err):
            self.msgs[norm_msg(r.message)] += 1
            if r.code == -1 and r.message == 'NULL without error':
                self.ck.violation('c07:null-without-error:%s' % v.cls.lower(), 'NULL returned without an error object', dict(formula=s, origin=origin))
        if v.cls == 'VALID':
            if isinstance(r, xl.Err):
                self.ck.violation('c07:valid-rejected:%s' % depth_class(s), 'well-formed formula rejected: %s' % r.message,
                                  dict(formula=s, expected=fm.model(v.comp), origin=origin))
            elif self.compare(s, r, v.comp, origin):
                self.n['valid-equal'] += 1
        elif v.cls == 'INVALID':
            if not isinstance(r, xl.Err):
                cls = invalid_class(s, v.reasons)
                self.accepted_invalid[cls] += 1
                self.ck.violation('c07:accepted-invalid:' + cls, 'malformed string accepted (model: %s) with composition Z=%r nAtoms=%r' % (
                    ', '.join('%s@%d %s' % x for x in v.reasons[:3]), r['Elements'], r['nAtoms']), dict(formula=s, returned=r, reasons=v.reasons, origin=origin))
            else:
                self.n['invalid-rejected'] += 1
        else:
            kind = v.reasons[0][0]
            if isinstance(r, xl.Err):
                self.unspec[kind + ':rejected'] += 1
            else:
                self.unspec[kind + ':accepted'] += 1
                w = self.wellformed(r)
                if w:
                    self.ck.violation('c07:unspecified-form-accepted-with-malformed-result:%s:%s' % (kind, w),
                                      'an unspecified form was accepted but the result is not a well-formed composition', dict(formula=s, returned=r))
        self.log.append((b, r))
        return v, r


def _res_key(r):
    if isinstance(r, xl.Err):
        return ('E', r.code, r.message)
    return ('C', tuple(r['Elements']), tuple(x.hex() for x in r['nAtoms']), tuple(x.hex() for x in r['massFractions']), r['nAtomsAll'].hex(), r['molarMass'].hex())


VARIANT_CHILD = r'''
import sys, json
sys.path.insert(0, %(verif)r)
from xv import xl
from xv.oracles.c07 import _res_key
req = json.load(sys.stdin)
X = xl.XL(req['config'], so=req['so'])
out = []
for s in req['strings']:
    out.append(list(_res_key(X.parse(bytes.fromhex(s)))))
sys.stdout.write(json.dumps(out))
'''


def variants_pass(ck, mon, rng, tier, st):
    """the same strings through the library as the PROJECT builds it - default options, optimised without assertions (buildtype=release,
    b_ndebug=true), plain char unsigned (the ABI of arm / ppc64le / s390x) - must give what the monitor's build gave, bit for bit and
    message for message.  Each build is loaded in a process of its own (one libxrl per process)."""
    log = mon.log
    n = min(len(log), 40000 if tier == 'quick' else 400000)
    idx = sorted(rng.sample(range(len(log)), n)) if n < len(log) else list(range(len(log)))
    strings = [log[i][0] for i in idx]
    want = [list(_res_key(log[i][1])) for i in idx]
    st['variant_builds'] = {}
    for pb in build.PROJECT_BUILDS:
        so = build.meson_lib('shipped', variant=(pb[6:] or None))['so']
        p = subprocess.run([sys.executable, '-c', VARIANT_CHILD % dict(verif=build.VERIF)], input=json.dumps(dict(config='shipped', so=so, strings=[x.hex() for x in strings])).encode(),
                           stdout=subprocess.PIPE, stderr=subprocess.PIPE, env=dict(os.environ, LD_PRELOAD=build.hostile_host('shipped')['so']), timeout=3600)
        if p.returncode != 0:
            tail = p.stderr.decode('utf8', 'replace')[-400:]
            if p.returncode < 0 or 'xv-hostile-host' in tail:
                ck.violation('c07:project-build-dies:%s' % pb, 'parsing the string set kills the process in the library built by meson (%s): %s' % (pb, tail[-200:]), dict(build=pb, rc=p.returncode))
                continue
            raise common.Inconclusive('variant child failed on %s: %s' % (pb, tail))
        got = json.loads(p.stdout.decode())
        nbad = 0
        for s_, w, g in zip(strings, want, got):
            if json.loads(json.dumps(w)) != g:
                nbad += 1
                if nbad <= 3:
                    ck.violation('c07:project-build-differs-from-the-monitor-build:%s:%s' % (pb[6:] or 'default', 'accepts-or-rejects-differently' if (w[0] != g[0]) else ('other-error' if w[0] == 'E' else 'other-composition')),
                                 'CompoundParser(%r) gives %r in the library built by meson (%s) and %r in the monitor\'s build of the same sources' % (s_.decode('latin1'), g[:3], pb, w[:3]),
                                 dict(formula=s_.decode('latin1'), project_build=g, monitor_build=w, build=pb))
        st['variant_builds'][pb] = dict(strings=len(strings), differing=nbad)
    return len(strings) * len(build.PROJECT_BUILDS)


def same_composition(a, b):
    if a['Elements'] != b['Elements']:
        return 'elements'
    for f in ('nAtoms', 'massFractions'):
        for x, y in zip(a[f], b[f]):
            if not abs(x - y) <= TOL * abs(y):
                return f
    for f in ('nAtomsAll', 'molarMass'):
        if not abs(a[f] - b[f]) <= TOL * abs(b[f]):
            return f
    return None


# ------------------------------------------------------------------------------------------------------------------
def mutants(pool_full, pool_alpha, pool_small, rng):
    """single-character insertions / deletions / substitutions"""
    allbytes = [bytes([c]) for c in range(1, 256)]
    alpha = [c.encode() for c in fm.ALPHABET]
    small = [c.encode() for c in 'aeZH09.() ,#+-eE\t\n'] + [b'\xe9', b'\xff', b'\x01', b'\x7f']

    def emit(s, chars, extra_random=0):
        for i in range(len(s) + 1):
            cs = chars + [rng.choice(allbytes) for _ in range(extra_random)]
            for ch in cs:
                yield s[:i] + ch + s[i:]
                if i < len(s) and s[i:i + 1] != ch:
                    yield s[:i] + ch + s[i + 1:]
            if i < len(s):
                yield s[:i] + s[i + 1:]
    # bracket ORDER mutants (two characters at once, so that the bracket totals stay balanced): every '(' exchanged with a later ')' of the
    # string, ')(' inserted at every position, a balanced pair inserted the wrong way round at two positions
    for s in list(pool_full) + list(pool_alpha):
        seen = set()
        opens = [i for i in range(len(s)) if s[i:i + 1] == b'(']
        closes = [i for i in range(len(s)) if s[i:i + 1] == b')']
        out = []
        for i in opens:
            for j in closes:
                if j > i:
                    out.append(s[:i] + b')' + s[i + 1:j] + b'(' + s[j + 1:])
        for i in range(len(s) + 1):
            out.append(s[:i] + b')(' + s[i:])
            for j in range(i + 1, min(len(s), i + 6) + 1):
                out.append(s[:i] + b')' + s[i:j] + b'(' + s[j:])
        for m in out:
            if m not in seen:
                seen.add(m)
                yield m
    for pool, chars, extra in ((pool_full, allbytes, 0), (pool_alpha, alpha, 2), (pool_small, small, 2)):
        for s in pool:
            seen = set()                       # per source formula (a global set costs ~1 GB in the thorough tier)
            for m in emit(s, chars, extra):
                if m not in seen:
                    seen.add(m)
                    yield m


# ------------------------------------------------------------------------------------------------------------------
LOCALE_CHILD = r'''
import os, sys, json, locale
sys.path.insert(0, %(verif)r)
from xv import xl
req = json.load(sys.stdin)
X = xl.XL(req['config'])                      # everything that reads files happens before the locale is switched
out = dict(status='ok')
if req['locale'] is not None:
    if req['locpath']:
        os.environ['LOCPATH'] = req['locpath']
    os.environ['LC_ALL'] = req['locale']
    try:
        out['set'] = locale.setlocale(locale.LC_ALL, '')
    except locale.Error as e:
        out = dict(status='unavailable', why=str(e))
if out['status'] == 'ok':
    out['decimal_point'] = locale.localeconv()['decimal_point']
    base_num, base_all = locale.setlocale(locale.LC_NUMERIC), locale.setlocale(locale.LC_ALL)
    out['numeric'] = base_num
    res, changed = [], []
    for k, s in enumerate(req['formulas']):
        r = X.parse(s.encode('latin1'))
        a_num, a_all, dp = locale.setlocale(locale.LC_NUMERIC), locale.setlocale(locale.LC_ALL), locale.localeconv()['decimal_point']
        if (a_num, a_all, dp) != (base_num, base_all, out['decimal_point']):
            changed.append([k, a_num, a_all, dp])
            locale.setlocale(locale.LC_ALL, '')            # restore so that one defect does not hide the results of the rest
        if isinstance(r, xl.Err):
            res.append(['E', r.message])
        else:
            res.append(['C', r['Elements'], [x.hex() for x in r['nAtoms']], [x.hex() for x in r['massFractions']], r['nAtomsAll'].hex(), r['molarMass'].hex()])
    out['results'], out['changed'], out['calls'] = res, changed, X.calls
sys.stdout.write(json.dumps(out))
'''


def locale_monitor(ck, formulas, st):
    """formulas: list of latin-1 strings. Four fresh processes: C, C.utf8, xx_VERIF (comma decimal point), xx_LATIN (bytes >= 0xC0 are letters)."""
    ld = build.locale_dir()
    env = {k: v for k, v in os.environ.items() if not (k.startswith('LC_') or k in ('LANG', 'LANGUAGE', 'LOCPATH'))}
    runs = {}
    procs = []
    for name, loc, lp in (('C', None, None), ('C.utf8', 'C.utf8', None), ('xx_VERIF', 'xx_VERIF', ld), ('xx_LATIN', 'xx_LATIN', ld)):
        p = subprocess.Popen([sys.executable, '-c', LOCALE_CHILD % dict(verif=common.VERIF)], env=env, stdin=subprocess.PIPE,
                             stdout=subprocess.PIPE, stderr=subprocess.PIPE)
        procs.append((name, p, json.dumps(dict(config='shipped', locale=loc, locpath=lp, formulas=formulas))))
    for name, p, inp in procs:
        o, e = p.communicate(inp.encode(), timeout=1800)
        if p.returncode != 0:
            raise common.Inconclusive('locale child %s died (rc=%d): %s' % (name, p.returncode, e.decode('utf8', 'replace')[-800:]))
        runs[name] = json.loads(o.decode())
    if runs['C']['status'] != 'ok' or runs['C']['decimal_point'] != '.':
        raise common.Inconclusive('C-locale baseline child unusable: %r' % {k: v for k, v in runs['C'].items() if k != 'results'})
    if runs['xx_LATIN']['status'] != 'ok':
        raise common.Inconclusive('the synthetic Latin-1 locale could not be activated in the child: %r' % {k: v for k, v in runs['xx_LATIN'].items() if k != 'results'})
    x = runs['xx_VERIF']
    if x['status'] != 'ok' or x.get('decimal_point') != ',':
        raise common.Inconclusive('the synthetic comma-decimal locale could not be activated in the child: %r' % {k: v for k, v in x.items() if k != 'results'})
    st['locales'] = {}
    base = runs['C']['results']
    for name, r in runs.items():
        if r['status'] != 'ok':
            st['locales'][name] = 'unavailable: ' + r.get('why', '')
            continue
        st['locales'][name] = dict(decimal_point=r['decimal_point'], LC_NUMERIC=r['numeric'], calls=r['calls'], locale_changes=len(r['changed']))
        st['locale_calls'] += r['calls']
        for k, a_num, a_all, dp in r['changed'][:3]:
            ck.violation('c07:locale-not-restored:%s' % name, 'after CompoundParser the process locale is LC_NUMERIC=%r (LC_ALL=%r, decimal point %r), it was %r' % (
                a_num, a_all, dp, r['numeric']), dict(formula=formulas[k], locale=name, before=r['numeric'], after=a_num))
        if name == 'C':
            continue
        nd = 0
        for k, (a, b) in enumerate(zip(base, r['results'])):
            if a != b:
                nd += 1
                if nd <= 3:
                    kind = 'accepted-vs-rejected' if a[0] != b[0] else ('composition' if a[0] == 'C' else 'message')
                    if kind == 'message':
                        nd -= 1
                        continue                  # wording of the rejection is not part of the property
                    ck.violation('c07:result-depends-on-locale:%s:%s' % (name, kind), 'CompoundParser(%r) differs between the C locale and %s' % (formulas[k], name),
                                 dict(formula=formulas[k], C=decode_res(a), other=decode_res(b), locale=name))
        st['locales'][name]['results_differing_from_C'] = nd
    return runs['C']


def decode_res(a):
    if a[0] == 'E':
        return a
    return dict(Elements=a[1], nAtoms=[float.fromhex(x) for x in a[2]], massFractions=[float.fromhex(x) for x in a[3]])


# ------------------------------------------------------------------------------------------------------------------
def main(tier):
    ck = common.Check('C07', tier)
    rng = random.Random(common.seed() * 7919 + 17)
    X = xl.XL('shipped')
    mon = Mon(ck, X)
    quick = tier != 'thorough'
    N_GEN = 12000 if quick else 350000
    N_ADD = 5000 if quick else 100000
    n_pool = (6, 24, 130) if quick else (120, 600, 3500)

    # (1) every single symbol, alone and with integer / fractional subscripts -------------------------------------
    weighable = set(fm.weighable())
    for s in fm.SYMBOLS:
        for suf in ('', '3', '2.5', '0.125'):
            v, r = mon.check((s + suf).encode(), 'single')
            if (v.cls == 'VALID') != (s in weighable):
                raise common.Inconclusive('model classifies %s as %s' % (s, v.cls))
    # (2) all ordered pairs -----------------------------------------------------------------------------------------
    for a in fm.SYMBOLS:
        for b in fm.SYMBOLS:
            mon.check((a + b).encode(), 'pair')
    # (3) grammar-generated formulas and their rewrites ------------------------------------------------------------
    G = fm.Gen(rng)
    pool = []
    meta = collections.Counter()
    wl = fm.weighable()
    for k in range(N_GEN):
        t = G.formula(must_contain=wl[k] if k < len(wl) else None)
        s = fm.render(t)
        v, r = mon.check(s.encode(), 'generated', expect='VALID')
        mon.shapes.add(fm.shape(t))
        if k < 400 or rng.random() < 0.02:
            pool.append(s)
        if len(mon.samples) < 8 and not isinstance(r, xl.Err) and fm.depth_of(t) >= (len(mon.samples) % 4):
            mon.samples.append(dict(formula=s, library=dict(Elements=r['Elements'], nAtoms=r['nAtoms'], molarMass=r['molarMass']),
                                    model={z: str(q) for z, q in sorted(v.comp.items())}))
        if isinstance(r, xl.Err):
            continue
        for kind, t2 in (('permute-top', fm.permute(t, rng)), ('permute-deep', fm.permute(t, rng, True)), ('expand-group', fm.expand_one_group(t, rng))):
            if t2 is None:
                continue
            s2 = fm.render(t2)
            if s2 == s:
                continue
            v2, r2 = mon.check(s2.encode(), kind, expect='VALID')
            if v2.comp != v.comp:
                raise common.Inconclusive('rewrite %s changed the model composition: %r -> %r' % (kind, s, s2))
            meta[kind] += 1
            if isinstance(r2, xl.Err):
                continue
            d = same_composition(r2, r)
            if d:
                ck.violation('c07:not-invariant:%s' % kind, 'composition (%s) changes under %s' % (d, kind),
                             dict(formula=s, rewritten=s2, returned=r, returned_rewritten=r2))
    # (3b) long formulas (lengths straddling 256 ... 65536 bytes: private buffers, length fields) and subscripts with 10-17 decimals
    for L in (255, 256, 511, 512, 1023, 1024, 1025, 2047, 2048, 4096, 8191, 16384, 65535, 65536):
        for unit, head, tail in (('C2H4', '', 'Cl'), ('CH2', '(', ')3O'), ('O', 'Si', ''), ('Fe0.5', 'Ni', 'O'), ('(OH)2', 'Ca', 'F')):
            k = max(1, (L - len(head) - len(tail)) // len(unit))
            for kk in (k, k + 1):
                mon.check((head + unit * kk + tail).encode(), 'long', expect='VALID')
    for k in range(300 if quick else 5000):
        els = [rng.choice(wl) for _ in range(rng.randint(2, 4))]
        if len(set(els)) < len(els):
            continue
        parts = []
        for j, e in enumerate(els):
            nd = rng.choice([0, 1, 3, 9, 10, 11, 12, 15, 17, 20, 32, 40])
            sub = '' if nd == 0 and rng.random() < 0.5 else ('%d' % rng.randint(0 if nd else 1, 9) + ('.' + ''.join(rng.choice('0123456789') for _ in range(nd - 1)) + rng.choice('123456789') if nd else ''))
            parts.append(e + sub)
        f = ''.join(parts)
        if rng.random() < 0.3:
            f = '(' + f + ')0.' + ''.join(rng.choice('0123456789') for _ in range(rng.choice([9, 10, 16]))) + '7' + rng.choice(wl) + '0.5'
        v_ = fm.classify(f.encode())
        if v_.cls == 'VALID':
            mon.check(f.encode(), 'long-decimals', expect='VALID')
    # SMALL amounts written in long fixed-point form (%.20f ... %.30f of a log-uniform value 1e-3 .. 1e-24: many leading zeros, the significant digits far
    # behind the point), zero-padded integers, and both in groups: every digit written is part of the number
    for k in range(400 if quick else 6000):
        e1, e2, e3 = rng.sample(wl, 3)
        val = 10.0 ** rng.uniform(-24, -3)
        nd = rng.choice([18, 20, 22, 25, 30, 34])
        small = ('%.' + str(nd) + 'f') % val
        if float(small) == 0.0:
            small = small[:-1] + rng.choice('123456789')
        if rng.random() < 0.3:
            small = small[1:]                       # '.000...': the form without the leading 0 is unspecified, classify decides
        padded = '0' * rng.choice([1, 5, 16, 17, 18, 25]) + str(rng.randint(1, 99))
        for f in (e1 + '1' + e2 + small, e1 + small + e2 + '0.5', '(' + e1 + '2' + e2 + ')' + small + e3, e1 + '(' + e2 + '2)' + small, e1 + padded + e2, '(' + e1 + e2 + '3)' + padded):
            if fm.classify(f.encode()).cls == 'VALID':
                mon.check(f.encode(), 'small-amounts-in-long-fixed-point', expect='VALID')
    # subscripts and TOTALS a hair away from an integer (a count that is 'cleaned up' to the integer shows only here)
    for k in range(200 if quick else 4000):
        e1, e2, e3 = rng.sample(wl, 3)
        n = rng.randint(1, 12)
        eps = rng.choice(['0000000001', '000000004', '00000001', '0000001', '000000000005'])
        below = '%d.%s' % (n - 1, '9' * len(eps)) if rng.random() < 0.5 else None
        sub = below[:-1] + rng.choice('5789') if below else '%d.%s' % (n, eps)
        forms = [e1 + sub + e2, e1 + sub + e2 + '2' + e3, '(' + e1 + sub[:-1] + ')2' + e2, e1 + '0.5(' + e1 + sub + ')' + e2]
        for f in forms:
            if fm.classify(f.encode()).cls == 'VALID':
                mon.check(f.encode(), 'near-integer', expect='VALID')
    # hand-written strings of every rejection class (so that each class is exercised whatever the seed)
    for s in ['', ' ', 'H 2', 'H2O ', 'H+', 'H2,5', 'H2O\n', '\xe9', 'H)', '(H', ')H(', '((H)', 'Xx', 'Ha', 'hO', 'Hoo', 'H0', 'H0.0', 'H00', '(H)0', 'H2.5.1', 'H..', 'H.',
              '.', '(.)', 'Rf', 'Db2O', 'H(Sg)', 'Bh0.5', '2H', '(2H)', 'H(2)', '.Cl', '(.No4)', 'Yb4(Mg)a2.30Zr3', '.uNe', '(H)a', 'H1.a', '.5H', 'H.5', 'H5.', '()', 'H()',
              'H' + '9' * 100, 'H1e2', 'H-1', 'H1E2',
              # a closing bracket BEFORE its opening one, totals equal (only a depth that may not go negative rejects these)
              'H2O)(', 'Ca)(CO3', 'Si)O2(', 'H2)(O', 'Fe2)x y!#(O3', ')(H', 'H)(', 'H)O(', ')H2(O', 'H2)2(O', 'H)2(O)3(H', '(H2O))((OH)', 'Ca)5(PO4)3(F']:
        mon.check(s.encode('latin1'), 'hand')
    # (4) mutants ---------------------------------------------------------------------------------------------------------
    short = sorted(set(p for p in pool if 4 <= len(p) <= 14))
    rng.shuffle(short)
    rest = [p for p in pool if p not in short[:n_pool[0]]]
    rng.shuffle(rest)
    hand = ['H2O', 'Ca5(PO4)3F', '(Mg)2.30Zr3', 'Yb4(Mg)2.30Zr3', 'Ne', 'Cl', '(No4)', 'C6H12O6', 'Fe0.95O', '((H2O)2Na)0.5Cl', 'K(AlSi3)O8', 'Si(OH)4']
    pf = [p.encode() for p in hand[:6] + short[:n_pool[0]]]
    pa = [p.encode() for p in hand[6:] + rest[:n_pool[1]]]
    ps = [p.encode() for p in rest[n_pool[1]:n_pool[1] + n_pool[2]]]
    n_mut = 0
    for m in mutants(pf, pa, ps, rng):
        mon.check(m, 'mutant')
        n_mut += 1
    # (5) add_compound_data ----------------------------------------------------------------------------------------------
    n_add = 0
    cache = {}
    def parsed(s):
        if s not in cache:
            cache[s] = X.parse(s.encode())
        return cache[s]
    valid_pool = [p for p in pool if fm.classify(p).cls == 'VALID'] + ['H2O', 'SiO2', 'Ca5(PO4)3F']
    for k in range(N_ADD):
        sa, sb = rng.choice(valid_pool), rng.choice(valid_pool)
        wa, wb = (rng.choice([0.25, 0.5, 1.0, 2.0, 0.1]) if rng.random() < 0.3 else rng.uniform(0.01, 5.0)), rng.uniform(0.01, 5.0)
        same = k % 16 == 5                                  # the same composition object handed in as both operands
        if same:
            sb = sa
        r = X.add_compounds(sa.encode(), wa, sb.encode(), wb, same=same, twice=(k % 4 == 1))
        if isinstance(r, xl.Err):
            if r.message == 'operand does not parse':
                continue                                   # already reported by (3)
            ck.violation('c07:add_compound_data:null', 'add_compound_data returned NULL for two valid compositions', dict(A=sa, wA=wa, B=sb, wB=wb))
            continue
        n_add += 1
        ma, mb = parsed(sa), parsed(sb)                    # the operands as the library itself parses them: this step judges the combination only
        exp = collections.defaultdict(float)
        for z, f in zip(ma['Elements'], ma['massFractions']):
            exp[z] += wa * f
        for z, f in zip(mb['Elements'], mb['massFractions']):
            exp[z] += wb * f
        zs = sorted(exp)
        wit = dict(A=sa, wA=wa, B=sb, wB=wb, returned=r, expected=dict(Elements=zs, massFractions=[exp[z] for z in zs]))
        if r.get('operands_changed'):
            ck.violation('c07:add_compound_data:modifies-its-operands', 'the operand structures (passed by value) differ after the call', wit)
        if r.get('second', r) is None or any(r.get('second', r)[f] != r[f] for f in ('Elements', 'massFractions', 'nElements')):
            ck.violation('c07:add_compound_data:second-call-on-same-operands-differs', 'repeating the call on the same operand objects gives another result', dict(wit, second=r.get('second')))
        if r['Elements'] != zs or r['nElements'] != len(zs):
            ck.violation('c07:add_compound_data:wrong-elements', 'elements %r, expected the ascending union %r' % (r['Elements'], zs), wit)
        elif any(not abs(x - exp[z]) <= TOL * exp[z] for x, z in zip(r['massFractions'], zs)):
            ck.violation('c07:add_compound_data:wrong-massFractions', 'mass fractions differ from wA*fA + wB*fB', wit)
    # (5b) chains: the result of one combination (fractions summing to wA + wB, not to 1) is an operand of the next
    n_chain = 0
    for k in range(400 if quick else 8000):
        sa, sb, sc = rng.choice(valid_pool), rng.choice(valid_pool), rng.choice(valid_pool)
        wa, wb, w1, wc = rng.uniform(0.05, 3.0), rng.uniform(0.05, 3.0), rng.uniform(0.05, 3.0), rng.uniform(0.05, 3.0)
        r = X.add_chain(sa.encode(), wa, sb.encode(), wb, w1, sc.encode(), wc)
        if isinstance(r, xl.Err):
            continue
        n_chain += 1
        ma, mb, mc = parsed(sa), parsed(sb), parsed(sc)
        exp = collections.defaultdict(float)
        for m_, w_ in ((ma, w1 * wa), (mb, w1 * wb), (mc, wc)):
            for z, f in zip(m_['Elements'], m_['massFractions']):
                exp[z] += w_ * f
        zs = sorted(exp)
        if r['Elements'] != zs or any(not abs(x - exp[z]) <= 4 * TOL * exp[z] for x, z in zip(r['massFractions'], zs)):
            ck.violation('c07:add_compound_data:chained-combination-wrong', 'add(add(A, wA, B, wB), w1, C, wC) differs from w1 (wA fA + wB fB) + wC fC',
                         dict(A=sa, wA=wa, B=sb, wB=wb, w1=w1, C=sc, wC=wc, returned=r, expected=dict(Elements=zs, massFractions=[exp[z] for z in zs])))
    # (6) locale monitor -------------------------------------------------------------------------------------------------------
    st = dict(locale_calls=0)
    lf = [p for p in pool if '.' in p][:1500 if quick else 20000]
    # bytes that are LETTERS in a single-byte national locale (islower / isupper / isalpha follow LC_CTYPE), right after a symbol letter and elsewhere
    lf += ['H\xe9', 'Fe\xe92O3', 'H\xe92O', 'C\xe0', '\xc9', 'H\xc9', 'Si\xf62', 'Ca\xe9(OH)2', 'Ca(O\xe9H)2', 'N\xe3', 'Na\xe3Cl', 'H2\xe9', '(H\xfc)2', '\xe9H', 'O\xff2', 'Fe\xe9\xe8O']
    lf += ['H2.5O', 'C1.5H0.25', '(H2O)0.5', 'Fe0.95O', 'H2,5', 'H2,5O', 'H.', 'H0', 'Xx', '(H', 'H 2', 'Rf', 'H0.0', 'H2.5.1', 'H1.a', 'H.5', 'H5.', '()']
    base = locale_monitor(ck, lf, st)
    # (7) the same strings through the project's own builds of the tree (default / release without assertions / unsigned char)
    st['variant_calls'] = variants_pass(ck, mon, rng, tier, st)
    # the C-locale child must agree with the model too (ties the locale comparison to the truth, not just to itself)
    for s, a in zip(lf, base['results']):
        v = fm.classify(s)
        if v.cls == 'VALID' and a[0] == 'C':
            m = fm.model(v.comp)
            if a[1] != m['Elements'] or any(not abs(float.fromhex(x) - y) <= TOL * y for x, y in zip(a[2], m['nAtoms'])):
                ck.violation('c07:wrong-nAtoms:%s' % depth_class(s), 'fresh-process C-locale parse differs from the model', dict(formula=s, returned=decode_res(a), expected=m))
    n_frac = sum(1 for s, a in zip(lf, base['results']) if a[0] == 'C' and '.' in s)

    # -- verdict bookkeeping ------------------------------------------------------------------------------------------------------
    if mon.n['VALID'] < (20000 if quick else 500000) or mon.n['INVALID'] < (100000 if quick else 2000000):
        raise common.Inconclusive('workload too small: %r' % dict(mon.n))
    if n_frac < 100:
        raise common.Inconclusive('locale monitor saw only %d accepted fractional-subscript formulas' % n_frac)
    if n_add < N_ADD // 2:
        raise common.Inconclusive('add_compound_data exercised only %d times' % n_add)
    cov = dict(evaluations=X.calls + st['locale_calls'] + st['variant_calls'], strings_replayed_on_the_project_builds=st['variant_builds'], distinct_nontrivial=len(mon.shapes) + len(mon.msgs),
               rule='distinct shapes (nesting depth, group count, repeated-element pattern, subscript kinds of terms and groups) of generated VALID formulas '
                    'whose library composition was compared with the exact-rational model, plus distinct rejection messages seen',
               samples=mon.samples, exhaustive=False,
               classes=dict(valid=mon.n['VALID'], valid_equal_to_model=mon.n['valid-equal'], invalid=mon.n['INVALID'], invalid_rejected=mon.n['invalid-rejected'],
                            unspecified=mon.n['UNSPECIFIED']),
               unspecified_forms=dict(mon.unspec), accepted_invalid_by_class=dict(mon.accepted_invalid),
               distinct_shapes=len(mon.shapes), max_depth=max(s[0] for s in mon.shapes), rejection_messages=dict(mon.msgs),
               singles=len(fm.SYMBOLS) * 4, ordered_pairs=len(fm.SYMBOLS) ** 2, generated=N_GEN, metamorphic=dict(meta), mutants=n_mut,
               mutant_pools=dict(all_bytes=len(pf), formula_alphabet=len(pa), small_alphabet=len(ps)),
               add_compound_data_pairs=n_add, worst_relative_nAtoms_difference=mon.worst, locale=st['locales'],
               locale_fractional_formulas=n_frac)
    return ck.finish(cov, ['formula_model.py (symbol table of the periodic table, exact-rational evaluator) shares nothing with src/xraylib-parser.c',
                           'atomic weights are read from data/atomicweight.dat by refdata.py',
                           'UNSPECIFIED forms (.5, 5., (), overflow) raise no alarm either way',
                           'the locale children switch the locale with setlocale(LC_ALL, "") after start-up because python itself cannot start under the synthetic charmap'])
