"""C14 - crystal collections stay consistent under any sequence of operations (model-based history monitor)."""
from .. import histrun, common, failrun

OUTCOME = {0: 'accepted/ok', 1: 'rejected', 2: 'refused-or-contract-only'}


def main(tier):
    ck = common.Check('C14', tier)
    n = 2000 if tier == 'quick' else 100000
    results = [histrun.run('shipped', 'asan', 'crystal', n, 200, builtin_runs=2 if tier == 'quick' else 8)]
    if tier == 'thorough':
        results.append(histrun.run('shipped', 'plain', 'crystal', n // 100, 120, valgrind=True))
    else:
        results.append(histrun.run('shipped', 'plain', 'crystal', 48, 60, valgrind=True))
    for res in results:
        for c in res['crashes']:
            if c['reports']:
                for r in c['reports']:
                    ck.violation('%s:%s' % (r['kind'], r['func']), '%s in %s during crystal history %s' % (r['kind'], r['func'], c['history']),
                                 dict(history=c['history'], step=c['step'], op=c['op'], flavour=res['flavour'], seed=ck.seed, report=r['text'][:1200]))
            else:
                ck.violation('crash:%s:%s' % (c['kind'], c['op'].split('(')[0]), 'monitor process died', dict(history=c['history'], step=c['step'], op=c['op'], tail=c.get('tail')))
    viol, ops, tot = histrun.merge(results)
    for key, v in viol.items():
        ck.violation(key, v['what'], dict(history_prefix=v['witness'], count=v['count']))
    # allocation failpoints under a growing caller-owned collection: "a rejected addition leaves the collection as it was" also when the
    # rejection is the library's own report of a failed growth (every library allocation of the scenario fails in turn, red zones behind every block)
    fr = failrun.run('shipped')
    failrun.report(ck, fr, 'C14')
    for r in fr['viol']:
        if r['prop'] == 'C04' and 'crystal array' in r.get('scenario', ''):
            ck.violation(r['key'], r['what'], dict(scenario=r['scenario'], failing_library_allocation=r['k'], config='shipped'))
    crossed = ops.get(('history-crossed-capacity', 1), 0)
    if tot['steps'] < 5000 or crossed < 10 or not ops.get(('readfile-wellformed', 0)) or not ops.get(('add', 2)):
        raise common.Inconclusive('crystal histories observed too little: %r %r' % (tot, sorted(ops.items())))
    distinct = len(ops)
    cov = dict(evaluations=tot['steps'], distinct_nontrivial=distinct + crossed,
               rule='seeded random operation histories (length <= 200) over user arrays of initial capacity 0..12 (ASan+UBSan build, and a valgrind '
                    'subset) and over the built-in array in separate processes; after every step the listing, every lookup, volumes and deep-copy '
                    'independence are compared with a shadow dictionary; distinct = (operation, outcome) pairs observed + histories that grew an '
                    'array beyond its initial capacity',
               samples=[dict(operation=k[0], outcome=OUTCOME.get(k[1], k[1]), count=v) for k, v in sorted(ops.items())][:24],
               histories=tot['histories'], model_comparisons=tot['checks'], histories_crossing_capacity=crossed,
               builtin_adds_refused_at_capacity=ops.get(('add', 2), 0), corrupt_files_rejected=ops.get(('readfile-corrupt', 0), 0),
               duplicate_files_rejected=ops.get(('readfile-duplicate', 0), 0), allocation_failpoints=fr['summary'])
    return ck.finish(cov, ['shadow model harness/histmon.c', 'generated files use the canonical layout of data/Crystals.dat (lines < 100 characters)',
                           'truncated files are held to the error-iff-failure contract only'])
