"""Reference model of chemical formulas shared by C07 and C06.

Independent of src/xraylib-parser.c: the symbol table is the periodic table as chemistry knows it, the
atomic weights come from refdata.pairs('atomicweight.dat'), the composition is computed by a recursive-
descent evaluator over exact rationals (fractions.Fraction).

    classify(b)  -> Verdict(cls='VALID'|'INVALID'|'UNSPECIFIED', reasons=[(kind, pos, detail)...], comp={Z: Fraction}|None)
    Gen(rng)     -> seeded generator of formula trees; render(), permute(), expand_one_group()

Grammar:  formula := term+ ;  term := (Symbol | '(' formula ')') [number] ;
          Symbol := [A-Z][a-z]* (maximal) ; number := maximal run of [0-9.] with digits on both sides of at most one dot.
"""
import collections
from fractions import Fraction
from .. import refdata

SYMBOLS = ("H He Li Be B C N O F Ne Na Mg Al Si P S Cl Ar K Ca Sc Ti V Cr Mn Fe Co Ni Cu Zn Ga Ge As Se Br Kr Rb Sr Y Zr "
           "Nb Mo Tc Ru Rh Pd Ag Cd In Sn Sb Te I Xe Cs Ba La Ce Pr Nd Pm Sm Eu Gd Tb Dy Ho Er Tm Yb Lu Hf Ta W Re Os Ir Pt "
           "Au Hg Tl Pb Bi Po At Rn Fr Ra Ac Th Pa U Np Pu Am Cm Bk Cf Es Fm Md No Lr Rf Db Sg Bh").split()
assert len(SYMBOLS) == 107
ZOF = {s: i + 1 for i, s in enumerate(SYMBOLS)}
UPPER = 'ABCDEFGHIJKLMNOPQRSTUVWXYZ'
LOWER = UPPER.lower()
DIGITS = '0123456789'
ALPHABET = UPPER + LOWER + DIGITS + '.()'

_AW = None


def weights():
    """{Z: atomic weight > 0} from the independently parsed data file"""
    global _AW
    if _AW is None:
        _AW = {z: w for z, w in refdata.pairs('atomicweight.dat').items() if w > 0}
    return _AW


def weighable():
    aw = weights()
    return [s for s in SYMBOLS if ZOF[s] in aw]


Verdict = collections.namedtuple('Verdict', 'cls reasons comp')

# kinds of reasons: the INVALID ones are exactly the rejection classes the property statement names
INVALID_KINDS = ('empty', 'foreign-char', 'unbalanced', 'unknown-symbol', 'stray-lowercase', 'zero-subscript', 'multi-dot',
                 'lone-dot', 'subscript-without-term', 'no-atomic-weight')
UNSPEC_KINDS = ('edge-dot', 'empty-group', 'huge-subscript')


def _prev_class(s, i):
    if i == 0:
        return 'start'
    c = s[i - 1]
    if c == '(':
        return 'open'
    if c == ')':
        return 'group'
    if c == '.':
        return 'dot'
    if c in DIGITS:
        return 'digit'
    if c in UPPER or c in LOWER:
        return 'symbol'
    return 'other'


def tokenize(s):
    """-> list of (kind, text, pos): kind in sym | low | num | ( | ) | other"""
    out, i, n = [], 0, len(s)
    while i < n:
        c = s[i]
        if c in UPPER:
            j = i + 1
            while j < n and s[j] in LOWER:
                j += 1
            out.append(('sym', s[i:j], i)); i = j
        elif c in LOWER:
            j = i + 1
            while j < n and s[j] in LOWER:
                j += 1
            out.append(('low', s[i:j], i)); i = j
        elif c in DIGITS or c == '.':
            j = i + 1
            while j < n and (s[j] in DIGITS or s[j] == '.'):
                j += 1
            out.append(('num', s[i:j], i)); i = j
        elif c in '()':
            out.append((c, c, i)); i += 1
        else:
            out.append(('other', c, i)); i += 1
    return out


def classify(b):
    """b: bytes (or latin-1 str).  INVALID dominates UNSPECIFIED dominates VALID."""
    s = b.decode('latin1') if isinstance(b, (bytes, bytearray)) else b
    aw = weights()
    reasons = []
    if s == '':
        return Verdict('INVALID', [('empty', 0, '')], None)
    toks = tokenize(s)
    depth = 0
    balanced = True
    for k, (kind, text, pos) in enumerate(toks):
        prev = toks[k - 1][0] if k else None
        if kind == 'other':
            reasons.append(('foreign-char', pos, repr(text)))
        elif kind == '(':
            depth += 1
        elif kind == ')':
            depth -= 1
            if depth < 0 and balanced:
                balanced = False
                reasons.append(('unbalanced', pos, 'closing parenthesis without an opening one'))
            if prev == '(':
                reasons.append(('empty-group', pos, '()'))
        elif kind == 'sym':
            if text not in ZOF:
                reasons.append(('unknown-symbol', pos, text))
            elif ZOF[text] not in aw:
                reasons.append(('no-atomic-weight', pos, text))
        elif kind == 'low':
            # a lower-case letter that does not continue a symbol names no element
            reasons.append(('stray-lowercase', pos, 'after-' + _prev_class(s, pos)))
        elif kind == 'num':
            dots = text.count('.')
            ndig = len(text) - dots
            attached = prev in ('sym', ')')
            if dots > 1:
                reasons.append(('multi-dot', pos, 'after-' + _prev_class(s, pos)))
            elif ndig == 0:
                reasons.append(('lone-dot', pos, 'after-' + _prev_class(s, pos)))
            else:
                if not attached:
                    reasons.append(('subscript-without-term', pos, 'after-' + _prev_class(s, pos)))
                if not text.strip('0.'):
                    reasons.append(('zero-subscript', pos, text))
                elif text.startswith('.') or text.endswith('.'):
                    reasons.append(('edge-dot', pos, text))
                if len(text.split('.')[0]) > 300:
                    reasons.append(('huge-subscript', pos, ''))
    if depth > 0 and balanced:
        reasons.append(('unbalanced', len(s), 'opening parenthesis never closed'))
    reasons.sort(key=lambda r: r[1])
    inv = [r for r in reasons if r[0] in INVALID_KINDS]
    if inv:
        return Verdict('INVALID', inv, None)
    if reasons:
        return Verdict('UNSPECIFIED', reasons, None)
    return Verdict('VALID', [], evaluate(s))


def _num(text):
    """decimal text -> (mantissa, exponent): value = mantissa / 10**exponent, exact"""
    k = text.find('.')
    if k < 0:
        return int(text), 0
    return int(text[:k] + text[k + 1:]), len(text) - k - 1


def evaluate(s):
    """recursive-descent evaluation of a string already known to be in the grammar -> {Z: Fraction}.
    Exact: counts are kept as integer mantissa / power of ten (python integers), converted to Fractions at the end."""
    pos = 0
    n = len(s)

    def number():
        nonlocal pos
        st = pos
        while pos < n and (s[pos] in DIGITS or s[pos] == '.'):
            pos += 1
        return _num(s[st:pos]) if pos > st else (1, 0)

    def add(comp, z, m, e):
        if z in comp:
            m0, e0 = comp[z]
            if e0 < e:
                m0 *= 10 ** (e - e0)
            elif e < e0:
                m *= 10 ** (e0 - e); e = e0
            comp[z] = (m0 + m, e)
        else:
            comp[z] = (m, e)

    def formula(depth):
        nonlocal pos
        comp = {}
        nterm = 0
        while pos < n:
            c = s[pos]
            if c == '(':
                pos += 1
                sub = formula(depth + 1)
                assert pos < n and s[pos] == ')'
                pos += 1
                km, ke = number()
                for z, (m, e) in sub.items():
                    add(comp, z, m * km, e + ke)
            elif c == ')':
                assert depth > 0 and nterm > 0
                return comp
            else:
                assert c in UPPER
                st = pos
                pos += 1
                while pos < n and s[pos] in LOWER:
                    pos += 1
                z = ZOF[s[st:pos]]
                m, e = number()
                add(comp, z, m, e)
            nterm += 1
        assert depth == 0 and nterm > 0
        return comp

    return {z: Fraction(m, 10 ** e) for z, (m, e) in formula(0).items()}


def model(comp):
    """{Z: Fraction} -> dict(Elements, nAtoms, nAtomsAll, molarMass, massFractions) in floats, Z ascending"""
    aw = weights()
    zs = sorted(comp)
    mm = sum(float(comp[z]) * aw[z] for z in zs)
    return dict(Elements=zs, nAtoms=[float(comp[z]) for z in zs], nAtomsAll=float(sum(comp.values())), molarMass=mm,
                massFractions=[float(comp[z]) * aw[z] / mm for z in zs])


# ------------------------------------------------------------------------------------------------------------
# generator: a formula is a list of terms; term = ['sym', symbol, numtext] | ['grp', [terms], numtext]

def frac_to_text(q):
    """exact decimal text of a positive Fraction whose denominator is 2^a 5^b"""
    assert q > 0
    num, den = q.numerator, q.denominator
    k = 0
    while (10 ** k) % den:
        k += 1
        if k > 400:
            raise ValueError('not a finite decimal')
    digits = str(num * (10 ** k // den))
    if k == 0:
        return digits
    digits = digits.rjust(k + 1, '0')
    return digits[:-k] + '.' + digits[-k:]


def num_value(t):
    return Fraction(t) if t else Fraction(1)


class Gen:
    def __init__(self, rng, symbols=None, max_depth=5, max_len=120):
        self.r = rng
        self.symbols = symbols or weighable()
        self.max_depth, self.max_len = max_depth, max_len

    def subscript(self):
        r = self.r
        x = r.random()
        if x < 0.35:
            return ''
        if x < 0.70:
            return str(r.randint(1, 12))
        if x < 0.75:
            return str(r.randint(13, 999))
        if x < 0.90:
            return '%d.%d' % (r.randint(0, 3), r.randint(1, 99))
        if x < 0.94:
            return '%d.%02d0' % (r.randint(1, 20), r.randint(0, 99))     # trailing zero
        if x < 0.97:
            return '0%d' % r.randint(1, 9)                                 # leading zero
        return '0.%03d' % r.randint(1, 999)

    def terms(self, depth, want_depth, local=None):
        r = self.r
        out = []
        local = local if local is not None else []
        nt = r.randint(1, 4 if depth == 0 else 3)
        deep_at = r.randrange(nt) if want_depth > depth else -1
        for k in range(nt):
            if k == deep_at or (depth < want_depth and r.random() < 0.15):
                out.append(['grp', self.terms(depth + 1, want_depth if k == deep_at else r.randint(depth + 1, want_depth), local), self.subscript()])
            else:
                if local and r.random() < 0.25:
                    s = r.choice(local)              # repeated element (within or across groups)
                else:
                    s = r.choice(self.symbols)
                local.append(s)
                out.append(['sym', s, self.subscript()])
        return out

    def formula(self, want_depth=None, must_contain=None):
        r = self.r
        for _ in range(200):
            wd = want_depth if want_depth is not None else r.choice([0, 0, 1, 1, 2, 2, 3, 4, 5])
            wd = min(wd, self.max_depth)
            t = self.terms(0, wd)
            if must_contain:
                t.insert(r.randint(0, len(t)), ['sym', must_contain, self.subscript()])
            if len(render(t)) <= self.max_len:
                return t
        return [['sym', must_contain or 'H', '']]


def render(terms):
    out = []
    for t in terms:
        if t[0] == 'sym':
            out.append(t[1] + t[2])
        else:
            out.append('(' + render(t[1]) + ')' + t[2])
    return ''.join(out)


def depth_of(terms):
    return max([0] + [1 + depth_of(t[1]) for t in terms if t[0] == 'grp'])


def n_groups(terms):
    return sum(1 + n_groups(t[1]) for t in terms if t[0] == 'grp')


def shape(terms):
    """(nesting depth, group count capped, repeated-element pattern, subscript kinds)"""
    syms, kinds = [], set()
    top = []

    def walk(ts, d):
        for t in ts:
            x = t[2]
            kinds.add('none' if x == '' else ('frac' if '.' in x else 'int'))
            if t[0] == 'sym':
                syms.append((t[1], d)); top.append(t[1]) if d == 0 else None
            else:
                kinds.add('grp-' + ('none' if x == '' else ('frac' if '.' in x else 'int')))
                walk(t[1], d + 1)
    walk(terms, 0)
    cnt = collections.Counter(s for s, _ in syms)
    rep_same = any(v > 1 for v in collections.Counter(syms).values())
    rep_cross = any(len({d for s2, d in syms if s2 == s}) > 1 for s in cnt if cnt[s] > 1)
    return (depth_of(terms), min(n_groups(terms), 6), ('same' if rep_same else '') + ('cross' if rep_cross else ''), tuple(sorted(kinds)))


def permute(terms, rng, deep=False):
    t = [x if x[0] == 'sym' or not deep else ['grp', permute(x[1], rng, True), x[2]] for x in terms]
    rng.shuffle(t)
    return t


def expand_one_group(terms, rng):
    """replace one parenthesised group (at any depth) by its terms with subscripts multiplied by the group's; None if no group"""
    paths = []

    def walk(ts, path):
        for k, t in enumerate(ts):
            if t[0] == 'grp':
                paths.append(path + [k]); walk(t[1], path + [k])
    walk(terms, [])
    if not paths:
        return None
    path = rng.choice(paths)

    def rebuild(ts, path):
        k = path[0]
        out = []
        for j, t in enumerate(ts):
            if j != k:
                out.append(t)
            elif len(path) > 1:
                out.append(['grp', rebuild(t[1], path[1:]), t[2]])
            else:
                m = num_value(t[2])
                for u in t[1]:
                    q = num_value(u[2]) * m
                    txt = frac_to_text(q)
                    if txt == '1' and rng.random() < 0.5:
                        txt = ''
                    out.append([u[0], u[1], txt])
        return out
    return rebuild(terms, path)
