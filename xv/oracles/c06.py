"""C06 - compound quantities follow the mass-fraction mixture rule (offline mixture-rule checker).

Composition of every name comes from the public CompoundParser / GetCompoundDataNISTByName (ctypes), the elemental values
and the compound values from the batch executor; expected _CP value = sum_i w_i * f(Z_i, ...), expected failure iff the name
resolves to neither a formula nor a NIST compound or some elemental call fails.  Refractive index: delta = 1 - Re and Im are
compared with the closed formulas built from the header constants; the complex entry point must equal its twins bit for bit.
"""
import math, random, collections
import numpy as np
from .. import common, refdata, execlib, xl, srctab
from . import formula_model as fm

TOL = 1e-12             # sum of <= 40 positive products evaluated in a different order: relative error <= 40 * 2^-53 < 1e-14
TOL_RI = 1e-7           # header-derived constants vs the library's literals differ by a fixed factor (measured 8.9e-8 / 7.0e-8); fp noise ~1e-15
ABS_DELTA = 1e-16       # Re = 1 - delta is rounded to a double next to 1.0 (half-spacing 5.6e-17) before we can form 1 - Re

ENERGIES_QUICK = [0.0, -1.0, 0.5, 1.0, 8.04, 17.4, 59.5, 100.0, 799.0, 1e4 + 1]
ENERGIES = list(ENERGIES_QUICK)
THETAS = [0.0, 1e-3, math.pi / 4, math.pi / 2, 2.5, math.pi]
PHIS = [0.0, math.pi / 3, math.pi / 2, 4.0]
DENSITIES = [-1.0, 0.0, 0.5, 2.7]
UNKNOWN = ['', 'Xx', 'Water', 'water, liquid', 'H2O ', 'Rf', 'H0', '(H2O', 'Kapton', 'Ca5(PO4)3f', None,
           'H2O)(', 'Ca)(CO3', 'Si)O2(', 'H2)(O', ')(H2O', 'Ca5)PO4(3F']      # a closing bracket before its opening one, totals equal


def resolve(X, name):
    """-> dict(kind='formula'|'nist', Z=array, w=array, density=None|float) or None, exactly as the public API resolves it"""
    if name is None:
        return None
    # the compound's true composition: for strings the independent reference parser rules VALID its exact expansion is used whatever
    # the library's own parser says (a formula it mis-parses or wrongly rejects shows up as a wrong mixture / a spurious error),
    # otherwise what the library reports
    try:
        v = fm.classify(name.encode('latin1', 'replace'))
        if v.cls == 'VALID':
            m = fm.model(v.comp)
            return dict(kind='formula', Z=np.array(m['Elements']), w=np.array(m['massFractions']), density=None)
        invalid = v.cls == 'INVALID'
    except Exception:
        invalid = False
    r = X.parse(name)
    if not isinstance(r, xl.Err) and not invalid:          # a string the reference parser rules INVALID is no formula, whatever the library's parser makes of it
        return dict(kind='formula', Z=np.array(r['Elements']), w=np.array(r['massFractions']), density=None)
    r = X.nist(name)
    if not isinstance(r, xl.Err):
        # "its own tabulated density": the number in the table the catalogue is compiled from where that can be read from the source text
        # (density_api is what the lookup hands out; C15 compares the two)
        src = _nist_src().get(name)
        return dict(kind='nist', Z=np.array(r['Elements']), w=np.array(r['massFractions']), density=src['density'] if src else r['density'], density_api=r['density'])
    return None


_SRC = []


def _nist_src():
    if not _SRC:
        _SRC.append(srctab.nist_compounds())
    return _SRC[0]


def grid_for(sig):
    """argument grid (columns after the compound / Z) for a _CP signature"""
    n = len(sig) - 1
    if n == 1:
        return np.array(ENERGIES)[:, None]
    if n == 2:
        return np.array([(e, t) for e in ENERGIES for t in THETAS])
    return np.array([(e, t, p) for e in ENERGIES for t in THETAS[1::2] + [THETAS[0]] for p in PHIS])


def names_for(X, rng, tier):
    wl = fm.weighable()
    light = [s for s in wl if fm.ZOF[s] <= 92]
    Gall, Glight = fm.Gen(rng, wl, max_len=60), fm.Gen(rng, light, max_len=60)
    out = ['H2O', 'AgMd', 'Ca5(PO4)3F', 'SiO2', 'C6H12O6', 'Fe0.95O', '(H2O)0.5', 'Pb(Zr0.52Ti0.48)O3', 'K(AlSi3)O8', 'U3O8']
    out += wl                                                   # every weighable element on its own
    # long strings (private buffers) and subscripts with many decimals (their counts must not all carry the same number of decimals)
    out += ['CH2' * 341 + 'O9', 'C2H4' * 300 + 'Cl', '(' + 'CH2' * 400 + ')3O', 'Si' + 'O' * 2100, 'Ca' + '(OH)2' * 3000 + 'F',
            'Fe0.9470000000O', 'Al0.3333333333Ga0.6666666667As', '(SiO2)0.66666666666666663(Na2O)0.5', 'Cu0.12345678901234567Zn2', 'H0.5000000000001O3.25']
    for s in wl:                                                # ... and inside a generated (nested / fractional) formula
        out.append(fm.render((Glight if fm.ZOF[s] <= 92 else Gall).formula(must_contain=s)))
    for _ in range(120 if tier == 'quick' else 1500):
        out.append(fm.render(Glight.formula()))
    for _ in range(10 if tier == 'quick' else 100):
        out.append(fm.render(Gall.formula()))
    # malformed neighbours of well-formed formulas (one character inserted / replaced): not a compound, every _CP call must fail
    base = [fm.render(Glight.formula()) for _ in range(60 if tier == 'quick' else 600)] + ['Ca5(PO4)3F', 'Mg(OH)2', 'K4(Fe(CN)6)', 'Fe(CN)(CO)2', 'Al2O3Si(OH)4']
    for b in base:
        for _ in range(4):
            i = rng.randrange(1, len(b) + 1)
            ch = rng.choice('abcxn.)(,+ e')
            m = b[:i] + ch + b[i:] if rng.random() < 0.7 else b[:i - 1] + ch + b[i:]
            try:
                if fm.classify(m.encode('latin1', 'replace')).cls == 'INVALID':
                    out.append(m)
            except Exception:
                pass
    for m in ('Ca(PO4)a3F', 'Mg(OH)x2', 'K4(Fe(CN)e6)', '(OH)a2', 'Ca((OH)a)2', 'H2O.', '.Cl', 'Fe(CN)(CO)b2'):
        if fm.classify(m.encode()).cls == 'INVALID':
            out.append(m)
    nl = X.nist_list()
    if isinstance(nl, xl.Err) or len(nl['names']) < 100:
        raise common.Inconclusive('NIST list unavailable: %r' % (nl,))
    seen, res = set(), []
    for n in out + nl['names'] + UNKNOWN:
        if n not in seen:
            seen.add(n); res.append(n)
    return res, nl['names']


def show(name):
    return 'NULL' if name is None else repr(name)


def check_cp(ck, L, X, names, comps, st):
    cps = [n for n, f in L.fns.items() if n.endswith('_CP') and f['ret'] == 'double' and n[:-3] in L.fns]
    if len(cps) != 21:
        raise common.Inconclusive('expected 21 numeric _CP functions, the headers declare %d' % len(cps))
    Zall = np.array(sorted({int(z) for c in comps.values() if c for z in c['Z']}))
    zpos = {int(z): k for k, z in enumerate(Zall)}
    grids = {fn: grid_for(L.fns[fn]['sig']) for fn in cps}
    # one executor process for all elemental tables, one for all compound calls
    ejobs, cjobs = [], []
    for fn in cps:
        g = grids[fn]
        ZZ = np.repeat(Zall, len(g))
        cols = [np.tile(g[:, k], len(Zall)) for k in range(g.shape[1])]
        ejobs.append((fn[:-3], ZZ) + tuple(cols))
        nn = [n for n in names for _ in range(len(g))]
        ccols = [np.tile(g[:, k], len(names)) for k in range(g.shape[1])]
        cjobs.append((fn, nn) + tuple(ccols))
    eres = L.multi(ejobs)
    cres = L.multi(cjobs)
    # the same compound calls WITHOUT an error slot: bit-identical values, hence the 0 sentinel (never a partial sum) wherever the call fails
    nres = execlib.Lib(L.config, env={'XV_NOSLOT': '1'}).multi(cjobs)
    for fn, cr, nr in zip(cps, cres, nres):
        g = grids[fn]
        bad = np.nonzero((nr.v.view('u8') != cr.v.view('u8')) & ~(np.isnan(nr.v) & np.isnan(cr.v)))[0]
        for r in bad[:2]:
            name, j = names[r // len(g)], r % len(g)
            ck.violation('c06:%s:value-without-error-slot-differs' % fn,
                         '%s(%s,%s) returns %r without an error slot and %r (%s) with one' % (fn, show(name), ','.join(map(repr, g[j].tolist())), float(nr.v[r]),
                                                                                         float(cr.v[r]), cr.msg(r) if cr.err[r] else 'success'),
                         dict(call='%s(%s,%s)' % (fn, show(name), ','.join(map(repr, g[j].tolist()))), config=L.config, error_slot=False))
        st['calls'] += len(nr)
    for fn, er, cr in zip(cps, eres, cres):
        g = grids[fn]
        ng = len(g)
        ev = er.v.reshape(len(Zall), ng); eok = er.ok.reshape(len(Zall), ng)
        cv = cr.v.reshape(len(names), ng); cok = cr.ok.reshape(len(names), ng)
        nsucc = nfail = 0
        for k, name in enumerate(names):
            c = comps[name]
            if c is None:
                bad = np.nonzero(cok[k])[0]
                for j in bad[:2]:
                    ck.violation('c06:%s:no-error:%s' % (fn, 'null-name' if name is None else 'unresolvable-name'),
                                 '%s(%s, %s) returned %r although the name is neither a formula nor a NIST compound' % (fn, show(name), g[j].tolist(), float(cv[k, j])),
                                 dict(call='%s(%s,%s)' % (fn, show(name), ','.join(map(repr, g[j].tolist()))), config=L.config))
                nfail += ng
                st['classes'].add((fn, name, 'unresolvable'))
                continue
            idx = [zpos[int(z)] for z in c['Z']]
            allok = eok[idx].all(axis=0)
            ref = (c['w'][:, None] * ev[idx]).sum(axis=0)
            call = lambda j: '%s(%s,%s)' % (fn, show(name), ','.join(map(repr, g[j].tolist())))
            # failure expected
            bad = np.nonzero(~allok & cok[k])[0]
            for j in bad[:2]:
                zf = [int(z) for z, i in zip(c['Z'], idx) if not eok[i, j]]
                first_fail = min(n for n, i in enumerate(idx) if not eok[i, j])
                # a legitimate exact 0.0 of an earlier element (e.g. the polarised Rayleigh factor at theta = pi/2, phi = 0) is a class of its own
                cls = ':after-legitimate-zero-term' if any(eok[i, j] and ev[i, j] == 0.0 for i in idx[:first_fail]) else ''
                ck.violation('c06:%s:no-error:elemental-failure%s' % (fn, cls),
                             '%s returned %r without an error although %s fails for Z=%r%s' % (call(j), float(cv[k, j]), fn[:-3], zf,
                                                                                           ' (an earlier element legitimately contributes exactly 0.0)' if cls else ''),
                             dict(call=call(j), elements=c['Z'].tolist(), failing=zf, elemental=[float(ev[i, j]) for i in idx], config=L.config))
            # a failing compound call returns the 0 sentinel, never the partial sum of the elements that did succeed
            bad = np.nonzero(~allok & ~cok[k] & (cv[k] != 0.0))[0]
            for j in bad[:2]:
                ck.violation('c06:%s:partial-sum-returned-on-failure' % fn,
                             '%s failed but returned %r instead of 0' % (call(j), float(cv[k, j])),
                             dict(call=call(j), elements=c['Z'].tolist(), elemental=[float(ev[i, j]) for i in idx], config=L.config))
            # success expected
            bad = np.nonzero(allok & ~cok[k])[0]
            for j in bad[:2]:
                ck.violation('c06:%s:spurious-error:%s' % (fn, c['kind']),
                             '%s failed (%s) although %s succeeds for every element (rule gives %r)' % (call(j), cr.msg(k * ng + j), fn[:-3], float(ref[j])),
                             dict(call=call(j), elements=c['Z'].tolist(), expected=float(ref[j]), config=L.config))
            both = allok & cok[k]
            if both.any():
                with np.errstate(divide='ignore', invalid='ignore'):
                    rel = np.where(ref[both] == 0, np.where(cv[k, both] == 0, 0.0, np.inf), np.abs(cv[k, both] - ref[both]) / np.abs(ref[both]))
                st['worst_cp'] = max(st['worst_cp'], float(rel[np.isfinite(rel)].max()) if np.isfinite(rel).any() else 0.0)
                jj = np.nonzero(both)[0][rel > TOL]
                for j in jj[:2]:
                    ck.violation('c06:%s:wrong-value:%s' % (fn, c['kind']),
                                 '%s = %r, mixture rule sum(w_i*%s(Z_i)) = %r' % (call(j), float(cv[k, j]), fn[:-3], float(ref[j])),
                                 dict(call=call(j), elements=c['Z'].tolist(), massFractions=c['w'].tolist(),
                                      elemental=[float(ev[i, j]) for i in idx], returned=float(cv[k, j]), expected=float(ref[j]), config=L.config))
                st['classes'].add((fn, name, 'success'))
                if len(st['samples']) < 10 and (k * 7 + len(fn)) % 97 == 0:
                    j = int(np.nonzero(both)[0][0])
                    st['samples'].append(dict(call=call(j), returned=float(cv[k, j]), rule=float(ref[j]), config=L.config))
            if (~allok).any():
                st['classes'].add((fn, name, 'elemental-failure'))
            nsucc += int(both.sum()); nfail += int((~allok).sum())
        st['per_function'][fn + '@' + L.config] = dict(calls=int(cv.size), compared_on_success=nsucc, expected_failures=nfail)
        st['calls'] += int(cv.size) + int(ev.size)
        st['compared'] += nsucc
    return cps


def root_probe(ck, L, X, st, tier):
    """f'(E) (Fi) changes sign inside its table for every element: at a root, and at the doubles next to it, the real part of the
    refractive index is as well defined as anywhere else (1 - delta with delta from Z + f').  The roots are located at run time by
    bisection down to neighbouring doubles; a value of exactly 0 or a failure there is the 'legitimate zero taken for a failure' defect."""
    mac = refdata.Macros()
    K = mac['R_E'] * 100.0 * (mac['KEV2ANGST'] * 1e-8) ** 2 * (mac['AVOGNUM'] * 1e24) / (2 * math.pi)
    Zs = np.array([9, 10, 14, 17, 18, 26, 29, 47, 79, 82] if tier == 'quick' else list(range(3, 99, 2)))
    grid = np.exp(np.linspace(np.log(0.2), np.log(700.0), 600 if tier == 'quick' else 3000))
    ZZ, EE = np.repeat(Zs, len(grid)), np.tile(grid, len(Zs))
    f = L.call('Fi', ZZ, EE)
    fv = np.where(f.ok, f.v, np.nan).reshape(len(Zs), -1)
    lo, hi, zz = [], [], []
    for a, Z in enumerate(Zs):
        sgn = np.sign(fv[a])
        for k in np.nonzero((sgn[:-1] * sgn[1:] < 0))[0][:4]:
            lo.append(grid[k]); hi.append(grid[k + 1]); zz.append(Z)
    if len(lo) < 5:
        raise common.Inconclusive('found only %d sign changes of Fi' % len(lo))
    lo, hi, zz = np.array(lo), np.array(hi), np.array(zz)
    flo = L.call('Fi', zz, lo).v
    for _ in range(70):                                   # bisection on all brackets at once, down to neighbouring doubles
        mid = 0.5 * (lo + hi)
        mid = np.where((mid <= lo) | (mid >= hi), hi, mid)
        fm_ = L.call('Fi', zz, mid).v
        same = np.sign(fm_) == np.sign(flo)
        lo = np.where(same & (mid < hi), mid, lo); flo = np.where(same & (mid < hi), fm_, flo)
        hi = np.where(~same, mid, hi)
    # probe the two sides of each root, ulp by ulp
    Ez, Zz = [], []
    for a in range(len(lo)):
        e = float(lo[a])
        for _ in range(40):
            e = float(np.nextafter(e, 0.0))
        for _ in range(120):
            Ez.append(e); Zz.append(int(zz[a])); e = float(np.nextafter(e, np.inf))
    Ez, Zz = np.array(Ez), np.array(Zz)
    sym = {int(Z): X.symbol(int(Z)) for Z in set(Zz.tolist())}
    names = [sym[int(z)] for z in Zz]
    mixed = [sym[int(z)] + ('2O3' if int(z) != 8 else 'H2') for z in Zz]
    fi, aw = L.multi([('Fi', Zz, Ez), ('AtomicWeight', Zz)])
    st['calls'] += len(Ez) * 4
    nzero = int((fi.ok & (fi.v == 0.0)).sum())
    for nm, what in ((names, 'element'), (mixed, 'compound')):
        re_ = L.call('Refractive_Index_Re', nm, Ez, 1.0)
        cx_ = L.special('Refractive_Index', s=nm, d=[Ez, 1.0])
        for r_, fn in ((re_, 'Refractive_Index_Re'), (cx_, 'Refractive_Index')):
            bad = np.nonzero(fi.ok & (r_.err | (r_.v == 0.0) | ~(np.abs(1.0 - r_.v) < 1e-2)))[0]
            for k in bad[:2]:
                ck.violation('c06:%s:fails-at-a-root-of-Fi:%s' % (fn, what),
                             '%s(%r, %.17g, 1.0) gives %s although Fi(%d, E) = %r is defined (E within %d doubles of a root of f\')' % (
                                 fn, nm[k], float(Ez[k]), ('error: %s' % r_.msg(k)) if r_.err[k] else repr(float(r_.v[k])), int(Zz[k]), float(fi.v[k]), 120),
                             dict(call='%s(%r,%.17g,1.0)' % (fn, nm[k], float(Ez[k])), Fi=float(fi.v[k]), config=L.config))
        # the pure element: delta from the formula
        if what == 'element':
            ok = fi.ok & re_.ok & aw.ok
            dref = K * (Zz + fi.v) / aw.v / (Ez * Ez)
            bad = np.nonzero(ok & ~(np.abs((1.0 - re_.v) - dref) <= TOL_RI * np.abs(dref) + ABS_DELTA))[0]
            for k in bad[:2]:
                ck.violation('c06:Refractive_Index_Re:wrong-delta:at-a-root-of-Fi', '1 - Refractive_Index_Re(%r, %.17g, 1.0) = %r, formula gives %r' % (nm[k], float(Ez[k]), float(1 - re_.v[k]), float(dref[k])),
                             dict(call='Refractive_Index_Re(%r,%.17g,1.0)' % (nm[k], float(Ez[k])), config=L.config))
    st['root_probe'] = dict(roots=int(len(lo)), energies=int(len(Ez)), exact_zero_values_of_Fi=nzero,
                                                              bracket_widths_in_ulps=float(np.max((hi - lo) / np.spacing(lo))))
    st['classes'].add(('Refractive_Index_Re', 'root-of-Fi', 'success'))


def check_refractive(ck, L, X, names, comps, nist_names, st):
    mac = refdata.Macros()
    # delta = r_e * lambda^2 / (2 pi) * n_e ;  n_e = rho * N_A * sum w (Z + f') / A ;  r_e in cm, lambda = KEV2ANGST / E * 1e-8 cm
    K = mac['R_E'] * 100.0 * (mac['KEV2ANGST'] * 1e-8) ** 2 * (mac['AVOGNUM'] * 1e24) / (2 * math.pi)
    # beta = mu * lambda / (4 pi) ; mu = rho * CS_Total
    KI = mac['KEV2ANGST'] * 1e-8 / (4 * math.pi)
    E = np.array(ENERGIES)
    Zall = np.array(sorted({int(z) for c in comps.values() if c for z in c['Z']}))
    zpos = {int(z): k for k, z in enumerate(Zall)}
    ZZ, EE = np.repeat(Zall, len(E)), np.tile(E, len(Zall))
    fi, cs, aw = L.multi([('Fi', ZZ, EE), ('CS_Total', ZZ, EE), ('AtomicWeight', Zall)])
    fiv, fiok = fi.v.reshape(len(Zall), -1), fi.ok.reshape(len(Zall), -1)
    csv, csok = cs.v.reshape(len(Zall), -1), cs.ok.reshape(len(Zall), -1)
    # request table: (name, E, rho) ; NIST names additionally with their catalogue density
    rows = []
    for n in names:
        c = comps[n]
        dens = list(DENSITIES) + ([c['density']] if c and c['kind'] == 'nist' else [])
        for d in dens:
            for e in ENERGIES:
                rows.append((n, e, d))
    nn = [r[0] for r in rows]; ee = np.array([r[1] for r in rows]); dd = np.array([r[2] for r in rows])
    re, im = L.multi([('Refractive_Index_Re', nn, ee, dd), ('Refractive_Index_Im', nn, ee, dd)])
    cx = L.special('Refractive_Index', s=nn, d=[ee, dd])
    # without an error slot: the same bits (0 / 0+0i wherever the call fails)
    Ln = execlib.Lib(L.config, env={'XV_NOSLOT': '1'})
    re0, im0 = Ln.multi([('Refractive_Index_Re', nn, ee, dd), ('Refractive_Index_Im', nn, ee, dd)])
    cx0 = Ln.special('Refractive_Index', s=nn, d=[ee, dd])
    cx2 = L.special('Refractive_Index', s=nn, d=[ee, dd], helper=True)      # Refractive_Index2, the by-pointer entry point of the bindings
    for fn, a, b in (('Refractive_Index_Re', re, re0), ('Refractive_Index_Im', im, im0), ('Refractive_Index', cx, cx0), ('Refractive_Index2', cx, cx2)):
        va, vb = a.v3[:, :2], b.v3[:, :2]
        bad = np.nonzero(((va.view('u8') != vb.view('u8')) & ~(np.isnan(va) & np.isnan(vb))).any(axis=1))[0]
        for r in bad[:2]:
            helper = fn.endswith('2')
            ck.violation(('c06:%s:differs-from-Refractive_Index' if helper else 'c06:%s:value-without-error-slot-differs') % fn,
                         ('%s(%s,%r,%r) stores %r, Refractive_Index returns %r (%s)' if helper else '%s(%s,%r,%r) returns %r without an error slot and %r (%s) with one') % (
                             fn, show(rows[r][0]), rows[r][1], rows[r][2], vb[r].tolist(), va[r].tolist(), a.msg(r) if a.err[r] else 'success'),
                         dict(call='%s(%s,%r,%r)' % (fn, show(rows[r][0]), rows[r][1], rows[r][2]), config=L.config, error_slot=not helper))
    st['calls'] += 7 * len(rows) + fi.v.size * 2 + len(Zall)
    eidx = {e: k for k, e in enumerate(ENERGIES)}
    nre = nim = nexp_fail = 0
    for r, (name, e, d) in enumerate(rows):
        c = comps[name]
        call = '(%s,%r,%r)' % (show(name), e, d)
        why = None
        if c is None:
            why = 'null-name' if name is None else 'unresolvable-name'
        elif not e > 0:
            why = 'nonpositive-energy'
        elif not d > 0 and c['kind'] != 'nist':
            why = 'nonpositive-density'
        if why:
            nexp_fail += 1
            for fn, res in (('Refractive_Index_Re', re), ('Refractive_Index_Im', im), ('Refractive_Index', cx)):
                if res.ok[r]:
                    ck.violation('c06:%s:no-error:%s' % (fn, why), '%s%s returned a value (%r) where an error is required' % (fn, call, res.v3[r, :2].tolist()),
                                 dict(call=fn + call, config=L.config))
            st['classes'].add(('Refractive_Index', name, why))
            continue
        rho = d if d > 0 else c['density']
        k = eidx[e]
        idx = [zpos[int(z)] for z in c['Z']]
        awok = aw.ok[idx].all()
        re_ok = bool(fiok[idx, k].all() and awok)
        im_ok = bool(csok[idx, k].all())
        for fn, res, exp_ok, elem in (('Refractive_Index_Re', re, re_ok, 'Fi'), ('Refractive_Index_Im', im, im_ok, 'CS_Total'),
                                      ('Refractive_Index', cx, re_ok and im_ok, 'Fi/CS_Total')):
            if res.ok[r] and not exp_ok:
                ck.violation('c06:%s:no-error:elemental-failure' % fn, '%s%s returned %r although %s fails for one of Z=%r' % (fn, call, res.v3[r, :2].tolist(), elem, c['Z'].tolist()),
                             dict(call=fn + call, config=L.config))
            if not res.ok[r] and exp_ok:
                ck.violation('c06:%s:spurious-error:%s' % (fn, c['kind']), '%s%s failed (%s) although %s succeeds for every element' % (fn, call, res.msg(r), elem),
                             dict(call=fn + call, elements=c['Z'].tolist(), config=L.config))
        if not (re_ok and im_ok):
            nexp_fail += 1
            st['classes'].add(('Refractive_Index', name, 'elemental-failure'))
        dclass = 'user-density' if d > 0 else 'catalogue-density'
        if re_ok and re.ok[r]:
            dref = rho * K * float(np.sum(c['w'] * (c['Z'] + fiv[idx, k]) / aw.v[idx])) / (e * e)
            dlib = 1.0 - float(re.v[r])
            nre += 1
            if dref != 0:
                st['worst_delta'] = max(st['worst_delta'], abs(dlib - dref) / abs(dref)) if abs(dref) > 1e-6 else st['worst_delta']   # statistic only where rounding of Re is negligible
            if not abs(dlib - dref) <= TOL_RI * abs(dref) + ABS_DELTA:
                ck.violation('c06:Refractive_Index_Re:wrong-delta:%s:%s' % (c['kind'], dclass),
                             '1 - Refractive_Index_Re%s = %r, formula rho*K*sum(w(Z+f\')/A)/E^2 gives %r (rho = %r)' % (call, dlib, dref, rho),
                             dict(call='Refractive_Index_Re' + call, returned=float(re.v[r]), delta_expected=dref, density_used=rho, config=L.config))
            st['classes'].add(('Refractive_Index_Re', name, dclass))
        if im_ok and im.ok[r]:
            iref = rho * KI * float(np.sum(c['w'] * csv[idx, k])) / e
            nim += 1
            st['worst_im'] = max(st['worst_im'], abs(float(im.v[r]) - iref) / iref)
            if not abs(float(im.v[r]) - iref) <= TOL_RI * iref:
                ck.violation('c06:Refractive_Index_Im:wrong-value:%s:%s' % (c['kind'], dclass),
                             'Refractive_Index_Im%s = %r, formula rho*(hc/4pi)*sum(w*CS_Total)/E gives %r (rho = %r)' % (call, float(im.v[r]), iref, rho),
                             dict(call='Refractive_Index_Im' + call, returned=float(im.v[r]), expected=iref, density_used=rho, config=L.config))
            st['classes'].add(('Refractive_Index_Im', name, dclass))
            if len(st['samples']) < 14 and r % 1499 == 0 and re.ok[r]:
                st['samples'].append(dict(call='Refractive_Index' + call, returned=[float(cx.v3[r, 0]), float(cx.v3[r, 1])], delta_formula=dref if re_ok else None, im_formula=iref, config=L.config))
        # the complex entry point equals its twins bit for bit
        if cx.ok[r] and re.ok[r] and cx.v3[r, 0] != re.v[r]:
            ck.violation('c06:Refractive_Index:real-part-differs-from-Refractive_Index_Re', 'Refractive_Index%s real part %r != Refractive_Index_Re %r' % (call, float(cx.v3[r, 0]), float(re.v[r])),
                         dict(call='Refractive_Index' + call, config=L.config))
        if cx.ok[r] and im.ok[r] and cx.v3[r, 1] != im.v[r]:
            ck.violation('c06:Refractive_Index:imaginary-part-differs-from-Refractive_Index_Im', 'Refractive_Index%s imaginary part %r != Refractive_Index_Im %r' % (call, float(cx.v3[r, 1]), float(im.v[r])),
                         dict(call='Refractive_Index' + call, config=L.config))
    # NIST default density == explicit catalogue density, bit for bit
    pos = {row: r for r, row in enumerate(rows)}
    ncat = 0
    for n in nist_names:
        c = comps[n]
        if not c or c['kind'] != 'nist':
            continue
        for e in ENERGIES:
            a = pos[(n, e, c['density'])]
            for d in (-1.0, 0.0):
                b = pos[(n, e, d)]
                for fn, res in (('Refractive_Index_Re', re), ('Refractive_Index_Im', im), ('Refractive_Index', cx)):
                    ncat += 1
                    if res.ok[a] != res.ok[b] or (res.ok[a] and (res.v3[a, :2] != res.v3[b, :2]).any()):
                        ck.violation('c06:%s:nist-default-density-differs-from-catalogue' % fn,
                                     '%s(%r,%r,%r) = %r but with the catalogue density %r it is %r' % (fn, n, e, d, res.v3[b, :2].tolist(), c['density'], res.v3[a, :2].tolist()),
                                     dict(call='%s(%r,%r,%r)' % (fn, n, e, d), config=L.config))
    st['per_function']['Refractive_Index*@' + L.config] = dict(rows=len(rows), delta_compared=nre, im_compared=nim, expected_failures=nexp_fail, catalogue_density_pairs=ncat)
    st['compared'] += nre + nim
    return nre, nim


def main(tier):
    global ENERGIES
    ck = common.Check('C06', tier)
    if tier == 'thorough':
        ENERGIES = ENERGIES_QUICK + [0.1, 0.3, 2.0, 5.0, 12.4, 30.0, 88.0, 200.0, 500.0, 1000.0]
    else:
        ENERGIES = list(ENERGIES_QUICK)
    st = dict(calls=0, compared=0, worst_cp=0.0, worst_delta=0.0, worst_im=0.0, samples=[], per_function={}, classes=set())
    kissel_fns = ('CS_Photo_Total_CP', 'CSb_Photo_Total_CP', 'CS_Total_Kissel_CP', 'CSb_Total_Kissel_CP')
    ncomp = {}
    for config in ('shipped', 'kissel'):
        rng = random.Random(common.seed() * 104729 + 6)
        L = execlib.Lib(config)
        X = xl.XL(config)
        names, nist_names = names_for(X, rng, tier)
        comps = {n: resolve(X, n) for n in names}
        for n in nist_names:
            if comps[n] is None or comps[n]['kind'] != 'nist':
                # a NIST name that the parser accepts as a formula would be resolved as a formula: fine, but record it
                st.setdefault('nist_names_resolved_otherwise', []).append(n)
        ncomp[config] = dict(names=len(names), formulas=sum(1 for c in comps.values() if c and c['kind'] == 'formula'),
                             nist=sum(1 for c in comps.values() if c and c['kind'] == 'nist'), unresolvable=sum(1 for c in comps.values() if c is None),
                             elements=len({int(z) for c in comps.values() if c for z in c['Z']}))
        if ncomp[config]['nist'] < 150 or ncomp[config]['formulas'] < 200 or ncomp[config]['elements'] < 100:
            raise common.Inconclusive('workload did not resolve: %r' % ncomp[config])
        check_cp(ck, L, X, names, comps, st)
        nre, nim = check_refractive(ck, L, X, names, comps, nist_names, st)
        if config == 'shipped':
            root_probe(ck, L, X, st, tier)
            # the _CP functions are functions of (compound, arguments) alone, in every build and host set-up the executor can put them in: call
            # orders, no error slot, direct calls, the project's builds (default / release without assertions / unsigned char / static archive)
            # inside the hostile host, FP traps, x87 precision control (execlib.independence) - on compounds that exercise the parser's corners
            inames = ['H2O', 'Ca5(PO4)3F', 'Ca(OH)2', '(NH4)2(SO4)', 'CuSO4(H2O)5', 'Fe0.947O', 'La0.7Sr0.3MnO3', 'C6H12O6', '((CH3)2(CH2))2O', 'Fe((NH4)2(SO4))2', 'SiO2', 'Pb0.5Sn0.5Te',
                      'K(AlSi3)O8', 'Water, Liquid', 'Kapton Polyimide Film', 'Air, Dry (near sea level)', 'Bone, Cortical (ICRP)', 'Xx', 'H2O)(', '']
            iN, iE = [list(x) for x in zip(*[(n_, e_) for n_ in inames for e_ in (1.0, 8.04, 59.54)])]
            st['calls'] += execlib.independence(ck, 'c06', config, [(f_, iN, np.array(iE)) for f_ in ('CS_Total_CP', 'CS_Photo_CP', 'CS_Rayl_CP', 'CS_Compt_CP', 'CS_Energy_CP', 'CSb_Total_CP')] +
                                                [(f_, iN, np.array(iE), np.full(len(iE), 1.5)) for f_ in ('Refractive_Index_Re', 'Refractive_Index_Im')] +
                                                [('DCS_Rayl_CP', iN, np.array(iE), np.full(len(iE), 0.7)), ('DCSP_Compt_CP', iN, np.array(iE), np.full(len(iE), 0.7), np.full(len(iE), 1.1))],
                                                orders=('given', 'each-twice'))
        if nre < 1000 or nim < 1000:
            raise common.Inconclusive('too few refractive-index comparisons (%d, %d) in %s' % (nre, nim, config))
        for fn in kissel_fns:
            s = st['per_function'][fn + '@' + config]['compared_on_success']
            if config == 'kissel' and s < 500:
                raise common.Inconclusive('%s succeeded only %d times with the regenerated Kissel table' % (fn, s))
        st['calls'] += X.calls
    for fn, d in st['per_function'].items():
        if fn.endswith('@shipped') and not fn.startswith(kissel_fns) and not fn.startswith('Refractive') and d['compared_on_success'] < 500:
            raise common.Inconclusive('%s compared on only %d successful calls' % (fn, d['compared_on_success']))
    cov = dict(evaluations=st['calls'], distinct_nontrivial=len(st['classes']),
               rule='distinct (function, compound name, class) with class in success / elemental-failure / unresolvable (for the refractive index: '
                    'user-density / catalogue-density / the failure reason) on which the library result was compared with the rule evaluated from the '
                    'public composition and the public elemental functions',
               samples=st['samples'][:14], exhaustive=False, compared_on_success=st['compared'], workload=ncomp,
               energies=ENERGIES, thetas=THETAS, phis=PHIS, densities=DENSITIES,
               worst_relative_difference_cp=st['worst_cp'], worst_relative_difference_delta=st['worst_delta'], worst_relative_difference_im=st['worst_im'],
               per_function=st['per_function'], root_of_Fi_probe=st.get('root_probe'), nist_names_resolved_as_formula=st.get('nist_names_resolved_otherwise', []))
    return ck.finish(cov, ['compositions are taken from the public CompoundParser / GetCompoundDataNISTByName (whether the parser is right is C07)',
                           'elemental functions are taken as they are (their values are C01/C02/C05)',
                           'refractive-index constants are derived from R_E, KEV2ANGST and AVOGNUM of the public header; tolerance 1e-7 covers the library literals',
                           'both data configurations; the four Kissel-based _CP functions can only succeed with the regenerated table'])
