"""C04 - no call sequence corrupts, over-reads or leaks memory (sanitizers + allocation conservation)."""
import os, re, shutil, subprocess
from concurrent.futures import ThreadPoolExecutor
from .. import sweeprun, histrun, common, build, failrun


def line_coverage():
    """gcov line coverage of every library source under a reduced sweep + histories (per data configuration)"""
    out = {}
    for cfg in ('shipped', 'kissel'):
        L = build.lib(cfg, 'cov')
        for f in os.listdir(L['dir']):
            if f.endswith('.gcda'):
                os.unlink(os.path.join(L['dir'], f))
        sweeprun.run(cfg, 'cov', 20000, nshards=8)
        histrun.run(cfg, 'cov', 'alloc', 400, 150, nshards=8)
        if cfg == 'shipped':
            histrun.run(cfg, 'cov', 'crystal', 400, 150, nshards=8, builtin_runs=1)
        for f in sorted(os.listdir(L['dir'])):
            if not f.endswith('.gcda') or f.startswith('xrayglob_inline'):
                continue
            p = subprocess.run(['gcov', '-n', '-o', L['dir'], os.path.join(L['dir'], f[:-5] + '.o')], cwd=L['dir'], stdout=subprocess.PIPE, stderr=subprocess.STDOUT)
            m = re.search(r"File '[^']*/src/([^']+\.c)'\s*\nLines executed:([0-9.]+)% of (\d+)", p.stdout.decode('utf8', 'replace'))
            if m:
                out['%s@%s' % (m.group(1), cfg)] = dict(percent=float(m.group(2)), lines=int(m.group(3)))
    return out


def fuzz(ck, target, runs, max_len, workers):
    """coverage-guided hostile inputs (libFuzzer + ASan/UBSan, count-bounded): returns (executions, features covered)"""
    binp = build.harness('shipped', 'fuzz', target)
    corpus = os.path.join(build.HARNESS, 'fuzz_corpus', 'parser' if target == 'fuzz_parser' else 'crystal')

    def one(k):
        d = common.scratch('xv-fuzz-')
        try:
            work = os.path.join(d, 'corpus'); shutil.copytree(corpus, work)
            p = subprocess.run([binp, '-runs=%d' % runs, '-seed=%d' % (ck.seed * 100 + k + 1), '-max_len=%d' % max_len, '-artifact_prefix=' + d + '/',
                                '-print_final_stats=1', '-detect_leaks=1', work], cwd=d, stdout=subprocess.PIPE, stderr=subprocess.STDOUT, timeout=7200,
                               env=dict(os.environ, ASAN_OPTIONS='allocator_may_return_null=1', UBSAN_OPTIONS='print_stacktrace=1'))
            t = p.stdout.decode('utf8', 'replace')
            m = re.search(r'stat::number_of_executed_units:\s*(\d+)', t)
            cov = re.findall(r'cov: (\d+) ft: (\d+)', t)
            if p.returncode != 0:
                art = [f for f in os.listdir(d) if f.startswith(('crash-', 'leak-', 'timeout-', 'oom-'))]
                data = open(os.path.join(d, art[0]), 'rb').read()[:400] if art else b''
                mm = re.search(r'CONTRACT: ([^\n]*)', t) or re.search(r'ERROR: (?:AddressSanitizer|LeakSanitizer): ([^\n]*)', t) or re.search(r'runtime error: ([^\n]*)', t)
                fr = re.findall(r'#\d+ 0x[0-9a-f]+ in (\S+) ' + re.escape(build.REPO), t)
                what = mm.group(0)[:200] if mm else 'fuzz target died (rc %d)' % p.returncode
                kind = 'contract' if 'CONTRACT' in what else re.sub(r'[^A-Za-z]+', '-', what)[:40]
                ck.violation('fuzz:%s:%s:%s' % (target, kind, fr[0] if fr else '?'), what, dict(input=repr(data), seed=ck.seed * 100 + k + 1, tail=t[-1200:]))
            return int(m.group(1)) if m else 0, int(cov[-1][1]) if cov else 0
        finally:
            shutil.rmtree(d, ignore_errors=True)
    with ThreadPoolExecutor(workers) as ex:
        res = list(ex.map(one, range(workers)))
    return sum(r[0] for r in res), max([r[1] for r in res] + [0])


def san_key(r, fn):
    return '%s:%s' % (r['kind'], r['func'])


def collect(ck, results):
    """route crashes / sanitizer reports / leak records of sweeps into violations"""
    for res in results:
        for c in res['crashes']:
            reps = c.get('reports', [])
            if reps:
                for r in reps:
                    ck.violation(san_key(r, c['fn']), '%s in %s (public call: %s)' % (r['kind'], r['func'], c['fn']),
                                 dict(call=c['witness'], config=res['config'], flavour=res['flavour'], report=r['text'][:1200]))
            elif c['kind'] != 'exit-report':
                ck.violation('crash:%s:%s' % (c['kind'], c['fn']), 'process died without a sanitizer report',
                             dict(call=c['witness'], config=res['config'], flavour=res['flavour'], tail=c.get('tail')))


def main(tier):
    ck = common.Check('C04', tier)
    budget = 100000 if tier == 'quick' else 5000000
    results = [sweeprun.run(cfg, 'asan', budget) for cfg in ('shipped', 'kissel')]
    collect(ck, results)
    viol, paths, fns, tot = sweeprun.merge(results)
    for (fn, kind, msg), v in viol.items():
        if kind == 'leak':
            ck.violation('leak:%s' % fn, 'allocation balance grows on every repetition of the call', dict(call=v['witness'], config=v['config'], count=v['count']))
    # (b) allocation-conservation histories + (c) crystal-file histories, under ASan and (subset) valgrind
    nh = 2000 if tier == 'quick' else 50000
    hres = [histrun.run(cfg, 'asan', 'alloc', nh, 200) for cfg in ('shipped', 'kissel')]
    hres.append(histrun.run('shipped', 'plain', 'alloc', 200 if tier == 'quick' else 2000, 120, valgrind=True))
    # ... and on the project's optimised build without assertions (buildtype=release, b_ndebug=true): what an assert() or an #ifndef NDEBUG block releases is not released there
    hres.append(histrun.run('shipped', 'meson-release', 'alloc', 120 if tier == 'quick' else 1200, 120, valgrind=True))
    # (c) crystal-file workload: generated well-formed / corrupt / duplicate / truncated files through Crystal_ReadFile and the array API
    hres.append(histrun.run('shipped', 'asan', 'crystal', 800 if tier == 'quick' else 20000, 120, builtin_runs=1))
    hres.append(histrun.run('shipped', 'plain', 'crystal', 32 if tier == 'quick' else 400, 60, valgrind=True))
    for res in hres:
        for c in res['crashes']:
            if c['reports']:
                for r in c['reports']:
                    ck.violation('%s:%s' % (r['kind'], r['func']), '%s in %s during allocation history %s' % (r['kind'], r['func'], c['history']),
                                 dict(history=c['history'], step=c['step'], op=c['op'], config=res['config'], flavour=res['flavour'], seed=ck.seed, report=r['text'][:1200]))
            else:
                ck.violation('crash:%s:history:%s' % (c['kind'], c['op'].split('(')[0]), 'history monitor died without a sanitizer report',
                             dict(history=c['history'], step=c['step'], op=c['op'], tail=c.get('tail')))
    hviol, hops, htot = histrun.merge(hres)
    for key, v in hviol.items():
        if key.startswith('c14:') and 'leaves-memory' not in key:
            continue          # shadow-model disagreements are C14's verdict
        ck.violation(key, v['what'], dict(history_prefix=v['witness'], count=v['count']))
    if htot['steps'] < 10000 or len(hops) < 8:
        raise common.Inconclusive('allocation histories observed too little: %r' % (htot,))
    # (d) coverage-guided fuzzing of the string entry points and of crystal-file contents
    fz = {}
    for target, runs, ml in (('fuzz_parser', 30000 if tier == 'quick' else 2000000, 160), ('fuzz_crystalfile', 15000 if tier == 'quick' else 1000000, 3000)):
        fz[target] = fuzz(ck, target, runs, ml, 4 if tier == 'quick' else 8)
    # (d') allocation failpoints: where the library itself reports XRL_ERROR_MEMORY (its checked allocations) nothing may stay allocated
    fr = failrun.run('shipped')
    failrun.report(ck, fr, 'C04')
    # (e) reach: line coverage of the library sources under the sweep + histories (thorough only; evidence, not a verdict)
    reach = line_coverage() if tier == 'thorough' else {}
    if tot['calls'] < 50000 or len(fns) < 100:
        raise common.Inconclusive('sweep observed too little: %r calls over %d functions' % (tot['calls'], len(fns)))
    samples = [dict(function=k, calls=v['calls'], ok=v['ok'], err=v['err']) for k, v in sorted(fns.items())[:30:3]]
    cov = dict(evaluations=tot['calls'] * 2 + htot['steps'] + sum(v[0] for v in fz.values()), distinct_nontrivial=len(paths) + len(fns) + len(hops),
               rule='ASan+UBSan build; every exported function x sampled argument space incl. INT_MIN/INT_MAX/+-2^16/+-2^20 for every int, '
                    'NULL and hostile strings; allocation balance read around every call (leak = grows on 3 of 3 repetitions); LSan at exit; '
                    'plus seeded allocation histories (length <= 200) over parser/catalogues/errors/crystals with random release order, replayed 3x for the balance; '
                    'distinct = functions driven + distinct (function, error path) pairs reached under the sanitizers + object kinds created in histories',
               samples=samples + [dict(history_objects=k[0], count=v) for k, v in sorted(hops.items())][:12], functions=len(fns),
               line_coverage_percent=reach, fuzz_executions={k: v[0] for k, v in fz.items()}, fuzz_features_covered={k: v[1] for k, v in fz.items()},
               histories=htot['histories'], history_steps=htot['steps'], valgrind_histories=200 if tier == 'quick' else 2000, error_paths=len(paths), leak_rechecks=tot['leakchecks'],
               sanitizer='gcc -fsanitize=address,undefined -fno-sanitize-recover=all', configs=['shipped', 'kissel'],
               allocation_failpoints=fr['summary'])
    return ck.finish(cov, ['red-zone sanitizers miss non-adjacent overflows and reuse after quarantine',
                           'allocation failpoints judge only the paths on which the library reports XRL_ERROR_MEMORY; most of its allocations are unchecked '
                           '(the child dies or returns an object with NULL fields): resource exhaustion is not among the inputs the property quantifies over, '
                           'those injections are counted (c_died_unchecked_allocation, c_tolerated) and not judged',
                           'held = no report on the executions above, not memory safety'])
