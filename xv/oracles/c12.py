"""C12 - closed-form scattering formulas are mutually consistent and physically bounded.

Offline relation / quadrature checker.  Every number that is compared is an output of the library built from the current
tree (DCS_Thoms, DCS_KN, CS_KN, ComptonEnergy, DCSP_Thoms, DCSP_KN, MomentTransf); the constants RE2, MEC2, PI come from the
compiled macro probe.  The relations are the ones of the statement:

  R1  positive-energy calls succeed, results finite and > 0 (>= 0 for the polarised pair, which has a physical node at
      theta = pi/2, phi = 0 (mod pi) for Thomson); non-positive energy is an error
  R2  CS_KN(E) = 2 pi Int_0^pi DCS_KN(E, t) sin t dt           (graded composite Gauss-Legendre, error-estimated)
  R3  DCS_X(theta) = (1/2pi) Int_0^2pi DCSP_X(theta, phi) dphi  (8-point trapezoid, exact for cos^2 phi)
  R4  DCS_KN <= DCS_Thoms, CS_KN <= 8 pi/3 RE2 ; |1 - KN/Thomson| <= c E/MEC2 (c = 3 total, 4 differential),
      |DCSP_KN - DCSP_Thoms| <= 4 E/MEC2 RE2
  R5  DCS_KN = RE2/2 k^2 (k + 1/k - sin^2 theta), k = ComptonEnergy(E, theta)/E
  R6  ComptonEnergy(E, 0) = E, ComptonEnergy(E, pi) = E/(1 + 2E/MEC2), non-increasing on [0, pi], within these bounds everywhere
  R7  even and 2pi-periodic in theta and phi

Tolerances (IEEE double, u = 2^-53 = 1.1e-16), each derived from the reference side of the relation:
  R2: the quadrature error is *measured* by halving every panel; a point is decided only where that estimate is < 1e-11 (else
      counted inconclusive); summation of <= 640 positive terms adds <= 7e-14.  A backward-stable closed form of the total has
      relative error ~10 u, so TOL_INT = 1e-9 leaves 6 orders of magnitude: exceeding it means >= 7 digits were lost.
  R3: 8 products/sums of comparable positive magnitude (k + 1/k >= 2 dominates 2 sin^2 cos^2 <= 2 only down to a factor
      (1+cos^2)/2 >= 1/2): <= 40 u; TOL_AVG = 1e-12 (absolute part 1e-14 RE2 because cos(pi/2) is 6e-17, not 0).
  R4: exact mathematical inequalities; a faithfully rounded evaluation exceeds them by a few u: TOL_BOUND = 1e-12 (total),
      8 u for the differential pair (division by t2 >= 1 is monotone, see DESIGN notes); the limit bounds 3a / 4a have slack
      of a factor >= 1.5 over the true first-order coefficient 2a.
  R5: k carries 2 u, the expression has no cancellation (k + 1/k - sin^2 >= 1): <= 20 u; TOL_FORM = 1e-12.
  R6: same operations on both sides: 8 u.
  R7: evenness: cos/sin of glibc are exactly even/odd -> 8 u.  Periodicity: the shifted argument fl(x + 2 pi m) is off by
      d <= DELTA = 1.5e-15 rad, so the allowed difference is d x (a bound of the derivative) + 16 u |f|.  With a = E/MEC2,
      t2 = 1 + a(1 - cos), k = 1/t2 and |t2'/t2| <= sqrt(a/2):  |dln DCS_KN/dtheta| <= 1 + 5 sqrt(a/2);
      |dln ComptonEnergy/dtheta| <= sqrt(a/2);  |dDCS_Thoms/dtheta| <= RE2/2;  |dDCSP_Thoms/d(theta, phi)| <= RE2;
      |dDCSP_KN/dphi| <= 2 RE2 k^2;  |dDCSP_KN/dtheta| <= RE2/2 k (2 + 8 sqrt(a/2)) and DCSP_KN >= RE2/2 k (1-k)^2, hence
      <= (2 + 8 sqrt(a/2)) max(4 DCSP_KN, RE2/2) (the absolute alternative is needed at the polarised node where f ~ 0).
      The two evaluations themselves carry the rounding of cos(theta) (<= 1 ulp ~ u) amplified by a k in t2 = 1 + a (1 - cos):
      relative (1 + m a k) u with m = 1 (ComptonEnergy) or 3 (Klein-Nishina forms); 16 u (1 + m a k) is allowed for the pair.
"""
import numpy as np
from .. import common, refdata, execlib

U = 2.0 ** -53
TOL_INT, EST_MAX = 2e-11, 1e-13      # the closed form and the truncated series agree with the integral to 4.5e-12 on the pinned tree (worst, at the series switch); quadrature estimate 2e-15
TOL_AVG, TOL_BOUND, TOL_FORM = 1e-12, 1e-12, 1e-12
DELTA = 1.5e-15          # |fl(x + 2 pi m) - (x + 2 pi m)| for x in [0, 2pi], m in {-1, 1, 2}: half an ulp of 16 plus m times the error of fl(2pi)


def fmt(x):
    return repr(float(x))


def decade(E):
    E = np.asarray(E, float)
    return np.floor(np.log10(E) + 1e-12).astype(int)


def dec_label(d):
    return 'E=1e%d..1e%dkeV' % (d, d + 1)


class Rel:
    """bookkeeping of one relation: comparisons per energy decade, worst margin, violations by decade"""

    def __init__(self, ck, st, fn, relation):
        self.ck, self.st, self.fn, self.relation = ck, st, fn, relation

    def check(self, E, bad, what, witness, compared=None):
        """E: energies of the rows; bad: bool array of violating rows; what/witness: k -> text/dict"""
        E = np.broadcast_to(np.asarray(E, float), np.shape(bad)).ravel()
        bad = np.asarray(bad, bool).ravel()
        comp = np.ones(len(bad), bool) if compared is None else np.asarray(compared, bool).ravel()
        name = '%s:%s' % (self.fn, self.relation)
        pos = E > 0
        d = np.where(pos, decade(np.where(pos, E, 1.0)), -999)
        for dd in np.unique(d[comp]):
            self.st['cells'].add((name, int(dd)))
        self.st['compared'][name] = self.st['compared'].get(name, 0) + int(comp.sum())
        idx = np.nonzero(bad & comp)[0]
        if not len(idx):
            return 0
        dbad = d[idx]
        decs = [int(x) for x in np.unique(dbad)]
        everywhere = len(decs) > 1 and set(decs) == {int(x) for x in np.unique(d[comp])}
        # a relation broken in every energy decade that was compared is one defect (one key); otherwise the decades
        # in which it is broken are part of the key, so that e.g. a low-energy cancellation is told apart from a wrong formula
        for dd in decs:
            rows = idx[dbad == dd]
            suffix = '' if (everywhere or dd == -999) else ':' + dec_label(dd)
            key = 'c12:%s%s' % (name, suffix)
            for k in rows[:2]:
                self.ck.violation(key, what(k), witness(k))
            if len(rows) > 2:
                self.ck.viol[key]['count'] += len(rows) - 2
        return len(idx)


def gauss_panels(J):
    """panel boundaries on [0, pi], graded geometrically towards 0: 0, pi/2^J, ..., pi/2, pi"""
    return np.concatenate([[0.0], np.pi * 2.0 ** -np.arange(J, -1, -1.0)])


def gl_nodes(bounds, n):
    x, w = np.polynomial.legendre.leggauss(n)
    a, b = bounds[:-1, None], bounds[1:, None]
    t = 0.5 * (a + b) + 0.5 * (b - a) * x[None, :]
    ww = 0.5 * (b - a) * w[None, :]
    return t.ravel(), ww.ravel()


def main(tier):
    ck = common.Check('C12', tier)
    mac = refdata.Macros()
    # mc2, r_e^2 and pi of the relations are the DOCUMENTED constants (CODATA 2010, refdata.CONSTANTS), not whatever the header of the tree under
    # observation evaluates to: every relation between the library's own functions still holds when the header's electron mass is off
    for name in ('RE2', 'MEC2', 'PI'):
        have, gold = mac.all.get(name), refdata.CONSTANTS[name]
        if have is None or float(have) != gold:
            ck.violation('c12:constant:%s' % name, 'the public header defines %s = %r, the documented value is %r (relative difference %.3g)' % (
                name, have, gold, abs(float(have) - gold) / gold if have is not None else float('nan')), dict(macro=name, header=have, documented=gold))
    RE2, MEC2, PI = refdata.CONSTANTS['RE2'], refdata.CONSTANTS['MEC2'], refdata.CONSTANTS['PI']
    rng = np.random.default_rng(common.seed())
    quick = tier == 'quick'
    L = execlib.Lib('shipped')
    st = dict(cells=set(), compared={}, samples=[], inconclusive_points={}, worst={})
    calls = 0

    # ---- grids -------------------------------------------------------------------------------------------------------
    nE = 121 if quick else 1201
    E = np.concatenate([10.0 ** np.linspace(-6, 6, nE), 10.0 ** rng.uniform(-6, 6, 40 if quick else 400)])
    E = np.unique(E)
    a = E / MEC2
    nth = 181 if quick else 721
    th = np.linspace(0.0, np.pi, nth)
    th[(nth - 1) // 2] = np.pi / 2; th[-1] = np.pi
    # forward and backward scattering are where 1 - cos(theta) and 1 + cos(theta) cancel: approach both ends geometrically
    near = np.concatenate([10.0 ** -np.arange(2.0, 8.5, 0.5), np.pi - 10.0 ** -np.arange(2.0, 8.5, 0.5),
                           np.pi / 2 - 10.0 ** -np.arange(2.5, 8.5, 1.0), np.pi / 2 + 10.0 ** -np.arange(2.5, 8.5, 1.0)])       # ... and the right angle, from both sides
    th = np.unique(np.concatenate([th, rng.uniform(0, np.pi, 8), near]))
    nth = len(th)
    inear = np.nonzero(np.isin(th, near))[0]
    iz, ih, ip = int(np.argmin(np.abs(th))), int(np.argmin(np.abs(th - np.pi / 2))), nth - 1
    assert th[iz] == 0.0 and th[ih] == np.pi / 2 and th[ip] == np.pi
    ph = np.unique(np.concatenate([[0.0, np.pi / 2, np.pi, 3 * np.pi / 2], np.linspace(0, 2 * np.pi, 13 if quick else 25)[:-1],
                                   rng.uniform(0, 2 * np.pi, 9 if quick else 24)]))
    nph = len(ph)
    EE, TT = [x.ravel() for x in np.meshgrid(E, th, indexing='ij')]
    AA = EE / MEC2
    shape2 = (len(E), nth)

    def w2(fn, k, r, **extra):
        d = dict(call='%s(%s, %s)' % (fn, fmt(EE[k]), fmt(TT[k])), returned=(fmt(r.v[k]) if r.ok[k] else 'error: %s' % r.msg(k)))
        d.update(extra)
        return d

    # ---- R1 + pointwise functions of (E, theta) ----------------------------------------------------------------------
    kn, ce, mt = L.multi([('DCS_KN', EE, TT), ('ComptonEnergy', EE, TT), ('MomentTransf', EE, TT)])
    tho = L.call('DCS_Thoms', th)
    cskn = L.call('CS_KN', E)
    calls += 3 * len(EE) + len(th) + len(E)
    THO = np.tile(tho.v, len(E))

    def positive(fn, r, Erow, call, strict=True):
        rel = Rel(ck, st, fn, 'error-for-positive-energy')
        rel.check(Erow, r.err, lambda k: '%s fails (%s) for a positive energy' % (fn, r.msg(k)), lambda k: dict(call=call(k)))
        rel = Rel(ck, st, fn, 'not-finite')
        rel.check(Erow, r.ok & ~np.isfinite(r.v), lambda k: '%s returned %s' % (fn, fmt(r.v[k])), lambda k: dict(call=call(k), returned=fmt(r.v[k])))
        rel = Rel(ck, st, fn, 'not-positive')
        with np.errstate(invalid='ignore'):
            bad = r.ok & np.isfinite(r.v) & ((r.v <= 0) if strict else (r.v < 0))
        rel.check(Erow, bad, lambda k: '%s returned %s for a positive energy (must be %s 0)' % (fn, fmt(r.v[k]), '>' if strict else '>='),
                  lambda k: dict(call=call(k), returned=fmt(r.v[k])))

    positive('DCS_KN', kn, EE, lambda k: 'DCS_KN(%s, %s)' % (fmt(EE[k]), fmt(TT[k])))
    positive('ComptonEnergy', ce, EE, lambda k: 'ComptonEnergy(%s, %s)' % (fmt(EE[k]), fmt(TT[k])))
    positive('CS_KN', cskn, E, lambda k: 'CS_KN(%s)' % fmt(E[k]))
    positive('DCS_Thoms', tho, np.ones(nth), lambda k: 'DCS_Thoms(%s)' % fmt(th[k]))
    usable2 = kn.ok & ce.ok & np.isfinite(kn.v) & np.isfinite(ce.v)

    # ---- R2: total = solid-angle integral of the differential form ------------------------------------------------
    J, n = 12, 20
    b1 = gauss_panels(J)
    b2 = np.sort(np.concatenate([b1, 0.5 * (b1[1:] + b1[:-1])]))
    ints = []
    for b in (b1, b2):
        t, w = gl_nodes(b, n)
        Eq, Tq = [x.ravel() for x in np.meshgrid(E, t, indexing='ij')]
        r = L.call('DCS_KN', Eq, Tq)
        calls += len(r)
        f = np.where(r.ok, r.v, np.nan).reshape(len(E), len(t))
        ints.append(2 * PI * (f * (np.sin(t) * w)[None, :]).sum(axis=1))
    I1, I2 = ints
    with np.errstate(invalid='ignore', divide='ignore'):
        est = np.abs(I2 - I1) / np.abs(I2)
        decided = np.isfinite(est) & (est < EST_MAX) & cskn.ok
        relerr = np.abs(cskn.v - I2) / np.abs(I2)
        bad = decided & ~(relerr <= TOL_INT)
    st['inconclusive_points']['CS_KN:integral'] = int((~decided).sum())
    st['worst']['quadrature_error_estimate'] = float(np.nanmax(est))
    Rel(ck, st, 'CS_KN', 'differs-from-integral-of-DCS_KN').check(
        E, bad, lambda k: 'CS_KN(%s) = %s but 2pi Int DCS_KN sin(theta) dtheta = %s (rel %.3g, quadrature error estimate %.1e)' % (
            fmt(E[k]), fmt(cskn.v[k]), fmt(I2[k]), relerr[k], est[k]),
        lambda k: dict(call='CS_KN(%s)' % fmt(E[k]), returned=fmt(cskn.v[k]), integral=fmt(I2[k]), coarse_integral=fmt(I1[k]),
                       panels=len(b2) - 1, gauss_points=n), compared=decided)
    good = decided & ~bad
    if good.any():
        st['worst']['CS_KN_vs_integral_where_held'] = float(relerr[good].max())
        k = int(np.nonzero(good)[0][len(np.nonzero(good)[0]) // 2])
        st['samples'].append(dict(relation='CS_KN = integral', call='CS_KN(%s)' % fmt(E[k]), returned=fmt(cskn.v[k]), integral=fmt(I2[k]), estimate=float(est[k])))

    # ---- R4: bounds and the low-energy limit ------------------------------------------------------------------------
    SIGT = 8 * PI / 3 * RE2
    with np.errstate(invalid='ignore'):
        Rel(ck, st, 'CS_KN', 'exceeds-thomson-total').check(
            E, cskn.ok & ~(cskn.v <= SIGT * (1 + TOL_BOUND)),
            lambda k: 'CS_KN(%s) = %s exceeds the Thomson total 8pi/3 RE2 = %s (ratio %.6g)' % (fmt(E[k]), fmt(cskn.v[k]), fmt(SIGT), cskn.v[k] / SIGT),
            lambda k: dict(call='CS_KN(%s)' % fmt(E[k]), returned=fmt(cskn.v[k]), thomson_total=fmt(SIGT)), compared=cskn.ok)
        Rel(ck, st, 'CS_KN', 'low-energy-limit').check(
            E, cskn.ok & ~(np.abs(1 - cskn.v / SIGT) <= 3 * a + TOL_BOUND),
            lambda k: '|1 - CS_KN(%s)/sigma_Thomson| = %.3g exceeds 3E/MEC2 = %.3g' % (fmt(E[k]), abs(1 - cskn.v[k] / SIGT), 3 * a[k]),
            lambda k: dict(call='CS_KN(%s)' % fmt(E[k]), returned=fmt(cskn.v[k]), thomson_total=fmt(SIGT)), compared=cskn.ok)
        Rel(ck, st, 'DCS_KN', 'exceeds-thomson').check(
            EE, usable2 & ~(kn.v <= THO * (1 + 8 * U)),
            lambda k: 'DCS_KN(%s, %s) = %s exceeds DCS_Thoms = %s' % (fmt(EE[k]), fmt(TT[k]), fmt(kn.v[k]), fmt(THO[k])),
            lambda k: w2('DCS_KN', k, kn, thomson=fmt(THO[k])), compared=usable2)
        Rel(ck, st, 'DCS_KN', 'low-energy-limit').check(
            EE, usable2 & ~(np.abs(1 - kn.v / THO) <= 4 * AA + 8 * U),
            lambda k: '|1 - DCS_KN/DCS_Thoms| = %.3g exceeds 4E/MEC2 = %.3g' % (abs(1 - kn.v[k] / THO[k]), 4 * AA[k]),
            lambda k: w2('DCS_KN', k, kn, thomson=fmt(THO[k])), compared=usable2)

    # ---- R5: differential form in the Compton energy ratio ------------------------------------------------------------
    with np.errstate(invalid='ignore', divide='ignore'):
        kk = ce.v / EE
        form = RE2 / 2 * kk * kk * (kk + 1 / kk - np.sin(TT) ** 2)
        relf = np.abs(kn.v - form) / np.abs(form)
        Rel(ck, st, 'DCS_KN', 'differs-from-compton-ratio-form').check(
            EE, usable2 & ~(relf <= TOL_FORM),
            lambda k: 'DCS_KN = %s but RE2/2 k^2 (k + 1/k - sin^2) with k = ComptonEnergy/E = %s gives %s (rel %.3g)' % (fmt(kn.v[k]), fmt(kk[k]), fmt(form[k]), relf[k]),
            lambda k: w2('DCS_KN', k, kn, ComptonEnergy=fmt(ce.v[k]), form=fmt(form[k])), compared=usable2)
    if usable2.any():
        st['worst']['DCS_KN_vs_ratio_form'] = float(np.nanmax(np.where(usable2, relf, 0)))
        k = int(np.nonzero(usable2)[0][(7919 * common.seed()) % int(usable2.sum())])
        st['samples'].append(dict(relation='DCS_KN = RE2/2 k^2 (k+1/k-sin^2)', call='DCS_KN(%s, %s)' % (fmt(EE[k]), fmt(TT[k])), returned=fmt(kn.v[k]),
                                  ComptonEnergy=fmt(ce.v[k]), form=fmt(form[k])))

    # ---- R6: Compton energy end points, bounds, monotonicity ---------------------------------------------------------
    CE = np.where(ce.ok, ce.v, np.nan).reshape(shape2)
    lo = E / (1 + 2 * E / MEC2)
    with np.errstate(invalid='ignore'):
        Rel(ck, st, 'ComptonEnergy', 'forward-value-not-E').check(
            E, ~(np.abs(CE[:, iz] - E) <= 8 * U * E), lambda k: 'ComptonEnergy(%s, 0) = %s, expected E' % (fmt(E[k]), fmt(CE[k, iz])),
            lambda k: dict(call='ComptonEnergy(%s, 0.0)' % fmt(E[k]), returned=fmt(CE[k, iz])))
        Rel(ck, st, 'ComptonEnergy', 'backward-value-wrong').check(
            E, ~(np.abs(CE[:, ip] - lo) <= 8 * U * lo), lambda k: 'ComptonEnergy(%s, pi) = %s, expected E/(1+2E/MEC2) = %s' % (fmt(E[k]), fmt(CE[k, ip]), fmt(lo[k])),
            lambda k: dict(call='ComptonEnergy(%s, %s)' % (fmt(E[k]), fmt(np.pi)), returned=fmt(CE[k, ip]), expected=fmt(lo[k])))
        inc = ~(CE[:, 1:] <= CE[:, :-1] * (1 + 8 * U))
        Erep = np.repeat(E, nth - 1)
        i_of = lambda k: (k // (nth - 1), k % (nth - 1))
        Rel(ck, st, 'ComptonEnergy', 'not-monotone-in-theta').check(
            Erep, inc.ravel(),
            lambda k: 'ComptonEnergy(%s, theta) increases from theta=%s (%s) to theta=%s (%s)' % (
                fmt(E[i_of(k)[0]]), fmt(th[i_of(k)[1]]), fmt(CE[i_of(k)]), fmt(th[i_of(k)[1] + 1]), fmt(CE[i_of(k)[0], i_of(k)[1] + 1])),
            lambda k: dict(calls=['ComptonEnergy(%s, %s)' % (fmt(E[i_of(k)[0]]), fmt(th[i_of(k)[1] + j])) for j in (0, 1)],
                           returned=[fmt(CE[i_of(k)[0], i_of(k)[1] + j]) for j in (0, 1)]))
        # strictly smaller at pi than at 0 as soon as the shift is representable
        Rel(ck, st, 'ComptonEnergy', 'no-decrease-0-to-pi').check(
            E, (2 * a > 8 * U) & ~(CE[:, ip] < CE[:, iz]), lambda k: 'ComptonEnergy(%s, pi) = %s is not below ComptonEnergy(E, 0) = %s' % (fmt(E[k]), fmt(CE[k, ip]), fmt(CE[k, iz])),
            lambda k: dict(call='ComptonEnergy(%s, %s)' % (fmt(E[k]), fmt(np.pi)), returned=fmt(CE[k, ip])), compared=(2 * a > 8 * U))
    st['samples'].append(dict(relation='ComptonEnergy(E, pi) = E/(1+2E/MEC2)', call='ComptonEnergy(%s, %s)' % (fmt(E[len(E) // 2]), fmt(np.pi)),
                              returned=fmt(CE[len(E) // 2, ip]), expected=fmt(lo[len(E) // 2])))

    # ---- R7 (theta) + bounds for arbitrary angles: -theta, theta +/- 2pi, theta + 4pi ------------------------------------
    sub = np.arange(0, len(E), 1 if not quick else 2)
    Es = E[sub]
    Eg, Tg = [x.ravel() for x in np.meshgrid(Es, th, indexing='ij')]
    Ag = Eg / MEC2
    base_idx = (sub[:, None] * nth + np.arange(nth)[None, :]).ravel()

    def symmetric(fn, label, Erow, r, base, base_ok, tol, call, base_call):
        with np.errstate(invalid='ignore'):
            bad = ~(r.ok & (np.abs(r.v - base) <= tol))
        Rel(ck, st, fn, 'not-' + label).check(
            Erow, bad & base_ok,
            lambda k: '%s = %s but %s = %s (allowed difference %.2g)' % (call(k), fmt(r.v[k]) if r.ok[k] else 'error: %s' % r.msg(k), base_call(k), fmt(base[k]), tol[k]),
            lambda k: dict(call=call(k), returned=fmt(r.v[k]) if r.ok[k] else 'error: %s' % r.msg(k), equivalent_call=base_call(k), equivalent_returned=fmt(base[k])),
            compared=base_ok)

    for label, T2, exact in (('even-in-theta', -Tg, True), ('periodic-in-theta', Tg + 2 * np.pi, False), ('periodic-in-theta', Tg - 2 * np.pi, False),
                             ('periodic-in-theta', Tg + 4 * np.pi, False)):
        r_kn, r_ce = L.multi([('DCS_KN', Eg, T2), ('ComptonEnergy', Eg, T2)])
        r_th = L.call('DCS_Thoms', T2[:nth])
        calls += 2 * len(Eg) + nth
        bk, bc = kn.v[base_idx], ce.v[base_idx]
        cond = Ag / (1 + Ag * (1 - np.cos(Tg)))          # a k: amplification of the rounding of cos(theta) in 1 + a (1 - cos)
        tol_kn = 8 * U * np.abs(bk) if exact else (DELTA * (1 + 5 * np.sqrt(Ag / 2)) + 16 * U * (1 + 3 * cond)) * np.abs(bk)
        tol_ce = 8 * U * np.abs(bc) if exact else (DELTA * np.sqrt(Ag / 2) + 16 * U * (1 + cond)) * np.abs(bc)
        tol_th = 8 * U * tho.v if exact else DELTA * RE2 / 2 + 16 * U * tho.v
        symmetric('DCS_KN', label, Eg, r_kn, bk, kn.ok[base_idx], tol_kn,
                  (lambda T2: lambda k: 'DCS_KN(%s, %s)' % (fmt(Eg[k]), fmt(T2[k])))(T2), lambda k: 'DCS_KN(%s, %s)' % (fmt(Eg[k]), fmt(Tg[k])))
        symmetric('ComptonEnergy', label, Eg, r_ce, bc, ce.ok[base_idx], tol_ce,
                  (lambda T2: lambda k: 'ComptonEnergy(%s, %s)' % (fmt(Eg[k]), fmt(T2[k])))(T2), lambda k: 'ComptonEnergy(%s, %s)' % (fmt(Eg[k]), fmt(Tg[k])))
        symmetric('DCS_Thoms', label, np.ones(nth), r_th, tho.v, tho.ok, tol_th,
                  (lambda T2: lambda k: 'DCS_Thoms(%s)' % fmt(T2[k]))(T2), lambda k: 'DCS_Thoms(%s)' % fmt(th[k]))
        positive('DCS_KN', r_kn, Eg, (lambda T2: lambda k: 'DCS_KN(%s, %s)' % (fmt(Eg[k]), fmt(T2[k])))(T2))
        positive('ComptonEnergy', r_ce, Eg, (lambda T2: lambda k: 'ComptonEnergy(%s, %s)' % (fmt(Eg[k]), fmt(T2[k])))(T2))
        positive('DCS_Thoms', r_th, np.ones(nth), (lambda T2: lambda k: 'DCS_Thoms(%s)' % fmt(T2[k]))(T2))
        # Compton energy stays within [E/(1+2a), E] for every angle
        with np.errstate(invalid='ignore'):
            lo_g = Eg / (1 + 2 * Eg / MEC2)
            bad = r_ce.ok & ~((r_ce.v <= Eg * (1 + 8 * U)) & (r_ce.v >= lo_g * (1 - 8 * U)))
        Rel(ck, st, 'ComptonEnergy', 'outside-[E/(1+2E/mc2),E]').check(
            Eg, bad, (lambda r, T2: lambda k: 'ComptonEnergy(%s, %s) = %s lies outside [%s, %s]' % (fmt(Eg[k]), fmt(T2[k]), fmt(r.v[k]), fmt(lo_g[k]), fmt(Eg[k])))(r_ce, T2),
            (lambda r, T2: lambda k: dict(call='ComptonEnergy(%s, %s)' % (fmt(Eg[k]), fmt(T2[k])), returned=fmt(r.v[k])))(r_ce, T2))

    # ---- polarised functions: R1, R3, R4 (limit), R7 (phi and theta) ------------------------------------------------
    # azimuthal average on 8 equispaced phi (exact for a + b cos^2 phi), for every (E, theta)
    M = 8
    phm = 2 * np.pi * np.arange(M) / M
    e_sub = np.arange(0, len(E), 2 if quick else 4)
    t_sub = np.unique(np.concatenate([np.arange(0, nth, 3), [iz, ih, ip], inear]))
    E3, T3, P3 = [x.ravel() for x in np.meshgrid(E[e_sub], th[t_sub], phm, indexing='ij')]
    pk = L.call('DCSP_KN', E3, T3, P3)
    T2t, P2t = [x.ravel() for x in np.meshgrid(th, phm, indexing='ij')]
    pt = L.call('DCSP_Thoms', T2t, P2t)
    calls += len(pk) + len(pt)
    positive('DCSP_KN', pk, E3, lambda k: 'DCSP_KN(%s, %s, %s)' % (fmt(E3[k]), fmt(T3[k]), fmt(P3[k])), strict=False)
    avg_kn = np.where(pk.ok, pk.v, np.nan).reshape(len(e_sub), len(t_sub), M).mean(axis=2).ravel()
    base = kn.v.reshape(shape2)[np.ix_(e_sub, t_sub)].ravel()
    base_ok = kn.ok.reshape(shape2)[np.ix_(e_sub, t_sub)].ravel()
    Eav, Tav = [x.ravel() for x in np.meshgrid(E[e_sub], th[t_sub], indexing='ij')]
    with np.errstate(invalid='ignore'):
        bad = ~(np.abs(avg_kn - base) <= TOL_AVG * np.abs(base) + 1e-14 * RE2)
    Rel(ck, st, 'DCS_KN', 'differs-from-azimuthal-average-of-DCSP_KN').check(
        Eav, bad & base_ok, lambda k: 'DCS_KN(%s, %s) = %s but the phi-average of DCSP_KN is %s' % (fmt(Eav[k]), fmt(Tav[k]), fmt(base[k]), fmt(avg_kn[k])),
        lambda k: dict(call='DCS_KN(%s, %s)' % (fmt(Eav[k]), fmt(Tav[k])), returned=fmt(base[k]), average_of_DCSP_KN=fmt(avg_kn[k]), phi_points=M), compared=base_ok)
    avg_t = np.where(pt.ok, pt.v, np.nan).reshape(nth, M).mean(axis=1)
    with np.errstate(invalid='ignore'):
        bad = ~(np.abs(avg_t - tho.v) <= TOL_AVG * tho.v + 1e-14 * RE2)
    Rel(ck, st, 'DCS_Thoms', 'differs-from-azimuthal-average-of-DCSP_Thoms').check(
        np.ones(nth), bad, lambda k: 'DCS_Thoms(%s) = %s but the phi-average of DCSP_Thoms is %s' % (fmt(th[k]), fmt(tho.v[k]), fmt(avg_t[k])),
        lambda k: dict(call='DCS_Thoms(%s)' % fmt(th[k]), returned=fmt(tho.v[k]), average_of_DCSP_Thoms=fmt(avg_t[k]), phi_points=M))
    st['samples'].append(dict(relation='DCS_KN = <DCSP_KN>_phi', call='DCS_KN(%s, %s)' % (fmt(Eav[len(Eav) // 3]), fmt(Tav[len(Eav) // 3])),
                              returned=fmt(base[len(Eav) // 3]), average=fmt(avg_kn[len(Eav) // 3])))

    # general (E, theta, phi) grid: positivity, limit, symmetries
    e_sub = np.arange(0, len(E), 4 if quick else 8)
    t_sub = np.unique(np.concatenate([np.arange(0, nth, 6 if quick else 12), [iz, ih, ip], inear[::2]]))
    E3, T3, P3 = [x.ravel() for x in np.meshgrid(E[e_sub], th[t_sub], ph, indexing='ij')]
    A3 = E3 / MEC2
    T2t, P2t = [x.ravel() for x in np.meshgrid(th[t_sub], ph, indexing='ij')]
    pk, = L.multi([('DCSP_KN', E3, T3, P3)])
    pt = L.call('DCSP_Thoms', T2t, P2t)
    calls += len(pk) + len(pt)
    PT3 = np.tile(pt.v, len(e_sub))
    positive('DCSP_KN', pk, E3, lambda k: 'DCSP_KN(%s, %s, %s)' % (fmt(E3[k]), fmt(T3[k]), fmt(P3[k])), strict=False)
    positive('DCSP_Thoms', pt, np.ones(len(pt)), lambda k: 'DCSP_Thoms(%s, %s)' % (fmt(T2t[k]), fmt(P2t[k])), strict=False)
    # away from the node both must be strictly positive
    with np.errstate(invalid='ignore'):
        away = np.sin(T2t) ** 2 * np.cos(P2t) ** 2 < 1 - 1e-9
        Rel(ck, st, 'DCSP_Thoms', 'not-positive').check(np.ones(len(pt)), away & pt.ok & ~(pt.v > 0),
                                                        lambda k: 'DCSP_Thoms(%s, %s) = %s away from the node' % (fmt(T2t[k]), fmt(P2t[k]), fmt(pt.v[k])),
                                                        lambda k: dict(call='DCSP_Thoms(%s, %s)' % (fmt(T2t[k]), fmt(P2t[k])), returned=fmt(pt.v[k])))
        away3 = np.tile(away, len(e_sub)) | (A3 > 1e-6)
        Rel(ck, st, 'DCSP_KN', 'not-positive').check(E3, away3 & pk.ok & ~(pk.v > 0),
                                                     lambda k: 'DCSP_KN(%s, %s, %s) = %s' % (fmt(E3[k]), fmt(T3[k]), fmt(P3[k]), fmt(pk.v[k])),
                                                     lambda k: dict(call='DCSP_KN(%s, %s, %s)' % (fmt(E3[k]), fmt(T3[k]), fmt(P3[k])), returned=fmt(pk.v[k])), compared=away3)
        Rel(ck, st, 'DCSP_KN', 'low-energy-limit').check(
            E3, pk.ok & ~(np.abs(pk.v - PT3) <= 4 * A3 * RE2 + 1e-14 * RE2),
            lambda k: '|DCSP_KN - DCSP_Thoms| = %.3g exceeds 4E/MEC2 RE2 = %.3g' % (abs(pk.v[k] - PT3[k]), 4 * A3[k] * RE2),
            lambda k: dict(call='DCSP_KN(%s, %s, %s)' % (fmt(E3[k]), fmt(T3[k]), fmt(P3[k])), returned=fmt(pk.v[k]), DCSP_Thoms=fmt(PT3[k])), compared=pk.ok)
    K3 = 1 / (1 + A3 * (1 - np.cos(T3)))                 # only used to size the tolerance (Lipschitz bound below)
    EV3 = 16 * U * ((1 + 3 * A3 * K3) * np.abs(pk.v) + RE2 * K3 * K3)      # evaluation error of the two calls themselves
    for label, dT, dP, exact in (('even-in-theta', -1, 0, True), ('even-in-phi', 0, -1, True), ('periodic-in-theta', 2 * np.pi, None, False),
                                 ('periodic-in-phi', None, 2 * np.pi, False), ('periodic-in-theta', -2 * np.pi, None, False),
                                 ('periodic-in-phi', None, -2 * np.pi, False), ('periodic-in-theta', 4 * np.pi, None, False)):
        if exact:
            Tn, Pn = (T3 * (dT if dT else 1), P3 * (dP if dP else 1))
            Tt, Pt = (T2t * (dT if dT else 1), P2t * (dP if dP else 1))
        else:
            Tn, Pn = (T3 + (dT or 0.0), P3 + (dP or 0.0))
            Tt, Pt = (T2t + (dT or 0.0), P2t + (dP or 0.0))
        r = L.call('DCSP_KN', E3, Tn, Pn)
        rt = L.call('DCSP_Thoms', Tt, Pt)
        calls += len(r) + len(rt)
        if exact:
            tol_k, tol_t = 8 * U * np.abs(pk.v), 8 * U * np.abs(pt.v)
        elif dT is not None:
            # |df/dtheta| <= (2 + 8 sqrt(a/2)) * max(4 f, RE2/2 [k > 1/2])   (see module doc)
            tol_k = DELTA * (2 + 8 * np.sqrt(A3 / 2)) * (4 * np.abs(pk.v) + RE2 / 2 * (K3 > 0.5)) + EV3
            tol_t = DELTA * RE2 + 16 * U * np.abs(pt.v)
        else:
            tol_k = DELTA * 2 * RE2 * K3 * K3 + EV3
            tol_t = DELTA * RE2 + 16 * U * np.abs(pt.v)
        symmetric('DCSP_KN', label, E3, r, pk.v, pk.ok, tol_k,
                  (lambda Tn, Pn: lambda k: 'DCSP_KN(%s, %s, %s)' % (fmt(E3[k]), fmt(Tn[k]), fmt(Pn[k])))(Tn, Pn),
                  lambda k: 'DCSP_KN(%s, %s, %s)' % (fmt(E3[k]), fmt(T3[k]), fmt(P3[k])))
        symmetric('DCSP_Thoms', label, np.ones(len(pt)), rt, pt.v, pt.ok, tol_t,
                  (lambda Tt, Pt: lambda k: 'DCSP_Thoms(%s, %s)' % (fmt(Tt[k]), fmt(Pt[k])))(Tt, Pt),
                  lambda k: 'DCSP_Thoms(%s, %s)' % (fmt(T2t[k]), fmt(P2t[k])))
        positive('DCSP_KN', r, E3, (lambda Tn, Pn: lambda k: 'DCSP_KN(%s, %s, %s)' % (fmt(E3[k]), fmt(Tn[k]), fmt(Pn[k])))(Tn, Pn), strict=False)
        positive('DCSP_Thoms', rt, np.ones(len(rt)), (lambda Tt, Pt: lambda k: 'DCSP_Thoms(%s, %s)' % (fmt(Tt[k]), fmt(Pt[k])))(Tt, Pt), strict=False)

    # ---- R1: non-positive energy is an error --------------------------------------------------------------------------
    Eneg = np.array([0.0, -0.0, -1e-300, -1e-6, -1.0, -511.0, -1e6, -np.inf])
    tn = np.array([0.0, 1.0, np.pi / 2, np.pi, -2.0, 7.0])
    En, Tn_ = [x.ravel() for x in np.meshgrid(Eneg, tn, indexing='ij')]
    jobs = [('DCS_KN', En, Tn_), ('ComptonEnergy', En, Tn_), ('MomentTransf', En, Tn_), ('DCSP_KN', En, Tn_, 0.3 + 0 * Tn_), ('CS_KN', Eneg)]
    res = L.multi(jobs)
    calls += sum(len(r) for r in res)
    nneg = 0
    for (fn, *args), r in zip(jobs, res):
        for k in np.nonzero(r.ok)[0][:3]:
            ck.violation('c12:%s:no-error-for-non-positive-energy' % fn, '%s accepts the energy %s and returns %s' % (fn, fmt(args[0][k]), fmt(r.v[k])),
                         dict(call='%s(%s)' % (fn, ', '.join(fmt(x[k]) for x in args)), returned=fmt(r.v[k])))
        nneg += int(r.err.sum())
        st['cells'].add((fn + ':error-for-non-positive-energy', -999))
    st['compared']['non-positive-energy-errors'] = nneg

    # ---- "for all positive energies": the smallest positive doubles (normal and subnormal) ---------------------------------
    Etiny = np.array([5e-324, 1e-320, 1e-310, 2.2250738585072014e-308, 4.4501477170144028e-308, 1e-307, 1e-300, 1e-200, 1e-100, 1e-30])
    tt = np.array([0.0, 1e-3, 1.0, np.pi / 2, 3.0, np.pi, -2.0, 7.0])
    Et, Tt_ = [x.ravel() for x in np.meshgrid(Etiny, tt, indexing='ij')]
    r_kn, r_ce, r_pk = L.multi([('DCS_KN', Et, Tt_), ('ComptonEnergy', Et, Tt_), ('DCSP_KN', Et, Tt_, 0.3 + 0 * Tt_)])
    r_cs = L.call('CS_KN', Etiny)
    r_th = L.call('DCS_Thoms', Tt_)
    r_pt = L.call('DCSP_Thoms', Tt_, 0.3 + 0 * Tt_)
    calls += 5 * len(Et) + len(Etiny)
    positive('DCS_KN', r_kn, Et, lambda k: 'DCS_KN(%s, %s)' % (fmt(Et[k]), fmt(Tt_[k])))
    positive('ComptonEnergy', r_ce, Et, lambda k: 'ComptonEnergy(%s, %s)' % (fmt(Et[k]), fmt(Tt_[k])))
    positive('DCSP_KN', r_pk, Et, lambda k: 'DCSP_KN(%s, %s, 0.3)' % (fmt(Et[k]), fmt(Tt_[k])))
    positive('CS_KN', r_cs, Etiny, lambda k: 'CS_KN(%s)' % fmt(Etiny[k]))
    with np.errstate(invalid='ignore', divide='ignore'):
        # at these energies E/MEC2 is far below one ulp: the Compton energy IS E and Klein-Nishina IS Thomson, to rounding
        Rel(ck, st, 'ComptonEnergy', 'outside-[E/(1+2E/mc2),E]').check(
            Et, r_ce.ok & ~(np.abs(r_ce.v - Et) <= 8 * U * Et), lambda k: 'ComptonEnergy(%s, %s) = %s, expected E to rounding' % (fmt(Et[k]), fmt(Tt_[k]), fmt(r_ce.v[k])),
            lambda k: dict(call='ComptonEnergy(%s, %s)' % (fmt(Et[k]), fmt(Tt_[k])), returned=fmt(r_ce.v[k])), compared=r_ce.ok)
        Rel(ck, st, 'DCS_KN', 'low-energy-limit').check(
            Et, r_kn.ok & r_th.ok & ~(np.abs(r_kn.v - r_th.v) <= 16 * U * r_th.v), lambda k: 'DCS_KN(%s, %s) = %s but DCS_Thoms = %s' % (fmt(Et[k]), fmt(Tt_[k]), fmt(r_kn.v[k]), fmt(r_th.v[k])),
            lambda k: dict(call='DCS_KN(%s, %s)' % (fmt(Et[k]), fmt(Tt_[k])), returned=fmt(r_kn.v[k]), thomson=fmt(r_th.v[k])), compared=r_kn.ok & r_th.ok)
        Rel(ck, st, 'DCSP_KN', 'low-energy-limit').check(
            Et, r_pk.ok & r_pt.ok & ~(np.abs(r_pk.v - r_pt.v) <= 16 * U * RE2), lambda k: 'DCSP_KN(%s, %s, 0.3) = %s but DCSP_Thoms = %s' % (fmt(Et[k]), fmt(Tt_[k]), fmt(r_pk.v[k]), fmt(r_pt.v[k])),
            lambda k: dict(call='DCSP_KN(%s, %s, 0.3)' % (fmt(Et[k]), fmt(Tt_[k])), returned=fmt(r_pk.v[k]), DCSP_Thoms=fmt(r_pt.v[k])), compared=r_pk.ok & r_pt.ok)
        SIGT_ = 8 * PI / 3 * RE2
        Rel(ck, st, 'CS_KN', 'low-energy-limit').check(
            Etiny, r_cs.ok & ~(np.abs(1 - r_cs.v / SIGT_) <= TOL_BOUND), lambda k: 'CS_KN(%s) = %s, Thomson total %s' % (fmt(Etiny[k]), fmt(r_cs.v[k]), fmt(SIGT_)),
            lambda k: dict(call='CS_KN(%s)' % fmt(Etiny[k]), returned=fmt(r_cs.v[k]), thomson_total=fmt(SIGT_)), compared=r_cs.ok)

    # ---- verdict --------------------------------------------------------------------------------------------------------
    n_inc = st['inconclusive_points']['CS_KN:integral']
    if n_inc > len(E) // 2:
        raise common.Inconclusive('quadrature error estimate too large at %d of %d energies' % (n_inc, len(E)))
    if st['compared'].get('DCS_KN:differs-from-compton-ratio-form', 0) < 1000 or not usable2.any():
        raise common.Inconclusive('too few successful evaluations to compare')
    # ---- the closed forms are functions of their arguments alone: same values in any call order and without an error slot ------
    sub = slice(None, None, 3 if quick else 1)
    Es = np.concatenate([E[sub], [0.0, -0.0, -1.0, -511.0]])
    ths = np.concatenate([th[::6 if quick else 2], [-0.5, 7.0]])
    phs = ph[::4]
    E2, T2 = [x.ravel() for x in np.meshgrid(Es, ths, indexing='ij')]
    E3, T3, P3 = [x.ravel() for x in np.meshgrid(Es[::3], ths[::3], phs, indexing='ij')]
    calls += execlib.independence(ck, 'c12', 'shipped', [('CS_KN', Es), ('DCS_Thoms', ths), ('DCS_KN', E2, T2), ('ComptonEnergy', E2, T2), ('MomentTransf', E2, T2),
                                                           ('DCSP_Thoms', T3, P3), ('DCSP_KN', E3, T3, P3)])
    # ---- cut-off probe: implementations of these formulas switch between a series and a closed form (or clamp, or fold an angle) at ROUND values of
    # E/mc2 or of E.  Around every m x 10^n (m = 1, 1.5, 2 ... 9; both for E/mc2 and for E in keV) a ladder of offsets from 1e-9 to 1e-4 relative on
    # both sides is compared with the closed forms evaluated in 40-digit arithmetic: a seam that is wrong only inside a window of 1e-7 shows here
    import mpmath
    mpmath.mp.dps = 40
    ms = [1, 1.5, 2, 2.5, 3, 4, 5, 6, 7, 8, 9]
    centres = sorted({m_ * 10.0 ** n_ * MEC2 for m_ in ms for n_ in range(-6, 3)} | {m_ * 10.0 ** n_ for m_ in ms for n_ in range(-4, 5)})
    nl = 60 if quick else 400
    lad = 10.0 ** np.linspace(-9, -4, nl)
    offs = np.concatenate([-lad[::-1], [0.0], lad])
    Ep = (np.array(centres)[:, None] * (1.0 + offs[None, :])).ravel()
    mpE = [mpmath.mpf(float(e)) / mpmath.mpf(MEC2) for e in Ep]
    two_pi_re2 = 2 * mpmath.pi * mpmath.mpf(RE2)

    def kn_total(a):
        l = mpmath.log(1 + 2 * a)
        return two_pi_re2 * ((1 + a) / a ** 2 * (2 * (1 + a) / (1 + 2 * a) - l / a) + l / (2 * a) - (1 + 3 * a) / (1 + 2 * a) ** 2)
    ref_kn = np.array([float(kn_total(a)) for a in mpE])
    got = L.call('CS_KN', Ep); calls += len(Ep)
    relerr = np.abs(got.v - ref_kn) / ref_kn
    bad = np.nonzero(got.err | ~(relerr <= 5e-11))[0]
    for k in bad[:3]:
        ck.violation('c12:CS_KN:differs-from-the-closed-form-near-a-round-value', 'CS_KN(%s) = %s, the Klein-Nishina total evaluated in 40-digit arithmetic is %s (relative difference %.3g; E/mc2 = %.12g)' % (
            fmt(Ep[k]), 'error' if got.err[k] else fmt(got.v[k]), fmt(ref_kn[k]), relerr[k], Ep[k] / MEC2), dict(call='CS_KN(%r)' % float(Ep[k]), returned=float(got.v[k]), closed_form=float(ref_kn[k])))
    st['worst']['CS_KN_vs_closed_form_near_round_values'] = float(np.nanmax(relerr))
    for th_ in (1.0, 2.5):
        cth = mpmath.cos(mpmath.mpf(th_)); sth2 = mpmath.sin(mpmath.mpf(th_)) ** 2
        kk_ = [1 / (1 + a * (1 - cth)) for a in mpE]
        ref_ce = np.array([float(mpmath.mpf(float(e)) * k_) for e, k_ in zip(Ep, kk_)])
        ref_dk = np.array([float(mpmath.mpf(RE2) / 2 * k_ ** 2 * (k_ + 1 / k_ - sth2)) for k_ in kk_])
        for fn_, ref_ in (('ComptonEnergy', ref_ce), ('DCS_KN', ref_dk)):
            g_ = L.call(fn_, Ep, np.full(len(Ep), th_)); calls += len(Ep)
            rel_ = np.abs(g_.v - ref_) / np.abs(ref_)
            for k in np.nonzero(g_.err | ~(rel_ <= 1e-12))[0][:3]:
                ck.violation('c12:%s:differs-from-the-closed-form-near-a-round-value' % fn_, '%s(%s, %g) = %s, the closed form evaluated in 40-digit arithmetic is %s (relative difference %.3g)' % (
                    fn_, fmt(Ep[k]), th_, 'error' if g_.err[k] else fmt(g_.v[k]), fmt(ref_[k]), rel_[k]), dict(call='%s(%r, %r)' % (fn_, float(Ep[k]), th_), returned=float(g_.v[k]), closed_form=float(ref_[k])))
            st['worst']['%s_vs_closed_form_near_round_values' % fn_] = max(st['worst'].get('%s_vs_closed_form_near_round_values' % fn_, 0.0), float(np.nanmax(rel_)))
    st['cutoff_probe_points'] = int(len(Ep))
    # a host thread in a directed rounding mode gets the same functions up to rounding - angles far outside [-pi, pi] included
    _Er = np.array([1e-3, 0.5, 10.0, 100.0, 511.0, 5e3, 1e5])
    _Tr = np.concatenate([np.linspace(-4 * PI, 4 * PI, 81), [4.0, 5.5, 7.0, -3.5, 9.0, 15.0, 40.0, 55.0, -100.0, 1e3]])
    _E2r, _T2r = [x.ravel() for x in np.meshgrid(_Er, _Tr, indexing='ij')]
    _E3r, _T3r, _P3r = [x.ravel() for x in np.meshgrid(_Er[::2], _Tr[::3], np.array([-7.0, -1.0, 0.0, 0.3, 2.0, 4.5, 9.0]), indexing='ij')]
    st['calls_in_directed_rounding_modes'] = execlib.rounding_modes(ck, 'c12', 'shipped', [('CS_KN', _Er), ('DCS_Thoms', _Tr), ('DCS_KN', _E2r, _T2r), ('ComptonEnergy', _E2r, _T2r), ('MomentTransf', _E2r, _T2r),
                                                                                             ('DCSP_Thoms', _T3r, _P3r), ('DCSP_KN', _E3r, _T3r, _P3r)])
    calls += st['calls_in_directed_rounding_modes']
    cov = dict(evaluations=int(calls), distinct_nontrivial=len(st['cells']),
               rule='distinct = (function:relation, energy decade) pairs with at least one decided comparison; energies %d log-spaced over 1e-6..1e6 keV '
                    '+ seeded log-uniform, theta %d points on [0, pi] incl. 0, pi/2, pi and their images under theta -> -theta, theta +/- 2pi, theta + 4pi; '
                    'phi %d points incl. 0, pi/2, pi, 3pi/2 and images under phi -> -phi, phi +/- 2pi; Gauss-Legendre %d points on %d/%d panels graded '
                    'towards theta = 0, relation asserted at %g only where the panel-halving estimate is below %g' % (
                        len(E), nth, nph, n, len(b1) - 1, len(b2) - 1, TOL_INT, EST_MAX),
               samples=st['samples'][:12], exhaustive=False, comparisons=st['compared'], inconclusive_points=st['inconclusive_points'],
               worst=st['worst'], relations=sorted({c[0] for c in st['cells']}),
               tolerances=dict(integral=TOL_INT, quadrature_estimate_max=EST_MAX, average=TOL_AVG, bound=TOL_BOUND, form=TOL_FORM))
    return ck.finish(cov, ['both sides of every relation are library outputs; RE2, MEC2, PI from a compiled probe of the public header',
                           'numpy Gauss-Legendre nodes/weights (leggauss) and IEEE double arithmetic',
                           'glibc sin/cos are odd/even exactly'])
