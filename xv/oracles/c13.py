"""C13 - crystal diffraction results obey Bragg's law and structure-factor algebra (offline crystal checker).

Everything that is compared comes out of executions of the library built from the current tree:
  * the 38 built-in crystals through `xrlmon exec` batches (by name), their struct fields through Crystal_GetCrystal;
  * seeded generated triclinic cells through the ctypes binding (python-owned Crystal_Struct, a part of them routed through
    Crystal_ArrayInit/Crystal_AddCrystal/Crystal_GetCrystal so that the *stored* volume of a user crystal is the library's own).
The reference is independent numpy code: metric tensor in extended precision (1/d^2 = h^T G* h, V = sqrt det G) and the explicit
sum  F = sum_atoms occ*(f0+f'+i f'')*exp(2 pi i h.r)  fed with the atomic factors the library itself reports (Atomic_Factors),
which are in turn compared with FF_Rayl(Z,Q)*D, Fi(Z,E)*D, -Fii(Z,E)*D.

Tolerances (all justified by forward error analysis, none tuned):
  * VOL_FLOAT = 1e-5: the built-in table holds a, b, c, the angles and the volume as C floats (each rounded to 2^-24 = 6e-8
    relative), so stored and recomputed volume, and d-spacings (proportional to the stored volume), may differ by a few 1e-7
    (measured: 1.3e-7); 1e-5 leaves a decade for the rounding of the volume in Crystals.dat itself.
  * TOL = 1e-10 wherever only doubles enter: every reference formula is a sum of <= 100 terms with condition number (`amp`,
    measured per reflection, cells/reflections with amp > 1e3 are skipped and counted) times a few eps = 2e-16, i.e. <= 1e-12.
    For the structure factor the error is taken relative to scale = sum |occ|*(|f0|+|f'|+|f''|+1) (the size of the summands),
    the phase argument 2 pi h.r is <= 200 rad so sin/cos carry <= 1e-13 absolute error.
"""
import itertools
import ctypes as C
import numpy as np
from .. import common, refdata, execlib, xl

LD = np.longdouble
PI_LD = np.arctan(LD(1)) * 4
TOL = 1e-10
VOL_FLOAT = 1e-5
AMP_MAX = 1e3
FLAGS = list(itertools.product((0, 1, 2), (0, 2), (0, 2)))          # the 3x2x2 valid combinations
FLAGS_A = np.array(FLAGS)
NOFPP = [k for k, f in enumerate(FLAGS) if f[2] == 0]              # combinations with f'' switched off (Friedel)
K222 = FLAGS.index((2, 2, 2))
K200 = FLAGS.index((2, 0, 0))
FIXED_H = [(1, 1, 1), (2, 2, 0), (0, 0, 4), (1, -1, 3), (3, 1, 1), (1, 0, 0), (0, 1, 0), (0, 0, 1), (6, 6, 6), (-6, 5, -4),
           (0, -2, 1), (4, 0, -4)]
DREL = [(1.0, 1.0), (0.5, 0.5), (0.8, 1.5), (1.25, 0.5), (0.5, 1.0), (0.7, 0.0), (10.0, 1.5), (1.0, 1.5), (1e-3, 1.0)]     # Debye factors above 1 are legal (only <= 0 is rejected)
NODATA_Z = [99, 100, 110, 119]       # inside the library's Z range, but without form-factor data (observed, see probe below)


# ------------------------------------------------------------------------------------------------------------
# reference geometry
# ------------------------------------------------------------------------------------------------------------
class Geometry:
    """metric tensor of a cell in extended precision; a, b, c in Angstrom, angles in degrees"""

    def __init__(self, a, b, c, al, be, ga):
        a, b, c = LD(a), LD(b), LD(c)
        ca, cb, cg = [np.cos(LD(x) * PI_LD / 180) for x in (al, be, ga)]
        G = np.array([[a * a, a * b * cg, a * c * cb], [a * b * cg, b * b, b * c * ca], [a * c * cb, b * c * ca, c * c]], dtype=LD)
        det = (G[0, 0] * (G[1, 1] * G[2, 2] - G[1, 2] * G[2, 1]) - G[0, 1] * (G[1, 0] * G[2, 2] - G[1, 2] * G[2, 0])
               + G[0, 2] * (G[1, 0] * G[2, 1] - G[1, 1] * G[2, 0]))
        self.w = float(det / (a * b * c) ** 2)          # (V/abc)^2, 0 for a degenerate cell
        self.V = float(np.sqrt(det)) if det > 0 else float('nan')
        Gi = np.empty((3, 3), dtype=LD)
        for i in range(3):
            for j in range(3):
                r = [x for x in range(3) if x != i]; s = [x for x in range(3) if x != j]
                Gi[j, i] = (-1) ** (i + j) * (G[r[0], s[0]] * G[r[1], s[1]] - G[r[0], s[1]] * G[r[1], s[0]]) / det
        self.Gi = Gi

    def dspacing(self, H):
        """H (m,3) ints -> (d (m) float64 [nan for (0,0,0)], amp (m) = condition number of the quadratic form)"""
        Hl = np.asarray(H).astype(LD)
        q = np.einsum('mi,ij,mj->m', Hl, self.Gi, Hl)
        qa = np.einsum('mi,ij,mj->m', np.abs(Hl), np.abs(self.Gi), np.abs(Hl))
        with np.errstate(divide='ignore', invalid='ignore'):
            d = (1 / np.sqrt(q)).astype(float)
            amp = (qa / q).astype(float)
        z = ~(np.asarray(H) != 0).any(axis=1)
        d[z] = np.nan; amp[z] = 1.0
        return d, amp


def pair_tables(H):
    """index pairs inside the Miller set H: (i, j) with H[j] = -H[i]; (i, j, n) with H[j] = n*H[i], n = 2..6"""
    H = np.asarray(H)
    idx = {tuple(h): k for k, h in enumerate(H.tolist())}
    inv, mul = [], []
    for k, h in enumerate(H.tolist()):
        if h == [0, 0, 0]:
            continue
        j = idx.get((-h[0], -h[1], -h[2]))
        if j is not None and j > k:
            inv.append((k, j))
        for n in range(2, 7):
            j = idx.get((n * h[0], n * h[1], n * h[2]))
            if j is not None:
                mul.append((k, j, n))
    return np.array(inv, int).reshape(-1, 2), np.array(mul, int).reshape(-1, 3)


class Crystal:
    """what the library told us about one crystal (struct fields) + the reference geometry built from them"""

    def __init__(self, label, d, builtin):
        self.label, self.builtin, self.fields = label, builtin, d
        self.geo = Geometry(d['a'], d['b'], d['c'], d['alpha'], d['beta'], d['gamma'])
        at = d['atoms']
        self.Z = np.array([a[0] for a in at], int)
        self.occ = np.array([a[1] for a in at], float)
        self.xyz = np.array([[a[2], a[3], a[4]] for a in at], float).reshape(-1, 3)
        self.Zs = sorted(set(self.Z.tolist()))
        self.zi = np.array([self.Zs.index(z) for z in self.Z.tolist()], int)
        self.dtol = VOL_FLOAT if builtin else TOL

    def witness(self):
        if self.builtin:
            return dict(crystal=self.label)
        f = self.fields
        return dict(crystal=self.label, cell=[f['a'], f['b'], f['c'], f['alpha'], f['beta'], f['gamma']], volume=f['volume'], atoms=f['atoms'])


def hs(h):
    return '(%d,%d,%d)' % (int(h[0]), int(h[1]), int(h[2]))


def cz(z):
    z = complex(z)
    return '(%r%sj)' % (z.real, ('%+r' % z.imag))


def rel_err(x, ref):
    with np.errstate(divide='ignore', invalid='ignore'):
        return np.abs(x - ref) / np.abs(ref)


# ------------------------------------------------------------------------------------------------------------
# judges (vectorised over the requests of one crystal; shared by the built-in and the generated workload)
# ------------------------------------------------------------------------------------------------------------
def judge_volume(ck, st, cr, recomputed, rec_err, stored, origin):
    kind = 'builtin' if cr.builtin else origin
    st['vol'] += 1
    if rec_err or not np.isfinite(recomputed):
        ck.violation('c13:Crystal_UnitCellVolume:error-or-nonfinite:%s' % kind, 'Crystal_UnitCellVolume failed / is not finite on a valid cell (%r)' % (recomputed,), cr.witness())
        return
    e = abs(recomputed - cr.geo.V) / cr.geo.V
    st['worst']['volume_recomputed'] = max(st['worst']['volume_recomputed'], e)
    if e > TOL:
        ck.violation('c13:Crystal_UnitCellVolume:wrong-value:%s' % kind, 'Crystal_UnitCellVolume returned %r, sqrt(det G) = %r (rel %.2e)' % (recomputed, cr.geo.V, e), cr.witness())
    if stored is not None:
        tol = VOL_FLOAT if cr.builtin else TOL
        e = abs(stored - recomputed) / abs(recomputed) if np.isfinite(stored) else np.inf
        st['worst']['volume_stored_' + kind] = max(st['worst']['volume_stored_' + kind], e)
        if not e <= tol:
            ck.violation('c13:volume:stored-vs-recomputed:%s' % kind, 'stored cell volume %r, recomputed %r (rel %.2e > %.0e)' % (stored, recomputed, e, tol), cr.witness())


def judge_d(ck, st, cr, H, d, derr, pairs):
    """d-spacings of one crystal: value vs metric formula, inversion, scaling"""
    kind = 'builtin' if cr.builtin else 'generated'
    H = np.asarray(H)
    ref, amp = cr.geo.dspacing(H)
    nz = (H != 0).any(axis=1)
    st['d'] += len(H)
    # (0,0,0): an error or 0 (the header promises zero); anything else is a made-up spacing
    for k in np.nonzero(~nz)[0][:1]:
        if not derr[k] and d[k] != 0:
            ck.violation('c13:Crystal_dSpacing:(000)-value', 'Crystal_dSpacing(0,0,0) returned %r (expected an error or 0)' % float(d[k]), cr.witness())
    bad = np.nonzero(nz & (derr | ~np.isfinite(d) | (d <= 0)))[0]
    for k in bad[:2]:
        ck.violation('c13:Crystal_dSpacing:error-or-nonpositive:%s' % kind, 'Crystal_dSpacing%s failed or returned %r on a valid cell' % (hs(H[k]), float(d[k])),
                     dict(cr.witness(), hkl=H[k].tolist()))
    good = nz & ~derr & np.isfinite(d) & (d > 0)
    cmpm = good & (amp <= AMP_MAX)
    st['d_skipped_illconditioned'] += int((good & ~cmpm).sum())
    e = np.where(cmpm, rel_err(d, ref), 0.0)
    if cmpm.any():
        st['worst']['d_' + kind] = max(st['worst']['d_' + kind], float(e.max()))
        st['d_compared'] += int(cmpm.sum())
    for k in np.nonzero(e > cr.dtol)[0][:2]:
        ck.violation('c13:Crystal_dSpacing:vs-reciprocal-metric:%s' % kind,
                     'Crystal_dSpacing%s = %r, reciprocal-metric formula %r (rel %.2e > %.0e)' % (hs(H[k]), float(d[k]), float(ref[k]), e[k], cr.dtol),
                     dict(cr.witness(), hkl=H[k].tolist()))
    inv, mul = pairs
    if len(inv):
        i, j = inv[:, 0], inv[:, 1]
        m = good[i] & good[j]
        e = np.where(m, rel_err(d[j], d[i]), 0.0)
        st['d_inversion_pairs'] += int(m.sum())
        st['worst']['d_inversion'] = max(st['worst']['d_inversion'], float(e.max()))
        for k in np.nonzero(e > TOL)[0][:2]:
            ck.violation('c13:Crystal_dSpacing:inversion', 'd%s = %r but d%s = %r' % (hs(H[i[k]]), float(d[i[k]]), hs(H[j[k]]), float(d[j[k]])),
                         dict(cr.witness(), hkl=H[i[k]].tolist()))
    if len(mul):
        i, j, n = mul[:, 0], mul[:, 1], mul[:, 2]
        m = good[i] & good[j] & (amp[i] <= AMP_MAX)
        e = np.where(m, rel_err(d[j] * n, d[i]), 0.0)
        st['d_scaling_pairs'] += int(m.sum())
        st['worst']['d_scaling'] = max(st['worst']['d_scaling'], float(e.max()))
        for k in np.nonzero(e > TOL)[0][:2]:
            ck.violation('c13:Crystal_dSpacing:scaling', 'd%s = %r but d%s = %r, expected d/%d' % (hs(H[i[k]]), float(d[i[k]]), hs(H[j[k]]), float(d[j[k]]), n[k]),
                         dict(cr.witness(), hkl=H[i[k]].tolist(), n=int(n[k])))


def judge_bragg(ck, st, cr, K, H, E, dlib, dok, th, therr, thmsg=None):
    """Bragg's law with the library's own d-spacing; returns the reflection class per request (1 reflection, 0 none, -1 undecided)"""
    H = np.asarray(H)
    st['bragg'] += len(H)
    lam = K / E
    with np.errstate(divide='ignore', invalid='ignore'):
        x = lam / (2 * dlib)
    cls = np.full(len(H), -1)
    usable = dok & np.isfinite(dlib) & (dlib > 0) & (E > 0)
    cls[usable & (x <= 1 - 1e-12)] = 1
    cls[usable & (x >= 1 + 1e-12)] = 0
    st['bragg_undecided'] += int((usable & (cls < 0)).sum())
    def wit(k):
        return dict(cr.witness(), call='Bragg_angle(%s, %r, %d,%d,%d)' % (cr.label, float(E[k]), H[k][0], H[k][1], H[k][2]), d_spacing=float(dlib[k]),
                    wavelength=float(lam[k]), returned=('error: %s' % (thmsg(k) if thmsg else '')) if therr[k] else float(th[k]))
    # reflection exists -> a value obeying 2 d sin(theta) = lambda
    for k in np.nonzero((cls == 1) & therr)[0][:2]:
        ck.violation('c13:Bragg_angle:error-with-reflection', 'Bragg_angle failed although lambda = %r <= 2d = %r' % (float(lam[k]), 2 * float(dlib[k])), wit(k))
    m = (cls == 1) & ~therr
    with np.errstate(invalid='ignore'):
        e = np.where(m, np.abs(2 * dlib * np.sin(th) - lam) / lam, 0.0)
        badrange = m & ~((th > 0) & (th <= np.pi / 2 * (1 + 1e-15)))
    e[m & ~np.isfinite(th)] = np.inf
    if m.any():
        st['bragg_reflection'] += int(m.sum())
        st['worst']['bragg'] = max(st['worst']['bragg'], float(e[m].max()))
    for k in np.nonzero((e > TOL) | badrange)[0][:2]:
        ck.violation('c13:Bragg_angle:braggs-law', '2 d sin(theta) = %r but lambda = %r (theta = %r)' % (2 * float(dlib[k]) * float(np.sin(th[k])), float(lam[k]), float(th[k])), wit(k))
    # within rounding of the threshold either answer is right - but never a NaN without an error
    for k in np.nonzero(usable & (cls < 0) & ~therr & ~np.isfinite(th))[0][:2]:
        ck.violation('c13:Bragg_angle:no-reflection:nan', 'lambda = %r, 2d = %r (at the threshold): Bragg_angle returned %r without an error' % (float(lam[k]), 2 * float(dlib[k]), float(th[k])), wit(k))
    # no reflection -> an error (never NaN, never a number)
    m = cls == 0
    st['bragg_noreflection'] += int(m.sum())
    for k in np.nonzero(m & ~therr)[0][:2]:
        ck.violation('c13:Bragg_angle:no-reflection:%s' % ('nan' if np.isnan(th[k]) else 'value'),
                     'lambda = %r > 2d = %r, Bragg_angle returned %r without an error' % (float(lam[k]), 2 * float(dlib[k]), float(th[k])), wit(k))
    return cls


def judge_q(ck, st, cr, K, H, E, rel, th, therr, Q, Qerr):
    """Q = E sin(rel*theta_B)/KEV2ANGST with the library's own Bragg angle; error exactly when the Bragg angle is one"""
    H = np.asarray(H)
    nz = (H != 0).any(axis=1)
    st['q'] += len(H)
    def wit(k):
        return dict(cr.witness(), call='Q_scattering_amplitude(%s, %r, %d,%d,%d, %r)' % (cr.label, float(E[k]), H[k][0], H[k][1], H[k][2], float(rel[k])),
                    bragg_angle='error' if therr[k] else float(th[k]), returned='error' if Qerr[k] else float(Q[k]))
    for k in np.nonzero(~Qerr & ~np.isfinite(Q))[0][:2]:
        ck.violation('c13:Q_scattering_amplitude:non-finite', 'Q_scattering_amplitude returned %r without an error' % float(Q[k]), wit(k))
    m = nz & ~therr & np.isfinite(th)
    for k in np.nonzero(m & Qerr)[0][:2]:
        ck.violation('c13:Q_scattering_amplitude:error-with-reflection', 'Q_scattering_amplitude failed although Bragg_angle = %r' % float(th[k]), wit(k))
    m = m & ~Qerr
    x = rel * th
    ref = E * np.sin(x) / K
    tol = TOL * (E / K) * (np.abs(np.sin(x)) + np.abs(x * np.cos(x))) + 1e-300
    with np.errstate(invalid='ignore'):
        bad = m & ~(np.abs(Q - ref) <= tol)
    if m.any():
        st['q_compared'] += int(m.sum())
        with np.errstate(divide='ignore', invalid='ignore'):
            ee = np.where(m & (ref != 0), np.abs(Q - ref) / np.abs(ref), 0.0)
        st['worst']['q'] = max(st['worst']['q'], float(np.nanmax(ee)))
    for k in np.nonzero(bad)[0][:2]:
        ck.violation('c13:Q_scattering_amplitude:wrong-value', 'Q = %r, E sin(rel*theta_B)/KEV2ANGST = %r' % (float(Q[k]), float(ref[k])), wit(k))
    m = nz & therr & ~Qerr
    st['q_noreflection'] += int((nz & therr).sum())
    for k in np.nonzero(m)[0][:2]:
        ck.violation('c13:Q_scattering_amplitude:no-bragg-angle:%s' % ('nan' if np.isnan(Q[k]) else 'value'),
                     'Bragg_angle is an error here, Q_scattering_amplitude returned %r without an error' % float(Q[k]), wit(k))
    m = ~nz & ~Qerr
    for k in np.nonzero(m & (Q != 0))[0][:1]:
        ck.violation('c13:Q_scattering_amplitude:(000)-nonzero', 'Q(0,0,0) = %r (forward scattering has Q = 0)' % float(Q[k]), wit(k))


def judge_atomic(ck, st, Zs, E, q, D, af, aferr, afret, ff, fferr, fi, fierr, fii, fiierr):
    """Atomic_Factors (m,nZ,3) against the public form-factor functions times the Debye factor"""
    m, nz = aferr.shape
    st['atomic_factors'] += m * nz
    Zs = np.asarray(Zs)
    dep_err = fferr | fierr | fiierr
    def wit(i, j):
        return dict(call='Atomic_Factors(%d, %r, %r, %r)' % (Zs[j], float(E[i]), float(q[i]), float(D[i])),
                    returned='error' if aferr[i, j] else af[i, j].tolist(),
                    FF_Rayl='error' if fferr[i, j] else float(ff[i, j]), Fi='error' if fierr[i, j] else float(fi[i, j]), Fii='error' if fiierr[i, j] else float(fii[i, j]))
    for i, j in np.argwhere(aferr != (afret == 0))[:2]:
        ck.violation('c13:Atomic_Factors:return-value-vs-error', 'Atomic_Factors returned %d with%s error' % (afret[i, j], '' if aferr[i, j] else 'out'), wit(i, j))
    for i, j in np.argwhere(~aferr & dep_err)[:2]:
        ck.violation('c13:Atomic_Factors:value-where-form-factor-fails', 'Atomic_Factors succeeded where FF_Rayl/Fi/Fii report an error', wit(i, j))
    for i, j in np.argwhere(aferr & ~dep_err)[:2]:
        ck.violation('c13:Atomic_Factors:error-where-form-factors-exist', 'Atomic_Factors failed where FF_Rayl, Fi and Fii all succeed (D = %r)' % float(D[i]), wit(i, j))
    ok = ~aferr & ~dep_err
    Dc = D[:, None]
    for t, (name, ref) in enumerate((('f0:FF_Rayl*D', ff * Dc), ('fprime:Fi*D', fi * Dc), ('fprime2:-Fii*D', -fii * Dc))):
        with np.errstate(invalid='ignore'):
            bad = ok & ~(np.abs(af[:, :, t] - ref) <= 1e-12 * np.abs(ref))
        for i, j in np.argwhere(bad)[:2]:
            ck.violation('c13:Atomic_Factors:%s' % name, 'Atomic_Factors term %d = %r, expected %r' % (t, float(af[i, j, t]), float(ref[i, j])), wit(i, j))
    st['atomic_factors_compared'] += int(ok.sum())


def sf_reference(cr, H, af):
    """explicit sums for all 12 flag combinations: (m,12) complex, scale (m)"""
    f0 = af[:, cr.zi, 0]; fp = af[:, cr.zi, 1]; fpp = af[:, cr.zi, 2]
    ph = 2 * np.pi * (np.asarray(H, float) @ cr.xyz.T)
    c, s = np.cos(ph), np.sin(ph)
    out = np.zeros((len(H), len(FLAGS)), complex)
    for k, (a, b, g) in enumerate(FLAGS):
        re = (1.0 if a == 1 else 0.0) + (f0 if a == 2 else 0.0) + (fp if b == 2 else 0.0)
        im = fpp if g == 2 else np.zeros_like(fpp)
        re = np.broadcast_to(re, c.shape)
        out[:, k] = ((cr.occ * (re * c - im * s)).sum(axis=1)) + 1j * ((cr.occ * (re * s + im * c)).sum(axis=1))
    scale = (np.abs(cr.occ) * (np.abs(f0) + np.abs(fp) + np.abs(fpp) + 1.0)).sum(axis=1)
    return out, scale


def judge_sf(ck, st, cr, H, E, D, rel, Qok, afok, af, F, Ferr, Fm, Fmerr, Ff, Fferr, Fmsg=None):
    """structure factors of one crystal.
       Qok: Q_scattering_amplitude succeeded ((0,0,0) counts as q = 0); afok: Atomic_Factors succeeded for every species;
       F (m,12) / Ferr: Partial for FLAGS at h; Fm (m,6): Partial for NOFPP at -h; Ff (m): Crystal_F_H_StructureFactor."""
    H = np.asarray(H)
    m = len(H)
    nz = (H != 0).any(axis=1)
    st['sf'] += int(F.size + Fm.size + Ff.size)
    kind = 'builtin' if cr.builtin else 'generated'
    def wit(i, k=None, extra=None):
        w = dict(cr.witness(), hkl=H[i].tolist(), energy=float(E[i]), debye=float(D[i]), rel_angle=float(rel[i]))
        if k is not None:
            w['flags'] = list(FLAGS[k])
            w['returned'] = ('error: %s' % (Fmsg(i, k) if Fmsg else '')) if Ferr[i, k] else [F[i, k].real, F[i, k].imag]
        if extra:
            w.update(extra)
        return w
    full = Qok & afok
    # ---- nothing may ever be non-finite --------------------------------------------------------------------
    nf = ~Ferr & ~(np.isfinite(F.real) & np.isfinite(F.imag))
    for i, k in np.argwhere(nf)[:2]:
        ck.violation('c13:F_H:non-finite:%s' % ('no-reflection' if not Qok[i] else 'reflection'), 'structure factor is %s without an error' % cz(F[i, k]), wit(i, k))
    nf2 = ~Fferr & ~(np.isfinite(Ff.real) & np.isfinite(Ff.imag))
    for i in np.nonzero(nf2)[0][:2]:
        ck.violation('c13:F_H:non-finite:%s' % ('no-reflection' if not Qok[i] else 'reflection'), 'Crystal_F_H_StructureFactor is %s without an error' % cz(Ff[i]), wit(i))
    # ---- no atomic factors (no reflection / q or Z without data): whatever needs f0 must be an error ---------------
    nof = ~full
    need = FLAGS_A[:, 0] == 2
    for i, k in np.argwhere(nof[:, None] & need[None, :] & ~Ferr)[:2]:
        why = 'no-reflection' if not Qok[i] else 'no-atomic-factors'
        ck.violation('c13:F_H:value-without-f0:%s' % why, 'a structure factor with f0_flag=2 was returned although %s' %
                     ('no Bragg reflection exists (Q_scattering_amplitude is an error)' if not Qok[i] else 'Atomic_Factors is an error for an atom of the cell'), wit(i, k))
    for i in np.nonzero(nof & ~Fferr)[0][:2]:
        ck.violation('c13:F_H:value-without-f0:%s' % ('no-reflection' if not Qok[i] else 'no-atomic-factors'),
                     'Crystal_F_H_StructureFactor returned %s although the atomic factors are unavailable' % cz(Ff[i]), wit(i))
    st['sf_expected_error'] += int((nof[:, None] & need[None, :]).sum() + nof.sum())
    for i in np.nonzero(nof)[0]:
        cl = 'no-reflection' if not Qok[i] else 'no-atomic-factors'
        for k in range(len(FLAGS)):
            st['distinct'].add((cr.label, cl, k))
    if not full.any():
        return
    # ---- atomic factors available: every combination is a number equal to the explicit sum ---------------------------
    idx = np.nonzero(full)[0]
    ref, scale = sf_reference(cr, H[idx], af[idx])
    tol = TOL * scale
    for ii, i in enumerate(idx):
        cl = 'forward' if not nz[i] else 'reflection'
        for k in range(len(FLAGS)):
            st['distinct'].add((cr.label, cl, k))
    Fi_, Fe = F[idx], Ferr[idx]
    for ii, k in np.argwhere(Fe)[:2]:
        ck.violation('c13:F_H:unexpected-error', 'Crystal_F_H_StructureFactor_Partial failed although Q and every atomic factor are available', wit(idx[ii], k))
    dv = np.where(Fe, 0.0, np.abs(Fi_ - ref))
    with np.errstate(invalid='ignore'):
        bad = ~Fe & ~(dv <= tol[:, None])
    st['sf_compared'] += int((~Fe).sum())
    st['worst']['sf_of_scale'] = max(st['worst']['sf_of_scale'], float(np.nanmax(dv / scale[:, None])))
    for ii, k in np.argwhere(bad)[:3]:
        i = idx[ii]
        ck.violation('c13:F_H:explicit-sum:flags-%d%d%d:%s' % (FLAGS[k] + (kind,)),
                     'F_H = %s, explicit sum over atoms = %s (|diff| %.3g, scale %.3g)' % (cz(F[i, k]), cz(ref[ii, k]), dv[ii, k], scale[ii]),
                     wit(i, k, dict(expected=[ref[ii, k].real, ref[ii, k].imag], atomic_factors={int(z): af[i, j].tolist() for j, z in enumerate(cr.Zs)})))
    # full function = all three terms
    ffe = Fferr[idx]
    for ii in np.nonzero(ffe)[0][:2]:
        ck.violation('c13:F_H:unexpected-error', 'Crystal_F_H_StructureFactor failed although Q and every atomic factor are available', wit(idx[ii]))
    dvf = np.where(ffe, 0.0, np.abs(Ff[idx] - ref[:, K222]))
    st['sf_compared'] += int((~ffe).sum())
    for ii in np.nonzero(~ffe & ~(dvf <= tol))[0][:2]:
        i = idx[ii]
        ck.violation('c13:F_H:full-function-vs-sum:%s' % kind, 'Crystal_F_H_StructureFactor = %s, explicit sum = %s' % (cz(Ff[i]), cz(ref[ii, K222])),
                     wit(i, None, dict(expected=[ref[ii, K222].real, ref[ii, K222].imag])))
    # additivity over the three flags: F(a,b,c) = F(a,0,0) + F(0,b,0) + F(0,0,c)
    allok = ~Fe.any(axis=1)
    single = lambda a, b, g: Fi_[:, FLAGS.index((a, b, g))]
    worst_add = 0.0
    for k, (a, b, g) in enumerate(FLAGS):
        s = single(a, 0, 0) + single(0, b, 0) + single(0, 0, g)
        dva = np.where(allok, np.abs(Fi_[:, k] - s), 0.0)
        worst_add = max(worst_add, float((dva / scale).max()))
        for ii in np.nonzero(dva > tol)[0][:1]:
            ck.violation('c13:F_H:additivity:flags-%d%d%d' % (a, b, g), 'F(%d,%d,%d) = %s but F(%d,0,0)+F(0,%d,0)+F(0,0,%d) = %s' % (a, b, g, cz(Fi_[ii, k]), a, b, g, cz(s[ii])), wit(idx[ii], k))
    st['sf_additivity'] += int(allok.sum()) * len(FLAGS)
    st['worst']['sf_additivity_of_scale'] = max(st['worst']['sf_additivity_of_scale'], worst_add)
    z = single(0, 0, 0)
    for ii in np.nonzero(allok & (np.abs(z) > 0))[0][:1]:
        ck.violation('c13:F_H:all-terms-off-nonzero', 'F with all three terms switched off = %s' % cz(z[ii]), wit(idx[ii], FLAGS.index((0, 0, 0))))
    # Friedel's law with f'' off: F(-h) = conj F(h)
    fr = nz[idx]
    Fmi, Fme = Fm[idx], Fmerr[idx]
    for ii, kk in np.argwhere(Fme & fr[:, None])[:2]:
        ck.violation('c13:F_H:unexpected-error', 'structure factor of the inverse reflection failed', wit(idx[ii], NOFPP[kk], dict(inverse_reflection=True)))
    okf = fr[:, None] & ~Fme & ~Fe[:, NOFPP]
    dvm = np.where(okf, np.abs(Fmi - np.conj(Fi_[:, NOFPP])), 0.0)
    st['sf_friedel'] += int(okf.sum())
    st['worst']['sf_friedel_of_scale'] = max(st['worst']['sf_friedel_of_scale'], float((dvm / scale[:, None]).max()))
    for ii, kk in np.argwhere(dvm > tol[:, None])[:2]:
        k = NOFPP[kk]
        ck.violation('c13:F_H:friedel:flags-%d%d%d' % FLAGS[k], "F(-h) = %s but conj F(h) = %s with f'' off" % (cz(Fmi[ii, kk]), cz(np.conj(Fi_[ii, k]))), wit(idx[ii], k))
    # forward direction, f0 only: sum(occ*Z)*D
    fw = ~nz[idx] & ~Fe[:, K200]
    if fw.any():
        exp = (cr.occ * cr.Z).sum() * D[idx]
        dv0 = np.where(fw, np.abs(Fi_[:, K200] - exp), 0.0)
        st['sf_forward'] += int(fw.sum())
        for ii in np.nonzero(dv0 > tol)[0][:2]:
            ck.violation('c13:F_H:(000)-f0-only', 'F(0,0,0) with f0 only = %s, sum(occ*Z)*D = %r' % (cz(Fi_[ii, K200]), float(exp[ii])), wit(idx[ii], K200, dict(expected=[float(exp[ii]), 0.0])))


# ------------------------------------------------------------------------------------------------------------
# built-in crystals (batch executor)
# ------------------------------------------------------------------------------------------------------------
def energies():
    return np.exp(np.linspace(np.log(0.1), np.log(200.0), 12))


def builtin_workload(ck, st, L, X, K, rng, tier):
    lst = X.crystal_list()
    if isinstance(lst, xl.Err) or not lst['names']:
        raise common.Inconclusive('Crystal_GetCrystalsList gave nothing: %r' % (lst,))
    names = lst['names']
    crs = []
    for n in names:
        g = X.get_crystal(n)
        if isinstance(g, xl.Err):
            ck.violation('c13:Crystal_GetCrystal:listed-name-not-found', 'Crystal_GetCrystal(%r) failed: %r' % (n, g), dict(crystal=n))
            continue
        p, d = g
        X.free_crystal(p)
        crs.append(Crystal(n, d, True))
    names = [c.label for c in crs]
    nc = len(crs)
    st['builtin_crystals'] = nc
    quick = tier == 'quick'
    Eg = energies()

    def sp(fn, ci, icols, dcols=()):
        return L.special(fn, s=[names[c] for c in np.asarray(ci).tolist()], i=icols, d=dcols)

    # ---- d-spacings over the whole cube, volumes ---------------------------------------------------------------------
    cube = np.array(list(itertools.product(range(-6, 7), repeat=3)), int)
    cidx = {tuple(h): k for k, h in enumerate(cube.tolist())}
    pairs = pair_tables(cube)
    ci = np.repeat(np.arange(nc), len(cube)); Hc = np.tile(cube, (nc, 1))
    rd = sp('Crystal_dSpacing', ci, [Hc[:, 0], Hc[:, 1], Hc[:, 2]])
    dl = rd.v.reshape(nc, -1); dle = rd.err.reshape(nc, -1)
    rv = sp('Crystal_UnitCellVolume', np.arange(nc), [])
    for c, cr in enumerate(crs):
        judge_volume(ck, st, cr, float(rv.v3[c, 0]), bool(rv.err[c]), float(rv.v3[c, 1]), 'builtin')
        if abs(cr.fields['volume'] - rv.v3[c, 1]) > 0:
            ck.violation('c13:Crystal_GetCrystal:copy-differs', 'volume of the copy returned by Crystal_GetCrystal differs between two calls', dict(crystal=cr.label))
        judge_d(ck, st, cr, cube, dl[c], dle[c], pairs)

    # ---- Bragg angles ---------------------------------------------------------------------------------------------------
    nzcube = np.nonzero((cube != 0).any(axis=1))[0]
    nH = 40 if quick else 400
    Hsel = []
    for c in range(nc):
        fixed = [cidx[h] for h in FIXED_H]
        rnd = rng.choice(nzcube, nH - len(fixed), replace=False).tolist()
        Hsel.append(np.array(fixed + rnd, int))          # indices into cube
    bc, bh, bE = [], [], []
    for c in range(nc):
        hi = Hsel[c]
        d = dl[c, hi]
        with np.errstate(divide='ignore', invalid='ignore'):
            Eth = np.where(np.isfinite(d) & (d > 0), K / (2 * d), 1.0)
        # 12 grid energies + the two sides of the reflection threshold of every chosen reflection
        # 12 grid energies + both sides of the reflection threshold of every chosen reflection, from 1e-6 down to one ulp, and the threshold itself
        Ecol = np.concatenate([np.tile(Eg, (len(hi), 1))] + [(Eth * f)[:, None] for f in (1 - 1e-6, 1 + 1e-6, 1 - 3e-7, 1 - 1e-9, 1 + 1e-9, 1 - 1e-12, 1.0)] +
                              [np.nextafter(Eth, 0.0)[:, None], np.nextafter(Eth, np.inf)[:, None]], axis=1)
        bc.append(np.full(Ecol.size, c)); bh.append(np.repeat(hi, Ecol.shape[1])); bE.append(Ecol.ravel())
    bc, bh, bE = np.concatenate(bc), np.concatenate(bh), np.concatenate(bE)
    rb = sp('Bragg_angle', bc, [cube[bh, 0], cube[bh, 1], cube[bh, 2]], [bE])
    for c, cr in enumerate(crs):
        m = bc == c
        ks = np.nonzero(m)[0]
        judge_bragg(ck, st, cr, K, cube[bh[m]], bE[m], dl[c, bh[m]], ~dle[c, bh[m]], rb.v[m], rb.err[m], lambda k, ks=ks: rb.msg(ks[k]))

    # ---- Q and structure-factor cases ---------------------------------------------------------------------------------
    # Q cases: nQ reflections x 12 energies x rel in {0, .5, 1, 1.5}; structure-factor cases: a subset with Debye factors
    nQ = 12 if quick else 60
    nF = 8 if quick else 30
    nEf = 4 if quick else 12
    nDR = 3 if quick else 6
    rels = np.array([0.0, 0.5, 1.0, 1.5])
    qc, qh, qE, qr = [], [], [], []
    fc, fh, fE, fD, fr = [], [], [], [], []
    zero = cidx[(0, 0, 0)]
    for c in range(nc):
        hq = Hsel[c][:nQ]
        g = np.array(list(itertools.product(hq, Eg, rels)))
        qc.append(np.full(len(g), c)); qh.append(g[:, 0].astype(int)); qE.append(g[:, 1]); qr.append(g[:, 2])
        hf = np.concatenate([Hsel[c][:3], rng.choice(Hsel[c][3:], nF - 3, replace=False), [zero]]).astype(int)
        Ef = Eg[(np.arange(nEf) * (12 // nEf) + c) % 12]
        dr = [DREL[(c + j) % len(DREL)] for j in range(nDR)]
        for h in hf:
            for e in Ef:
                for (dd, rr) in dr:
                    fc.append(c); fh.append(h); fE.append(e); fD.append(dd); fr.append(rr)
    qc, qh, qE, qr = np.concatenate(qc), np.concatenate(qh), np.concatenate(qE), np.concatenate(qr)
    fc, fh, fE, fD, fr = np.array(fc), np.array(fh), np.array(fE), np.array(fD), np.array(fr)
    # one Bragg + one Q request for all Q cases and all F cases
    ac, ah, aE, ar = np.concatenate([qc, fc]), np.concatenate([qh, fh]), np.concatenate([qE, fE]), np.concatenate([qr, fr])
    Ha = cube[ah]
    rth = sp('Bragg_angle', ac, [Ha[:, 0], Ha[:, 1], Ha[:, 2]], [aE])
    rq = sp('Q_scattering_amplitude', ac, [Ha[:, 0], Ha[:, 1], Ha[:, 2]], [aE, ar])
    for c, cr in enumerate(crs):
        m = ac == c
        judge_q(ck, st, cr, K, Ha[m], aE[m], ar[m], rth.v[m], rth.err[m], rq.v[m], rq.err[m])
    nq = len(qc)
    Qf, Qferr = rq.v[nq:], rq.err[nq:]
    Hf = cube[fh]
    nzf = (Hf != 0).any(axis=1)
    Qok = ~Qferr & np.isfinite(Qf)
    qused = np.where(Qok, Qf, 0.0)
    # structure factors
    nf = len(fc)
    rep = lambda a, n: np.repeat(a, n)
    FL = np.tile(FLAGS_A, (nf, 1)); n12 = len(FLAGS)
    rF = sp('Crystal_F_H_StructureFactor_Partial', rep(fc, n12),
            [rep(Hf[:, 0], n12), rep(Hf[:, 1], n12), rep(Hf[:, 2], n12), FL[:, 0], FL[:, 1], FL[:, 2]], [rep(fE, n12), rep(fD, n12), rep(fr, n12)])
    FLm = np.tile(FLAGS_A[NOFPP], (nf, 1)); n6 = len(NOFPP)
    rFm = sp('Crystal_F_H_StructureFactor_Partial', rep(fc, n6),
             [rep(-Hf[:, 0], n6), rep(-Hf[:, 1], n6), rep(-Hf[:, 2], n6), FLm[:, 0], FLm[:, 1], FLm[:, 2]], [rep(fE, n6), rep(fD, n6), rep(fr, n6)])
    rFf = sp('Crystal_F_H_StructureFactor', fc, [Hf[:, 0], Hf[:, 1], Hf[:, 2]], [fE, fD, fr])
    F = (rF.v3[:, 0] + 1j * rF.v3[:, 1]).reshape(nf, n12); Ferr = rF.err.reshape(nf, n12)
    Fm = (rFm.v3[:, 0] + 1j * rFm.v3[:, 1]).reshape(nf, n6); Fmerr = rFm.err.reshape(nf, n6)
    Ff = rFf.v3[:, 0] + 1j * rFf.v3[:, 1]; Fferr = rFf.err
    # atomic factors for every (case, species of the crystal)
    zc, zz = [], []
    for k in range(nf):
        for z in crs[fc[k]].Zs:
            zc.append(k); zz.append(z)
    zc, zz = np.array(zc), np.array(zz)
    raf = L.special('Atomic_Factors', i=[zz], d=[fE[zc], qused[zc], fD[zc]])
    rff, rfi, rfii = L.multi([('FF_Rayl', zz, qused[zc]), ('Fi', zz, fE[zc]), ('Fii', zz, fE[zc])])
    for c, cr in enumerate(crs):
        m = np.nonzero(fc == c)[0]
        nz_ = len(cr.Zs)
        zm = np.isin(zc, m)
        sh = (len(m), nz_)
        af = raf.v3[zm].reshape(sh + (3,)); aferr = raf.err[zm].reshape(sh)
        # Atomic_Factors was only meaningful where Q exists
        use = Qok[m]
        judge_atomic(ck, st, cr.Zs, fE[m][use], qused[m][use], fD[m][use], af[use], aferr[use], raf.aux[zm].reshape(sh)[use],
                     rff.v[zm].reshape(sh)[use], rff.err[zm].reshape(sh)[use], rfi.v[zm].reshape(sh)[use], rfi.err[zm].reshape(sh)[use],
                     rfii.v[zm].reshape(sh)[use], rfii.err[zm].reshape(sh)[use])
        afok = ~aferr.any(axis=1)
        judge_sf(ck, st, cr, Hf[m], fE[m], fD[m], fr[m], Qok[m], afok, af, F[m], Ferr[m], Fm[m], Fmerr[m], Ff[m], Fferr[m],
                 lambda i, k, m=m: rF.msg(m[i] * n12 + k))
        if c % 9 == 0 and len(m):
            good = np.nonzero(Qok[m] & afok & nzf[m] & ~Ferr[m][:, K222])[0]
            if len(good):
                i = good[len(good) // 2]
                st['samples'].append(dict(call='Crystal_F_H_StructureFactor_Partial(%s, %.6g, %d,%d,%d, %g, %g, 2,2,2)' % (cr.label, fE[m][i], Hf[m][i][0], Hf[m][i][1], Hf[m][i][2], fD[m][i], fr[m][i]),
                                          returned=[F[m][i, K222].real, F[m][i, K222].imag], atoms=len(cr.Z), Q=float(Qf[m][i])))

    # ---- the same requests WITHOUT an error slot: bit-identical values, i.e. 0 / (0,0) wherever the call fails (no reflection,
    # missing atomic data, ...) -----------------------------------------------------------------------------------------------
    Ln = execlib.Lib(L.config, env={'XV_NOSLOT': '1'})
    sp0 = lambda fn, ci, icols, dcols=(): Ln.special(fn, s=[names[c] for c in np.asarray(ci).tolist()], i=icols, d=dcols)
    noslot = [('Bragg_angle', rb, sp0('Bragg_angle', bc, [cube[bh, 0], cube[bh, 1], cube[bh, 2]], [bE]), bc, cube[bh], bE),
              ('Q_scattering_amplitude', rq, sp0('Q_scattering_amplitude', ac, [Ha[:, 0], Ha[:, 1], Ha[:, 2]], [aE, ar]), ac, Ha, aE),
              ('Crystal_F_H_StructureFactor_Partial', rF, sp0('Crystal_F_H_StructureFactor_Partial', rep(fc, n12),
               [rep(Hf[:, 0], n12), rep(Hf[:, 1], n12), rep(Hf[:, 2], n12), FL[:, 0], FL[:, 1], FL[:, 2]], [rep(fE, n12), rep(fD, n12), rep(fr, n12)]), rep(fc, n12), np.repeat(Hf, n12, axis=0), rep(fE, n12)),
              ('Crystal_F_H_StructureFactor', rFf, sp0('Crystal_F_H_StructureFactor', fc, [Hf[:, 0], Hf[:, 1], Hf[:, 2]], [fE, fD, fr]), fc, Hf, fE)]
    # ... and through the by-pointer entry points the bindings use (Crystal_F_H_StructureFactor2 / _Partial2): the same bits again
    sph = lambda fn, ci, icols, dcols=(): L.special(fn, s=[names[c] for c in np.asarray(ci).tolist()], i=icols, d=dcols, helper=True)
    noslot += [('Crystal_F_H_StructureFactor_Partial2', rF, sph('Crystal_F_H_StructureFactor_Partial', rep(fc, n12),
                [rep(Hf[:, 0], n12), rep(Hf[:, 1], n12), rep(Hf[:, 2], n12), FL[:, 0], FL[:, 1], FL[:, 2]], [rep(fE, n12), rep(fD, n12), rep(fr, n12)]), rep(fc, n12), np.repeat(Hf, n12, axis=0), rep(fE, n12)),
               ('Crystal_F_H_StructureFactor2', rFf, sph('Crystal_F_H_StructureFactor', fc, [Hf[:, 0], Hf[:, 1], Hf[:, 2]], [fE, fD, fr]), fc, Hf, fE)]
    for fn, a, b, cc_, HH_, EE_ in noslot:
        va, vb = a.v3[:, :2], b.v3[:, :2]
        bad = np.nonzero(((va.view('u8') != vb.view('u8')) & ~(np.isnan(va) & np.isnan(vb))).any(axis=1))[0]
        st['noslot'] = st.get('noslot', 0) + len(a)
        for k in bad[:2]:
            ck.violation(('c13:%s:differs-from-the-by-value-function' if fn.endswith('2') else 'c13:%s:value-without-error-slot-differs') % fn,
                         ('%s(%s, E=%.17g, hkl=%r, ...) returns %r, the by-value function %r (%s)' if fn.endswith('2') else '%s(%s, E=%.17g, hkl=%r, ...) returns %r without an error slot and %r (%s) with one') % (
                             fn, names[int(cc_[k])], float(EE_[k]), HH_[k].tolist(), vb[k].tolist(), va[k].tolist(), a.msg(k) if a.err[k] else 'success'),
                         dict(function=fn, crystal=names[int(cc_[k])], hkl=HH_[k].tolist(), energy=float(EE_[k]), error_slot=False))

    # ---- invalid arguments: an error, never a number -----------------------------------------------------------------------
    bad_flags = np.array([f for f in itertools.product(range(-1, 4), repeat=3) if tuple(f) not in set(FLAGS)], int)
    pick = np.arange(nc) if not quick else np.arange(0, nc, 3)
    cc = np.repeat(pick, len(bad_flags)); BF = np.tile(bad_flags, (len(pick), 1))
    r = sp('Crystal_F_H_StructureFactor_Partial', cc, [1, 1, 1, BF[:, 0], BF[:, 1], BF[:, 2]], [30.0, 1.0, 1.0])
    st['invalid'] += len(r)
    for k in np.nonzero(r.ok)[0][:3]:
        ck.violation('c13:F_H:invalid-flags-accepted', 'flags (%d,%d,%d) are not among the documented values but a structure factor was returned' % tuple(BF[k]),
                     dict(crystal=names[cc[k]], flags=BF[k].tolist(), returned=r.v3[k, :2].tolist()))
    badD = np.array([0.0, -0.5, -1e-300, -np.inf])
    badE = np.array([0.0, -1.0, -1e-300, -np.inf])
    cc = np.repeat(np.arange(nc), len(badD))
    for fn, icols, dcols, what in (
            ('Crystal_F_H_StructureFactor', [1, 1, 1], [30.0, np.tile(badD, nc), 1.0], 'debye<=0'),
            ('Crystal_F_H_StructureFactor', [1, 1, 1], [np.tile(badE, nc), 1.0, 1.0], 'energy<=0'),
            ('Crystal_F_H_StructureFactor_Partial', [1, 1, 1, 2, 2, 2], [30.0, np.tile(badD, nc), 1.0], 'debye<=0'),
            ('Crystal_F_H_StructureFactor_Partial', [1, 1, 1, 2, 2, 2], [np.tile(badE, nc), 1.0, 1.0], 'energy<=0'),
            ('Bragg_angle', [1, 1, 1], [np.tile(badE, nc)], 'energy<=0'),
            ('Q_scattering_amplitude', [1, 1, 1], [np.tile(badE, nc), 1.0], 'energy<=0')):
        r = sp(fn, cc, icols, dcols)
        st['invalid'] += len(r)
        for k in np.nonzero(r.ok)[0][:2]:
            arg = (badD if what == 'debye<=0' else badE)[k % len(badD)]
            ck.violation('c13:%s:%s-accepted' % (fn, what), '%s accepted %s = %r and returned %r' % (fn, what.split('<')[0], float(arg), r.v3[k, :2].tolist()),
                         dict(crystal=names[cc[k]], hkl=[1, 1, 1], argument=float(arg)))
    st['samples'].append(dict(call='Crystal_dSpacing(%s,1,1,1)' % crs[0].label, returned=float(dl[0, cidx[(1, 1, 1)]]),
                              reference=float(crs[0].geo.dspacing(np.array([[1, 1, 1]]))[0][0])))
    return crs


# ------------------------------------------------------------------------------------------------------------
# generated triclinic cells (ctypes)
# ------------------------------------------------------------------------------------------------------------
def gen_cell(rng, k, goodZ, nodata):
    tries = 0
    while True:
        tries += 1
        abc = np.round(rng.uniform(3.0, 14.0, 3), 4)
        ang = np.round(rng.uniform(50.0, 130.0, 3), 3)
        if k % 5 == 3 and tries == 1:       # long-period cells (multilayers, soaps, clays, proteins): with hard X-rays the Bragg angles are tiny
            abc = np.round(abc * [rng.uniform(8, 40), rng.uniform(1, 30), rng.uniform(8, 40)], 3)
        if k % 5 == 1 and tries == 1:       # a symmetric choice that turns out degenerate (flat cell) is replaced by a random cell on the next pass
            # cells with symmetry: equal angles (rhombohedral, primitive fcc 60, primitive bcc 109.47), equal edges, hexagonal, monoclinic,
            # orthogonal - exactly equal arguments are where a special-cased formula would sit
            kind = (k // 5) % 7
            if kind in (0, 1):
                ang[:] = [60.0, 109.4712206, 33.5, 70.5287794, 85.0, 100.0, 120.0 - 1e-3, 55.0][(k // 35) % 8]
            elif kind == 2:
                ang[1] = ang[0]
            elif kind == 3:
                ang[:] = [90.0, 90.0, 120.0]; abc[1] = abc[0]
            elif kind == 4:
                ang[0] = ang[2] = 90.0
            elif kind == 5:
                ang[:] = 90.0
                # ... and angles that are NEARLY right (a snapped cosine shows only here)
                ang[(k // 35) % 3] = [90.00005, 89.99995, 90.0000001, 90.001, 89.9999][(k // 105) % 5]
            if kind in (1, 6):
                abc[:] = abc[0]
        g = Geometry(abc[0], abc[1], abc[2], ang[0], ang[1], ang[2])
        if g.w > 0.04:              # (V/abc)^2: stay away from degenerate (flat) cells, where every formula is ill-conditioned
            break
    n = int(rng.integers(1, 25))
    species = rng.choice(goodZ, int(rng.integers(1, 5)))
    if k % 3 == 2 and not nodata:
        # structured pairs: elements whose atomic numbers differ by a power of two collide in any bit-packed / hashed per-element cache
        z0 = int(rng.choice(goodZ)); gs = set(int(z) for z in goodZ)
        mates = [z0 + d for d in (32, -32, 64, -64, 16, -16, 8, 1) if (z0 + d) in gs]
        if mates:
            species = np.array([z0, mates[(k // 3) % len(mates)]])
            n = max(n, 2)
    Z = rng.choice(species, n)
    if len(species) == 2 and k % 3 == 2:
        Z[0], Z[-1] = species[0], species[1]
    if nodata:
        Z[int(rng.integers(0, n))] = int(rng.choice(NODATA_Z))
    occ = np.where(rng.random(n) < 0.3, 1.0, np.round(rng.uniform(0.05, 1.0, n), 3))
    xyz = rng.uniform(-0.5, 1.5, (n, 3))
    atoms = [(int(Z[i]), float(occ[i]), float(xyz[i, 0]), float(xyz[i, 1]), float(xyz[i, 2])) for i in range(n)]
    return 'xvgen%05d' % k, [float(x) for x in abc] + [float(x) for x in ang], atoms


def val_err(r):
    if isinstance(r, xl.Err):
        return (0.0, True, r.message)
    return (r, False, None)


def generated_workload(ck, st, X, K, rng, tier, goodZ):
    quick = tier == 'quick'
    ncell = 120 if quick else 2500
    Eg = energies()
    lib = X.lib
    for k in range(ncell):
        nodata = (k % 10 == 9)
        via_array = (k % 4 == 1)
        name, cell, atoms = gen_cell(rng, k, goodZ, nodata)
        cs = X.make_crystal(name, cell, atoms, 0.0)
        arr = None; p = None
        v = X.cnum('Crystal_UnitCellVolume', cs)
        V, Verr, _ = val_err(v)
        if via_array:
            # the route by which a user crystal obtains its stored volume from the library itself
            e = C.POINTER(xl.XrlError)()
            arr = lib.Crystal_ArrayInit(4, C.byref(e)); X._err(e)
            # the array already holds crystals that sort before and after the new one, and the caller's .volume is deliberately
            # wrong: the library is documented to store the recomputed volume
            for other in ('zzzz_tail_%d' % k, 'AAAA_head_%d' % k):
                oc = X.make_crystal(other, [4.0 + k % 3, 5.0, 6.0, 90.0, 90.0 + k % 7, 90.0], [(14, 1.0, 0.0, 0.0, 0.0)], 1.0)
                lib.Crystal_AddCrystal(C.byref(oc), arr, None)
            cs.volume = [0.0, 64.0, -1.0][k % 3]
            e = C.POINTER(xl.XrlError)()
            rc = lib.Crystal_AddCrystal(C.byref(cs), arr, C.byref(e)) if arr else 0
            err = X._err(e)
            X.calls += 2
            g = X.get_crystal(name, arr) if rc == 1 else xl.Err(-1, 'Crystal_AddCrystal returned %r (%r)' % (rc, err))
            if isinstance(g, xl.Err):
                ck.violation('c13:user-crystal:add-or-get-failed', 'a valid generated crystal could not be added to / fetched from a user array: %r' % (g,),
                             dict(crystal=name, cell=cell, atoms=atoms))
                if arr: lib.Crystal_ArrayFree(arr)
                continue
            p, d = g
            cr = Crystal(name, d, False)
            want = dict(name=name, a=cell[0], b=cell[1], c=cell[2], alpha=cell[3], beta=cell[4], gamma=cell[5], atoms=atoms)
            if any(d[kk] != want[kk] for kk in want):
                ck.violation('c13:user-crystal:fields-changed', 'the crystal fetched from the user array differs from the one that was added',
                             dict(added=want, fetched=d))
            judge_volume(ck, st, cr, V, Verr, d['volume'], 'added-crystal')
            ref = p
        else:
            cs.volume = V
            d = dict(name=name, a=cell[0], b=cell[1], c=cell[2], alpha=cell[3], beta=cell[4], gamma=cell[5], volume=V, atoms=atoms)
            cr = Crystal(name, d, False)
            judge_volume(ck, st, cr, V, Verr, None, 'generated')
            ref = cs
        st['generated_cells'] += 1
        try:
            _one_cell(ck, st, X, K, rng, cr, ref, Eg, quick, nodata)
        finally:
            if p is not None:
                X.free_crystal(p)
            if arr:
                lib.Crystal_ArrayFree(arr)
        if k % 30 == 2:
            st['samples'].append(dict(crystal=name, cell=cell, n_atoms=len(atoms), volume=V, reference_volume=cr.geo.V, via_user_array=via_array))


def _one_cell(ck, st, X, K, rng, cr, ref, Eg, quick, nodata):
    # ---- d-spacings: random reflections, their inverses and multiples -----------------------------------------------------
    nb = 30 if quick else 40
    base = rng.integers(-6, 7, (nb, 3))
    small = rng.integers(-2, 3, (8, 3))
    hset = {(0, 0, 0)}
    for h in np.concatenate([base, small, np.array(FIXED_H[:4])]).tolist():
        hset.add(tuple(h)); hset.add((-h[0], -h[1], -h[2]))
        for n in (2, 3, 4, 5, 6):
            if max(abs(x) for x in h) * n <= 6:
                hset.add((n * h[0], n * h[1], n * h[2]))
    H = np.array(sorted(hset), int)
    res = [val_err(X.cnum('Crystal_dSpacing', ref, int(h[0]), int(h[1]), int(h[2]))) for h in H]
    d = np.array([r[0] for r in res]); derr = np.array([r[1] for r in res])
    judge_d(ck, st, cr, H, d, derr, pair_tables(H))
    hidx = {tuple(h): k for k, h in enumerate(H.tolist())}
    nzi = np.array([k for k, h in enumerate(H.tolist()) if h != [0, 0, 0]])
    # ---- Bragg: 10 reflections x (6 energies + both sides of the threshold) ------------------------------------------------
    hb = rng.choice(nzi, 10, replace=False)
    off = int(rng.integers(0, 2))
    bh, bE = [], []
    for j in hb:
        Eth = K / (2 * d[j]) if (not derr[j] and d[j] > 0) else 1.0
        for e in list(Eg[off::2]) + [Eth * (1 - 1e-6), Eth * (1 + 1e-6)]:
            bh.append(j); bE.append(float(e))
    bh, bE = np.array(bh), np.array(bE)
    res = [val_err(X.cnum('Bragg_angle', ref, float(e), int(H[j][0]), int(H[j][1]), int(H[j][2]))) for j, e in zip(bh, bE)]
    th = np.array([r[0] for r in res]); therr = np.array([r[1] for r in res]); msgs = [r[2] for r in res]
    judge_bragg(ck, st, cr, K, H[bh], bE, d[bh], ~derr[bh], th, therr, lambda k: msgs[k])
    # ---- Q: 4 reflections x 3 energies x 4 rel -----------------------------------------------------------------------------------
    qh, qE, qr = [], [], []
    for j in hb[:4]:
        for e in rng.choice(Eg, 3, replace=False):
            for r in (0.0, 0.5, 1.0, 1.5):
                qh.append(j); qE.append(float(e)); qr.append(r)
    # ---- structure-factor cases: 3 reflections + forward x 2 energies x 2 (D, rel) -------------------------------------------
    fh, fE, fD, fr = [], [], [], []
    cand = [hidx[h] for h in FIXED_H[:4]] + hb[:6].tolist()
    for j in list(rng.choice(cand, 3, replace=False)) + [hidx[(0, 0, 0)]]:
        for e in rng.choice(Eg[3:], 2, replace=False):
            for t in rng.choice(len(DREL), 2, replace=False):
                fh.append(int(j)); fE.append(float(e)); fD.append(DREL[t][0]); fr.append(DREL[t][1])
    nq = len(qh)
    ah, aE, ar = np.array(qh + fh), np.array(qE + fE), np.array(qr + fr)
    Ha = H[ah]
    rt = [val_err(X.cnum('Bragg_angle', ref, float(e), int(h[0]), int(h[1]), int(h[2]))) for h, e in zip(Ha, aE)]
    rq = [val_err(X.cnum('Q_scattering_amplitude', ref, float(e), int(h[0]), int(h[1]), int(h[2]), float(r))) for h, e, r in zip(Ha, aE, ar)]
    tha = np.array([r[0] for r in rt]); thaerr = np.array([r[1] for r in rt])
    Q = np.array([r[0] for r in rq]); Qerr = np.array([r[1] for r in rq])
    judge_q(ck, st, cr, K, Ha, aE, ar, tha, thaerr, Q, Qerr)
    Hf = Ha[nq:]; fE, fD, fr = np.array(fE), np.array(fD), np.array(fr)
    Qf, Qferr = Q[nq:], Qerr[nq:]
    Qok = ~Qferr & np.isfinite(Qf)
    qused = np.where(Qok, Qf, 0.0)
    nf = len(Hf); nz_ = len(cr.Zs)
    F = np.zeros((nf, len(FLAGS)), complex); Ferr = np.zeros((nf, len(FLAGS)), bool); Fmsgs = {}
    Fm = np.zeros((nf, len(NOFPP)), complex); Fmerr = np.zeros((nf, len(NOFPP)), bool)
    Ff = np.zeros(nf, complex); Fferr = np.zeros(nf, bool)
    af = np.zeros((nf, nz_, 3)); aferr = np.zeros((nf, nz_), bool); afret = np.zeros((nf, nz_), int)
    ff = np.zeros((nf, nz_)); fferr = np.zeros((nf, nz_), bool); fi = np.zeros((nf, nz_)); fierr = np.zeros((nf, nz_), bool)
    fii = np.zeros((nf, nz_)); fiierr = np.zeros((nf, nz_), bool)
    for i in range(nf):
        h = [int(x) for x in Hf[i]]
        for k, fl in enumerate(FLAGS):
            r = X.cnum('Crystal_F_H_StructureFactor_Partial', ref, fE[i], h[0], h[1], h[2], fD[i], fr[i], *fl)
            if isinstance(r, xl.Err):
                Ferr[i, k] = True; Fmsgs[(i, k)] = r.message
            else:
                F[i, k] = r
        for kk, k in enumerate(NOFPP):
            r = X.cnum('Crystal_F_H_StructureFactor_Partial', ref, fE[i], -h[0], -h[1], -h[2], fD[i], fr[i], *FLAGS[k])
            if isinstance(r, xl.Err):
                Fmerr[i, kk] = True
            else:
                Fm[i, kk] = r
        r = X.cnum('Crystal_F_H_StructureFactor', ref, fE[i], h[0], h[1], h[2], fD[i], fr[i])
        if isinstance(r, xl.Err):
            Fferr[i] = True
        else:
            Ff[i] = r
        for j, z in enumerate(cr.Zs):
            r = X.atomic_factors(int(z), fE[i], float(qused[i]), fD[i])
            if isinstance(r, xl.Err):
                aferr[i, j] = True
            else:
                afret[i, j] = r[0]; af[i, j] = r[1:]
            for name, arg, out, oerr in (('FF_Rayl', float(qused[i]), ff, fferr), ('Fi', fE[i], fi, fierr), ('Fii', fE[i], fii, fiierr)):
                r = X.num(name, int(z), float(arg))
                if isinstance(r, xl.Err):
                    oerr[i, j] = True
                else:
                    out[i, j] = r
    use = Qok
    judge_atomic(ck, st, cr.Zs, fE[use], qused[use], fD[use], af[use], aferr[use], afret[use], ff[use], fferr[use], fi[use], fierr[use], fii[use], fiierr[use])
    afok = ~aferr.any(axis=1)
    if nodata and afok.any():
        ck.violation('c13:Atomic_Factors:value-without-data', 'Atomic_Factors succeeded for every species of a cell that holds an element without form-factor data',
                     dict(cr.witness()))
    judge_sf(ck, st, cr, Hf, fE, fD, fr, Qok, afok, af, F, Ferr, Fm, Fmerr, Ff, Fferr, lambda i, k: Fmsgs.get((i, k)))


# ------------------------------------------------------------------------------------------------------------
def symmetry_sweep(ck, st, X, K, rng):
    """Every combination of exact equalities a special-cased formula could be keyed on: five edge patterns (a=b, b=c, a=c, a=b=c, none) x each of the
    three angles from {60, 90, 120, two generic values}: 625 cells, d-spacings of a dozen reflections (and the Bragg angle of three) against the
    metric reference.  A shortcut valid for alpha = beta = 90 but taken for alpha = beta shows in the cells where the two differ."""
    vals = [60.0, 90.0, 120.0, 84.5, 101.3]
    Hs = np.array([(1, 0, 0), (0, 1, 0), (0, 0, 1), (1, 1, 0), (1, 0, 1), (0, 1, 1), (1, 1, 1), (2, -1, 0), (-1, 2, 3), (3, 1, -2), (2, 2, 1), (-3, 0, 2), (0, 0, 0)])
    a0, b0, c0 = 4.913, 6.271, 5.405
    n = 0
    for ep, (a, b, c) in enumerate(((a0, a0, c0), (a0, b0, b0), (a0, b0, a0), (a0, a0, a0), (a0, b0, c0))):
        for al in vals:
            for be in vals:
                for ga in vals:
                    with np.errstate(all='ignore'):
                        g = Geometry(a, b, c, al, be, ga)
                    if not (g.w > 0.04):
                        continue
                    name = 'xvsym%d_%g_%g_%g' % (ep, al, be, ga)
                    cs = X.make_crystal(name, [a, b, c, al, be, ga], [(14, 1.0, 0.0, 0.0, 0.0), (8, 0.5, 0.25, 0.5, 0.75)], 0.0)
                    V, Verr, _ = val_err(X.cnum('Crystal_UnitCellVolume', cs))
                    cs.volume = V
                    d_ = dict(name=name, a=a, b=b, c=c, alpha=al, beta=be, gamma=ga, volume=V, atoms=[(14, 1.0, 0.0, 0.0, 0.0), (8, 0.5, 0.25, 0.5, 0.75)])
                    cr = Crystal(name, d_, False)
                    judge_volume(ck, st, cr, V, Verr, None, 'generated')
                    res = [val_err(X.cnum('Crystal_dSpacing', cs, int(h[0]), int(h[1]), int(h[2]))) for h in Hs]
                    d = np.array([r[0] for r in res]); derr = np.array([r[1] for r in res])
                    judge_d(ck, st, cr, Hs, d, derr, pair_tables(Hs))
                    bj = np.array([6, 8, 10]); bE = np.array([17.44, 8.04778, 30.0])
                    rb = [val_err(X.cnum('Bragg_angle', cs, float(e), int(Hs[j][0]), int(Hs[j][1]), int(Hs[j][2]))) for j, e in zip(bj, bE)]
                    judge_bragg(ck, st, cr, K, Hs[bj], bE, d[bj], ~derr[bj], np.array([r[0] for r in rb]), np.array([r[1] for r in rb]), lambda k_: rb[k_][2])
                    n += 1
    st['symmetric_cells'] = n
    return n


def inplace_probe(ck, st, X, rng, tier):
    """A caller-owned struct EDITED IN PLACE between two calls with bit-identical energy and Miller triple (a strain / thermal-expansion scan), and a
    crystal freed and re-fetched (the next one tends to land at the same address): every function must answer for the CONTENT it is handed, i.e.
    exactly what it answers for a fresh struct at another address holding the same numbers."""
    n = bad = 0
    E, H = 8.04778, (1, 1, 1)
    fns = (('Crystal_dSpacing', lambda: (H[0], H[1], H[2])), ('Bragg_angle', lambda: (E, H[0], H[1], H[2])), ('Q_scattering_amplitude', lambda: (E, H[0], H[1], H[2], 1.0)),
           ('Crystal_F_H_StructureFactor', lambda: (E, H[0], H[1], H[2], 1.0, 1.0)), ('Crystal_F_H_StructureFactor_Partial', lambda: (E, H[0], H[1], H[2], 1.0, 1.0, 2, 2, 2)))
    names = ['Si', 'Ge', 'Diamond', 'AlphaQuartz', 'LaB6', 'GaAs', 'InSb', 'Beryl'][:8 if tier == 'thorough' else 5]

    def show(v):
        return repr(v)
    for rep in range(2):
        for nm in names:
            g = X.get_crystal(nm)
            if isinstance(g, xl.Err):
                continue
            p, d = g
            cs = p.contents
            for step in range(5):
                f = 1.0 + 0.002 * step
                cs.a, cs.b, cs.c = d['a'] * f, d['b'] * f, d['c'] * f                     # edited in place: same address, other cell
                vol = X.cnum('Crystal_UnitCellVolume', p)
                if isinstance(vol, xl.Err):
                    break
                cs.volume = vol
                fresh = X.make_crystal(nm, (cs.a, cs.b, cs.c, d['alpha'], d['beta'], d['gamma']), d['atoms'], volume=vol)
                for fn, args in fns:
                    v1 = X.cnum(fn, p, *args()); v2 = X.cnum(fn, fresh, *args()); n += 2
                    if show(v1) != show(v2) and not (isinstance(v1, xl.Err) and isinstance(v2, xl.Err)):
                        bad += 1
                        if bad <= 4:
                            ck.violation('c13:%s:answer-follows-the-address-not-the-content' % fn, '%s on %s with the cell scaled in place by %g gives %s; a fresh struct holding the same numbers gives %s' % (fn, nm, f, show(v1), show(v2)),
                                         dict(function=fn, crystal=nm, cell_scale=f, energy=E, reflection=list(H), edited_in_place=show(v1), fresh_struct=show(v2)))
            X.free_crystal(p)               # ... the next crystal fetched tends to get this address
    st['inplace_edit_calls'] = n
    return n


def main(tier):
    ck = common.Check('C13', tier)
    mac = refdata.Macros()
    K = float(mac['KEV2ANGST'])
    rng = np.random.default_rng([13, ck.seed])
    L = execlib.Lib('shipped', 'plain')
    X = xl.XL('shipped')
    st = dict(vol=0, d=0, d_compared=0, d_skipped_illconditioned=0, d_inversion_pairs=0, d_scaling_pairs=0, bragg=0, bragg_reflection=0,
              bragg_noreflection=0, bragg_undecided=0, q=0, q_compared=0, q_noreflection=0, atomic_factors=0, atomic_factors_compared=0,
              sf=0, sf_compared=0, sf_expected_error=0, sf_additivity=0, sf_friedel=0, sf_forward=0, invalid=0, generated_cells=0,
              samples=[], distinct=set(), worst=dict(volume_recomputed=0.0, volume_stored_builtin=0.0, volume_stored_generated=0.0,
                                                     **{'volume_stored_added-crystal': 0.0}, d_builtin=0.0, d_generated=0.0, d_inversion=0.0,
                                                     d_scaling=0.0, bragg=0.0, q=0.0, sf_of_scale=0.0, sf_additivity_of_scale=0.0, sf_friedel_of_scale=0.0))
    # elements for which the library reports atomic factors (only used to choose the atoms of generated cells)
    Zall = np.arange(1, 121)
    r = L.special('Atomic_Factors', i=[Zall], d=[10.0, 0.5, 1.0])
    goodZ = Zall[r.ok]
    if len(goodZ) < 50:
        raise common.Inconclusive('Atomic_Factors works for %d elements only' % len(goodZ))
    if np.isin(NODATA_Z, goodZ).any():
        raise common.Inconclusive('the elements assumed to lack form-factor data have some: %r' % (np.intersect1d(NODATA_Z, goodZ),))
    builtin_workload(ck, st, L, X, K, rng, tier)
    generated_workload(ck, st, X, K, rng, tier, goodZ)
    symmetry_sweep(ck, st, X, K, rng)
    inplace_probe(ck, st, X, rng, tier)
    # a host thread in a directed rounding mode gets the same geometry and structure factors up to rounding
    _names = ['Si', 'Ge', 'AlphaAlumina', 'AlphaQuartz', 'LaB6', 'Muscovite', 'GaAs', 'Beryl']
    _n, _h = [x.ravel() for x in np.meshgrid(np.arange(len(_names)), np.arange(6), indexing='ij')]
    _H = np.array([(1, 1, 1), (2, 2, 0), (0, 0, 0), (3, 1, 1), (-1, -1, -1), (4, 0, 0)])[_h]
    _s = [_names[k] for k in _n]
    st['calls_in_directed_rounding_modes'] = execlib.rounding_modes(ck, 'c13', 'shipped', [], special=[
        ('Crystal_dSpacing', dict(s=_s, i=[_H[:, 0], _H[:, 1], _H[:, 2]])), ('Bragg_angle', dict(s=_s, i=[_H[:, 0], _H[:, 1], _H[:, 2]], d=[17.44])),
        ('Q_scattering_amplitude', dict(s=_s, i=[_H[:, 0], _H[:, 1], _H[:, 2]], d=[17.44, 1.0])),
        ('Crystal_F_H_StructureFactor', dict(s=_s, i=[_H[:, 0], _H[:, 1], _H[:, 2]], d=[17.44, 1.0, 1.0])),
        ('Crystal_F_H_StructureFactor_Partial', dict(s=_s, i=[_H[:, 0], _H[:, 1], _H[:, 2], 2, 2, 0], d=[17.44, 1.0, 1.0]))])
    if st['sf_compared'] < 1000 or st['bragg_reflection'] < 1000 or st['d_compared'] < 10000:
        raise common.Inconclusive('too few comparisons: %d structure factors, %d Bragg angles, %d d-spacings' % (st['sf_compared'], st['bragg_reflection'], st['d_compared']))
    if st['bragg_noreflection'] < 100 or st['sf_expected_error'] < 20:
        raise common.Inconclusive('the no-reflection regime was hardly entered: %d Bragg requests, %d structure factors' % (st['bragg_noreflection'], st['sf_expected_error']))
    if st['generated_cells'] < 10:
        raise common.Inconclusive('only %d generated cells were usable' % st['generated_cells'])
    distinct = st.pop('distinct'); samples = st.pop('samples'); worst = st.pop('worst')
    classes = {}
    for (_, cl, _) in distinct:
        classes[cl] = classes.get(cl, 0) + 1
    cov = dict(evaluations=int(L.calls + X.calls), distinct_nontrivial=len(distinct),
               rule='distinct (crystal, reflection class in {reflection, forward (0,0,0), no-reflection, no-atomic-factors}, flag combination) triples for which '
                    'a structure factor was compared with the explicit sum (or verified to be an error); d-spacings, Bragg angles, Q and volumes are counted separately in `counts`',
               samples=samples[:12], exhaustive=False, counts=st, classes=classes, worst_relative_difference=worst,
               tolerances=dict(double=TOL, float_table=VOL_FLOAT, amp_max=AMP_MAX), elements_with_atomic_factors=int(len(goodZ)), KEV2ANGST=K)
    return ck.finish(cov, ['reference = metric tensor in long double + explicit structure-factor sum in numpy, independent of src/crystal_diffraction.c',
                           'phase convention exp(+2 pi i h.r), f0_flag=1 means the literal 1 (header text), f\'\' = -Fii*D: conventions the validated prototype established',
                           'atomic factors entering the explicit sum are the ones Atomic_Factors reports; they are tied to FF_Rayl/Fi/Fii separately',
                           'generated cells carry volume = Crystal_UnitCellVolume (direct structs) or the volume stored by Crystal_AddCrystal (every fourth cell); '
                           'a user struct with volume 0 is outside the precondition stated in the header'])
