"""C08 - Kissel XRF cross sections equal the cascade model built from the public primitives.

Offline cascade-model checker.  Everything that decides comes from executions of the library built from the
current tree (configs 'kissel' and 'shipped'):

  primitives (fetched once per element, in bulk):  EdgeEnergy, FluorYield, AugerYield, CosKronTransProb (14),
      RadRate (all line macros), AugerRate (all *_AUGER macros), AtomicWeight, CS_Photo_Partial (K..M5 x grid)
  reference (numpy, this file):
      P_s^var(E) = CS_Photo_Partial(Z,s,E) + sum_{t<s, same principal shell} CK(t->s) P_t^var
                   + [rad|full]    sum_{u inner} P_u^var * FluorYield(u) * RadRate(u-s line)
                   + [nonrad|full] sum_{u inner} P_u^var * AugerYield(u) * sum_{u-XY} m(s;X,Y) AugerRate(u-XY)
      (P_s = 0 when the shell's own partial photo-ionisation is unavailable, i.e. below its edge)
      shell value = FluorYield(s) * P_s ; line value = shell value * RadRate(line)
      m(s;X,Y) is the number of final holes X,Y equal to s, read off the NAME of the *_AUGER macro.
  compared with CS(b)_FluorShell_Kissel* / CS(b)_FluorLine_Kissel* (5 variants x 2 units) and with the exported
  P<shell>_{pure,rad_cascade,auger_cascade,full_cascade}_kissel helpers, at 1e-10 relative.

Tolerance: every term of the reference is positive; the reference sums <= ~1000 doubles per transfer constant
(relative error <= 1000 * 1.1e-16 ~ 1e-13) through a chain of depth <= 9 (< 1e-12).  The library's generated tables
keep 11 significant digits ('%.10E'), so a transfer constant tabulated at build time can differ from the same sum over
the (already rounded) public primitives by <= 5e-11 relative; a positive combination of such terms inherits that bound.
5e-11 + 1e-12 < 1e-10.  The no-cascade and radiative variants involve no tabulated constant (observed agreement
<= 1e-15), so they are held to 1e-12 (<= ~30 positive terms, chain depth 9).

Relations on library outputs alone use 1e-13 (a few ulp: the variants may add the same positive terms in another order).
"""
import re, threading
import numpy as np
from concurrent.futures import ThreadPoolExecutor
from .. import common, refdata, execlib, build

SH = ['K', 'L1', 'L2', 'L3', 'M1', 'M2', 'M3', 'M4', 'M5']
NS = len(SH)
INNER = 4                                   # K, L1, L2, L3 are the sources of inter-shell transfer
VARS = ['none', 'rad', 'nonrad', 'full']
SUFFIX = {'none': '_no_Cascade', 'rad': '_Radiative_Cascade', 'nonrad': '_Nonradiative_Cascade', 'full': '_Cascade', 'alias': ''}
HELPER = {'none': 'pure', 'rad': 'rad_cascade', 'nonrad': 'auger_cascade', 'full': 'full_cascade'}
TOL = 1e-10          # Auger-fed variants (transfer constants tabulated at build time with 11 digits)
TOL_RT = 1e-12       # no-cascade / radiative variants: everything is computed at run time from the same primitives
RTOL = 1e-13


def tol_of(var):
    return TOL if var in ('nonrad', 'full', 'alias') else TOL_RT
# LB: the 11 LB<n>_LINE aliases of the public header plus L3N6/L3N7 (the 13 members tests/test-kissel_pe.c documents)
LB_EXTRA = ['L3N6', 'L3N7']
KEY_M1 = 'c08:auger-transfer:K->M1:missing-terms'
KEY_M1P = 'c08:auger-transfer:K->M1:propagated'
KEY_MM = 'c08:FluorLine:intra-M-line-rejected'


def principal(s):
    return s[0]


class Model:
    """names -> structure, from the compiled macro probe only"""

    def __init__(self, mac):
        self.mac = mac
        sh = mac.by_suffix('_SHELL')
        self.shell_val = [sh[s] for s in SH]
        # lines: value -> canonical name (initial shell + final level), by the NAME of the macro
        ln = mac.by_suffix('_LINE')
        self.line_vals = sorted(set(ln.values()))
        self.line_shell = {}                 # value -> initial shell name (may be N.., O.., P..)
        self.line_name = {}
        for n, v in ln.items():
            m = re.match(r'^(K|L[123]|M[1-5]|N[1-7]|O[1-7]|P[1-5]|Q[1-3])([KLMNOPQ]\d*)$', n)
            if m:
                self.line_shell[v] = m.group(1)
                self.line_name.setdefault(v, n)
        self.grp = {g: ln[g] for g in ('KA', 'KB', 'LA', 'LB')}
        for g in ('KA', 'KB'):
            self.line_shell[self.grp[g]] = 'K'
        self.line_shell[self.grp['LA']] = 'L3'
        for g, v in self.grp.items():
            self.line_name[v] = g
        self.lb_members = sorted({ln[n] for n in ln if re.match(r'^LB\d+$', n)} | {ln[n] for n in LB_EXTRA})
        self.lo, self.hi = min(self.line_vals), max(self.line_vals)
        self.line_axis = list(range(self.lo - 3, self.hi + 4))      # all macros + 3 on either side
        # Coster-Kronig: F<L|M>[P]<i><j>_TRANS -> (from, to)
        self.ck = {}
        for n, v in mac.by_suffix('_TRANS').items():
            m = re.match(r'^F([LM])P?(\d)(\d)$', n)
            if m:
                self.ck.setdefault((m.group(1) + m.group(2), m.group(1) + m.group(3)), []).append(v)
        self.trans_vals = sorted(v for vs in self.ck.values() for v in vs)
        # Auger: <initial>_<hole1><hole2>_AUGER
        au = mac.by_suffix('_AUGER')
        self.auger_vals = sorted(set(au.values()))
        self.auger = []
        for n, v in au.items():
            m = re.match(r'^(K|L[123]|M[1-5])_([KLMNOPQ]\d)([KLMNOPQ]\d)$', n)
            if not m:
                raise common.Inconclusive('cannot parse Auger macro name %r' % n)
            self.auger.append((n, v, m.group(1), m.group(2), m.group(3)))

    def mult(self, u, t, exclude=None):
        """vector over auger_vals: number of holes in t left by transitions with initial vacancy u"""
        idx = {v: k for k, v in enumerate(self.auger_vals)}
        w = np.zeros(len(self.auger_vals))
        for n, v, i, a, b in self.auger:
            if i != u:
                continue
            if exclude and exclude(n, i, a, b):
                continue
            w[idx[v]] += (a == t) + (b == t)
        return w


def fetch(L, name, Z, vals):
    ZZ, VV = np.meshgrid(Z, np.asarray(vals), indexing='ij')
    r = L.call(name, ZZ.ravel(), VV.ravel())
    COUNT[L.config] = COUNT.get(L.config, 0) + ZZ.size
    v = np.where(r.ok, r.v, 0.0).reshape(ZZ.shape)
    return v, r.ok.reshape(ZZ.shape)


class Prim:
    def __init__(self, L, md, Z):
        self.Z = Z
        self.edge, self.edge_ok = fetch(L, 'EdgeEnergy', Z, md.shell_val)
        self.fy, self.fy_ok = fetch(L, 'FluorYield', Z, md.shell_val)
        self.ay, _ = fetch(L, 'AugerYield', Z, md.shell_val)
        ckv, _ = fetch(L, 'CosKronTransProb', Z, md.trans_vals)
        self.ckv = {t: ckv[:, k] for k, t in enumerate(md.trans_vals)}
        self.rr, self.rr_ok = fetch(L, 'RadRate', Z, md.line_axis)
        self.ar, self.ar_ok = fetch(L, 'AugerRate', Z, md.auger_vals)
        r = L.call('AtomicWeight', Z)
        self.aw = np.where(r.ok, r.v, np.nan)
        self.lcol = {v: k for k, v in enumerate(md.line_axis)}


def constants(md, pr, exclude=None):
    """transfer constants per element: ck[(u,t)], rad[(u,t)], aug[(u,t)] (arrays over Z)"""
    ln = md.mac.by_suffix('_LINE')
    ck, rad, aug = {}, {}, {}
    for ti, t in enumerate(SH):
        for ui, u in enumerate(SH[:ti]):
            if principal(u) == principal(t):
                ck[(u, t)] = sum(pr.ckv[c] for c in md.ck.get((u, t), []))
            elif ui < INNER:
                line = ln.get(u + t)
                rad[(u, t)] = pr.fy[:, ui] * pr.rr[:, pr.lcol[line]] if line is not None else np.zeros(len(pr.Z))
                aug[(u, t)] = pr.ay[:, ui] * (pr.ar @ md.mult(u, t, exclude))
    return ck, rad, aug


def recursion(var, photo, photo_ok, zi, ck, rad, aug, forced=None):
    """P_s^var for every grid point; forced = {shell index: array} replaces the computed value of that shell"""
    P = []
    for ti, t in enumerate(SH):
        p = photo[:, ti].copy()
        for ui, u in enumerate(SH[:ti]):
            if principal(u) == principal(t):
                p += ck[(u, t)][zi] * P[ui]
            elif ui < INNER and var != 'none':
                if var in ('rad', 'full'):
                    p += P[ui] * rad[(u, t)][zi]
                if var in ('nonrad', 'full'):
                    p += P[ui] * aug[(u, t)][zi]
        p = np.where(photo_ok[:, ti], p, 0.0)
        if forced is not None and ti in forced:
            p = np.where(np.isnan(forced[ti]), p, forced[ti])
        P.append(p)
    return np.array(P).T                      # (N, 9)


def energy_grid(pr, ks, tier, rng):
    """per element: candidate energies (label, E); quick keeps 8 of them"""
    Zs, Es, labs = [], [], []
    for k, Z in enumerate(pr.Z):
        cand = []
        edges = [(SH[s], pr.edge[k, s]) for s in range(NS) if pr.edge_ok[k, s]]
        for s, e in edges:
            cand.append((s + '-edge-', e * (1 - 1e-9)))
            cand.append((s + '-edge+', e * (1 + 1e-9)))
            cand.append((s + '-edge=', e))                  # the very double EdgeEnergy returns
        srt = sorted(set(e for _, e in edges))
        for a, b in zip(srt[:-1], srt[1:]):
            cand.append(('mid', 0.5 * (a + b)))
        fixed = []
        if srt:
            fixed.append(('1.1xK' if pr.edge_ok[k, 0] else '1.1xtop-edge', 1.1 * (pr.edge[k, 0] if pr.edge_ok[k, 0] else srt[-1])))
        fixed.append(('100keV', 100.0))
        for s_ in (0, 3):                                   # E bit-equal to the K and the L3 edge: where the cascades of the L and M shells switch on
            if pr.edge_ok[k, s_]:
                fixed.append((SH[s_] + '-edge=', float(pr.edge[k, s_])))
        d = ks.get(int(Z))
        if d:
            for s in range(NS):
                if s in d['partial']:
                    e = float(d['partial'][s][0])
                    cand.append((SH[s] + '-kissel-edge-', e * (1 - 1e-9)))
                    cand.append((SH[s] + '-kissel-edge+', e * (1 + 1e-9)))
                    cand.append((SH[s] + '-kissel-edge=', e))
            if 0 in d['partial']:
                top = float(np.exp(d['partial'][0][1][-1, 0]))
                cand.append(('top-', top * (1 - 1e-9)))
                cand.append(('top+', top * (1 + 1e-6)))
            # the sub-shell tables do not all end at the same energy: between two table ends some shells can still be ionised and others not
            tops = sorted({float(np.exp(d['partial'][s][1][-1, 0])) for s in range(NS) if s in d['partial']})
            for a_, b_ in zip(tops[:-1], tops[1:]):
                fixed.append(('between-table-ends', 0.5 * (a_ + b_)))
                cand.append(('table-end+', a_ * (1 + 1e-9)))
                cand.append(('table-end-', b_ * (1 - 1e-9)))
        if tier == 'quick':
            n = max(0, 8 - len(fixed))
            if len(cand) > n:
                cand = [cand[j] for j in sorted(rng.choice(len(cand), n, replace=False))]
        else:
            cand += [('1keV', 1.0), ('3keV', 3.0), ('10keV', 10.0), ('30keV', 30.0)]
        for lab, e in fixed + cand:
            Zs.append(int(Z)); Es.append(float(e)); labs.append(lab)
    return np.array(Zs), np.array(Es), labs


def relerr(v, ref):
    with np.errstate(divide='ignore', invalid='ignore'):
        return np.where(ref != 0, np.abs(v - ref) / np.abs(ref), np.inf)


COUNT, COUNT_LOCK = {}, threading.Lock()


class Msgs:
    """error messages of a (possibly chunked) batch"""

    def __init__(self, parts, chunk):
        self.parts, self.chunk = parts, chunk            # parts: [(message index array, message table)]

    def msg(self, k):
        idx, tab = self.parts[int(k) // self.chunk]
        m = int(idx[int(k) % self.chunk])
        return tab[m] if 0 <= m < len(tab) else None


def pcall(L, jobs, chunk=400000):
    """run [(name, args...)] in a few executor processes in parallel; returns list of (ok, v, messages)"""
    def one(j):
        n = max(np.size(a) for a in j[1:])
        args = [np.broadcast_to(np.asarray(a), (n,)) for a in j[1:]]
        oks, vs, parts = [], [], []
        for o in range(0, n, chunk):
            r = L.call(j[0], *[a[o:o + chunk] for a in args])
            oks.append(r.ok); vs.append(r.v.copy()); parts.append((r.msgidx.copy(), r.msgs))
        with COUNT_LOCK:
            COUNT[L.config] = COUNT.get(L.config, 0) + n
        return np.concatenate(oks), np.concatenate(vs), Msgs(parts, chunk)
    with ThreadPoolExecutor(max_workers=min(8, common.NCPU)) as ex:
        return list(ex.map(one, jobs))


def main(tier):
    ck = common.Check('C08', tier)
    COUNT.clear()
    mac = refdata.Macros()
    md = Model(mac)
    avog = float(mac.all['AVOGNUM'])
    zmax = mac.int.get('ZMAX', 120)
    Z = np.arange(1, zmax + 1)
    rng = np.random.default_rng(common.seed())
    st = dict(calls=0, compared=0, expected_fail=0, worst_rel=0.0, samples=[], per_function={}, cells=set(), worst_by_key={}, finding_stats={})
    if len(md.lb_members) != 13:
        raise common.Inconclusive('expected 13 documented LB members, the public macros give %d' % len(md.lb_members))

    # ------------------------------------------------------------------ kissel configuration
    L = execlib.Lib('kissel', 'plain')
    pr = Prim(L, md, Z)
    ks = refdata.kissel('kissel')
    gZ, gE, glab = energy_grid(pr, ks, tier, rng)
    N = len(gZ)
    zi = gZ - 1
    ZZ, SS = np.meshgrid(np.arange(N), np.arange(NS), indexing='ij')
    r = L.call('CS_Photo_Partial', gZ[ZZ.ravel()], np.array(md.shell_val)[SS.ravel()], gE[ZZ.ravel()])
    COUNT['kissel'] = COUNT.get('kissel', 0) + ZZ.size
    photo_ok = r.ok.reshape(N, NS)
    photo = np.where(r.ok, r.v, 0.0).reshape(N, NS)

    cK, cR, cA = constants(md, pr)
    # diagnosis model for finding #14 (labels the key only, never decides pass/fail):
    # K->M1 Auger transfer without the transitions K-M1X with X in N..Q
    _, _, cA_h = constants(md, pr, exclude=lambda n, i, a, b: i == 'K' and a == 'M1' and b[0] in 'NOPQ')
    dropped = [n for n, v, i, a, b in md.auger if i == 'K' and a == 'M1' and b[0] in 'NOPQ']
    P = {v: recursion(v, photo, photo_ok, zi, cK, cR, cA) for v in VARS}
    Ph = {v: recursion(v, photo, photo_ok, zi, cK, cR, cA_h) for v in VARS}      # diagnosis model
    regime = photo_ok.sum(axis=1)               # energy bucket: number of shells K..M5 that can be ionised

    # which transfer terms were non-zero in the reference (every cascade path exercised?)
    terms = set()
    for (u, t), c in cK.items():
        if (c[zi] * P['full'][:, SH.index(u)] * photo_ok[:, SH.index(t)]).any():
            terms.add('ck:%s>%s' % (u, t))
    for nm, cc in (('rad', cR), ('aug', cA)):
        for (u, t), c in cc.items():
            if (c[zi] * P['full'][:, SH.index(u)] * photo_ok[:, SH.index(t)]).any():
                terms.add('%s:%s>%s' % (nm, u, t))

    # ---- exported helpers, fed with the reference values of the inner shells ------------------------
    hjobs, hmeta = [], []
    for var in VARS:
        for ti in range(1, NS):
            t = SH[ti]
            name = 'P%s_%s_kissel' % (t, HELPER[var])
            if name not in L.fns:
                raise common.Inconclusive('helper %s is not in the dispatch table' % name)
            if var == 'none':
                ins = [ui for ui in range(ti) if principal(SH[ui]) == principal(t)]
            else:
                ins = list(range(ti))
            if len(L.fns[name]['sig']) != 2 + len(ins):
                raise common.Inconclusive('helper %s has an unexpected signature %s' % (name, L.fns[name]['sig']))
            hjobs.append((name, gZ, gE) + tuple(P[var][:, ui] for ui in ins))
            hmeta.append((var, ti, name))
    hres = pcall(L, hjobs)
    libM1 = {}
    for (var, ti, name), (ok, v, res) in zip(hmeta, hres):
        ref = P[var][:, ti]
        if ti == 4:
            libM1[var] = np.where(ok, v, np.nan)
        exp_ok = ref > 0
        st['per_function'][name] = dict(calls=int(N), compared=int((exp_ok & ok).sum()))
        bad = np.nonzero(exp_ok != ok)[0]
        for k in bad[:3]:
            ck.violation('c08:%s:status' % name, '%s %s where the reference %s' % (name, 'succeeded' if ok[k] else 'failed', 'expects a value' if exp_ok[k] else 'expects failure (shell not ionised)'),
                         dict(call='%s(%d,%.17g,<reference inner P>)' % (name, gZ[k], gE[k]), returned=float(v[k]), expected=float(ref[k]), config='kissel'))
        both = exp_ok & ok
        rel = np.where(both, relerr(v, np.where(ref == 0, 1, ref)), 0.0)
        st['compared'] += int(both.sum())
        hdev = np.nonzero(both & (rel > tol_of(var)))[0]
        for k in hdev[np.argsort(-rel[hdev], kind='stable')]:
            key = 'c08:%s:wrong-value' % name
            if ti == 4 and var in ('nonrad', 'full'):
                # diagnosis: does the value equal the recursion without the K-M1[N..Q] terms?
                alt = Ph[var][k, 4]
                if abs(v[k] - alt) <= TOL * abs(alt):
                    key = KEY_M1
            st['worst_by_key'][key] = max(st['worst_by_key'].get(key, 0.0), float(rel[k]))
            ck.violation(key, '%s returned %r, cascade recursion over the public primitives gives %r (rel %.3e)' % (name, float(v[k]), float(ref[k]), rel[k]),
                         dict(call='%s(%d,%.17g,%s)' % (name, gZ[k], gE[k], ','.join('%.17g' % P[var][k, ui] for ui in range(ti))), returned=float(v[k]),
                              expected=float(ref[k]), config='kissel', dropped_terms=dropped if key == KEY_M1 else None))

    # reference "given the library's own M1 value" (M2..M5 only) and the diagnosis model for M1 itself
    P_own = {}
    for var in VARS:
        Po = recursion(var, photo, photo_ok, zi, cK, cR, cA, forced={4: libM1[var]})
        Po[:, 4] = Ph[var][:, 4]
        P_own[var] = Po

    def own_M1_is_the_finding(var, k):
        a, b = libM1[var][k], Ph[var][k, 4]
        return (not np.isnan(a)) and b != 0 and abs(a - b) <= TOL * abs(b)

    def label(kind, var, rv, si, v, alt, k):
        """key of a deviation: the K->M1 finding (M1: missing terms, M2..M5: propagated) or a generic one"""
        if rv in ('nonrad', 'full') and si >= 4 and alt != 0 and abs(v - alt) <= TOL * abs(alt):
            # the deviation vanishes under the diagnosis; for M2..M5 (reference given the library's own M1 value)
            # that M1 value must itself be the K->M1 finding
            if si == 4:
                return KEY_M1
            if own_M1_is_the_finding(rv, k):
                return KEY_M1P
        return 'c08:%s:wrong-value:%s:%s' % (kind, var, SH[si])

    # ---- shell functions ------------------------------------------------------------------------------
    sZ, sS, sE = gZ[ZZ.ravel()], np.array(md.shell_val)[SS.ravel()], gE[ZZ.ravel()]
    variants = ['none', 'rad', 'nonrad', 'full', 'alias']
    jobs = [('%s_FluorShell_Kissel%s' % (u, SUFFIX[v]), sZ, sS, sE) for u in ('CS', 'CSb') for v in variants]
    res = pcall(L, jobs)
    out = {}
    for (fname, *_), (ok, v, rs) in zip(jobs, res):
        out[fname] = (ok.reshape(N, NS), v.reshape(N, NS), rs)
    below = pr.edge_ok[zi] & (gE[:, None] < pr.edge[zi])          # (N, 9): E strictly below the public edge energy
    fy = pr.fy[zi]                                                 # (N, 9)
    aw = pr.aw[zi]
    for var in variants:
        rv = 'full' if var == 'alias' else var
        ref = fy * P[rv]
        alt = fy * P_own[rv]
        for unit in ('CS', 'CSb'):
            fname = '%s_FluorShell_Kissel%s' % (unit, SUFFIX[var])
            ok, v, rs = out[fname]
            sc = (aw / avog)[:, None] if unit == 'CSb' else 1.0
            compare(ck, st, md, 'FluorShell', fname, var, rv, ok, v, ref * sc, alt * sc, gZ, gE, np.array(md.shell_val), np.arange(NS)[None, :].repeat(N, 0),
                    regime, label, rs, photo_ok[:, 0])
    relations(ck, st, 'FluorShell', out, variants, gZ, gE, np.array(md.shell_val), np.arange(NS)[None, :].repeat(N, 0), below, aw, avog, None)
    k_ok = out['CS_FluorShell_Kissel_Cascade'][0][:, 0]
    elements_with_K = len(set(gZ[k_ok].tolist()))
    if elements_with_K < 90:
        raise common.Inconclusive('only %d elements give a successful K-shell value in the kissel configuration (regenerated table or build broken)' % elements_with_K)

    # ---- line functions -------------------------------------------------------------------------------
    lax = np.array(md.line_axis)
    NL = len(lax)
    lshell = np.array([SH.index(md.line_shell[v]) if md.line_shell.get(v) in SH else -1 for v in lax])   # -1: outside K..M5 / not a macro
    lbv = md.grp['LB']
    lb_cols = [pr.lcol[v] for v in md.lb_members]
    ZL, LL = np.meshgrid(np.arange(N), np.arange(NL), indexing='ij')
    lZ, lL, lE = gZ[ZL.ravel()], lax[LL.ravel()], gE[ZL.ravel()]
    jobs = [('%s_FluorLine_Kissel%s' % (u, SUFFIX[v]), lZ, lL, lE) for u in ('CS', 'CSb') for v in variants]
    res = pcall(L, jobs)
    lout = {}
    for (fname, *_), (ok, v, rs) in zip(jobs, res):
        lout[fname] = (ok.reshape(N, NL), v.reshape(N, NL), rs)
    rrl = pr.rr[zi]                                                # (N, NL)
    lsh_idx = np.where(lshell >= 0, lshell, 0)

    def line_ref(shellval):
        x = shellval[:, lsh_idx] * rrl * (lshell >= 0)[None, :]
        x[:, pr.lcol[lbv]] = x[:, lb_cols].sum(axis=1)
        return x
    lshell_lab = lshell.copy()
    lshell_lab[pr.lcol[lbv]] = -2                                  # LB mixes L1, L2, L3
    below_l = below[:, lsh_idx] & (lshell >= 0)[None, :]
    for var in variants:
        rv = 'full' if var == 'alias' else var
        ref = line_ref(fy * P[rv])
        alt = line_ref(fy * P_own[rv])
        for unit in ('CS', 'CSb'):
            fname = '%s_FluorLine_Kissel%s' % (unit, SUFFIX[var])
            ok, v, rs = lout[fname]
            sc = (aw / avog)[:, None] if unit == 'CSb' else 1.0
            compare(ck, st, md, 'FluorLine', fname, var, rv, ok, v, ref * sc, alt * sc, gZ, gE, lax, lshell_lab[None, :].repeat(N, 0), regime, label, rs, photo_ok[:, 0])
    relations(ck, st, 'FluorLine', lout, variants, gZ, gE, lax, lshell_lab[None, :].repeat(N, 0), below_l, aw, avog, lshell)

    # ---- the variants are independent functions of (Z, shell/line, E): the SAME arguments handed to the ten variants back to back
    # (random variant order, one process, no shuffling) give the bits each variant gives in a process that calls nothing else
    Lq = execlib.Lib('kissel', 'plain', shuffle=False)
    inter = {}
    for what, outs, (aZ, aX, aE) in (('FluorShell', out, (sZ, sS, sE)), ('FluorLine', lout, (lZ, lL, lE))):
        names = ['%s_%s_Kissel%s' % (u, what, SUFFIX[v]) for u in ('CS', 'CSb') for v in variants]
        n = len(aZ)
        pick = np.sort(rng.choice(n, size=min(n, 30000 if tier == 'quick' else 400000), replace=False))
        reqs = []
        for fname in names:
            rq, _ = Lq.build(fname, aZ[pick], aX[pick], aE[pick])
            reqs.append(rq)
        allr = np.stack(reqs, axis=1)                                   # (picked, 10)
        order = np.argsort(rng.random(allr.shape), axis=1)              # variant order differs from tuple to tuple
        seq = np.take_along_axis(allr, order, axis=1).reshape(-1)
        rr_ = Lq.run(seq)
        COUNT['kissel'] = COUNT.get('kissel', 0) + len(seq)
        got_v = np.empty(allr.shape); got_ok = np.empty(allr.shape, bool)
        np.put_along_axis(got_v, order, rr_.v.reshape(allr.shape), axis=1)
        np.put_along_axis(got_ok, order, rr_.ok.reshape(allr.shape), axis=1)
        nbad = 0
        for c, fname in enumerate(names):
            ok0, v0, _ = outs[fname]
            ok0, v0 = ok0.ravel()[pick], v0.ravel()[pick]
            bad = np.nonzero((got_v[:, c].view('u8') != v0.view('u8')) | (got_ok[:, c] != ok0))[0]
            nbad += len(bad)
            for k in bad[:2]:
                pos = int(np.nonzero(order[k] == c)[0][0])
                prev = names[int(order[k][pos - 1])] if pos else '(another argument tuple)'
                ck.violation('c08:%s:value-depends-on-preceding-variant-call' % fname,
                             '%s(%d,%d,%.17g) = %r right after %s with the same arguments, %r in a process that calls only this variant' % (
                                 fname, int(aZ[pick][k]), int(aX[pick][k]), float(aE[pick][k]), float(got_v[k, c]), prev, float(v0[k])),
                             dict(call='%s(%d,%d,%.17g)' % (fname, int(aZ[pick][k]), int(aX[pick][k]), float(aE[pick][k])), preceded_by=prev, config='kissel'))
        # ... and the bits the library gives when the PROJECT's build system makes it (meson: its compiler arguments), inside a host that defines
        # the library's internal names itself (build.hostile_host)
        pm = pick[np.sort(rng.choice(len(pick), size=min(len(pick), 4000 if tier == 'quick' else 60000), replace=False))]
        nbad_m = ncalls_m = 0
        hosts = [(pb, {'LD_PRELOAD': build.hostile_host('kissel')['so']}) for pb in build.EXEC_BUILDS]      # default options / release without assertions / plain char unsigned / static archive
        # ... and the monitor's build in hosts with another floating-point set-up: sticky status flags left raised by the host's own arithmetic,
        # x87 precision control single, invalid / divide-by-zero / overflow exceptions trapping
        hosts += [('plain', {'XV_FPFLAGS': '1'}), ('plain', {'XV_X87PC': '24'}), ('plain', {'XV_FPTRAP': '1'})]
        for pb, henv in hosts:
            try:
                Lm = execlib.Lib('kissel', pb, shuffle=False, env=henv)
                resm = Lm.multi([(fname, aZ[pm], aX[pm], aE[pm]) for fname in names])
                for fname, rm in zip(names, resm):
                    ok0, v0, _ = outs[fname]
                    ok0, v0 = ok0.ravel()[pm], v0.ravel()[pm]
                    ncalls_m += len(pm)
                    bad = np.nonzero((rm.v.view('u8') != v0.view('u8')) | (rm.ok != ok0))[0]
                    nbad_m += len(bad)
                    for k in bad[:2]:
                        if pb == 'plain':
                            hk = sorted(henv)[0]
                            ck.violation('c08:%s:result-depends-on-the-floating-point-set-up-of-the-host:%s' % (fname, hk), '%s(%d,%d,%.17g) = %r (%s) in a host with %s, %r (%s) otherwise' % (
                                fname, int(aZ[pm][k]), int(aX[pm][k]), float(aE[pm][k]), float(rm.v[k]), 'ok' if rm.ok[k] else 'error: %s' % rm.msg(k), henv, float(v0[k]), 'ok' if ok0[k] else 'error'),
                                dict(call='%s(%d,%d,%.17g)' % (fname, int(aZ[pm][k]), int(aX[pm][k]), float(aE[pm][k])), config='kissel', host=henv))
                            continue
                        ck.violation('c08:%s:project-build-differs-from-the-monitor-build%s' % (fname, '' if pb == 'meson' else ':' + pb[6:]),
                                     '%s(%d,%d,%.17g) = %r (%s) in the library built by meson (%s), %r (%s) in the monitor\'s build of the same sources' % (
                                         fname, int(aZ[pm][k]), int(aX[pm][k]), float(aE[pm][k]), float(rm.v[k]), 'ok' if rm.ok[k] else 'error: %s' % rm.msg(k), execlib.PB_WHAT[pb], float(v0[k]), 'ok' if ok0[k] else 'error'),
                                     dict(call='%s(%d,%d,%.17g)' % (fname, int(aZ[pm][k]), int(aX[pm][k]), float(aE[pm][k])), config='kissel', build=pb))
            except execlib.ExecCrash as ex:
                ck.violation('c08:%s:project-build-dies%s' % (what, '' if pb == 'meson' else ':' + pb.replace('meson-', '') + ('' if pb != 'plain' else ':' + sorted(henv)[0])),
                             'the %s variants kill the executor (rc %d) in %s: %s' % (what, ex.rc, ('the library built by meson (%s)' % execlib.PB_WHAT[pb]) if pb != 'plain' else 'a host with %r' % henv, ex.tail[-200:]),
                             dict(config='kissel', build=pb, host=henv))
        COUNT['kissel'] = COUNT.get('kissel', 0) + ncalls_m
        inter[what] = dict(tuples=int(len(pick)), calls=int(len(seq)), differing=int(nbad), calls_in_the_project_build=int(ncalls_m), differing_in_the_project_build=int(nbad_m))
    st['per_function']['interleaved-variants'] = inter

    # ------------------------------------------------------------------ shipped configuration: everything fails
    Ls = execlib.Lib('shipped', 'plain')
    e2, e2ok = fetch(Ls, 'EdgeEnergy', Z, md.shell_val)
    if not (np.array_equal(e2ok, pr.edge_ok) and np.array_equal(e2, pr.edge)):
        ck.violation('c08:EdgeEnergy:differs-between-configurations', 'EdgeEnergy differs between the shipped and the kissel data configuration', None)
    jobs = [('%s_FluorShell_Kissel%s' % (u, SUFFIX[v]), sZ, sS, sE) for u in ('CS', 'CSb') for v in variants]
    jobs += [('%s_FluorLine_Kissel%s' % (u, SUFFIX[v]), lZ, lL, lE) for u in ('CS', 'CSb') for v in variants]
    jobs += [j for j in hjobs]
    res = pcall(Ls, jobs)
    shipped_fail = 0
    for j, (ok, v, rs) in zip(jobs, res):
        fname = j[0]
        bad = np.nonzero(ok | (v != 0.0))[0]
        shipped_fail += int((~ok).sum())
        for k in bad[:3]:
            ck.violation('c08:%s:shipped-config-does-not-fail' % fname, '%s returned %r (%s) although the Kissel table of this configuration is empty' % (fname, float(v[k]), 'no error' if ok[k] else 'with an error'),
                         dict(call='%s(%s)' % (fname, ','.join('%.17g' % float(np.asarray(a)[k]) for a in j[1:])), config='shipped'))
    st['per_function']['shipped:all'] = dict(calls=int(COUNT['shipped']), failed_cleanly=shipped_fail)

    if st['compared'] < 1000:
        raise common.Inconclusive('too few successful comparisons: %d' % st['compared'])
    expected_terms = len(cK) + len(cR) + len(cA)
    cov = dict(evaluations=int(sum(COUNT.values())), evaluations_by_config=dict(COUNT), distinct_nontrivial=len(st['cells']),
               rule='distinct (variant, Z, shell, energy bucket = number of K..M5 shells that CS_Photo_Partial can ionise at E) cells in which a '
                    'CS_FluorShell_Kissel* value was compared successfully (1e-10) with the cascade recursion evaluated over the public primitives',
               samples=st['samples'][:12], exhaustive=False, grid_points=int(N), energies_per_element=round(N / len(Z), 2),
               successful_comparisons=st['compared'], expected_failures_confirmed=st['expected_fail'],
               elements_with_K_value=elements_with_K, worst_relative_difference_outside_findings=st['worst_rel'],
               worst_relative_difference_by_finding=st['worst_by_key'], finding_stats=finding_summary(st['finding_stats']),
               transfer_terms_nonzero=len(terms), transfer_terms_total=expected_terms, transfer_terms_never_nonzero=sorted(
                   set(['ck:%s>%s' % k for k in cK] + ['rad:%s>%s' % k for k in cR] + ['aug:%s>%s' % k for k in cA]) - terms),
               regimes_seen=sorted(set(regime.tolist())), line_macros=int(NL), auger_macros=len(md.auger_vals), lb_members=[md.line_name[v] for v in md.lb_members],
               k_m1_terms_of_the_diagnosis_model=dropped, per_function=st['per_function'], shipped_calls_failed_cleanly=shipped_fail)
    return ck.finish(cov, ['the reference recursion uses only public primitives of the same build; Auger multiplicities come from the names of the *_AUGER macros',
                           'LB members = the LB<n>_LINE aliases of the public header plus L3N6, L3N7 (the 13 lines documented by tests/test-kissel_pe.c)',
                           'an Auger/radiative/Coster-Kronig primitive that reports an error contributes 0',
                           'the K->M1 diagnosis model only chooses the key of a deviation; pass/fail is decided by the full recursion at 1e-10'])


def finding_summary(fs):
    out = {}
    for key, d in fs.items():
        e = dict(d)
        zs = sorted(e.pop('Z'))
        e['elements'] = dict(n=len(zs), min=zs[0], max=zs[-1])
        if 'lines' in e:
            e['lines'] = sorted(e['lines'])
        out[key] = e
    return out


def compare(ck, st, md, kind, fname, var, rv, ok, v, ref, alt, gZ, gE, axis, shell_of, regime, label, rs, kexc):
    """library (ok, v) vs reference ref on a (N, M) grid; axis = macro value per column; shell_of (N, M) = shell index for labels"""
    N, M = ok.shape
    exp_ok = ref > 0
    st['expected_fail'] += int((~exp_ok & ~ok).sum())
    pf = st['per_function'].setdefault(fname, dict(calls=0, compared=0))
    pf['calls'] += int(N * M)

    def call(k, j):
        return '%s(%d,%d,%.17g)' % (fname, gZ[k], axis[j], gE[k])

    def shname(k, j):
        s = shell_of[k, j]
        return SH[s] if s >= 0 else ('LB' if s == -2 else 'outside')
    bad = np.argwhere(~exp_ok & ok)
    for k, j in bad[:50]:
        what = 'returned 0 without an error' if v[k, j] == 0 else 'returned a value'
        ck.violation('c08:%s:value-where-failure-expected:%s:%s' % (kind, var, shname(k, j)),
                     '%s %s (%r) where the cascade model has no vacancy production / yield / rate' % (fname, what, float(v[k, j])),
                     dict(call=call(k, j), returned=float(v[k, j]), config='kissel'))
    bad = np.argwhere(exp_ok & ~ok)
    bad = bad[np.argsort(-ref[bad[:, 0], bad[:, 1]], kind='stable')] if len(bad) else bad      # most significant witness first
    nkey = {}
    for k, j in bad:
        key = 'c08:%s:error-where-value-expected:%s:%s' % (kind, var, shname(k, j))
        lname = md.line_name.get(int(axis[j]), '') if kind == 'FluorLine' else ''
        if re.match(r'^M[1-5]M[1-5]$', lname):
            # one root cause: the lines between two M sub-shells are refused although they have a radiative rate
            key = KEY_MM
            fs = st['finding_stats'].setdefault(key, dict(Z=set(), lines=set(), count=0, largest_expected=0.0))
            fs['Z'].add(int(gZ[k])); fs['lines'].add(lname); fs['count'] += 1
            fs['largest_expected'] = max(fs['largest_expected'], float(ref[k, j]))
        nkey[key] = nkey.get(key, 0) + 1
        if nkey[key] > 3 and key in ck.viol:
            ck.viol[key]['count'] += 1
            continue
        ck.violation(key, '%s failed (%s) where the cascade model gives %r (shell value x RadRate%s)' % (
            fname, rs.msg(k * M + j) if rs is not None else 'error', float(ref[k, j]), ' of ' + lname if lname else ''),
                     dict(call=call(k, j), expected=float(ref[k, j]), line=lname or None, config='kissel'))
    bad = np.argwhere(~ok & (v != 0))
    for k, j in bad[:5]:
        ck.violation('c08:%s:error-with-nonzero-result' % fname, '%s failed but returned %r' % (fname, float(v[k, j])), dict(call=call(k, j), config='kissel'))
    both = exp_ok & ok
    rel = np.where(both, relerr(v, np.where(exp_ok, ref, 1.0)), 0.0)
    pf['compared'] += int(both.sum())
    st['compared'] += int(both.sum())
    devs = np.argwhere(both & (rel > tol_of(var)))
    devs = devs[np.argsort(-rel[devs[:, 0], devs[:, 1]], kind='stable')] if len(devs) else devs   # largest deviation first
    isdev = np.zeros_like(both)
    seen = {}
    for k, j in devs:
        isdev[k, j] = True
        s = shell_of[k, j]
        key = label(kind, var, rv, s, v[k, j], alt[k, j], k) if s >= 0 else 'c08:%s:wrong-value:%s:%s' % (kind, var, shname(k, j))
        st['worst_by_key'][key] = max(st['worst_by_key'].get(key, 0.0), float(rel[k, j]))
        if key in (KEY_M1, KEY_M1P):
            fs = st['finding_stats'].setdefault(key, dict(Z=set(), worst={}, count=0, K_not_excited=0))
            fs['Z'].add(int(gZ[k])); fs['count'] += 1
            sv = '%s/%s/%s' % (kind, rv, shname(k, j))
            if rel[k, j] > fs['worst'].get(sv, (0.0,))[0]:
                fs['worst'][sv] = (float(rel[k, j]), call(k, j))
            fs['K_not_excited'] += int(regime[k] < NS and not kexc[k])
        seen[key] = seen.get(key, 0) + 1
        if seen[key] > 3 and key in ck.viol:
            ck.viol[key]['count'] += 1
            continue
        ck.violation(key, '%s returned %r, cascade recursion over the public primitives gives %r (rel %.3e)' % (fname, float(v[k, j]), float(ref[k, j]), rel[k, j]),
                     dict(call=call(k, j), returned=float(v[k, j]), expected=float(ref[k, j]), rel=float(rel[k, j]), shell=shname(k, j), variant=var, config='kissel'))
    good = both & ~isdev
    if good.any():
        st['worst_rel'] = max(st['worst_rel'], float(rel[good].max()))
    if kind == 'FluorShell' and fname.startswith('CS_') and var != 'alias':
        kk, jj = np.nonzero(good)
        st['cells'].update(zip([var] * len(kk), gZ[kk].tolist(), jj.tolist(), regime[kk].tolist()))
    if good.any() and len(st['samples']) < 40:
        idx = np.argwhere(good)
        k, j = idx[(len(st['samples']) * 7919 + 13) % len(idx)]
        st['samples'].append(dict(call=call(k, j), returned=float(v[k, j]), reference=float(ref[k, j]), rel=float(rel[k, j])))


def relations(ck, st, kind, out, variants, gZ, gE, axis, shell_of, below, aw, avog, lshell):
    """relations between library outputs alone"""
    def g(unit, var):
        return out['%s_%s_Kissel%s' % (unit, kind, SUFFIX[var])]

    def call(fname, k, j):
        return '%s(%d,%d,%.17g)' % (fname, gZ[k], axis[j], gE[k])

    def shname(k, j):
        s = shell_of[k, j]
        return SH[s] if s >= 0 else ('LB' if s == -2 else 'outside')
    for unit in ('CS', 'CSb'):
        # ordering none <= rad <= full, none <= nonrad <= full (values and success)
        for lo, hi in (('none', 'rad'), ('rad', 'full'), ('none', 'nonrad'), ('nonrad', 'full')):
            okl, vl, _ = g(unit, lo)
            okh, vh, _ = g(unit, hi)
            bad = np.argwhere((okl & ~okh) | (okl & okh & (vl > vh * (1 + RTOL))))
            for k, j in bad[:20]:
                ck.violation('c08:%s:order:%s>%s:%s' % (kind, lo, hi, shname(k, j)), '%s variant exceeds the %s variant (%r > %r)' % (lo, hi, float(vl[k, j]), float(vh[k, j])),
                             dict(call=call('%s_%s_Kissel%s' % (unit, kind, SUFFIX[lo]), k, j), other='%s_%s_Kissel%s' % (unit, kind, SUFFIX[hi]), config='kissel'))
        # all variants equal for the K shell / K lines
        okf, vf, _ = g(unit, 'full')
        isK = (shell_of == 0)
        for var in ('none', 'rad', 'nonrad'):
            okv, vv, _ = g(unit, var)
            bad = np.argwhere(isK & ((okv != okf) | (np.abs(vv - vf) > RTOL * np.abs(vf))))
            for k, j in bad[:20]:
                ck.violation('c08:%s:K-variants-differ:%s' % (kind, var), 'K-shell value depends on the cascade variant: %s %r vs full %r' % (var, float(vv[k, j]), float(vf[k, j])),
                             dict(call=call('%s_%s_Kissel%s' % (unit, kind, SUFFIX[var]), k, j), config='kissel'))
        # un-suffixed == full cascade
        oka, va, _ = g(unit, 'alias')
        bad = np.argwhere((oka != okf) | (va != vf))
        for k, j in bad[:20]:
            ck.violation('c08:%s:unsuffixed-differs-from-full:%s' % (kind, unit), 'un-suffixed function returned %r, _Cascade returned %r' % (float(va[k, j]), float(vf[k, j])),
                         dict(call=call('%s_%s_Kissel' % (unit, kind), k, j), config='kissel'))
    # barn twin = cm2/g * A / AVOGNUM
    for var in variants:
        okc, vc, _ = g('CS', var)
        okb, vb, _ = g('CSb', var)
        exp = vc * (aw / avog)[:, None]
        with np.errstate(invalid='ignore'):
            bad = np.argwhere((okc != okb) | (okc & okb & ~(np.abs(vb - exp) <= RTOL * np.abs(exp))))
        for k, j in bad[:20]:
            ck.violation('c08:%s:barn-twin:%s' % (kind, var), 'barn variant returned %r, cm2/g variant %r x AtomicWeight/AVOGNUM = %r' % (float(vb[k, j]), float(vc[k, j]), float(exp[k, j])),
                         dict(call=call('CSb_%s_Kissel%s' % (kind, SUFFIX[var]), k, j), config='kissel'))
    # failure below the shell's edge; failure for macros outside the K..M5 ranges
    for unit in ('CS', 'CSb'):
        for var in variants:
            ok, v, _ = g(unit, var)
            fname = '%s_%s_Kissel%s' % (unit, kind, SUFFIX[var])
            bad = np.argwhere(below & ok)
            for k, j in bad[:20]:
                ck.violation('c08:%s:value-below-edge:%s:%s' % (kind, var, shname(k, j)), '%s returned %r below the edge of the %s shell' % (fname, float(v[k, j]), shname(k, j)),
                             dict(call=call(fname, k, j), config='kissel'))
            if lshell is not None:
                outside = (shell_of == -1)
                bad = np.argwhere(outside & ok)
                for k, j in bad[:20]:
                    ck.violation('c08:%s:value-for-macro-outside-K..M5:%s' % (kind, var), '%s returned %r for a line macro outside the K..M5 line ranges' % (fname, float(v[k, j])),
                                 dict(call=call(fname, k, j), config='kissel'))
                st['per_function'].setdefault(fname, {})['outside_range_failed'] = int((outside & ~ok).sum())
