"""C02 - interpolated quantities follow the shipped spline and never extrapolate (offline spline checker).

Every table of every interpolated quantity is parsed independently (refdata), rounded through '%.10E' as the build
preserves it, and the library built from the current tree is probed at every knot, inside every interval, in the first
and last two intervals at five fractions, on both sides of both table ends (1e-12 .. 1e-3 relative), at non-positive
and huge arguments and for elements / shells without a table.  The reference is the cubic-spline formula evaluated in
extended precision in the documented space; the tolerance is the forward error bound of that formula (DESIGN C02):

    |v - ref| <= 1e-12 |ref| + 4e-15 S + D dx       S = |y_k|+|y_k+1| + (|y2_k|+|y2_k+1|) h^2/6
                                                    D = |y_k+1-y_k|/h + (|y2_k|+|y2_k+1|) h/3   (bound of |d ref/dx|)
                                                    dx = 2 ulp of the transformed argument (0 for linear tables)
(for the quantities tabulated as logarithms the same bound is the *relative* tolerance: 1e-12 + 4e-15 S + D dx).
"""
import math, os
import numpy as np
from .. import common, refdata, execlib

LD = np.longdouble
MUST_OK, MUST_ERR, EITHER = 0, 1, 2
R_NONPOS, R_BELOW, R_LOWBAND, R_INSIDE, R_HIGHBAND, R_ABOVE = range(6)
REGION = ['nonpositive', 'below', 'low-band', 'inside', 'high-band', 'above']
P_KNOT, P_MID, P_ENDFRAC, P_STRADDLE, P_SPECIAL, P_KEXT = range(6)
PKIND = ['knot', 'interior', 'end-interval', 'straddle', 'special', 'kissel-low-end']
FR_ALL = (1e-6, 0.25, 0.5, 0.75, 1 - 1e-6)
STRADDLE = (1e-12, 1e-9, 1e-6, 1e-3)
REL = float(os.environ.get('XV_C02_REL', '1e-12'))    # relative part of the value tolerance.  Both sides evaluate the same spline through the same 11-digit knots: the pinned
                                                      # tree stays below 7 % of the bound even with 2e-13; 1e-9 (the plan's value) let a 2e-10 slip in a coefficient pass
HIGH_BAND = 1e-7 * (1 + 1e-9)      # the library tolerates x - x_N <= 1e-7 in transformed space
EDGE_GUARD = 1e-9                  # |E/edge - 1| below this: either side of the edge is accepted
MAXW = 3                           # witnesses per key


def rnd_arr(a):
    """values as the build preserves them: printed with '%.10E' into the generated C file"""
    a = np.asarray(a, float)
    return np.array([float('%.10E' % v) for v in a.ravel().tolist()]).reshape(a.shape)


def _mlog(v):
    """natural log through the C library's log() (the same libm the library under test uses); nan where undefined"""
    v = np.asarray(v, float)
    out = np.full(v.shape, np.nan)
    m = v > 0
    out[m] = np.fromiter(map(math.log, v[m].tolist()), float, int(m.sum()))
    return out


# documented argument transforms: name -> (x = tx(arg), arg = itx(x), d arg / d x)
SPACES = {
    'ln1000': (lambda a: _mlog(a * 1000.0), lambda x: np.exp(x) / 1000.0, lambda a: a),
    'ln': (lambda a: _mlog(a), lambda x: np.exp(x), lambda a: a),
    'lnp1': (lambda a: _mlog(a + 1.0), lambda x: np.expm1(x), lambda a: a + 1.0),
    'id': (lambda a: np.array(a, float), lambda x: np.array(x, float), None),
}


class Quantity:
    """all tables of one public function, flattened"""

    def __init__(self, fname, space, expo, keys, tabs, zero='normal', edge=None, scale=None, group=None):
        self.fname, self.space, self.expo, self.zero = fname, space, expo, zero
        self.group = group or fname
        self.tx, self.itx, self.dadx = SPACES[space]
        self.keys = [np.asarray(k, int) for k in keys]
        self.nt = len(tabs)
        n = np.array([len(a) for a in tabs])
        if (n < 2).any():
            raise common.Inconclusive('%s: a table with fewer than 2 knots' % fname)
        self.n = n
        self.first = np.concatenate([[0], np.cumsum(n)[:-1]])
        self.last = self.first + n - 1
        A = rnd_arr(np.concatenate(tabs))
        self.X, self.Y, self.Y2 = A[:, 0].copy(), A[:, 1].copy(), A[:, 2].copy()
        self.M = M = len(self.X)
        self.T = np.repeat(np.arange(self.nt), n)
        X, T = self.X, self.T
        same = T[:-1] == T[1:]
        h = np.diff(X)
        self.hullint = np.zeros(M - 1, bool)
        self.hullknot = np.zeros(M, bool)
        self.hulls = []
        for g in np.nonzero(same & (h < 0))[0]:          # non-monotone step: bisection is not defined on its hull
            t = T[g]; lo, hi = X[g + 1], X[g]
            iv = np.arange(self.first[t], self.last[t])
            ov = (np.minimum(X[iv], X[iv + 1]) <= hi) & (np.maximum(X[iv], X[iv + 1]) >= lo)
            self.hullint[iv[ov]] = True
            kn = np.arange(self.first[t], self.last[t] + 1)
            self.hullknot[kn[(X[kn] >= lo) & (X[kn] <= hi)]] = True
            self.hulls.append((int(t), float(lo), float(hi)))
        self.good = same & (h > 0) & ~self.hullint
        dup = same & (h == 0)
        idx = np.arange(M)
        isstart = np.ones(M, bool); isstart[1:] = ~dup
        isend = np.ones(M, bool); isend[:-1] = ~dup
        self.gs = np.maximum.accumulate(np.where(isstart, idx, 0))
        self.ge = np.minimum.accumulate(np.where(isend, idx, M)[::-1])[::-1]
        self.ndup = int(dup.sum())
        self.edge = None if edge is None else np.asarray(edge, float)     # per table, nan = unknown (Kissel only)
        self.scale = None if scale is None else np.asarray(scale, float)  # library value = scale * exp(spline)
        self.x1, self.xN = X[self.first], X[self.last]
        if space == 'id':
            self.lowband = np.zeros(self.nt)
        else:
            self.lowband = 4 * np.spacing(np.maximum(np.abs(self.x1), 1e-3))

    # -- probes ----------------------------------------------------------------------------------------------
    def hit(self, x):
        """argument whose transform is (as nearly as the grid allows) x"""
        a = self.itx(x)
        if self.space == 'id':
            return a
        for _ in range(4):
            xe = self.tx(a)
            m = np.isfinite(xe) & (xe != x)
            if not m.any():
                break
            a = np.where(m, a + (x - xe) * self.dadx(a), a)
        return a

    def probes(self, fracs, knots=True, mids=True, ends=True, straddle=True, special=True, rng=None):
        X, T = self.X, self.T
        out = []

        def add(t, arg, kind, kA, kB=None, j=None):
            t = np.asarray(t, int)
            n = len(t)
            out.append((t, np.asarray(arg, float), np.full(n, kind), np.asarray(kA, int),
                        np.full(n, -1) if kB is None else np.asarray(kB, int), np.full(n, -1) if j is None else np.asarray(j, int)))
        if knots:
            j = np.nonzero(~self.hullknot)[0]
            gs, ge, t = self.gs[j], self.ge[j], T[j]
            vl = gs > self.first[t]
            vl[vl] = self.good[gs[vl] - 1]
            vr = ge < self.last[t]
            vr[vr] = self.good[ge[vr]]
            add(t, self.hit(X[j]), P_KNOT, np.where(vl, gs - 1, -1), np.where(vr, ge, -1), j)
            # duplicated abscissae once more, on the neighbouring doubles whose transform is still exactly the knot (several arguments map onto one abscissa)
            dj = np.nonzero(gs != ge)[0]
            if len(dj) and self.space != 'id':
                a0 = self.hit(X[j[dj]])
                for step in (-3, -2, -1, 1, 2, 3):
                    a = a0.copy()
                    for _ in range(abs(step)):
                        a = np.nextafter(a, np.inf if step > 0 else -np.inf)
                    m = self.tx(a) == X[j[dj]]
                    if m.any():
                        add(t[dj][m], a[m], P_KNOT, np.where(vl[dj], gs[dj] - 1, -1)[m], np.where(vr[dj], ge[dj], -1)[m], j[dj][m])
        g_all = np.nonzero(self.good)[0]
        t_all = T[g_all]
        isend = (g_all - self.first[t_all] <= 1) | (self.last[t_all] - 1 - g_all <= 1)
        for f in sorted(set(fracs) | (set(FR_ALL) if ends else set())):
            sel = np.zeros(len(g_all), bool)
            if mids and f in fracs:
                sel |= True
            if ends:
                sel |= isend
            g = g_all[sel]
            x = X[g] + f * (X[g + 1] - X[g])
            add(T[g], self.itx(x), np.where(isend[sel], P_ENDFRAC, P_MID), g)
        if rng is not None:          # one seeded random point inside every interval
            f = rng.uniform(1e-3, 1 - 1e-3, len(g_all))
            add(t_all, self.itx(X[g_all] + f * (X[g_all + 1] - X[g_all])), P_MID, g_all)
        tt = np.arange(self.nt)
        if straddle:
            alo, ahi = self.hit(self.x1), self.hit(self.xN)
            for d in STRADDLE:
                add(tt, np.where(alo == 0, -d, alo * (1 - d)), P_STRADDLE, np.full(self.nt, -2))
                add(tt, np.where(alo == 0, d, alo * (1 + d)), P_STRADDLE, np.full(self.nt, -2))
                add(tt, ahi * (1 + d), P_STRADDLE, np.full(self.nt, -2))
                add(tt, ahi * (1 - d), P_STRADDLE, np.full(self.nt, -2))
            for dx in (5e-8, 2e-7):      # pins the width of the tolerated band above the last knot
                add(tt, self.itx(self.xN + dx), P_STRADDLE, np.full(self.nt, -2))
        if special:
            for a in (0.0, -1.0, -1e-300, 1e-300, 1e300):
                add(tt, np.full(self.nt, a), P_SPECIAL, np.full(self.nt, -2))
        if self.edge is not None and straddle:
            e = self.edge
            a1 = self.hit(self.x1)
            known = np.isfinite(e)
            tk = tt[known]
            for d in (1e-9, 1e-6, 1e-3, 0.03):
                add(tk, e[known] * (1 + d), P_KEXT, np.full(len(tk), -2))
                add(tk, e[known] * (1 - d), P_KEXT, np.full(len(tk), -2))
            ext = known & (e < a1)
            te = tt[ext]
            for f in (0.1, 0.5, 0.9):    # inside the documented extension: between the edge and the first knot
                add(te, np.exp(np.log(e[ext]) + f * (np.log(a1[ext]) - np.log(e[ext]))), P_KEXT, np.full(len(te), -2))
        cols = [np.concatenate(c) for c in zip(*out)]
        return dict(t=cols[0], arg=cols[1], kind=cols[2], kA=cols[3], kB=cols[4], j=cols[5])

    def locate(self, t, xe):
        """flat index of the interval [k, k+1] of table t that holds xe (bisection semantics), -1 if undefined"""
        k = np.full(len(t), -1)
        order = np.argsort(t, kind='stable')
        ts = t[order]
        cuts = np.nonzero(np.diff(ts))[0] + 1
        for sl in np.split(order, cuts):
            if not len(sl):
                continue
            tb = t[sl[0]]
            f, l = self.first[tb], self.last[tb]
            kk = np.searchsorted(self.X[f:l + 1], xe[sl], 'right') - 1
            k[sl] = f + np.clip(kk, 0, l - f - 1)
        return k

    # -- reference -------------------------------------------------------------------------------------------
    def spline(self, k, xe):
        X, Y, Z2 = self.X, self.Y, self.Y2
        x0, x1 = X[k].astype(LD), X[k + 1].astype(LD)
        h = x1 - x0
        xl = xe.astype(LD)
        with np.errstate(all='ignore'):
            a, b = (x1 - xl) / h, (xl - x0) / h
            y0, y1, z0, z1 = Y[k].astype(LD), Y[k + 1].astype(LD), Z2[k].astype(LD), Z2[k + 1].astype(LD)
            r = a * y0 + b * y1 + ((a * a * a - a) * z0 + (b * b * b - b) * z1) * h * h / 6
            grow = np.maximum(1.0, np.maximum(np.abs(a), np.abs(b))).astype(float)
            S = (np.abs(y0) + np.abs(y1) + (np.abs(z0) + np.abs(z1)) * h * h / 6).astype(float) * grow ** 3
            D = (np.abs(y1 - y0) / h + (np.abs(z0) + np.abs(z1)) * h / 3).astype(float) * grow ** 2
        return r, S, D

    def extension(self, t, xe):
        """documented Kissel low-energy branch: log-log line through the first two knots, slope clamped to [-1, 1]"""
        f = self.first[t]
        x0, x1, y0, y1 = self.X[f].astype(LD), self.X[f + 1].astype(LD), self.Y[f].astype(LD), self.Y[f + 1].astype(LD)
        m = np.clip((y1 - y0) / (x1 - x0), -1, 1)
        dxl = xe.astype(LD) - x0
        r = y0 + m * dxl
        S = (np.abs(y0) + np.abs(m * dxl)).astype(float)
        return r, S, np.abs(m).astype(float)

    def dx(self, xe):
        if self.space == 'id':
            return np.zeros(len(xe))
        return 2 * np.spacing(np.maximum(np.abs(np.nan_to_num(xe)), 1.0))

    def ratio(self, v, t, r, S, D, xe, valid):
        """|v - ref| / tolerance (inf where the candidate is not valid)"""
        with np.errstate(all='ignore'):
            tolbase = 4e-15 * S + D * self.dx(xe)
            if self.expo:
                R = np.exp(r)
                ve = v.astype(LD) if self.scale is None else v.astype(LD) / self.scale[t].astype(LD)
                err = (np.abs(ve - R) / R).astype(float)
                tol = REL + tolbase
                ref = R.astype(float) if self.scale is None else (R * self.scale[t]).astype(float)
            else:
                err = np.abs(v.astype(LD) - r).astype(float)
                tol = REL * np.abs(r).astype(float) + tolbase
                ref = r.astype(float)
            q = np.where(err == 0, 0.0, err / tol)      # an exact match needs no tolerance (tables that are identically 0)
        q = np.where(valid & np.isfinite(q), q, np.inf)
        return q, ref

    def region(self, t, arg, xe):
        x1, xN = self.x1[t], self.xN[t]
        with np.errstate(invalid='ignore'):
            reg = np.full(len(t), R_INSIDE)
            reg[xe < x1] = R_LOWBAND
            reg[xe < x1 - self.lowband[t]] = R_BELOW
            dhi = (xe.astype(LD) - xN.astype(LD)).astype(float)
            reg[xe > xN] = R_HIGHBAND
            reg[dhi > HIGH_BAND] = R_ABOVE
            reg[np.isnan(xe) | (arg < 0)] = R_NONPOS       # every tabulated argument (E, q, pz) starts at >= 0
        return reg

    def call_args(self, t, arg):
        return [k[t] for k in self.keys] + [arg]

    def callstr(self, t, arg):
        return '%s(%s)' % (self.fname, ','.join([str(int(k[t])) for k in self.keys] + [repr(float(arg))]))


def check_quantity(ck, L, q, P, st):
    """run the probes P of quantity q against library L and judge every result"""
    t, arg, kind, kA, kB, jk = P['t'], P['arg'], P['kind'], P['kA'].copy(), P['kB'], P['j']
    n = len(t)
    r = L.call(q.fname, *q.call_args(t, arg))
    xe = q.tx(arg)
    reg = q.region(t, arg, xe)
    skip = np.zeros(n, bool)
    # locate the probes that were not generated from a known interval
    need = (kA == -2)
    inside = need & (reg == R_INSIDE)
    if inside.any():
        kA[inside] = q.locate(t[inside], xe[inside])
    kA[need & (reg == R_LOWBAND)] = q.first[t[need & (reg == R_LOWBAND)]]
    kA[need & (reg == R_HIGHBAND)] = q.last[t[need & (reg == R_HIGHBAND)]] - 1
    kA[need & ~np.isin(reg, (R_INSIDE, R_LOWBAND, R_HIGHBAND))] = -1
    # interior probes must really lie strictly inside the interval they were generated for
    strict = np.isin(kind, (P_MID, P_ENDFRAC))
    with np.errstate(invalid='ignore'):
        off = strict & ~((q.X[kA] < xe) & (xe < q.X[np.minimum(kA + 1, q.M - 1)]))
    skip |= off
    st['dropped_interior'] += int(off.sum())
    # probes that fall on the hull of a non-monotone step or on a degenerate interval
    hk = np.zeros(n, bool)
    for (tb, lo, hi) in q.hulls:
        with np.errstate(invalid='ignore'):
            hk |= (t == tb) & (xe >= lo) & (xe <= hi)
    bad_iv = (kind != P_KNOT) & (kA >= 0) & ~q.good[np.clip(kA, 0, q.M - 2)]
    skip |= hk | bad_iv
    st['skipped_hull_or_degenerate'] += int((hk | bad_iv).sum())

    # ---- expectation
    exp = np.full(n, MUST_OK)
    exp[np.isin(reg, (R_NONPOS, R_BELOW, R_ABOVE))] = MUST_ERR
    exp[np.isin(reg, (R_LOWBAND, R_HIGHBAND))] = EITHER
    use_ext = np.zeros(n, bool)
    if q.edge is not None:
        e = q.edge[t]
        with np.errstate(invalid='ignore', divide='ignore'):
            rel = arg / e - 1.0
        unknown = ~np.isfinite(e)
        below_edge = rel < -EDGE_GUARD
        at_edge = np.abs(rel) <= EDGE_GUARD
        above_edge = rel > EDGE_GUARD
        lowish = np.isin(reg, (R_BELOW, R_LOWBAND))
        use_ext = lowish & (at_edge | above_edge)
        exp[(reg == R_BELOW) & above_edge] = MUST_OK
        exp[(reg == R_LOWBAND) & above_edge] = MUST_OK
        exp[(reg == R_BELOW) & at_edge] = EITHER
        exp[(reg == R_INSIDE) & (unknown | below_edge | at_edge)] = EITHER
        exp[(reg == R_LOWBAND) & (unknown | below_edge | at_edge)] = EITHER
        st['kissel_below_edge_inside_table'] += int(((reg == R_INSIDE) & below_edge & ~skip).sum())
        st['kissel_edge_unknown_probes'] += int((np.isin(reg, (R_INSIDE, R_LOWBAND)) & unknown & ~skip).sum())
    zero = (arg == 0)
    if q.zero == 'either':          # "q must be positive": a knot at q = 0 may be refused
        exp[zero & (exp == MUST_OK)] = EITHER
    zval = None
    if q.zero == 'Z':               # documented special case FF_Rayl(Z, 0) = Z, whether or not 0 is a knot
        exp[zero] = EITHER
        zval = q.keys[0][t].astype(float)

    # ---- candidates
    best = np.full(n, np.inf)
    bestref = np.full(n, np.nan)

    def consider(qr, ref):
        nonlocal best, bestref
        m = qr < best
        best = np.where(m, qr, best)
        bestref = np.where(m, ref, bestref)
    Dmax = np.zeros(n)
    for kk in (kA, kB):
        valid = (kk >= 0) & ~skip
        valid[valid] = q.good[kk[valid]]
        ks = np.where(valid, kk, 0)
        rr, S, D = q.spline(ks, xe)
        Dmax = np.maximum(Dmax, np.where(valid, np.nan_to_num(D), 0))
        consider(*q.ratio(r.v, t, rr, S, D, xe, valid))
    isknot = (kind == P_KNOT) & (jk >= 0)
    jj = np.where(isknot, jk, 0)
    dupk = isknot & (q.gs[jj] != q.ge[jj])
    if dupk.any():                  # duplicated abscissa (an absorption edge stored as two knots): either TABULATED value is accepted - not a blend of the two
        ya, yb = q.Y[q.gs[jj]].astype(LD), q.Y[q.ge[jj]].astype(LD)
        S = (np.abs(ya) + np.abs(yb)).astype(float)
        for c in (ya, yb):
            consider(*q.ratio(r.v, t, c, S, Dmax, xe, dupk & ~skip))
    if use_ext.any():
        rr, S, D = q.extension(t, xe)
        consider(*q.ratio(r.v, t, rr, S, D, xe, use_ext & ~skip))
    if zval is not None:
        zq = np.where(zero & ~skip, np.where(r.v == zval, 0.0, np.inf), np.inf)
        consider(zq, zval)

    # ---- verdicts
    ok, err = r.ok, r.err
    act = ~skip

    def pos(k):
        if use_ext[k]:
            return 'kissel-extension'
        if reg[k] in (R_LOWBAND, R_HIGHBAND):
            return REGION[reg[k]]
        kk = kA[k] if kA[k] >= 0 else kB[k]
        if kk < 0:
            return 'nowhere'
        tb = t[k]
        return 'first-interval' if kk == q.first[tb] else 'last-interval' if kk == q.last[tb] - 1 else 'inner-interval'

    def wit(k, **kw):
        d = dict(call=q.callstr(t[k], arg[k]), config=L.config, probe=PKIND[kind[k]], region=REGION[reg[k]],
                 transformed_argument=float(xe[k]), table_range=[float(q.x1[t[k]]), float(q.xN[t[k]])],
                 status='ok' if ok[k] else 'error: %s' % r.msg(k), returned=float(r.v[k]))
        d.update(kw)
        return d
    bad = np.nonzero(act & ok & (exp == MUST_ERR))[0]
    for k in bad:
        ck.violation('c02:%s:extrapolated:%s' % (q.fname, REGION[reg[k]]),
                     '%s returned a number outside the tabulated range' % q.fname, wit(k))
    bad = np.nonzero(act & err & (exp == MUST_OK))[0]
    for k in bad:
        ck.violation('c02:%s:error-inside-range:%s:%s' % (q.fname, PKIND[kind[k]] if kind[k] == P_KNOT else 'between-knots', pos(k)),
                     '%s failed for an argument inside the tabulated range' % q.fname, wit(k))
    cmpd = act & ok & (exp != MUST_ERR)
    bad = np.nonzero(cmpd & ~(best <= 1.0))[0]
    for k in bad:
        ck.violation('c02:%s:wrong-value:%s:%s' % (q.fname, 'knot' if kind[k] == P_KNOT else 'between-knots', pos(k)),
                     '%s differs from the spline through the shipped knots by %.3g x the forward-error bound' % (q.fname, best[k]),
                     wit(k, expected=float(bestref[k]), error_over_bound=float(best[k])))

    # ---- evidence
    f = st['per_function'].setdefault(q.fname + '@' + L.config, dict(calls=0, compared=0, must_fail_confirmed=0, band_value=0, band_error=0,
                                                                     knots_hit_exactly=0, knot_probes=0, worst_error_over_bound=0.0))
    f['calls'] += n
    f['compared'] += int(cmpd.sum())
    f['must_fail_confirmed'] += int((act & err & (exp == MUST_ERR)).sum())
    f['band_value'] += int((act & ok & (exp == EITHER)).sum())
    f['band_error'] += int((act & err & (exp == EITHER)).sum())
    f['knot_probes'] += int((isknot & act).sum())
    f['knots_hit_exactly'] += int((isknot & act & (xe == q.X[jj])).sum())
    good_cmp = cmpd & (best <= 1.0)
    if good_cmp.any():
        f['worst_error_over_bound'] = max(f['worst_error_over_bound'], float(best[good_cmp].max()))
    st['calls'] += n
    st['compared'] += int(cmpd.sum())
    st['errors_expected_and_seen'] += int((act & err & (exp == MUST_ERR)).sum())
    st['extension_compared'] += int((cmpd & use_ext).sum())
    kk = np.where(kA >= 0, kA, kB)
    nt = cmpd & (kk >= 0) & ~use_ext
    kk = kk[nt]
    nontriv = (q.Y2[kk] != 0) | (q.Y2[kk + 1] != 0)
    st['intervals'].setdefault(q.group, set()).update(np.unique(kk[nontriv]).tolist())
    st['intervals_any'].setdefault(q.group, set()).update(np.unique(kk).tolist())
    for want in (P_KNOT, P_MID, P_STRADDLE, P_KEXT):
        c = np.nonzero(cmpd & (kind == want) & (best <= 1.0))[0]
        if len(c) and len(st['samples']) < 40:
            k = int(c[(common.seed() * 7919 + len(st['samples']) * 131) % len(c)])
            st['samples'].append(dict(call=q.callstr(t[k], arg[k]), config=L.config, probe=PKIND[kind[k]], returned=float(r.v[k]),
                                      expected=float(bestref[k]), error_over_bound=float(best[k])))
    c = np.nonzero(act & err & (exp == MUST_ERR))[0]
    if len(c) and len(st['samples']) < 40:
        k = int(c[(common.seed() * 31) % len(c)])
        st['samples'].append(dict(call=q.callstr(t[k], arg[k]), config=L.config, probe=PKIND[kind[k]], returned='error: %s' % r.msg(k),
                                  expected='error (%s the table)' % REGION[reg[k]]))
    return r


def check_nodata(ck, L, q, st, must_fail_all=False):
    """elements / shells without a table must fail (for must_fail_all: every element and shell must fail)"""
    have = set(zip(*[k.tolist() for k in q.keys]))
    Zs = sorted(set(q.keys[0].tolist()))
    mid = q.itx(np.array([q.X[(q.first[i] + q.last[i]) // 2] for i in (0, q.nt // 2, q.nt - 1)]))
    rows = []
    if len(q.keys) == 1:
        for Z in range(-3, 126):
            if must_fail_all or (Z,) not in have:
                rows += [(Z, a) for a in mid]
        if not rows:
            return
        Zc, ac = np.array([x[0] for x in rows]), np.array([x[1] for x in rows])
        r = L.call(q.fname, Zc, ac)
        calls = ['%s(%d,%r)' % (q.fname, z, float(a)) for z, a in rows]
    else:
        for Z in range(-3, 126):
            shells = range(-2, 34) if (Z in Zs or must_fail_all) else (0, 1, 5)
            for s in shells:
                if must_fail_all or (Z, s) not in have:
                    rows += [(Z, s, a) for a in mid]
        Zc, sc, ac = np.array([x[0] for x in rows]), np.array([x[1] for x in rows]), np.array([x[2] for x in rows])
        r = L.call(q.fname, Zc, sc, ac)
        calls = ['%s(%d,%d,%r)' % (q.fname, z, s, float(a)) for z, s, a in rows]
    what = 'succeeds-without-kissel-data' if must_fail_all else 'value-without-table'
    for k in np.nonzero(r.ok)[0][:MAXW]:
        ck.violation('c02:%s:%s' % (q.fname, what), '%s returned %r although %s' % (
            q.fname, float(r.v[k]), 'the Kissel table is empty in this configuration' if must_fail_all else 'no table is shipped for this element/shell'),
            dict(call=calls[k], config=L.config))
    st['calls'] += len(rows)
    st['nodata_failures_confirmed'] += int(r.err.sum())
    f = st['per_function'].setdefault(q.fname + '@' + L.config, dict(calls=0))
    f['calls'] = f.get('calls', 0) + len(rows)
    f['no_table_calls_failed'] = f.get('no_table_calls_failed', 0) + int(r.err.sum())
    k = int(np.nonzero(r.err)[0][0]) if r.err.any() else None
    if k is not None and len(st['samples']) < 48 and not must_fail_all:
        st['samples'].append(dict(call=calls[k], config=L.config, probe='no table', returned='error: %s' % r.msg(k), expected='error'))


def check_total(ck, L, qp, ktab, edges, tier, st):
    """CSb_Photo_Total / CS_Photo_Total: not a spline of its own in this library (the shipped total table only gates Z);
    what is comparable with the shipped knots is the occupancy-weighted sum of the sub-shell splines."""
    mac = refdata.Macros()
    avog = float(mac.all['AVOGNUM'])
    aw = {z: refdata.rnd(v) for z, v in refdata.pairs('atomicweight.dat').items()}
    tabs_of = {}
    for i in range(qp.nt):
        tabs_of.setdefault(int(qp.keys[0][i]), []).append(i)
    Zs, Es = [], []
    for Z, d in sorted(ktab.items()):
        tx = rnd_arr(d['total'][:, 0])
        x = np.concatenate([tx, (tx[:-1] + tx[1:]) / 2, [tx[0] - 0.5, tx[0] - 1e-3, tx[-1] + 1e-3, tx[-1] + 0.5]])
        if tier == 'thorough':
            x = np.concatenate([x, tx[:-1] + 0.25 * np.diff(tx), tx[:-1] + 0.75 * np.diff(tx)])
        Zs.append(np.full(len(x), Z)); Es.append(np.exp(x))
    Zs, Es = np.concatenate(Zs), np.concatenate(Es)
    xe = _mlog(Es)
    expv = np.zeros(len(Zs), LD)
    tolv = np.zeros(len(Zs), LD)
    amb = np.zeros(len(Zs), bool)
    nterms = np.zeros(len(Zs), int)
    cfgs = {Z: rnd_arr(d['config']) for Z, d in ktab.items()}
    for Z in sorted(ktab):
        m = np.nonzero(Zs == Z)[0]
        for i in tabs_of.get(Z, []):
            s = int(qp.keys[1][i])
            occ = cfgs[Z][s]
            e = qp.edge[i]
            if not (occ > 1e-6) or not np.isfinite(e):
                continue
            E, x = Es[m], xe[m]
            rel = E / e - 1
            amb[m] |= (np.abs(rel) <= EDGE_GUARD) | ((x > qp.xN[i]) & (x - qp.xN[i] <= 1.2e-7)) | (np.abs(x - qp.x1[i]) <= qp.lowband[i])
            on = (rel > EDGE_GUARD) & (x <= qp.xN[i])
            ti = np.full(len(m), i)
            low = x < qp.x1[i]
            k = qp.locate(ti, x)
            rs, Ss, Ds = qp.spline(k, x)
            re, Se, De = qp.extension(ti, x)
            rr = np.where(low, re, rs); S = np.where(low, Se, Ss); D = np.where(low, De, Ds)
            with np.errstate(all='ignore'):
                term = np.where(on, occ * np.exp(rr), 0)
                tol = np.where(on, term * (REL + 4e-15 * S + D * qp.dx(x)), 0)
            expv[m] += term; tolv[m] += tol; nterms[m] += on
    res = L.multi([('CSb_Photo_Total', Zs, Es), ('CS_Photo_Total', Zs, Es)])
    st['calls'] += 2 * len(Zs)
    for fname, r, fac in (('CSb_Photo_Total', res[0], np.ones(len(Zs))), ('CS_Photo_Total', res[1], np.array([avog / aw[int(z)] for z in Zs]))):
        act = ~amb
        want_ok = expv > 0
        for k in np.nonzero(act & want_ok & r.err)[0]:
            ck.violation('c02:%s:error-inside-range' % fname, '%s failed although %d sub-shell tables cover the energy' % (fname, nterms[k]),
                         dict(call='%s(%d,%r)' % (fname, Zs[k], float(Es[k])), config=L.config, status=r.msg(k)))
        for k in np.nonzero(act & ~want_ok & r.ok)[0]:
            ck.violation('c02:%s:extrapolated' % fname, '%s returned a number where no sub-shell table covers the energy' % fname,
                         dict(call='%s(%d,%r)' % (fname, Zs[k], float(Es[k])), config=L.config, returned=float(r.v[k])))
        c = act & want_ok & r.ok
        with np.errstate(all='ignore'):
            errv = np.abs(r.v.astype(LD) / fac.astype(LD) - expv)
            ratio = (errv / (tolv + 1e-14 * expv)).astype(float)
        for k in np.nonzero(c & ~(ratio <= 1.0))[0]:
            ck.violation('c02:%s:not-the-sum-of-subshell-splines' % fname,
                         '%s differs from the occupancy-weighted sum of the sub-shell splines by %.3g x the error bound' % (fname, ratio[k]),
                         dict(call='%s(%d,%r)' % (fname, Zs[k], float(Es[k])), config=L.config, returned=float(r.v[k]),
                              expected=float(expv[k] * fac[k]), shells_summed=int(nterms[k])))
        f = st['per_function'].setdefault(fname + '@' + L.config, dict(calls=0))
        f['calls'] = f.get('calls', 0) + len(Zs)
        f['compared'] = int(c.sum())
        f['failures_confirmed_outside_all_tables'] = int((act & ~want_ok & r.err).sum())
        f['ambiguous_skipped'] = int(amb.sum())
        if c.any():
            f['worst_error_over_bound'] = float(ratio[c & (ratio <= 1.0)].max()) if (c & (ratio <= 1.0)).any() else None
            k = int(np.nonzero(c)[0][(common.seed() * 101) % int(c.sum())])
            st['samples'].append(dict(call='%s(%d,%r)' % (fname, Zs[k], float(Es[k])), config=L.config, probe='sum of sub-shell splines',
                                      returned=float(r.v[k]), expected=float(expv[k] * fac[k]), shells_summed=int(nterms[k])))
        st['compared'] += int(c.sum())
        st['total_compared'] += int(c.sum())
    # informational: distance of the implemented total from the spline through the shipped *total* table
    qt = Quantity('CSb_Photo_Total', 'ln', True, [np.array(sorted(ktab))], [ktab[Z]['total'] for Z in sorted(ktab)])
    ti = np.searchsorted(np.array(sorted(ktab)), Zs)
    ins = (xe >= qt.x1[ti]) & (xe <= qt.xN[ti]) & res[0].ok
    k = qt.locate(ti[ins], xe[ins])
    rr, S, D = qt.spline(k, xe[ins])
    with np.errstate(all='ignore'):
        dev = np.abs(np.log(res[0].v[ins]) - rr.astype(float))
    st['total_vs_total_table'] = dict(points=int(ins.sum()), median_abs_log_deviation=float(np.median(dev)) if ins.any() else None,
                                      max_abs_log_deviation=float(dev.max()) if ins.any() else None,
                                      note='informational only: the property statement lists the Kissel *sub-shell* cross sections; the total is '
                                           'implemented as a sum over sub-shells and is compared with that sum')


def build_quantities():
    cl = []
    for fname, fn, header, space, expo, zero in (
            ('CS_Photo', 'CS_Photo.dat', False, 'ln1000', True, 'normal'),
            ('CS_Rayl', 'CS_Rayl.dat', False, 'ln1000', True, 'normal'),
            ('CS_Compt', 'CS_Compt.dat', False, 'ln1000', True, 'normal'),
            ('CS_Energy', 'CS_Energy.dat', True, 'ln', True, 'normal'),
            ('FF_Rayl', 'FF.dat', False, 'id', False, 'Z'),
            ('SF_Compt', 'SF.dat', False, 'id', False, 'either'),
            ('Fi', 'fi.dat', False, 'id', False, 'normal'),
            ('Fii', 'fii.dat', False, 'id', False, 'normal')):
        B = refdata.spline_blocks(fn, header)
        Zs = sorted(B)
        cl.append(Quantity(fname, space, expo, [np.array(Zs)], [B[Z] for Z in Zs], zero=zero))
    cp = refdata.compton()
    Zs = sorted(cp)
    cl.append(Quantity('ComptonProfile', 'lnp1', True, [np.array(Zs)],
                       [np.column_stack([cp[Z]['pz'], cp[Z]['total'], cp[Z]['total2']]) for Z in Zs]))
    kz, ksh, tabs = [], [], []
    for Z in Zs:
        for s, (y, y2) in sorted(cp[Z]['partial'].items()):
            kz.append(Z); ksh.append(s); tabs.append(np.column_stack([cp[Z]['pz'], y, y2]))
    cl.append(Quantity('ComptonProfile_Partial', 'lnp1', True, [np.array(kz), np.array(ksh)], tabs))
    return cl


def kissel_quantities(ktab, mac):
    """sub-shell tables of the Kissel file; the shell's edge energy is the public edge table (edges.dat) for K..P5 and
    the Kissel binding energy for the Q shells, which have no entry in the edge table"""
    shell_macro = mac.by_suffix('_SHELL')
    ed = refdata.triples('edges.dat', 1e-3)
    aw = {z: refdata.rnd(v) for z, v in refdata.pairs('atomicweight.dat').items()}
    avog = float(mac.all['AVOGNUM'])
    kz, ksh, tabs, edge, scale = [], [], [], [], []
    for Z in sorted(ktab):
        cfg = rnd_arr(ktab[Z]['config'])
        for s, (be, a) in sorted(ktab[Z]['partial'].items()):
            name = refdata.SHELLS_K[s]
            if shell_macro.get(name) != s:
                raise common.Inconclusive('shell %s of the Kissel file is not macro value %d' % (name, s))
            if name.startswith('Q'):
                e = refdata.rnd(be)
            else:
                e = ed.get((Z, name), float('nan'))
                e = refdata.rnd(e) if e == e and e > 0 else float('nan')
            kz.append(Z); ksh.append(s); tabs.append(a); edge.append(e)
            scale.append(cfg[s] * avog / aw[Z] if Z in aw and aw[Z] > 0 else float('nan'))
    keys = [np.array(kz), np.array(ksh)]
    qb = Quantity('CSb_Photo_Partial', 'ln', True, keys, tabs, edge=edge, group='Photo_Partial')
    qc = Quantity('CS_Photo_Partial', 'ln', True, keys, tabs, edge=edge, scale=scale, group='Photo_Partial')
    return qb, qc


def hull_energies(quantities=None):
    """energies inside the hull of every non-monotone step of the classical tables (several intervals of one table contain the abscissa there)"""
    qs = quantities if quantities is not None else build_quantities()
    return sorted({float(q_.itx(np.array([lo + f_ * (hi - lo)]))[0]) for q_ in qs for (_t, lo, hi) in q_.hulls for f_ in (0.02, 0.5, 0.98) if q_.space != 'id'})


def main(tier):
    ck = common.Check('C02', tier)
    mac = refdata.Macros()
    st = dict(calls=0, compared=0, errors_expected_and_seen=0, extension_compared=0, dropped_interior=0, skipped_hull_or_degenerate=0,
              kissel_below_edge_inside_table=0, kissel_edge_unknown_probes=0, nodata_failures_confirmed=0, total_compared=0,
              per_function={}, intervals={}, intervals_any={}, samples=[])
    fracs = (0.5,) if tier == 'quick' else FR_ALL
    rng = np.random.default_rng(common.seed())
    classical = build_quantities()
    tables = {q.fname: dict(tables=q.nt, knots=q.M, duplicated_abscissae=q.ndup, non_monotone_steps=len(q.hulls)) for q in classical}
    for config in (('shipped',) if tier == 'quick' else ('shipped', 'kissel')):
        L = execlib.Lib(config)
        for q in classical:
            check_quantity(ck, L, q, q.probes(fracs, rng=rng), st)
            check_nodata(ck, L, q, st)
    # ---- Kissel
    ktab = refdata.kissel('kissel')
    if len(ktab) < 90:
        raise common.Inconclusive('regenerated Kissel file holds only %d elements' % len(ktab))
    qb, qc = kissel_quantities(ktab, mac)
    tables['CSb_Photo_Partial'] = dict(tables=qb.nt, knots=qb.M, duplicated_abscissae=qb.ndup, non_monotone_steps=len(qb.hulls),
                                       edge_unknown=int(np.isnan(qb.edge).sum()),
                                       with_extension=int((np.log(qb.edge) < qb.x1).sum()),
                                       edge_above_first_knot=int((np.log(qb.edge) > qb.x1).sum()))
    L = execlib.Lib('kissel')
    before = st['compared']
    check_quantity(ck, L, qb, qb.probes(fracs, rng=rng), st)
    check_quantity(ck, L, qc, qc.probes((0.5,), knots=(tier != 'quick'), rng=rng), st)
    check_nodata(ck, L, qb, st)
    check_nodata(ck, L, qc, st)
    check_total(ck, L, qb, ktab, None, tier, st)
    if st['compared'] - before < 100000 or st['extension_compared'] < 1000:
        raise common.Inconclusive('too few successful Kissel comparisons (%d, extension %d)' % (st['compared'] - before, st['extension_compared']))
    # shipped configuration: the Kissel table is empty, every Kissel function must fail
    if refdata.kissel('shipped'):
        raise common.Inconclusive('the shipped Kissel file is not empty any more: extend the oracle')
    L = execlib.Lib('shipped')
    qt = Quantity('CSb_Photo_Total', 'ln', True, [np.array(sorted(ktab))], [ktab[Z]['total'] for Z in sorted(ktab)])
    for q in (qb, qc, qt, Quantity('CS_Photo_Total', 'ln', True, qt.keys, [ktab[Z]['total'] for Z in sorted(ktab)])):
        check_nodata(ck, L, q, st, must_fail_all=True)

    distinct = sum(len(v) for v in st['intervals'].values())
    anyiv = sum(len(v) for v in st['intervals_any'].values())
    if st['compared'] < 300000 or distinct < 20000:
        raise common.Inconclusive('too few comparisons: %d values over %d non-trivial intervals' % (st['compared'], distinct))
    # functions of their arguments alone: a thinned grid re-run in other call orders and without an error slot
    _Z, _X = [x.ravel() for x in np.meshgrid(np.arange(1, 101), np.array([0.0, 5e-324, 1e-310, 2.2250738585072014e-308, 0.0009, 0.00154925, 0.1, 1.0, 3.0, 8.04, 20.0, 59.5, 100.0, 799.0, 801.0, 999.0, 15000.0, 17000.0, 25000.0]), indexing='ij')]
    # ... plus energies INSIDE the hull of every non-monotone table step (where several intervals contain the abscissa: the reference is silent there, but the
    # answer may still not depend on which table was looked at just before - 'last-argument-major' order visits all elements at one energy)
    _hullE = hull_energies(classical)
    if _hullE:
        _Zh, _Xh = [x.ravel() for x in np.meshgrid(np.arange(1, 101), np.array(_hullE), indexing='ij')]
        _Z, _X = np.concatenate([_Z, _Zh]), np.concatenate([_X, _Xh])
    st['energies_inside_non_monotone_steps'] = len(_hullE)
    _Z2, _S2, _P2 = [x.ravel() for x in np.meshgrid(np.arange(1, 101, 3), np.arange(0, 12), np.array([0.0, 1e-310, 0.5, 2.0, 50.0, 150.0]), indexing='ij')]
    _extra = execlib.independence(ck, 'c02', 'shipped', [(f, _Z, _X) for f in ('CS_Photo', 'CS_Rayl', 'CS_Compt', 'CS_Energy', 'FF_Rayl', 'SF_Compt', 'Fi', 'Fii', 'ComptonProfile')] +
                                  [('ComptonProfile_Partial', _Z2, _S2, _P2)])
    st['calls'] += _extra
    # ... and the tables are those of data/*.dat whatever else lies in the tree: project build in a tree with the leftovers of an earlier build
    st['calls_in_the_build_of_a_dirty_tree'] = execlib.dirty_tree(ck, 'c02', 'shipped', [(f, _Z[::3], _X[::3]) for f in ('CS_Photo', 'CS_Rayl', 'CS_Compt', 'CS_Energy', 'FF_Rayl', 'SF_Compt', 'Fi', 'Fii', 'ComptonProfile')])
    st['calls'] += st['calls_in_the_build_of_a_dirty_tree']
    cov = dict(evaluations=st['calls'], distinct_nontrivial=distinct,
               rule='every table of CS_Photo/Rayl/Compt/Energy, FF_Rayl, SF_Compt, Fi, Fii, ComptonProfile(_Partial) and (regenerated Kissel '
                    'configuration) CSb_/CS_Photo_Partial: every knot, every interval at fractions %r plus one seeded random fraction, first/last two intervals at %r, both ends '
                    'straddled by 1e-12..1e-3 relative and at +5e-8/+2e-7 in table space, arguments 0, -1, +-1e-300, 1e300, Kissel edge +-1e-9..3e-2 '
                    'and three points inside the log-log extension, elements/shells without a table; reference = cubic spline through the '
                    'independently parsed knots rounded through %%.10E, extended precision, tolerance = forward error bound; non-trivial = distinct '
                    '(table, interval) pairs with a successfully compared value and a non-zero second derivative at one of the two knots'
                    % (tuple(fracs), FR_ALL),
               samples=st['samples'][:40], values_compared=st['compared'], intervals_compared=anyiv,
               failures_expected_and_observed=st['errors_expected_and_seen'], no_table_failures_observed=st['nodata_failures_confirmed'],
               calls_in_the_build_of_a_dirty_tree=st['calls_in_the_build_of_a_dirty_tree'], energies_inside_non_monotone_steps=st.get('energies_inside_non_monotone_steps'), kissel_extension_values_compared=st['extension_compared'], kissel_total_values_compared=st['total_compared'],
               kissel_probes_below_edge_inside_table=st['kissel_below_edge_inside_table'],
               kissel_probes_on_tables_without_edge_energy=st['kissel_edge_unknown_probes'],
               interior_probes_dropped_by_rounding=st['dropped_interior'], probes_skipped_hull_or_degenerate=st['skipped_hull_or_degenerate'],
               total_vs_total_table=st.get('total_vs_total_table'), tables=tables, per_function=st['per_function'],
               nontrivial_intervals_per_quantity={k: len(v) for k, v in st['intervals'].items()})
    return ck.finish(cov, ['refdata.py parsers are independent of xrayfiles.c/pr_data.c; knots rounded through %.10E as the generator prints them',
                           'reference spline evaluated in x87 extended precision; tolerance 1e-12|ref| + 4e-15 S + D dx (forward error bound)',
                           'transformed arguments computed with the C library log() (math.log), the library is allowed 2 ulp on it',
                           'at a duplicated abscissa either tabulated value or either one-sided limit is accepted (not a blend of the two); intervals on the hull '
                           'of the non-monotone step of one photo table are skipped and counted',
                           'within 4 ulp below the first knot and 1e-7 above the last knot (table space) an error or the continued spline is accepted',
                           'a knot at argument 0 may be refused by SF_Compt ("q must be positive"); FF_Rayl(Z,0)=Z is the documented special case',
                           'Kissel sub-shell cross sections are defined from the shell edge energy (edges.dat; Kissel binding energy for Q shells) upwards: '
                           'below the edge, and for sub-shells without an edge energy, an error is accepted but a number must equal the spline',
                           'the regenerated Kissel table is read by both sides from the same file'])
