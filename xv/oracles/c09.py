"""C09 - jump-ratio XRF cross sections = photo cross section x jump share x yield x rate (offline reference checker).

Reference (python/numpy, from public primitives fetched once per Z): EdgeEnergy, JumpFactor, CosKronTransProb,
FluorYield, RadRate, AtomicWeight and CS_Photo at the probed energies.  With J_s the jump ratios, w_s the yields:
  K : (J_K-1)/J_K * w_K                                                        E above the K edge
  L1: [1/J_K above K] * (J_1-1)/J_1 * w_1                                      E above L1
  L2: [1/J_K above K] * (t2 + t1*f12) * w_2                                    t's by regime (above L1 | L2..L1)
  L3: [1/J_K above K] * (t3 + t2*f23 + t1*(f13+f'13+f12*f23)) * w_3            (above L1 | L2..L1 | L3..L2)
  t1=(J1-1)/J1, t2=(J2-1)/(J2 J1), t3=(J3-1)/(J3 J2 J1) above L1;  t2=(J2-1)/J2, t3=(J3-1)/(J3 J2) between L2 and L1;
  t3=(J3-1)/J3 between L3 and L2.
shell value = CS_Photo * share; line = shell value * RadRate(line) (the shell is the line's initial sub-shell, read
from the macro *name*); L-beta = sum over its 15 member lines; barn twins = value * AtomicWeight / AVOGNUM.
Failure is expected below the sub-shell edge, when a needed jump ratio / yield / CK probability / rate is unavailable,
when the share is exactly 0 (placeholder jump ratio 1.0), outside the photo table, for shells/lines outside K..L3.
"""
import re
import numpy as np
from .. import common, refdata, execlib

TOL = 1e-12
# every term of the reference is a product/sum of non-negative doubles returned verbatim by the primitives: no
# cancellation, <= ~30 roundings on either side => relative difference <= ~1e-14; 1e-12 leaves two orders of margin
# while the smallest structural term (f12*f23*t1, a 1/J factor, one member rate) is > 1e-6 of the result.

LB_MEMBERS = ['L2M4', 'L2M3', 'L3N5', 'L3O4', 'L3O5', 'L3O45', 'L3N1', 'L3O1', 'L3N6', 'L3N7', 'L3N4',
              'L1M3', 'L1M2', 'L1M5', 'L1M4']            # beta1 ... beta17 of the jump-ratio variant (15 lines)
SHELLNAME = ['K', 'L1', 'L2', 'L3']
IUPAC = re.compile(r'^(K|L1|L2|L3|M[1-5]|N[1-7]|O[1-7]|P[1-5]|Q[1-3])([LMNOPQ]\d*)$')
FIXED_E = [0.5, 1.0, 5.0, 20.0, 90.0, 200.0]
EDGE_E = [0.1, 999.0]                    # ends of the photo table (inside)
BAD_E = [0.0, -1.0, 0.05, 1500.0]        # must fail: non-positive / outside the photo table


def line_shell_table(mac):
    """macro value -> initial shell index 0..3 (from the IUPAC *name*), 'LB', or None (unsupported line)."""
    byv = {}
    for n, v in mac.by_suffix('_LINE').items():
        byv.setdefault(v, []).append(n)
    out = {}
    for v, names in byv.items():
        cls = set()
        for n in names:
            if n in ('KA', 'KB'):
                cls.add(0)
            elif n == 'LA':
                cls.add(3)
            elif n == 'LB':
                cls.add('LB')
            else:
                m = IUPAC.match(n)
                if m:
                    cls.add(SHELLNAME.index(m.group(1)) if m.group(1) in SHELLNAME else None)
        if len(cls) != 1:
            raise common.Inconclusive('cannot classify line macro value %d (%r)' % (v, names))
        out[v] = cls.pop()
    return out, byv


def energy_points(Zs, edges, tier, rng):
    """flat arrays (index into Zs, energy)"""
    pz, pe = [], []
    nrand = 4 if tier == 'quick' else 40
    for k, Z in enumerate(Zs):
        Es = set(FIXED_E) | set(EDGE_E) | set(BAD_E)
        ee = [x for x in edges[k] if x > 0]
        for e in ee:
            for f in (1 - 1e-9, 1 + 1e-9) + ((0.99, 1.01) if tier == 'thorough' else ()):
                Es.add(e * f)
            Es.add(e)                                     # exactly on the edge: not above it
            for q in (1, 4):                              # ... and its neighbours among the doubles (a tolerance in the comparison shows only here)
                lo_, hi_ = e, e
                for _ in range(q):
                    lo_, hi_ = float(np.nextafter(lo_, 0.0)), float(np.nextafter(hi_, np.inf))
                Es.add(lo_); Es.add(hi_)
            Es.add(e + 5e-13); Es.add(e + 2e-12); Es.add(e - 5e-13)
        se = sorted(set(ee))
        for a, b in zip(se, se[1:]):
            Es.add((a + b) / 2)
            Es.add(a + (b - a) * float(rng.random()))
        for _ in range(nrand):
            Es.add(float(np.exp(rng.uniform(np.log(0.1), np.log(1000.0)))))
        if se:                                            # random points in the decade above the top edge / below the lowest
            Es.add(se[-1] * (1 + 9 * float(rng.random())))
            Es.add(se[0] * float(rng.uniform(0.3, 1.0)))
        for E in sorted(Es):
            pz.append(k); pe.append(E)
    return np.array(pz), np.array(pe)


def val(r):
    """primitive result: value, 0 where unavailable (error)"""
    return np.where(r.ok, r.v, 0.0)


def shares(P, pz, E):
    """jump share x yield for the four shells at the points; NaN = failure expected. Also regime codes."""
    e = P['edge'][pz]; j = P['jump'][pz]; w = P['yield'][pz]; f = P['ck'][pz]
    f12, f13, fp13, f23 = f[:, 0], f[:, 1], f[:, 2], f[:, 3]
    above = (e > 0) & (E[:, None] > e)                    # which of the K, L1, L2, L3 edges lie below E
    aK, a1, a2, a3 = above.T
    jK, j1, j2, j3 = j.T
    nan = np.full(len(E), np.nan)
    with np.errstate(divide='ignore', invalid='ignore'):
        kdiv = np.where(aK, np.where(jK > 0, 1.0 / jK, np.nan), 1.0)           # [1/J_K above K]; needs J_K there
        sK = np.where(aK & (jK > 0) & (w[:, 0] > 0), (jK - 1) / jK * w[:, 0], np.nan)
        s1 = np.where(a1 & (j1 > 0) & (w[:, 1] > 0), kdiv * ((j1 - 1) / j1 * w[:, 1]), np.nan)
        # L2
        r1 = a1                                           # above L1
        r2 = ~a1 & a2                                     # between L2 and L1
        t1 = np.where(r1, (j1 - 1) / j1, 0.0)
        t2 = np.where(r1, (j2 - 1) / (j2 * j1), np.where(r2, (j2 - 1) / j2, np.nan))
        need = np.where(r1, (j1 > 0) & (j2 > 0), (j2 > 0)) & (r1 | r2)
        need &= ~((t1 > 0) & (f12 == 0)) & (w[:, 2] > 0)
        need &= a2                                         # below its OWN edge a sub-shell is never ionised, whatever the order of the tabulated edges
        s2 = np.where(need, kdiv * ((t2 + t1 * f12) * w[:, 2]), np.nan)
        # L3
        r3 = ~a1 & ~a2 & a3
        t1 = np.where(r1, (j1 - 1) / j1, 0.0)
        t2 = np.where(r1, (j2 - 1) / (j2 * j1), np.where(r2, (j2 - 1) / j2, 0.0))
        t3 = np.where(r1, (j3 - 1) / (j3 * j2 * j1), np.where(r2, (j3 - 1) / (j3 * j2), np.where(r3, (j3 - 1) / j3, np.nan)))
        need = np.where(r1, (j1 > 0) & (j2 > 0) & (j3 > 0), np.where(r2, (j2 > 0) & (j3 > 0), j3 > 0)) & (r1 | r2 | r3)
        need &= ~((t2 > 0) & (f23 == 0))
        need &= ~((t1 > 0) & ((f13 + fp13 == 0) | (f12 == 0) | (f23 == 0)))
        need &= w[:, 3] > 0
        need &= a3
        s3 = np.where(need, kdiv * ((t3 + t2 * f23 + t1 * (f13 + fp13 + f12 * f23)) * w[:, 3]), np.nan)
    S = np.stack([sK, s1, s2, s3], axis=1)
    S[~(S > 0)] = np.nan                                  # a share of exactly 0 (placeholder jump 1.0) => failure expected
    zero_share = np.stack([np.where(aK & (jK == 1.0), 1, 0), np.where(a1 & (j1 == 1.0), 1, 0),
                           np.where((r1 | r2) & (j2 == 1.0), 1, 0), np.where((r1 | r2 | r3) & (j3 == 1.0), 1, 0)], axis=1)
    regime = aK * 8 + a1 * 4 + a2 * 2 + a3 * 1            # bit mask of the edges below E
    return S, regime, zero_share


def regime_name(code):
    return ''.join(n if code & b else '' for n, b in (('K', 8), ('L1', 4), ('L2', 2), ('L3', 1))) or 'none'


def main(tier):
    ck = common.Check('C09', tier)
    mac = refdata.Macros()
    rng = np.random.default_rng(common.seed() * 1000003 + 9)
    L = execlib.Lib('shipped', 'plain')
    avog = float(mac.all['AVOGNUM'])
    shells = mac.by_suffix('_SHELL'); trans = mac.by_suffix('_TRANS')
    if [shells[s] for s in SHELLNAME] != [0, 1, 2, 3]:
        raise common.Inconclusive('unexpected shell macro values')
    lshell, names_of = line_shell_table(mac)
    lmin, lmax = min(lshell), max(lshell)
    lvals = np.arange(lmin - 3, lmax + 4)
    LBv = mac.int['LB_LINE']
    lb_members = [mac.int[n + '_LINE'] for n in LB_MEMBERS]
    if any(lshell[v] != SHELLNAME.index(n[:2]) for v, n in zip(lb_members, LB_MEMBERS)) or len(set(lb_members)) != 15:
        raise common.Inconclusive('L-beta member table inconsistent with macro names')

    Zs = np.array(list(range(1, 121)) + [-1, 0, 121, 125])
    nZ = len(Zs)
    sh4 = np.arange(4)
    ckv = np.array([trans['FL12'], trans['FL13'], trans['FLP13'], trans['FL23']])
    res = L.multi([('EdgeEnergy', Zs[:, None], sh4[None, :]), ('JumpFactor', Zs[:, None], sh4[None, :]),
                   ('FluorYield', Zs[:, None], sh4[None, :]), ('CosKronTransProb', Zs[:, None], ckv[None, :]),
                   ('RadRate', Zs[:, None], lvals[None, :]), ('AtomicWeight', Zs)])
    P = dict(edge=val(res[0]).reshape(nZ, 4), jump=val(res[1]).reshape(nZ, 4), **{'yield': val(res[2]).reshape(nZ, 4)},
             ck=val(res[3]).reshape(nZ, 4))
    rr = val(res[4]).reshape(nZ, len(lvals))
    aw = val(res[5])
    ncalls = sum(len(r) for r in res)
    if (P['edge'][:, 0] > 0).sum() < 90 or (P['jump'] > 1).sum() < 300 or (rr > 0).sum() < 5000:
        raise common.Inconclusive('primitive tables look empty: cannot build a reference')

    pz, E = energy_points(Zs, P['edge'], tier, rng)
    npt = len(E)
    Zp = Zs[pz]
    r = L.call('CS_Photo', Zp, E); ncalls += npt
    photo = np.where(r.ok & (r.v > 0), r.v, np.nan)
    S, regime, zero_share = shares(P, pz, E)
    ref_shell = S * photo[:, None]                        # npt x 4, NaN = failure expected
    barn = np.where(aw[pz] > 0, aw[pz] / avog, np.nan)

    st = dict(per_function={}, worst_rel=0.0, samples=[], fail_classes={}, skipped_as_consequence={})
    cells = set()
    line_cells = set()

    def compare(fname, macs, ref, klass, barns, skip=None):
        """macs: 1-d array of second arguments; ref: npt x len(macs) expectation (NaN = must fail); klass(k, m) -> key suffix;
        skip: cells whose deviation is already reported under the key of the function this one is built on (one defect,
        one family of keys). Returns (compared-successfully mask, deviating mask)."""
        nonlocal ncalls
        ref = ref * barn[:, None] if barns else ref
        got = L.call(fname, Zp[:, None], macs[None, :], E[:, None]); ncalls += len(got)
        ok = got.ok.reshape(ref.shape); v = got.v.reshape(ref.shape)
        has = ~np.isnan(ref)
        rel = np.zeros(ref.shape)
        m_ = has & ok
        rel[m_] = np.abs(v[m_] - ref[m_]) / ref[m_]
        dev = (has != ok) | (m_ & (rel > TOL))
        if skip is not None:
            st['skipped_as_consequence'][fname] = int((dev & skip).sum())
            ok = np.where(skip, has, ok); v = np.where(skip & has, ref, v)
        nm = lambda i, m: '%s(%d,%d,%r)' % (fname, Zp[i], macs[m], float(E[i]))
        for i, m in zip(*np.nonzero(has & ~ok)):
            ck.violation('c09:%s:error-where-defined:%s' % (fname, klass(i, m)),
                         '%s failed (%s) where the reference gives %r' % (fname, got.msg(i * len(macs) + m), float(ref[i, m])),
                         dict(call=nm(i, m), expected=float(ref[i, m])))
        for i, m in zip(*np.nonzero(~has & ok)):
            kind = 'zero-without-error' if v[i, m] == 0 else 'value-where-undefined'
            ck.violation('c09:%s:%s:%s' % (fname, kind, klass(i, m)),
                         '%s returned %r without an error where the reference expects failure' % (fname, float(v[i, m])),
                         dict(call=nm(i, m), returned=float(v[i, m])))
        both = has & ok
        if skip is not None:
            rel[skip] = 0
            both &= ~skip
        for i, m in zip(*np.nonzero(both & (rel > TOL))):
            ck.violation('c09:%s:wrong-value:%s' % (fname, klass(i, m)),
                         '%s returned %r, reference %r (rel %.2e)' % (fname, float(v[i, m]), float(ref[i, m]), rel[i, m]),
                         dict(call=nm(i, m), returned=float(v[i, m]), expected=float(ref[i, m])))
        if both.any():
            st['worst_rel'] = max(st['worst_rel'], float(rel[both].max()))
            idx = np.argwhere(both)
            for t in range(2):
                i, m = idx[int(rng.integers(len(idx)))]
                st['samples'].append(dict(call=nm(i, m), returned=float(v[i, m]), reference=float(ref[i, m])))
        st['per_function'][fname] = dict(calls=int(ref.size), compared_values=int(both.sum()), expected_failures=int((~has).sum()))
        return both, dev

    # ---- shells ------------------------------------------------------------------------------------------
    smacs = np.arange(-2, max(shells.values()) + 3)
    ref = np.full((npt, len(smacs)), np.nan)
    ref[:, 2:6] = ref_shell
    sname = lambda m: SHELLNAME[smacs[m]] if 0 <= smacs[m] <= 3 else 'other-shell'
    kl = lambda i, m: '%s:regime-%s' % (sname(m), regime_name(int(regime[i])))
    dev_shell = None
    for fname, b in (('CS_FluorShell', False), ('CSb_FluorShell', True)):
        both, dev = compare(fname, smacs, ref, kl, b, dev_shell)
        if not b:
            dev_shell = dev
            for i, m in zip(*np.nonzero(both)):
                cells.add((int(smacs[m]), int(regime[i]), int(Zp[i])))
    # failure classes seen for the four shells (evidence of the failure side)
    for s in range(4):
        f = np.isnan(ref_shell[:, s]) & (Zp >= 1) & (Zp <= 120)
        above = (P['edge'][pz, s] > 0) & (E > P['edge'][pz, s])
        st['fail_classes'][SHELLNAME[s]] = dict(
            not_above_edge=int((f & ~above).sum()),
            outside_photo_table=int((f & above & np.isnan(photo)).sum()),
            zero_share_placeholder_jump=int((f & above & ~np.isnan(photo) & (zero_share[:, s] > 0) & np.isnan(S[:, s])).sum()),
            primitive_unavailable=int((f & above & ~np.isnan(photo) & ~((zero_share[:, s] > 0) & np.isnan(S[:, s]))).sum()))

    # ---- lines -------------------------------------------------------------------------------------------
    ref = np.full((npt, len(lvals)), np.nan)
    group = {}
    skip = np.zeros(ref.shape, bool)          # cells built on a shell value that already deviates
    dsh = dev_shell[:, 2:6]
    for m, v in enumerate(lvals):
        s = lshell.get(int(v))
        if s in (0, 1, 2, 3):
            skip[:, m] = dsh[:, s]
            rate = rr[pz, m]
            ref[:, m] = np.where(rate > 0, ref_shell[:, s] * rate, np.nan)
            nms = names_of[int(v)]
            group[m] = [g for g in ('KA', 'KB', 'LA') if g in nms][0] if any(g in nms for g in ('KA', 'KB', 'LA')) else SHELLNAME[s] + '-lines'
        elif s == 'LB':
            tot = np.zeros(npt)
            for mv in lb_members:
                mm = int(mv - lvals[0])
                tot += np.nan_to_num(S[:, lshell[mv]]) * rr[pz, mm]
            ref[:, m] = np.where(tot > 0, tot * photo, np.nan)
            group[m] = 'LB'
            skip[:, m] = dsh[:, 1] | dsh[:, 2] | dsh[:, 3]
        else:
            group[m] = 'unsupported-line' if int(v) in lshell else 'no-such-line'
    kl = lambda i, m: '%s:regime-%s' % (group[m], regime_name(int(regime[i])))
    for fname, b in (('CS_FluorLine', False), ('CSb_FluorLine', True)):
        both, dev = compare(fname, lvals, ref, kl, b, skip)
        if not b:
            skip = skip | dev
            zi, mi = np.nonzero(both)
            for g in set(group.values()):
                sel = np.array([group[m] == g for m in mi])
                if sel.any():
                    for z, rg in set(zip(Zp[zi[sel]].tolist(), regime[zi[sel]].tolist())):
                        line_cells.add((g, rg, z))
            lb_ok = int(both[:, int(LBv - lvals[0])].sum())
            lb_partial = int((both[:, int(LBv - lvals[0])] & np.isnan(ref_shell[:, 1])).sum())

    # ---- coverage guards -------------------------------------------------------------------------------------
    seen = sorted({(s, rg) for s, rg, z in cells})
    required = [(0, 15), (1, 15), (1, 7), (2, 15), (2, 7), (2, 3), (3, 15), (3, 7), (3, 3), (3, 1)]
    missing = [(SHELLNAME[s], regime_name(rg)) for s, rg in required if (s, rg) not in seen]
    if not ck.viol:                                       # a run that already holds a witness is decided; otherwise demand reach
        if missing:
            raise common.Inconclusive('formula branches never reached on the success path: %r' % missing)
        if len(seen) < 11:
            raise common.Inconclusive('only %d of the 11 reachable (shell, regime) cells observed: %r' % (len(seen), seen))
        for g in ('KA', 'KB', 'LA', 'LB', 'K-lines', 'L1-lines', 'L2-lines', 'L3-lines'):
            if not any(c[0] == g for c in line_cells):
                raise common.Inconclusive('no successful comparison for line class ' + g)
        if lb_partial < 10:
            raise common.Inconclusive('L-beta never observed with only part of its members excited')
        if min(d['zero_share_placeholder_jump'] for d in st['fail_classes'].values()) < 3:
            raise common.Inconclusive('placeholder jump ratio (share exactly 0) not observed for every shell')
    # functions of their arguments alone: a thinned grid re-run in other call orders and without an error slot
    _zz = np.arange(1, 121, 1)
    _E = np.array([0.5, 1.02355, 3.0, 8.0, 9.2, 13.5, 15.5, 21.0, 30.0, 95.0])
    _Z3, _S3, _E3 = [x.ravel() for x in np.meshgrid(_zz, np.arange(0, 4), _E, indexing='ij')]
    _Z4, _L4, _E4 = [x.ravel() for x in np.meshgrid(_zz[::3], np.array([0, 1, 2, 3, -3, -29, -44, -63, -68, -86, -90, -113]), _E, indexing='ij')]
    ncalls += execlib.independence(ck, 'c09', 'shipped', [('CS_FluorShell', _Z3, _S3, _E3), ('CSb_FluorShell', _Z3, _S3, _E3), ('CS_FluorLine', _Z4, _L4, _E4), ('CSb_FluorLine', _Z4, _L4, _E4)])
    cov = dict(evaluations=int(ncalls), distinct_nontrivial=len(cells),
               rule='(shell, set of K/L1/L2/L3 edges below E, Z) cells in which CS_FluorShell succeeded and was compared with the '
                    'reference at %g relative; energies: both sides (1+-1e-9%s) of and exactly on every K/L edge, midpoints and a seeded '
                    'random point between consecutive edges, fixed and seeded random points across the photo table, table ends, '
                    'invalid energies; Z 1..120 plus -1,0,121,125; shells -2..%d; line macros %d..%d'
                    % (TOL, ', 1+-1e-2' if tier == 'thorough' else '', int(smacs[-1]), int(lvals[0]), int(lvals[-1])),
               samples=st['samples'][:12], exhaustive=False, points=int(npt),
               regimes_seen=['%s:%s' % (SHELLNAME[s], regime_name(rg)) for s, rg in seen],
               line_cells=len(line_cells), lbeta_success=lb_ok, lbeta_success_below_L1=lb_partial,
               per_function=st['per_function'], expected_failures_by_cause=st['fail_classes'],
               worst_relative_difference=st['worst_rel'], skipped_as_consequence_of_reported_deviation=st['skipped_as_consequence'], tolerance=TOL, lbeta_members=LB_MEMBERS)
    return ck.finish(cov, ['primitives (EdgeEnergy, JumpFactor, CosKronTransProb, FluorYield, RadRate, AtomicWeight, CS_Photo) are '
                           'checked against the data files by C01/C02; here they are inputs of the reference',
                           'a line belongs to the sub-shell named by the prefix of its IUPAC macro name',
                           'shipped configuration only: the jump-ratio functions do not use Kissel data'])
