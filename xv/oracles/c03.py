"""C03 - errors are reported iff the call failed; results are finite (inline contract monitor)."""
from .. import sweeprun, common, failrun

KINDS = {'zero-without-error', 'nonfinite-without-error', 'error-with-value', 'slot-dependent-result',
         'error-set-twice', 'stderr-output', 'bad-error-code', 'empty-message', 'unprintable-message',
         'copy-differs', 'wrong-answer', 'wrong-count', 'duplicate-accepted', 'not-moved', 'not-cleared', 'copy-of-null'}


def main(tier):
    ck = common.Check('C03', tier)
    budget = 300000 if tier == 'quick' else 20000000
    flavours = ['plain'] if tier == 'quick' else ['plain', 'asan']
    results = []
    for fl in flavours:
        for cfg in ('shipped', 'kissel'):
            b = budget if fl == 'plain' else budget // 8
            results.append(sweeprun.run(cfg, fl, b))
    viol, paths, fns, tot = sweeprun.merge(results)
    for res in results:
        for c in res['crashes']:
            if c['kind'] == 'exit-report' or (c['fn'] == 'done'):
                continue   # exit-time leak reports belong to C04
            ck.violation('crash:%s:%s' % (c['kind'], c['fn']),
                         'call neither returned a value nor reported an error (process died)',
                         dict(witness=c['witness'], config=res['config'], flavour=res['flavour'],
                              reports=[r['kind'] + ' in ' + r['func'] for r in c.get('reports', [])]))
    for (fn, kind, msg), v in viol.items():
        if kind not in KINDS:
            continue
        key = 'c03:%s:%s' % (kind, fn) + (':' + msg if kind in ('error-set-twice', 'stderr-output', 'error-with-value') and msg else '')
        ck.violation(key, '%s in %s (%d calls)' % (kind, fn, v['count']), dict(call=v['witness'], config=v['config'], count=v['count']))
    # allocation failpoints: a call that notices a failed allocation (returns its failure sentinel) must store an error like any other failure
    fr = failrun.run('shipped')
    failrun.report(ck, fr, 'C03')
    if tot['calls'] < 100000 or len(fns) < 100:
        raise common.Inconclusive('sweep observed too little: %r calls over %d functions' % (tot['calls'], len(fns)))
    ok_fns = sum(1 for f in fns.values() if f['ok'] > 0)
    samples = [dict(function=k[0], error_code=k[1], message=k[2], calls=n) for k, n in sorted(paths.items())[:40:2]]
    cov = dict(evaluations=tot['calls'] * 2, distinct_nontrivial=len(paths) + ok_fns,
               rule='every exported function x sampled mixed-radix argument space (all discrete values incl. INT_MIN/MAX; energies at '
                    'table ends, edges +/-1e-9, found by bisection at run time); each call made with and without an error slot; '
                    'distinct = (function, error code, normalised message) return paths driven + functions with a success path driven',
               samples=samples, functions=len(fns), functions_with_success=ok_fns, error_paths=len(paths),
               successful_calls=tot['ok'], failing_calls=tot['err'], budget_per_function=budget,
               configs=['shipped', 'kissel'], flavours=flavours, allocation_failpoints=fr['summary'],
               per_function={k: v for k, v in sorted(fns.items())})
    return ck.finish(cov, ['inline monitor in harness/mon_sweep.c; result classes (POSITIVE/NONNEG/ANY) from xv/sigtab.py',
                           'gcc, glibc'])
