"""C03 - errors are reported iff the call failed; results are finite (inline contract monitor)."""
from .. import sweeprun, common, failrun, build

KINDS = {'zero-without-error', 'nonfinite-without-error', 'error-with-value', 'slot-dependent-result',
         'error-set-twice', 'stderr-output', 'bad-error-code', 'empty-message', 'unprintable-message',
         'copy-differs', 'wrong-answer', 'wrong-count', 'duplicate-accepted', 'not-moved', 'not-cleared', 'copy-of-null'}


def main(tier):
    ck = common.Check('C03', tier)
    budget = 300000 if tier == 'quick' else 20000000
    flavours = ['plain'] if tier == 'quick' else ['plain', 'asan']
    results = []
    for fl in flavours:
        for cfg in ('shipped', 'kissel'):
            b = budget if fl == 'plain' else budget // 8
            results.append(sweeprun.run(cfg, fl, b))
    # the same sweep in a host that traps floating-point exceptions (feenableexcept / gfortran -ffpe-trap): a function that computes
    # 0/0 or log(-1) before it rejects its arguments then kills the process instead of reporting the failure
    for cfg in ('shipped', 'kissel'):
        results.append(sweeprun.run(cfg, 'plain', budget // 3, env={'XV_FPTRAP': '1'}))
    # ... and on the library exactly as the project's own build system makes it (meson: its flags, its options), not the monitor's build
    for cfg in ('shipped', 'kissel'):
        results.append(sweeprun.run(cfg, 'meson', budget // 3, env={'LD_PRELOAD': build.hostile_host(cfg)['so']}))   # inside a host that defines the library's internal names itself
        # ... in its other common configurations: optimised without assertions (buildtype=release, b_ndebug=true), plain char unsigned (arm, ppc64le, s390x ABI)
        for pb in build.PROJECT_BUILDS[1:]:
            results.append(sweeprun.run(cfg, pb, budget // 5, env={'LD_PRELOAD': build.hostile_host(cfg)['so']}))
    viol, paths, fns, tot = sweeprun.merge(results)
    for res in results:
        for c in res['crashes']:
            if c['kind'] == 'exit-report' or (c['fn'] == 'done'):
                continue   # exit-time leak reports belong to C04
            fpt = 'XV_FPTRAP' in res.get('env', {})
            if c['kind'] == 'exit:97' and 'LD_PRELOAD' in res.get('env', {}):
                ck.violation('c03:internal-symbol-pre-empted-by-the-host-program:%s' % c['fn'], 'in the library as meson builds it, a call of %s ran a function of the HOST program that merely has the '
                             'name of a library internal (rc 97 from the hostile-host preload)' % c['fn'], dict(witness=c['witness'], config=res['config'], flavour=res['flavour']))
                continue
            ck.violation('crash:%s:%s%s' % (c['kind'], c['fn'], ':with-fp-traps' if fpt else ''),
                         'call neither returned a value nor reported an error (process died)' + (' in a host that traps floating-point exceptions' if fpt else ''),
                         dict(witness=c['witness'], config=res['config'], flavour=res['flavour'],
                              reports=[r['kind'] + ' in ' + r['func'] for r in c.get('reports', [])]))
    for (fn, kind, msg), v in viol.items():
        if kind not in KINDS:
            continue
        key = 'c03:%s:%s' % (kind, fn) + (':' + msg if kind in ('error-set-twice', 'stderr-output', 'error-with-value') and msg else '')
        ck.violation(key, '%s in %s (%d calls)' % (kind, fn, v['count']), dict(call=v['witness'], config=v['config'], count=v['count']))
    # legitimate zeros of an intermediate are not failures: the roots of f'(E), located at run time, and the doubles around them
    from . import c06
    from .. import execlib, xl
    rp = dict(calls=0, classes=set())
    c06.root_probe(ck, execlib.Lib('shipped'), xl.XL('shipped'), rp, tier)
    # what the shared library exports is what a host program can call - and what its own symbols can pre-empt: every exported function is
    # either declared in a public header (and therefore swept above) or one of the helper entry points the bindings are known to use
    import json, subprocess, os
    lib_ = build.lib('shipped', 'plain')
    decl = {x['name'] for x in json.load(open(os.path.join(build.sigtab(), 'sigtab.json')))['declared']}
    helpers = set(build.PUBLIC_HELPERS)
    exported = [l.split()[-1] for l in subprocess.run(['nm', '-D', '--defined-only', lib_['so']], stdout=subprocess.PIPE).stdout.decode().split('\n') if l.strip()]
    if len(exported) < 150:
        raise common.Inconclusive('could not read the dynamic symbol table of the plain build (%d symbols)' % len(exported))
    exported_m = [l.split()[-1].split('@')[0] for l in subprocess.run(['nm', '-D', '--defined-only', build.meson_lib('shipped')['so']], stdout=subprocess.PIPE).stdout.decode().split('\n') if l.strip()]
    if len(exported_m) < 150:
        raise common.Inconclusive('could not read the dynamic symbol table of the meson build (%d symbols)' % len(exported_m))
    for which, syms in (('monitor', exported), ('meson', exported_m)):
        for sym in syms:
            if sym not in decl and sym not in helpers:
                ck.violation('c03:exported-symbol-without-public-declaration:%s' % sym, 'the library (%s build) exports %s, which no public header declares: internal calls to it go through the PLT and bind to a '
                             'same-named function of the host program' % (which, sym), dict(symbol=sym, build=which, exported=len(syms), declared=len(decl)))
    # allocation failpoints: a call that notices a failed allocation (returns its failure sentinel) must store an error like any other failure
    fr = failrun.run('shipped')
    failrun.report(ck, fr, 'C03')
    if tot['calls'] < 100000 or len(fns) < 100:
        raise common.Inconclusive('sweep observed too little: %r calls over %d functions' % (tot['calls'], len(fns)))
    ok_fns = sum(1 for f in fns.values() if f['ok'] > 0)
    samples = [dict(function=k[0], error_code=k[1], message=k[2], calls=n) for k, n in sorted(paths.items())[:40:2]]
    cov = dict(evaluations=tot['calls'] * 2, distinct_nontrivial=len(paths) + ok_fns,
               rule='every exported function x sampled mixed-radix argument space (all discrete values incl. INT_MIN/MAX; energies at '
                    'table ends, edges +/-1e-9, found by bisection at run time); each call made with and without an error slot; '
                    'distinct = (function, error code, normalised message) return paths driven + functions with a success path driven',
               samples=samples, functions=len(fns), functions_with_success=ok_fns, error_paths=len(paths),
               successful_calls=tot['ok'], failing_calls=tot['err'], budget_per_function=budget,
               configs=['shipped', 'kissel'], flavours=flavours, allocation_failpoints=fr['summary'], exported_symbols=len(exported), exported_symbols_of_the_meson_build=len(exported_m), internal_names_defined_by_the_hostile_host={k: len(v) for k, v in build.hostile_host('shipped')['names'].items()}, root_of_Fi_probe=rp.get('root_probe'),
               per_function={k: v for k, v in sorted(fns.items())})
    return ck.finish(cov, ['inline monitor in harness/mon_sweep.c; result classes (POSITIVE/NONNEG/ANY) from xv/sigtab.py',
                           'gcc, glibc'])
