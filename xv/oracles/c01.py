"""C01 - scalar lookups return exactly the shipped table value, or an error (exhaustive offline value checker)."""
import numpy as np
from .. import common, refdata, execlib, build

CK_MAP = {'F12': 'FL12', 'F13': 'FL13', 'FP13': 'FLP13', 'F23': 'FL23'}
LINE_GROUPS = ['KA', 'KB', 'LA', 'LB', 'L1N67', 'L1O45', 'L1P23', 'L2P23', 'L3O45', 'L3P23', 'L3P45', 'KO', 'KP']
EXTREME = [-2147483648, 2147483647, -65536, 65536]


def expected_table(records, names_of_value, namemap=lambda n: n):
    """records {(Z, NAME): v} -> {(Z, macro value): v} for positive records that have a public macro"""
    byname = {}
    for (Z, nm), v in records.items():
        byname[(Z, namemap(nm))] = v          # last record wins (records is already last-wins)
    out, unaddressable = {}, 0
    value_of = {}
    for val, names in names_of_value.items():
        for n in names:
            value_of[n] = val
    for (Z, nm), v in byname.items():
        if nm not in value_of:
            unaddressable += 1
            continue
        if v > 0:
            out[(Z, value_of[nm])] = v
    return out, unaddressable


def names_by_value(mac, suffix):
    d = {}
    for n, v in mac.by_suffix(suffix).items():
        d.setdefault(v, []).append(n)
    return d


def sweep(ck, L, fname, exp, Zs, macs, st, two_args=True, skip=()):
    Zs = np.asarray(Zs); macs = np.asarray(macs)
    if two_args:
        ZZ, MM = np.meshgrid(Zs, macs, indexing='ij')
        ZZ, MM = ZZ.ravel(), MM.ravel()
        if len(skip):
            keep = ~np.isin(MM, list(skip))
            ZZ, MM = ZZ[keep], MM[keep]
        r = L.call(fname, ZZ, MM)
    else:
        ZZ, MM = Zs, np.zeros(len(Zs), int)
        r = L.call(fname, ZZ)
    # the same calls without an error slot and in plain grid order must return the same bits (the main pass runs in random order)
    if L.flavour == 'plain':
        for tag, L2 in (('without-error-slot', execlib.Lib(L.config, env={'XV_NOSLOT': '1'})), ('in-grid-order', execlib.Lib(L.config, shuffle=False))):
            r2 = L2.call(fname, ZZ, MM) if two_args else L2.call(fname, ZZ)
            st['calls'] += len(ZZ)
            bad = np.nonzero(r2.v.view('u8') != r.v.view('u8'))[0]
            for k in bad[:2]:
                ck.violation('c01:%s:value-differs-%s' % (fname, tag), '%s returns %r %s and %r otherwise' % (fname, float(r2.v[k]), tag.replace('-', ' '), float(r.v[k])),
                             dict(call='%s(%d,%d)' % (fname, ZZ[k], MM[k]) if two_args else '%s(%d)' % (fname, ZZ[k]), config=L.config))
        # the calls as user code writes them (direct call, local error slot tested right after it, -O2, public header): same value, and
        # the caller sees an error exactly when the dispatch-table call reported one
        r3 = execlib.Lib(L.config, env={'XV_DIRECT': '1'}).call(fname, ZZ, MM) if two_args else execlib.Lib(L.config, env={'XV_DIRECT': '1'}).call(fname, ZZ)
        st['calls'] += len(ZZ)
        bad = np.nonzero((r3.v.view('u8') != r.v.view('u8')) | ((r3.status & 1) != (r.status & 1)))[0]
        for k in bad[:2]:
            ck.violation('c01:%s:direct-call-from-optimised-user-code-differs' % fname,
                         '%s called directly from optimised user code gives %r / error seen: %s; through the dispatch table %r / error: %s' % (
                             fname, float(r3.v[k]), bool(r3.status[k] & 1), float(r.v[k]), r.msg(k) if r.err[k] else 'none'),
                         dict(call='%s(%d,%d)' % (fname, ZZ[k], MM[k]) if two_args else '%s(%d)' % (fname, ZZ[k]), config=L.config))
        # the library as the project's own build makes it (meson), inside a host program whose own globals carry the names of the library's
        # internal tables and helpers (build.hostile_host): the tables the calls read are the library's own, so the bits are the same
        for pb in build.EXEC_BUILDS:       # default options / release without assertions / plain char unsigned (execlib.PB_WHAT)
            try:
                L4 = execlib.Lib(L.config, pb, env={'LD_PRELOAD': build.hostile_host(L.config)['so']})
                r4 = L4.call(fname, ZZ, MM) if two_args else L4.call(fname, ZZ)
                st['calls'] += len(ZZ)
                st['calls_in_the_project_build_inside_a_hostile_host'] = st.get('calls_in_the_project_build_inside_a_hostile_host', 0) + len(ZZ)
                bad = np.nonzero((r4.v.view('u8') != r.v.view('u8')) | (r4.status != r.status))[0]
                for k in bad[:2]:
                    ck.violation('c01:%s:project-build-in-a-host-with-same-named-globals-differs%s' % (fname, '' if pb == 'meson' else ':' + pb[6:]),
                                 '%s gives %r (status %d) in the meson-built library loaded into a program that defines globals named like the library\'s internal tables, %r (status %d) otherwise' % (
                                     fname, float(r4.v[k]), int(r4.status[k]), float(r.v[k]), int(r.status[k])),
                                 dict(call='%s(%d,%d)' % (fname, ZZ[k], MM[k]) if two_args else '%s(%d)' % (fname, ZZ[k]), config=L.config, build=pb))
            except execlib.ExecCrash as ex:
                ck.violation('c01:%s:project-build-in-a-host-with-same-named-globals-dies%s' % (fname, '' if pb == 'meson' else ':' + pb[6:]), '%s kills the process (rc %d) in the meson-built library loaded into a program that defines globals named like the '
                             'library\'s internals: %s' % (fname, ex.rc, ex.tail[-200:]), dict(function=fname, config=L.config, build=pb))
    ref = np.array([exp.get((int(z), int(m)) if two_args else int(z), np.nan) for z, m in zip(ZZ, MM)])
    has = ~np.isnan(ref) & (ZZ >= 1) & (ZZ <= 120)
    st['calls'] += len(ZZ)
    st['positive'] += int(has.sum())
    st['error_cells'] += int((~has).sum())
    # (1) a number where no positive record exists / macro out of range
    bad = np.nonzero(~has & r.ok)[0]
    for k in bad[:3]:
        ck.violation('c01:%s:value-without-record' % fname, '%s returned %r where the data files hold no positive record' % (fname, float(r.v[k])),
                     dict(call='%s(%d,%d)' % (fname, ZZ[k], MM[k]) if two_args else '%s(%d)' % (fname, ZZ[k]), config=L.config))
    # (2) an error where a record exists
    bad = np.nonzero(has & r.err)[0]
    for k in bad[:3]:
        ck.violation('c01:%s:error-with-record' % fname, '%s failed (%s) although the data file records %r' % (fname, r.msg(k), float(ref[k])),
                     dict(call='%s(%d,%d)' % (fname, ZZ[k], MM[k]) if two_args else '%s(%d)' % (fname, ZZ[k]), config=L.config))
    # (3) wrong value
    both = has & r.ok
    rel = np.zeros(len(ZZ))
    rel[both] = np.abs(r.v[both] - ref[both]) / np.abs(ref[both])
    bad = np.nonzero(both & (rel > 1e-10))[0]
    for k in bad[:3]:
        ck.violation('c01:%s:wrong-value' % fname, '%s returned %r, data file records %r (rel %.2e)' % (fname, float(r.v[k]), float(ref[k]), rel[k]),
                     dict(call='%s(%d,%d)' % (fname, ZZ[k], MM[k]) if two_args else '%s(%d)' % (fname, ZZ[k]), config=L.config))
    if both.any():
        st['worst_rel'] = max(st['worst_rel'], float(rel[both].max()))
        k = int(np.nonzero(both)[0][len(st['samples']) * 37 % int(both.sum())])
        st['samples'].append(dict(call=('%s(%d,%d)' % (fname, ZZ[k], MM[k])) if two_args else '%s(%d)' % (fname, ZZ[k]),
                                  returned=float(r.v[k]), recorded=float(ref[k]), config=L.config))
    st['per_function'][fname + '@' + L.config] = dict(calls=int(len(ZZ)), positive=int(has.sum()))


def main(tier):
    ck = common.Check('C01', tier)
    mac = refdata.Macros()
    shells = names_by_value(mac, '_SHELL')
    lines = names_by_value(mac, '_LINE')
    trans = names_by_value(mac, '_TRANS')
    st = dict(calls=0, positive=0, error_cells=0, worst_rel=0.0, samples=[], per_function={}, unaddressable={})
    Zs = list(range(-3, 126)) + EXTREME
    sh_lo, sh_hi = min(shells), max(shells)
    ln_lo, ln_hi = min(lines), max(lines)
    tr_lo, tr_hi = min(trans), max(trans)
    shell_m = list(range(sh_lo - 5, sh_hi + 6)) + EXTREME
    line_m = list(range(ln_lo - 5, ln_hi + 6)) + EXTREME
    trans_m = list(range(tr_lo - 5, tr_hi + 6)) + EXTREME
    group_vals = {mac.int[g + '_LINE'] for g in LINE_GROUPS}
    # the Siegbahn names are aliases of IUPAC names: each must denote the transition the nomenclature assigns to it (the numeric macro
    # values are checked against the data files below; this ties the NAMES a user writes to those values)
    nalias = 0
    for sieg, iupac in refdata.SIEGBAHN.items():
        a, b = mac.int.get(sieg + '_LINE'), mac.int.get(iupac + '_LINE')
        if a is None or b is None:
            continue
        nalias += 1
        if a != b:
            other = [n for n, v in mac.by_suffix('_LINE').items() if v == a and n not in refdata.SIEGBAHN]
            ck.violation('c01:alias:%s_LINE' % sieg, '%s_LINE has the value %d, i.e. %s, but the Siegbahn line %s is the transition %s (value %d)' % (
                sieg, a, '/'.join(other) or '?', sieg, iupac, b), dict(macro=sieg + '_LINE', value=a, iupac=iupac + '_LINE', iupac_value=b))
    st['siegbahn_aliases_checked'] = nalias
    # the tables are made by a generator program at build time: a build that defines NDEBUG (b_ndebug=true, most release builds) must
    # produce the very same tables (a reader whose work sits inside assert() reads nothing there)
    import hashlib
    from .. import build
    for config in ('shipped', 'kissel'):
        h = [hashlib.sha256(open(build.inline(config, nd), 'rb').read()).hexdigest() for nd in (False, True)]
        if h[0] != h[1]:
            ck.violation('c01:generator:tables-differ-when-built-with-NDEBUG:%s' % config, 'the generated table file of the %s configuration differs between the default build of the generator and one with -DNDEBUG' % config,
                         dict(config=config, sha256_default=h[0], sha256_ndebug=h[1]))
        st['generator_builds_compared_' + config] = 2
    flavours = ['plain'] if tier == 'quick' else ['plain', 'asan']
    cp = refdata.compton()
    for config in ('shipped', 'kissel'):
        for fl in flavours:
            L = execlib.Lib(config, fl)
            def tab(fn, names, scale=1.0, namemap=lambda n: n):
                e, un = expected_table(refdata.triples(fn, scale), names, namemap)
                st['unaddressable'][fn] = un
                return e
            sweep(ck, L, 'AtomicWeight', {z: v for z, v in refdata.pairs('atomicweight.dat').items() if v > 0}, Zs, None, st, two_args=False)
            sweep(ck, L, 'ElementDensity', {z: v for z, v in refdata.pairs('densities.dat').items() if v > 0}, Zs, None, st, two_args=False)
            sweep(ck, L, 'EdgeEnergy', tab('edges.dat', shells, 1e-3), Zs, shell_m, st)
            sweep(ck, L, 'FluorYield', tab('fluor_yield.dat', shells), Zs, shell_m, st)
            sweep(ck, L, 'JumpFactor', tab('jump.dat', shells), Zs, shell_m, st)
            sweep(ck, L, 'AtomicLevelWidth', tab('atomiclevelswidth.dat', shells, 1e-3), Zs, shell_m, st)
            sweep(ck, L, 'LineEnergy', tab('fluor_lines.dat', lines, 1e-3), Zs, line_m, st, skip=group_vals)
            sweep(ck, L, 'RadRate', tab('radrate.dat', lines), Zs, line_m, st, skip={mac.int[g + '_LINE'] for g in ('KA', 'KB', 'LA', 'LB')})
            sweep(ck, L, 'CosKronTransProb', tab('coskron.dat', trans, 1.0, lambda n: CK_MAP.get(n, n)), Zs, trans_m, st)
            # electron configuration (Kissel) and Biggs occupancies
            ks = refdata.kissel(config)
            ec = {(Z, s): float(v) for Z, d in ks.items() for s, v in enumerate(d['config']) if v > 0}
            sweep(ck, L, 'ElectronConfig', ec, Zs, shell_m, st)
            eb = {(Z, s): float(v) for Z, d in cp.items() for s, v in enumerate(d['occ']) if v > 0}
            sweep(ck, L, 'ElectronConfig_Biggs', eb, Zs, shell_m, st)
            if config == 'shipped' and fl == 'plain':
                # a single-line query right after a GROUP query of the same element (K-alpha, L-beta, a doublet, ... then one of the lines): the group functions
                # call the single-line code themselves, so whatever they leave behind meets exactly these calls.  Every single line of every third element
                # after every group macro, against the same line asked on its own
                Lq = execlib.Lib(config, shuffle=False)
                _Zg = np.arange(1 + (ck.seed % 3), 121, 3)
                _S = np.array([v for v in range(ln_lo, ln_hi + 1) if v not in group_vals])
                _G = np.array(sorted(group_vals))
                for fn_ in ('LineEnergy', 'RadRate'):
                    zz, ss = [x.ravel() for x in np.meshgrid(_Zg, _S, indexing='ij')]
                    alone = Lq.call(fn_, zz, ss)
                    zq, gq, sq = [x.ravel() for x in np.meshgrid(_Zg, _G, _S, indexing='ij')]
                    reqz = np.repeat(zq, 2); reql = np.empty(2 * len(zq), int); reql[0::2] = gq; reql[1::2] = sq
                    both = Lq.call(fn_, reqz, reql)
                    st['calls'] += len(zz) + len(reqz)
                    st['single_line_queries_right_after_a_group_query'] = st.get('single_line_queries_right_after_a_group_query', 0) + len(zq)
                    av = np.broadcast_to(alone.v.reshape(len(_Zg), 1, len(_S)), (len(_Zg), len(_G), len(_S))).ravel()
                    ast = np.broadcast_to(alone.status.reshape(len(_Zg), 1, len(_S)), (len(_Zg), len(_G), len(_S))).ravel()
                    bad = np.nonzero((both.v[1::2].view('u8') != av.view('u8')) | (both.status[1::2] != ast))[0]
                    for k in bad[:3]:
                        gname = [n_ for n_, v_ in lines_by_value.items() if v_ == int(gq[k])] if False else int(gq[k])
                        ck.violation('c01:%s:single-line-value-depends-on-a-preceding-group-query' % fn_, '%s(%d, %d) returns %r (status %d) right after %s(%d, %d) and %r (status %d) on its own' % (
                            fn_, int(zq[k]), int(sq[k]), float(both.v[1::2][k]), int(both.status[1::2][k]), fn_, int(zq[k]), int(gq[k]), float(av[k]), int(ast[k])),
                            dict(call='%s(%d,%d)' % (fn_, int(zq[k]), int(sq[k])), preceded_by='%s(%d,%d)' % (fn_, int(zq[k]), int(gq[k])), config=config))
                # the tables are those of data/*.dat of the tree, whatever lies around in it or is set in the environment of the build
                _zz, _ss = [x.ravel() for x in np.meshgrid(np.arange(1, 121), np.asarray(shell_m)[:12], indexing='ij')]
                _zl, _ll = [x.ravel() for x in np.meshgrid(np.arange(1, 121), np.asarray(line_m)[::7], indexing='ij')]
                st['calls_in_builds_of_dirty_trees'] = execlib.dirty_tree(ck, 'c01', config, [('AtomicWeight', np.arange(1, 121)), ('ElementDensity', np.arange(1, 121)), ('EdgeEnergy', _zz, _ss), ('FluorYield', _zz, _ss),
                                                                                              ('JumpFactor', _zz, _ss), ('AtomicLevelWidth', _zz, _ss), ('LineEnergy', _zl, _ll), ('RadRate', _zl, _ll)])
                st['calls'] += st['calls_in_builds_of_dirty_trees']
            if config == 'kissel' and st['per_function'].get('ElectronConfig@kissel', {}).get('positive', 0) < 500:
                raise common.Inconclusive('regenerated Kissel configuration yields too few occupancies')
    if st['positive'] < 20000:
        raise common.Inconclusive('too few positive cells compared: %d' % st['positive'])
    cov = dict(evaluations=st['calls'], distinct_nontrivial=st['positive'] // (len(flavours)),
               rule='all Z in [-3,125] x every macro value from (min-5) to (max+5) for 11 accessors, both data configurations; expectation from '
                    'independently parsed data files with names mapped to macro values through a compiled probe of the public headers; '
                    'non-trivial = (function, config, Z, macro) cells with a positive record whose value was compared at 1e-10',
               samples=st['samples'][:12], exhaustive=True, positive_cells=st['positive'], error_cells=st['error_cells'],
               worst_relative_difference=st['worst_rel'], records_without_public_macro=st['unaddressable'],
               per_function=st['per_function'], flavours=flavours)
    return ck.finish(cov, ['refdata.py parsers and the macro probe are independent of xrayfiles.c/pr_data.c/xrayvars.c',
                           'the regenerated Kissel table is read by both sides from the same file'])
