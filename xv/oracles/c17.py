"""C17 - concurrent queries from many threads are race-free and agree with serial results."""
import os, re, json, subprocess, shutil, tempfile
import numpy as np
from concurrent.futures import ThreadPoolExecutor
from .. import common, build, execlib
from . import c16

REGION = ['parser', 'parser-locale-window', 'compound-body', 'crystal-copy', 'error-store']


def tsan_reports(text):
    """de-duplicated (kind, outermost library entry pair) from a ThreadSanitizer log"""
    out = []
    for blk in re.split(r'(?m)^(?=WARNING: ThreadSanitizer)', text):
        m = re.match(r'WARNING: ThreadSanitizer: ([^\n(]*)', blk)
        if not m:
            continue
        kind = m.group(1).strip().replace(' ', '-')
        stacks = re.split(r'\n\s*\n', blk)
        tops = []
        for st in stacks[:3]:
            fr = re.findall(r'#\d+ (\S+) (\S+)', st)
            lib = [f for f, loc in fr if build.REPO + '/src' in loc or '/tree/src/' in loc or 'xrayglob_inline' in loc]
            if lib:
                tops.append(lib[0])
        out.append(dict(kind=kind, funcs=sorted(set(tops)) or ['?'], text=blk[:2500]))
    return out


def _decode(b):
    import struct
    f = lambda h: struct.unpack('<d', struct.pack('<Q', int(h, 16)))[0]
    return dict(thread=b['thread'], request=b['request'], fn=b['fn'], reference=[b['ref'][0], b['ref'][1], f(b['ref'][2]), f(b['ref'][3])],
                in_thread=[b['got'][0], b['got'][1], f(b['got'][2]), f(b['got'][3])])


def run_one(*a, **kw):
    """a wall-clock watchdog is no verdict: a run that timed out is repeated once (same seed) before a hang is reported"""
    r = _run_one(*a, **kw)
    if r.get('watchdog'):
        r = _run_one(*a, **kw)
        r['repeated_after_watchdog'] = True
    return r


def _run_one(mon, req, strings, threads, calls, yld, env, seed, ref=None, first=-1, fileeps=0, perthread=False):
    d = tempfile.mkdtemp(prefix='xv-thr-')
    try:
        rq, st, rep = [os.path.join(d, x) for x in ('req', 'str', 'rep')]
        extra = []
        if ref is not None:     # cold start: reference computed by the executor in another process
            rr, rm = os.path.join(d, 'ref'), os.path.join(d, 'refmsg')
            ref.raw.tofile(rr)
            open(rm, 'w', encoding='latin1').write(''.join(m + '\n' for m in ref.msgs))
            extra = ['--ref', rr, rm, '--first', str(first)]
        req.tofile(rq)
        with open(st, 'wb') as fh:
            for s in strings:
                fh.write(s.encode('utf8', 'surrogateescape') + b'\0')
        e = dict(os.environ)
        e['VERIF_SEED'] = str(seed)
        e['TSAN_OPTIONS'] = 'halt_on_error=0:exitcode=66:second_deadlock_stack=1:history_size=4:log_path=' + os.path.join(d, 'tsan')
        e.update(env)
        try:
            p = subprocess.run([mon, 'run', rq, st, rep] + extra + ['--threads', str(threads), '--calls', str(calls), '--yield', str(yld), '--fileeps', str(fileeps)] + (['--perthread-locale'] if perthread else []),
                               env=e, stdout=subprocess.PIPE, stderr=subprocess.STDOUT, timeout=3600)
        except subprocess.TimeoutExpired:
            return dict(watchdog=True)
        logs = ''
        for f in os.listdir(d):
            if f.startswith('tsan.'):
                logs += open(os.path.join(d, f), errors='replace').read()
        r = dict(rc=p.returncode, tsan=tsan_reports(logs), tail=p.stdout.decode('utf8', 'replace')[-400:])
        if os.path.exists(rep):
            r['report'] = json.load(open(rep))
        return r
    finally:
        shutil.rmtree(d, ignore_errors=True)


def main(tier):
    ck = common.Check('C17', tier)
    rng = np.random.default_rng(ck.seed * 104729 + 17)
    locdir = build.locale_dir()
    tot = dict(runs=0, calls=0, events=0, yields=0, overlap=[0] * 5, enter=[0] * 5, sigs={}, failing=0, errapi=0)
    samples = []
    plan = []   # (config, flavour, threads, calls, yield, locale)
    if tier == 'quick':
        for i in range(10):
            plan.append(('shipped' if i % 3 else 'kissel', 'tsan', 8, 2500, 30, i % 2))
        for i in range(10):
            plan.append(('kissel' if i % 3 == 0 else 'shipped', 'plain', 8 if i % 2 else 16, 20000, 20, (i + 1) % 2))
        # the library as the PROJECT builds it (meson: its language standard, its optimisation level, no hook points), plain and with meson's own
        # -Db_sanitize=thread: what is thread-safe only under the monitor's compiler flags is not thread-safe
        for i in range(4):
            plan.append(('shipped', 'meson-tsan', 8, 2500, 0, i % 2))
        for i in range(4):
            plan.append(('shipped', 'meson', 8 if i % 2 else 16, 20000, 0, (i + 1) % 2))
    else:
        for i in range(400):
            plan.append(('shipped' if i % 3 else 'kissel', 'tsan', 8 if i % 4 else 16, 12000, 10 + (i % 5) * 20, i % 2))
        for i in range(400):
            plan.append(('kissel' if i % 3 == 0 else 'shipped', 'plain', 8 if i % 2 else 16, 150000, (i % 4) * 15, (i + 1) % 2))
        for i in range(60):
            plan.append(('shipped' if i % 3 else 'kissel', 'meson-tsan', 8 if i % 4 else 16, 12000, 0, i % 2))
        for i in range(60):
            plan.append(('kissel' if i % 3 == 0 else 'shipped', 'meson', 8 if i % 2 else 16, 150000, 0, (i + 1) % 2))
    libs, mons, queries, refs, corner = {}, {}, {}, {}, {}
    for cfg in ('shipped', 'kissel'):
        libs[cfg] = execlib.Lib(cfg)
        Q, S = c16.build_queries(libs[cfg], rng, 30 if tier == 'quick' else 120)
        Q = Q[Q['fn'] < 2000]
        # group / composite macros for every function that takes a line or shell: few values, but each has its own code path
        extra = []
        for name, f in sorted(libs[cfg].fns.items()):
            if f['sig'] in ('ii', 'iid') and f['argnames'][1] == 'line':
                Zs_, Ls_ = np.meshgrid([13, 29, 47, 56, 79, 82, 92], [0, 1, 2, 3, -91, -207], indexing='ij')
                args = [Zs_.ravel(), Ls_.ravel()] + ([np.full(Zs_.size, 17.44)] if f['sig'] == 'iid' else [])
                extra.append(libs[cfg].build(name, *args)[0])
        legacy = np.zeros(6, execlib.REQ); legacy['fn'] = np.arange(2010, 2016); legacy['s'] = -1      # XRayInit + the five deprecated switches (thrmon ids)
        extra.append(legacy)
        ncorner = sum(len(e) for e in extra)
        Q = np.concatenate([Q] + extra)
        corner[cfg] = np.arange(len(Q) - ncorner, len(Q))
        # requests naming a crystal that does not exist cannot be expressed to the reference executor: drop them
        bad = np.array([(r['fn'] >= 1001 and r['fn'] <= 1006 and r['s'] >= 0 and S[int(r['s'])] == 'nope') for r in Q])
        keep = np.nonzero(~bad)[0]
        remap = -np.ones(len(Q), int); remap[keep] = np.arange(len(keep))
        corner[cfg] = remap[corner[cfg]]; corner[cfg] = corner[cfg][corner[cfg] >= 0]
        Q = Q[~bad]
        queries[cfg] = (Q, S)
        # external references for the cold-start runs, one per process locale (messages of the parser quote bytes >= 0x80 as the locale's
        # character classes dictate: an input of the call, not a matter of threads)
        def ref_run(lib_):
            known = Q['fn'] < 2010
            rr = lib_.run(Q[known], S)
            raw = np.zeros(len(Q), execlib.RESP); raw['msg'] = -1; raw[known] = rr.raw
            return execlib.Res(raw, rr.msgs)
        refs[cfg] = ref_run(libs[cfg])
        refs[(cfg, 1)] = ref_run(execlib.Lib(cfg, env=dict(LOCPATH=locdir, LC_ALL='xx_VERIF', XV_SETLOCALE='1')))
        refs[(cfg, 0)] = refs[cfg]
        for fl in ('tsan', 'plain', 'meson', 'meson-tsan'):
            mons[(cfg, fl)] = build.harness(cfg, fl, 'thrmon')
    fnname = {f['id']: n for n, f in libs['shipped'].fns.items()}
    fnname.update({v: k for k, v in execlib.SPECIAL_ID.items()})
    fnname.update({2010: 'XRayInit', 2011: 'SetHardExit', 2012: 'SetExitStatus', 2013: 'GetExitStatus', 2014: 'SetErrorMessages', 2015: 'GetErrorMessages'})

    def go(job):
        i, (cfg, fl, th, calls, yld, loc) = job
        env = dict(LOCPATH=locdir, LC_ALL='xx_VERIF') if loc else dict(LC_ALL='C', LOCPATH=locdir)
        Q, S = queries[cfg]
        # ThreadSanitizer runs work on a seeded subset of ~400 requests so that every request is executed by several threads
        # many times (a race needs two threads in the SAME code); plain runs use the whole set
        ref = refs[(cfg, 1 if loc else 0)]
        if fl.endswith('tsan') and len(Q) > 500:
            sel = np.random.default_rng(ck.seed * 7907 + i).choice(len(Q), 400, replace=False)
            sel = np.union1d(sel, corner[cfg])
            Q = Q[sel]
            ref = execlib.Res(ref.raw[sel], ref.msgs)
        # every second run starts cold (first library calls of the process are concurrent; reference from another process)
        # second phase of every run: thread-private crystal arrays filled from files (Crystal_ReadFile), digests against serial ones
        feps = (150 if fl.endswith('tsan') else 2500) if tier == 'quick' else (400 if fl.endswith('tsan') else 8000)
        return job, run_one(mons[(cfg, fl)], Q, S, th, calls, yld, env, ck.seed * 1000 + i, ref=ref if i % 2 else None, fileeps=feps, perthread=(i % 3 != 2))     # two runs in three: every second thread under its own numeric locale (uselocale)
    # TSan runs are CPU heavy (8-16 threads each): a few at a time
    with ThreadPoolExecutor(3) as ex:
        results = list(ex.map(go, list(enumerate(plan))))
    # first-use sweep: short COLD runs under TSan in which all threads make the same call first, once per distinct entry point
    # (state that is initialised lazily on first use is raced on by the very first callers only)
    fu = []
    for cfg in (('shipped',) if tier == 'quick' else ('shipped', 'kissel')):
        Q, S = queries[cfg]
        okm = (refs[cfg].status & 1) == 0
        firsts = {}
        for k in range(len(Q)):
            fn = int(Q[k]['fn'])
            if fn not in firsts or (okm[k] and not okm[firsts[fn]]):
                firsts[fn] = k               # prefer a request on the success path of that entry point
        for j, (fn, k) in enumerate(sorted(firsts.items())):
            fu.append((len(plan) + len(fu), (cfg, 'tsan', 8, 120, 0, j % 2), k))

    def go_first(job):
        i, (cfg, fl, th, calls, yld, loc), k = job
        env = dict(LOCPATH=locdir, LC_ALL='xx_VERIF') if loc else dict(LC_ALL='C')
        Q, S = queries[cfg]
        return (i, (cfg, fl, th, calls, yld, loc)), run_one(mons[(cfg, fl)], Q, S, th, calls, yld, env, ck.seed * 1000 + i, ref=refs[(cfg, 1 if loc else 0)], first=k)
    with ThreadPoolExecutor(6) as ex:
        results += list(ex.map(go_first, fu))
    tot['first_use_runs'] = len(fu)
    # collision clusters: pairs of DIFFERENT formulas with the same number of distinct elements whose strings collide under a common string hash (the
    # 31- and 33-multiplier hashes, FNV-1a), hammered by 8 threads at once, one short run per pair - a cache or memo keyed on a hash of the formula
    # hands one thread the other thread's compound only when two such strings are in flight at the same moment
    def _hashes(b):
        h31 = h33 = 0; h33 = 5381; hf = 2166136261
        for c in b:
            h31 = (h31 * 31 + c) & 0xffffffff; h33 = (h33 * 33 + c) & 0xffffffff; hf = ((hf ^ c) * 16777619) & 0xffffffff
        return h31, h33, hf
    from . import formula_model as _fm
    _syms = list(_fm.SYMBOLS)[:98]
    _terms = [(s_, s_ + d_) for s_ in _syms for d_ in ('', '2', '3', '4', '5', '7')]
    _pool = [a_[1] + b_[1] for a_ in _terms for b_ in _terms if a_[0] != b_[0]]
    clusters = []
    for fam in range(3):
        d_ = {}
        for f_ in _pool:
            d_.setdefault(_hashes(f_.encode())[fam], []).append(f_)
        cand = sorted(v[:2] for v in d_.values() if len(v) > 1)
        pick_ = np.random.default_rng(ck.seed * 977 + fam).permutation(len(cand))[:(8 if tier == 'quick' else 60) if fam < 2 else 6]
        clusters += [cand[i] for i in pick_]
    cjobs = []
    for ci, (f1, f2) in enumerate(clusters):
        r1, s1 = libs['shipped'].build('CS_Total_CP', [f1, f2, f1, f2], np.array([8.0, 8.0, 17.44, 17.44]))
        r2, s2 = c16.special_req('CompoundParser_summary', s=[f1, f2])
        r2 = r2.copy(); r2['s'][r2['s'] >= 0] += len(s1)
        cjobs.append((len(plan) + len(fu) + ci, ('shipped', 'tsan' if ci % 5 == 0 else 'plain', 8, 4000 if ci % 5 == 0 else 25000, 0, 0), np.concatenate([r1, r2]), list(s1) + list(s2)))

    def go_cluster(job):
        i, (cfg, fl, th, calls, yld, loc), Qc, Sc = job
        return (i, (cfg, fl, th, calls, yld, loc)), run_one(mons[(cfg, fl)], Qc, Sc, th, calls, yld, dict(LC_ALL='C'), ck.seed * 1000 + i)
    with ThreadPoolExecutor(4) as ex:
        results += list(ex.map(go_cluster, cjobs))
    tot['collision_cluster_runs'] = len(cjobs)
    for (i, (cfg, fl, th, calls, yld, loc)), r in results:
        where = dict(config=cfg, flavour=fl, threads=th, calls_per_thread=calls, yield_permille=yld, locale='xx_VERIF' if loc else 'C', run=i, seed=ck.seed * 1000 + i)
        if r.get('watchdog'):
            ck.violation('c17:watchdog', 'thread run did not finish within an hour, twice in a row with the same seed', where); continue
        for t in r['tsan']:
            ck.violation('tsan:%s:%s' % (t['kind'], '+'.join(t['funcs'])), 'ThreadSanitizer %s involving %s' % (t['kind'], ', '.join(t['funcs'])), dict(where, report=t['text']))
        rep = r.get('report')
        if rep is None:
            if not r['tsan']:
                ck.violation('crash:threads:rc%s' % r['rc'], 'thread monitor died', dict(where, tail=r['tail']))
            continue
        if loc and 'xx_VERIF' not in rep['locale']:
            raise common.Inconclusive('synthetic locale not active in thread run: %r' % rep['locale'])
        if rep.get('locale_before_threads', rep['locale']) != rep['locale']:
            ck.violation('c17:process-locale-changed-by-concurrent-calls', 'the process locale is %r after the thread phase, %r before it' % (rep['locale'], rep.get('locale_before_threads')), where)
        if rep['serial_nondeterministic']:
            ck.violation('c17:serial-reference-not-deterministic', 'the same query gave two different results serially', where)
        if rep['mismatches']:
            fns = sorted({fnname.get(b['fn'], str(b['fn'])) for b in rep['bad']})
            for fn in fns or ['?']:
                ck.violation('c17:result-differs-from-serial:%s' % fn, '%d results in threads differ from the serial reference' % rep['mismatches'],
                             dict(where, examples=[_decode(b) for b in rep['bad'][:3]]))
        if rep.get('file_mismatches'):
            ck.violation('c17:private-crystal-file-read-differs-from-serial', '%d of %d Crystal_ReadFile episodes on thread-private arrays differ from the serial digest (last: file %d)' % (
                rep['file_mismatches'], rep['file_episodes'], rep['file_bad']), where)
        tot['file_episodes'] = tot.get('file_episodes', 0) + rep.get('file_episodes', 0)
        tot['runs_per_build'] = tot.get('runs_per_build', {}); tot['runs_per_build'][fl] = tot['runs_per_build'].get(fl, 0) + 1
        tot['threads_with_own_locale'] = tot.get('threads_with_own_locale', 0) + rep.get('threads_with_their_own_numeric_locale', 0)
        tot['runs'] += 1; tot['cold'] = tot.get('cold', 0) + rep.get('cold', 0); tot['calls'] += rep['calls']; tot['events'] += rep['hook_events']; tot['yields'] += rep['yields']
        tot['failing'] += rep['failing_calls']; tot['errapi'] += rep['error_api_uses']
        for k in range(5):
            tot['overlap'][k] += rep['overlap'][k]; tot['enter'][k] += rep['enter'][k]
        for s, n in rep['signatures'].items():
            tot['sigs'][s] = tot['sigs'].get(s, 0) + n
        if len(samples) < 4:
            samples.append(dict(where, calls=rep['calls'], overlaps=dict(zip(REGION, rep['overlap'])), hook_event_tail=rep['ring_tail'][-12:]))
    if tot['runs'] == 0 or sum(tot['overlap']) == 0 or tot['overlap'][0] == 0 or tot['overlap'][4] == 0:
        raise common.Inconclusive('no overlapping hook windows were observed: %r' % (tot,))
    cov = dict(evaluations=tot['calls'], distinct_nontrivial=len(tot['sigs']),
               rule='8-16 threads x seeded random mixes of all thread-safe entry points (lookups, splines, failing calls that allocate errors, _CP functions, '
                    'parser, catalogue lookups, crystal copies + structure factors, error copy/propagate on private slots), ThreadSanitizer build and plain build, '
                    'C and comma-decimal locale, seeded yields at the library hook points; every result compared bit for bit with a serial reference; '
                    'distinct = distinct overlap signatures (region entered x set of regions other threads were inside) observed through the hooks',
               samples=samples, threads_run_under_their_own_numeric_locale=tot.get('threads_with_own_locale', 0), runs=tot['runs'], runs_per_build=tot.get('runs_per_build'), cold_start_runs=tot.get('cold', 0), first_use_runs_one_per_entry_point=tot.get('first_use_runs', 0), runs_on_pairs_of_formulas_that_collide_under_common_string_hashes=tot.get('collision_cluster_runs', 0), hook_events=tot['events'], injected_yields=tot['yields'],
               region_entries=dict(zip(REGION, tot['enter'])), entries_while_other_threads_inside=dict(zip(REGION, tot['overlap'])),
               private_crystal_file_episodes=tot.get('file_episodes', 0), overlap_signatures=tot['sigs'], failing_calls=tot['failing'], error_api_uses=tot['errapi'])
    return ck.finish(cov, ['TSan sees only instrumented code and intercepted libc calls', 'no thread mutates a shared crystal collection (documented exception)'])
