"""C11 - Auger yields and rates are the documented derivation of the raw tables (exhaustive offline checker).

Expectation (nothing is taken from pr_data.c / auger_trans.c):
  * AugerYield(Z, shell), shell in K..M5: with w = FluorYield(Z, shell) and f_k = CosKronTransProb(Z, t) for the
    Coster-Kronig transitions t that *start* in that shell (decided from the macro name F<L|M>[P]<i><j>: initial
    subshell <L|M><i>), the expected value is y = 1 - w - sum f_k when w is tabulated and y > 0, otherwise an error.
    FluorYield/CosKronTransProb are the library's own (C01 verifies them against the data files).
  * AugerRate(Z, macro): raw[Z][name(macro)] / (TOTAL_shell - sum of raw over the shell's Coster-Kronig-type
    transitions), raw from the independently parsed auger_rates.dat; a transition S_AB is Coster-Kronig-type iff A or B
    lies in the principal shell of S (from the macro *name*); CK-type, raw <= 0, net total <= 0, Z without record or
    macro out of range => error.

Tolerances (forward error of the reference formula; the generator prints every derived number with '%.10E',
i.e. a relative rounding of at most 5e-11):
  yield: |v - y| <= 5.1e-11*|y| + (n_ck + 2)*eps      (1 - w - sum f: n_ck+1 subtractions of numbers <= 1, in any order)
  rate : |v - r| <= r * (5.1e-11 + (n_ck + 3)*eps*(TOTAL + sum|ck|)/den)   (cancellation in the net total, any order)
"""
import re
import numpy as np
from .. import common, refdata, execlib

EXTREME = [-2147483648, 2147483647, -65536, 65536]
EPS = 2.220446049250313e-16
PRINT = 5.1e-11                     # '%.10E' keeps 11 significant digits: relative rounding <= 5e-11
RESOLUTION = 1e-8                   # auger_rates.dat prints totals ~1 with 8 decimals: a net total below this is not resolved
AUG_NAME = re.compile(r'^([KLM]\d?)_([KLMNOPQ])(\d)([KLMNOPQ])(\d)$')
CK_NAME = re.compile(r'^F([LM])P?(\d)(\d)$')
YSHELLS = ['K', 'L1', 'L2', 'L3', 'M1', 'M2', 'M3', 'M4', 'M5']


def report(ck, key, make):
    """count every occurrence; build (what, witness) only for the first one of a key"""
    v = ck.viol.get(key)
    if v:
        v['count'] += 1
    else:
        ck.violation(key, *make())


def grid(fname, Zs, ms):
    ZZ, MM = np.meshgrid(np.asarray(Zs), np.asarray(ms), indexing='ij')
    return (fname, ZZ.ravel(), MM.ravel()), ZZ.shape


def main(tier):
    ck = common.Check('C11', tier)
    mac = refdata.Macros()
    aug = mac.by_suffix('_AUGER')                 # 'K_L1L1' -> 0 ...
    shells = mac.by_suffix('_SHELL')
    trans = mac.by_suffix('_TRANS')
    raw = refdata.auger_raw()
    if len(aug) < 900 or len(raw) < 90:
        raise common.Inconclusive('macro probe / auger_rates.dat parser found too little (%d macros, %d elements)' % (len(aug), len(raw)))
    # ---- name rules -----------------------------------------------------------------------------------
    parsed = {}
    for n in aug:
        m = AUG_NAME.match(n)
        if not m:
            raise common.Inconclusive('Auger macro name %r does not follow <shell>_<hole><hole>' % n)
        s, a, _, b, _ = m.groups()
        parsed[n] = (s, n.split('_', 1)[1], a == s[0] or b == s[0])      # (initial shell, 'L1L1', CK-type?)
    ck_of_shell = {}
    for t, v in trans.items():
        m = CK_NAME.match(t)
        if not m:
            raise common.Inconclusive('transition macro name %r not understood' % t)
        ck_of_shell.setdefault(m.group(1) + m.group(2), []).append(v)
    val_names = {}
    for n, v in aug.items():
        val_names.setdefault(v, []).append(n)
    dup = {v: ns for v, ns in val_names.items() if len(ns) > 1}
    for v, ns in list(dup.items())[:3]:
        ck.violation('c11:macros:duplicate-value', 'Auger macros %s share the value %d' % (ns, v), dict(value=v, names=ns))

    flavours = ['plain'] if tier == 'quick' else ['plain', 'asan']
    ext = EXTREME if tier == 'thorough' else []
    Zs = list(range(-3, 126)) + ext
    sh_m = list(range(-3, 13)) + ext
    au_m = list(range(-3, 1001)) + ext
    tr_m = list(range(min(trans.values()) - 3, max(trans.values()) + 4))
    st = dict(calls=0, pos_yield=0, pos_rate=0, err_cells=0, ck_cells=0, undecidable=0, worst_yield=0.0, worst_rate=0.0,
              samples=[], yield_error_by_nonpositive=0, partition_checked=0)

    for fl in flavours:
        L = execlib.Lib('shipped', fl)
        jobs, shapes = [], []
        for fname, ms in (('FluorYield', sh_m), ('CosKronTransProb', tr_m), ('AugerYield', sh_m), ('AugerRate', au_m)):
            j, shp = grid(fname, Zs, ms)
            jobs.append(j); shapes.append(shp)
        rFY, rCK, rAY, rAR = L.multi(jobs)
        st['calls'] += sum(len(r) for r in (rFY, rCK, rAY, rAR))
        zi = {z: k for k, z in enumerate(Zs)}
        shi = {m: k for k, m in enumerate(sh_m)}
        tri = {m: k for k, m in enumerate(tr_m)}
        aui = {m: k for k, m in enumerate(au_m)}
        FYok = rFY.ok.reshape(shapes[0]); FYv = rFY.v.reshape(shapes[0])
        CKok = rCK.ok.reshape(shapes[1]); CKv = rCK.v.reshape(shapes[1])
        AYok = rAY.ok.reshape(shapes[2]); AYv = rAY.v.reshape(shapes[2])
        ARok = rAR.ok.reshape(shapes[3]); ARv = rAR.v.reshape(shapes[3])
        # the two inputs of the yield are what the data files record (last record of a key wins), cell by cell: the yield is tied to the
        # shipped tables themselves, not only to what the library makes of them
        from .c01 import expected_table, names_by_value, CK_MAP
        for fname, fn_, names_, nmap, OKm, Vm, ms in (('FluorYield', 'fluor_yield.dat', names_by_value(mac, '_SHELL'), (lambda n: n), FYok, FYv, sh_m),
                                                   ('CosKronTransProb', 'coskron.dat', names_by_value(mac, '_TRANS'), (lambda n: CK_MAP.get(n, n)), CKok, CKv, tr_m)):
            tabf, _ = expected_table(refdata.triples(fn_), names_, nmap)
            nin = 0
            for a, Z in enumerate(Zs):
                for b, m in enumerate(ms):
                    rec = tabf.get((Z, m))
                    got = float(Vm[a, b]) if OKm[a, b] else None
                    if (rec is None) != (got is None) or (rec is not None and abs(got - rec) > 1e-10 * abs(rec)):
                        report(ck, 'c11:input-differs-from-data-file:%s' % fname, lambda: (
                            '%s(%d,%d) gives %r, the data file records %r: the Auger yield built on it is off' % (fname, Z, m, got, rec),
                            dict(call='%s(%d,%d)' % (fname, Z, m), returned=got, recorded=rec, flavour=fl)))
                    nin += rec is not None
            st['input_cells_tied_to_' + fn_] = nin

        # ---- AugerYield -------------------------------------------------------------------------------
        exp_y = np.full(shapes[2], np.nan)         # nan = error expected
        tol_y = np.zeros(shapes[2])
        undec_y = np.zeros(shapes[2], bool)
        for Z in range(1, 121):
            a = zi[Z]
            for s in YSHELLS:
                b = shi[shells[s]]
                if not FYok[a, b]:
                    continue                                   # yield not tabulated -> error expected
                w = FYv[a, b]
                fs = [CKv[a, tri[t]] for t in ck_of_shell.get(s, []) if CKok[a, tri[t]]]
                y = 1.0 - w - sum(fs)
                abs_u = (len(fs) + 2) * EPS
                if abs(y) <= abs_u:
                    undec_y[a, b] = True; st['undecidable'] += 1
                    continue
                if y > 0:
                    exp_y[a, b] = y; tol_y[a, b] = PRINT * y + abs_u
                    # partition of unity, each channel in [0,1]
                    st['partition_checked'] += 1
                    if not (0 <= w <= 1 and all(0 <= f <= 1 for f in fs) and 0 < y <= 1):
                        ck.violation('c11:partition:channel-outside-unit-interval:%s' % s,
                                     'a decay channel of the %s shell lies outside [0,1]' % s,
                                     dict(Z=Z, shell=s, fluor=float(w), coster_kronig=[float(f) for f in fs], auger=float(y)))
                else:
                    st['yield_error_by_nonpositive'] += 1
        keyshell = {shells[s]: s for s in YSHELLS}
        def ycall(a, b):
            m = sh_m[b]
            return 'AugerYield(%d,%s)' % (Zs[a], (keyshell[m] + '_SHELL') if m in keyshell else m)
        has = ~np.isnan(exp_y)
        chk = ~undec_y
        for a, b in np.argwhere(chk & ~has & AYok):
            cls = keyshell.get(sh_m[b], 'out-of-range-shell') if 1 <= Zs[a] <= 120 else 'out-of-range-Z'
            report(ck, 'c11:AugerYield:value-where-error-expected:%s' % cls, lambda: (
                'AugerYield returned %r where fluorescence yield is not tabulated or 1 - yield - sum(CK) is not positive' % float(AYv[a, b]),
                dict(call=ycall(a, b), fluor_yield_ok=bool(FYok[a, b]), fluor_yield=float(FYv[a, b]), flavour=fl)))
        for a, b in np.argwhere(chk & has & ~AYok):
            report(ck, 'c11:AugerYield:error-where-value-expected:%s' % keyshell[sh_m[b]], lambda: (
                'AugerYield failed (%s) although 1 - yield - sum(CK) = %r > 0' % (rAY.msg(a * shapes[2][1] + b), float(exp_y[a, b])),
                dict(call=ycall(a, b), expected=float(exp_y[a, b]), flavour=fl)))
        both = has & AYok & chk
        d = np.zeros(shapes[2]); d[both] = np.abs(AYv[both] - exp_y[both])
        for a, b in np.argwhere(both & (d > tol_y)):
            report(ck, 'c11:AugerYield:wrong-value:%s' % keyshell[sh_m[b]], lambda: (
                'AugerYield returned %r, 1 - FluorYield - sum(CosKronTransProb) = %r' % (float(AYv[a, b]), float(exp_y[a, b])),
                dict(call=ycall(a, b), returned=float(AYv[a, b]), expected=float(exp_y[a, b]), fluor_yield=float(FYv[a, b]),
                     coster_kronig={t: float(CKv[a, tri[trans[t]]]) for t in trans if trans[t] in ck_of_shell.get(keyshell[sh_m[b]], [])
                                    and CKok[a, tri[trans[t]]]}, flavour=fl)))
        if both.any():
            st['worst_yield'] = max(st['worst_yield'], float((d[both] / exp_y[both]).max()))
            idx = np.argwhere(both)
            for q in range(3):
                a, b = idx[(q * 997 + common.seed() * 131) % len(idx)]
                st['samples'].append(dict(call=ycall(a, b), returned=float(AYv[a, b]), expected=float(exp_y[a, b]), flavour=fl))
        if fl == 'plain':
            st['pos_yield'] = int(both.sum())
        st['err_cells'] += int((~has & chk).sum())

        # ---- AugerRate --------------------------------------------------------------------------------
        exp_r = np.full(shapes[3], np.nan)
        tol_r = np.zeros(shapes[3])
        undec_r = np.zeros(shapes[3], bool)
        is_ck = np.zeros(shapes[3], bool)
        den_info = {}
        for Z, rz in raw.items():
            if Z not in zi:
                continue
            a = zi[Z]
            den = {}
            for s in set(p[0] for p in parsed.values()):
                tot = rz.get(s + '-TOTAL', 0.0)
                cks = [rz.get(s + '-' + p[1], 0.0) for n, p in parsed.items() if p[0] == s and p[2]]
                dn = tot - sum(cks)
                den[s] = (dn, (len(cks) + 3) * EPS * (abs(tot) + sum(abs(c) for c in cks)))
            den_info[Z] = den
            for n, (s, fin, ckt) in parsed.items():
                b = aui[aug[n]]
                if ckt:
                    is_ck[a, b] = True
                    continue
                if not 1 <= Z <= 120:
                    continue
                r = rz.get(s + '-' + fin, 0.0)
                if not r > 0:
                    continue
                dn, u = den[s]
                if dn <= RESOLUTION:
                    if dn > -RESOLUTION:
                        undec_r[a, b] = True; st['undecidable'] += 1    # net total is zero at the resolution of the table
                    continue
                exp_r[a, b] = r / dn
                tol_r[a, b] = (r / dn) * (PRINT + u / dn)
        names_of = {v: ns[0] for v, ns in val_names.items()}
        def rcall(a, b):
            m = au_m[b]
            return 'AugerRate(%d,%s)' % (Zs[a], (names_of[m] + '_AUGER') if m in names_of else m)
        def shell_of(b):
            m = au_m[b]
            return parsed[names_of[m]][0] if m in names_of else 'out-of-range-macro'
        has = ~np.isnan(exp_r)
        chk = ~undec_r
        for a, b in np.argwhere(chk & ~has & ARok):
            Z = int(Zs[a])
            if is_ck[a, b]:
                key = 'c11:AugerRate:value-for-coster-kronig-transition:%s' % shell_of(b)
                what = 'AugerRate returned %r for a Coster-Kronig-type transition (must be reported as unavailable)' % float(ARv[a, b])
            else:
                key = 'c11:AugerRate:value-where-error-expected:%s' % (shell_of(b) if Z in raw else 'Z-without-record')
                what = 'AugerRate returned %r where the raw table holds no positive rate / no positive net total' % float(ARv[a, b])
            nm = names_of.get(au_m[b])
            report(ck, key, lambda: (what, dict(call=rcall(a, b), raw=(raw.get(Z, {}).get(nm.replace('_', '-', 1)) if nm else None),
                                                net_total=(den_info.get(Z, {}).get(shell_of(b), (None,))[0]), flavour=fl)))
        for a, b in np.argwhere(chk & has & ~ARok):
            report(ck, 'c11:AugerRate:error-where-value-expected:%s' % shell_of(b), lambda: (
                'AugerRate failed (%s) although raw/net total = %r' % (rAR.msg(a * shapes[3][1] + b), float(exp_r[a, b])),
                dict(call=rcall(a, b), expected=float(exp_r[a, b]), flavour=fl)))
        both = has & ARok & chk
        d = np.zeros(shapes[3]); d[both] = np.abs(ARv[both] - exp_r[both])
        for a, b in np.argwhere(both & (d > tol_r)):
            Z = int(Zs[a]); s = shell_of(b); nm = names_of[au_m[b]]
            report(ck, 'c11:AugerRate:wrong-value:%s' % s, lambda: (
                'AugerRate returned %r, raw/(TOTAL - sum of Coster-Kronig-type raw rates) = %r' % (float(ARv[a, b]), float(exp_r[a, b])),
                dict(call=rcall(a, b), returned=float(ARv[a, b]), expected=float(exp_r[a, b]), raw=raw[Z][nm.replace('_', '-', 1)],
                     total=raw[Z][s + '-TOTAL'], net_total=den_info[Z][s][0],
                     ratio_returned_over_expected=float(ARv[a, b] / exp_r[a, b]), flavour=fl)))
        if both.any():
            st['worst_rate'] = max(st['worst_rate'], float((d[both] / exp_r[both]).max()))
            idx = np.argwhere(both)
            for q in range(4):
                a, b = idx[(q * 7919 + common.seed() * 977) % len(idx)]
                st['samples'].append(dict(call=rcall(a, b), returned=float(ARv[a, b]), expected=float(exp_r[a, b]), flavour=fl))
        if fl == 'plain':
            st['pos_rate'] = int(both.sum())
            st['ck_cells'] = int((is_ck & (np.array(Zs)[:, None] >= 1) & (np.array(Zs)[:, None] <= 120)).sum())
            per_shell = {}
            for a, b in np.argwhere(both):
                s = shell_of(b); per_shell[s] = per_shell.get(s, 0) + 1
            st['positive_rate_cells_per_shell'] = per_shell
        st['err_cells'] += int((~has & chk).sum())

    n_ck_names = sum(1 for p in parsed.values() if p[2])
    if st['pos_rate'] < 5000 or st['pos_yield'] < 200:
        raise common.Inconclusive('too few positive cells compared: %d rates, %d yields' % (st['pos_rate'], st['pos_yield']))
    # functions of (Z, macro) alone: same bits in any call order and without an error slot
    _Z, _A = np.meshgrid(np.arange(-3, 126), np.arange(-3, 1001), indexing='ij')
    _Z2, _S = np.meshgrid(np.arange(-3, 126), np.arange(-3, 13), indexing='ij')
    st['calls'] += execlib.independence(ck, 'c11', 'shipped', [('AugerRate', _Z.ravel(), _A.ravel()), ('AugerYield', _Z2.ravel(), _S.ravel())], orders=('given', 'reversed', 'each-twice'))
    # ... and the tables are those of data/*.dat whatever the build environment (a tree with leftovers, XRAYLIB_DIR, MALLOC_PERTURB_, CR LF data files)
    st['calls_in_builds_of_dirty_trees'] = execlib.dirty_tree(ck, 'c11', 'shipped', [('AugerRate', _Z.ravel()[::3], _A.ravel()[::3]), ('AugerYield', _Z2.ravel(), _S.ravel())])
    st['calls'] += st['calls_in_builds_of_dirty_trees']
    cov = dict(evaluations=st['calls'], distinct_nontrivial=st['pos_rate'] + st['pos_yield'],
               rule='AugerRate over Z in [-3,125] x every macro value in [-3,1000], AugerYield over Z x shell in [-3,12] (plus FluorYield / '
                    'CosKronTransProb on the same grid as inputs); expectation from independently parsed auger_rates.dat, transition class and '
                    'shell decided from the macro names obtained through a compiled probe; non-trivial = (function, Z, macro) cells with a '
                    'positive expected value compared on success within the forward-error bound; all other cells must be errors',
               samples=st['samples'][:10], exhaustive=True, positive_rate_cells=st['pos_rate'], positive_yield_cells=st['pos_yield'],
               positive_rate_cells_per_shell=st.get('positive_rate_cells_per_shell', {}),
               error_cells=st['err_cells'], coster_kronig_type_names=n_ck_names, coster_kronig_type_cells=st['ck_cells'],
               yields_expected_error_because_nonpositive=st['yield_error_by_nonpositive'], partition_cells_checked=st['partition_checked'],
               undecidable_cells=st['undecidable'], worst_relative_difference_rate=st['worst_rate'],
               worst_relative_difference_yield=st['worst_yield'], flavours=flavours)
    return ck.finish(cov, ['refdata.auger_raw() and the macro probe are independent of xrayfiles.c / pr_data.c / xrayvars.c',
                           'FluorYield and CosKronTransProb are taken from the library (C01 checks them against the data files)',
                           'a net total below 1e-8 (the printing resolution of auger_rates.dat) with a positive raw rate would be undecidable; '
                           'the shipped table has no such cell'])
