"""C10 - grouped line energies and rates are the stated averages of their member lines (exhaustive offline checker).

Members of every group come from the public macro *names* (refdata.Macros: KL1..KL3; K[MNOP]n; the two lines spelled by a
doublet's name; the LBn aliases + L3N6/L3N7), member values from the public single-line calls LineEnergy / RadRate /
CS_FluorLine / EdgeEnergy of the same library.  Expectations:
  KA  energy = rate-weighted mean over KL1..KL3 (members that have an energy)
  KB  energy = rate-weighted mean over the K-M/N/O/P lines; the KO/KP group rates have no energy of their own, so two
               readings are accepted: (A) only members with both an energy and a rate, (C) KO/KP also counted at the
               KO1/KP1 energy;
  LA and the seven IUPAC doublets = rate-weighted mean of their own two members (those that have an energy), plain mean of
               the members that have an energy when no rate exists, error when no member has an energy
  LB  energy = CS_FluorLine(member, edge of the member's sub-shell + 0.1 keV)-weighted mean over its 13 members
  every result within [min, max] of the member energies
  RadRate: KA = sum of members, KB = 1 - KA, LA = sum of its two members, LB = error; LineEnergy(KO/KP) = KO1/KP1
  Siegbahn aliases = the IUPAC macro they stand for.
"""
import re
import numpy as np
from .. import common, refdata, execlib

TOL = 1e-12        # means of <= 30 positive terms: forward error <= ~n*eps ~ 7e-15 relative; two orders of margin
EPS = 2.220446049250313e-16
DOUBLET = re.compile(r'^(L[123])([MNOPQ])(\d)(\d)$')
IUPAC = re.compile(r'^(K|L[123]|M[1-5]|N[1-7]|O[1-7]|P[1-5]|Q[1-3])([LMNOPQ]\d)$')
GROUPS4 = ('KA', 'KB', 'LA', 'LB')
PHYSICS = {'KA1': 'KL3', 'KA2': 'KL2', 'KB1': 'KM3', 'LA1': 'L3M5', 'LA2': 'L3M4', 'LB1': 'L2M4', 'LB2': 'L3N5', 'LB3': 'L1M3',
           'LB4': 'L1M2',
           # further textbook Siegbahn/IUPAC correspondences (Jenkins et al., IUPAC 1991 table)
           'KA3': 'KL1', 'KB3': 'KM2', 'LB6': 'L3N1', 'LG1': 'L2N4', 'LG2': 'L1N2', 'LG3': 'L1N3', 'LL': 'L3M1', 'LE': 'L2M1',
           'MA1': 'M5N7', 'MA2': 'M5N6', 'MB': 'M4N6', 'MG': 'M3N5'}


def main(tier):
    ck = common.Check('C10', tier)
    mac = refdata.Macros()
    L = execlib.Lib('shipped', 'plain')
    lines = mac.by_suffix('_LINE')                       # name -> value
    shells = mac.by_suffix('_SHELL')
    lmin, lmax = min(lines.values()), max(lines.values())
    lvals = np.arange(lmin - 2, lmax + 3)
    col = lambda name: int(lines[name] - lvals[0])
    Zs = np.array(list(range(1, 121)) + [-3, -1, 0, 121, 122, 125])
    nZ, nreal = len(Zs), 120

    # ---- group membership from names ---------------------------------------------------------------------
    iupac = sorted(n for n in lines if IUPAC.match(n))
    doublets = {n: [m.group(1) + m.group(2) + m.group(3), m.group(1) + m.group(2) + m.group(4)]
                for n in lines for m in [DOUBLET.match(n)] if m}
    for n, mem in doublets.items():
        if any(x not in lines for x in mem):
            raise common.Inconclusive('doublet %s has no member macros %r' % (n, mem))
    if len(doublets) != 7:
        raise common.Inconclusive('expected 7 IUPAC doublet macros, found %r' % sorted(doublets))
    ka_mem = [n for n in iupac if re.match(r'^KL\d$', n)]
    kb_mem = [n for n in iupac if re.match(r'^K[MNOP]\d$', n)]
    la_mem = ['L3M4', 'L3M5']
    lb_alias = sorted(n for n in lines if re.match(r'^LB\d+$', n))
    lb_mem = lb_alias + ['L3N6', 'L3N7']
    if len(ka_mem) != 3 or len(kb_mem) != 24 or len(lb_mem) != 13 or 'KO' not in lines or 'KP' not in lines:
        raise common.Inconclusive('unexpected group membership from macro names: KA %d KB %d LB %d' % (len(ka_mem), len(kb_mem), len(lb_mem)))
    iupac_of_value = {}
    for n in iupac + list(doublets):
        iupac_of_value.setdefault(lines[n], []).append(n)
    # sub-shell of each LB member: from the IUPAC name that shares the alias's value
    lb_shell = {}
    for n in lb_mem:
        nm = [x for x in iupac_of_value.get(lines[n], [])]
        if len(nm) != 1:
            ck.violation('c10:alias:%s_LINE:no-unique-iupac-line' % n, 'alias macro value %d matches IUPAC macros %r' % (lines[n], nm), dict(macro=n + '_LINE'))
            continue
        lb_shell[n] = shells[nm[0][:2]]

    # the members are NAMED by Siegbahn aliases (LB1..LB17, KA1.., LA1..): each alias must denote the transition the nomenclature assigns to it,
    # or "the members of L-beta" a user addresses through the header are other lines than the ones the group averages
    nalias = 0
    for sieg, iu in refdata.SIEGBAHN.items():
        a, b = lines.get(sieg), lines.get(iu)
        if a is None or b is None:
            continue
        nalias += 1
        if a != b:
            ck.violation('c10:alias:%s_LINE:denotes-another-transition' % sieg, '%s_LINE has the value %d (%s) but the Siegbahn line %s is the transition %s (value %d)' % (
                sieg, a, '/'.join(iupac_of_value.get(a, [])) or '?', sieg, iu, b), dict(macro=sieg + '_LINE', value=int(a), iupac=iu + '_LINE', iupac_value=int(b)))
    if nalias < 20:
        raise common.Inconclusive('only %d Siegbahn aliases could be compared with their IUPAC names' % nalias)

    # ---- member values through the public single-line calls ---------------------------------------------------
    res = L.multi([('LineEnergy', Zs[:, None], lvals[None, :]), ('RadRate', Zs[:, None], lvals[None, :]),
                   ('EdgeEnergy', Zs[:, None], np.arange(4)[None, :])])
    ncalls = sum(len(r) for r in res)
    Eok = res[0].ok.reshape(nZ, -1); En = np.where(Eok, res[0].v.reshape(nZ, -1), 0.0)
    Rok = res[1].ok.reshape(nZ, -1); Rt = np.where(Rok, res[1].v.reshape(nZ, -1), 0.0)
    edge = np.where(res[2].ok, res[2].v, 0.0).reshape(nZ, 4)
    if (En[:, col('KL3')] > 0).sum() < 90 or (Rt[:, col('KL3')] > 0).sum() < 90:
        raise common.Inconclusive('single-line tables look empty')
    # LB weights
    mem = [n for n in lb_mem if n in lb_shell]
    wl = np.array([lines[n] for n in mem]); ws = np.array([lb_shell[n] for n in mem])
    r = L.call('CS_FluorLine', Zs[:, None], wl[None, :], edge[:, ws] + 0.1); ncalls += len(r)
    W = np.where(r.ok, r.v, 0.0).reshape(nZ, len(mem))

    st = dict(samples=[], per_macro={}, worst_rel=0.0)
    cells = 0

    def msg(res_, z, name):
        return res_.msg(z * len(lvals) + col(name))

    def check_energy(name, members, expect, accepted_names, fallback=None, diag=None):
        """expect: list of arrays (nZ) of accepted values, NaN = error expected (all readings must agree on definedness)"""
        nonlocal cells
        c = col(name)
        got_ok, got = Eok[:, c], En[:, c]
        me = np.stack([En[:, col(m)] for m in members], axis=1)            # member energies, 0 = none
        anyE = (me > 0).any(axis=1)
        lo = np.where(me > 0, me, np.inf).min(axis=1); hi = me.max(axis=1)
        defined = ~np.isnan(expect[0])
        pm = dict(success=0, error=0)
        for z in range(nZ):
            call = 'LineEnergy(%d,%s_LINE)' % (Zs[z], name)
            mvals = {m: float(me[z, k]) for k, m in enumerate(members) if me[z, k] > 0}
            if not defined[z]:
                if got_ok[z]:
                    ck.violation('c10:LineEnergy:%s_LINE:value-without-members' % name,
                                 '%s returned %r although %s' % (call, float(got[z]), 'no member line has an energy' if not anyE[z] else 'no average is defined'),
                                 dict(call=call, returned=float(got[z]), member_energies=mvals))
                else:
                    pm['error'] += 1
                continue
            if not got_ok[z]:
                kind = 'error-instead-of-plain-mean' if fallback is not None and fallback[z] else 'error-with-members'
                ck.violation('c10:LineEnergy:%s_LINE:%s' % (name, kind),
                             '%s failed (%s) although member lines have energies; expected %r' % (call, msg(res[0], z, name), float(expect[0][z])),
                             dict(call=call, expected=float(expect[0][z]), member_energies=mvals))
                continue
            rels = [abs(got[z] - e[z]) / e[z] for e in expect]
            k = int(np.argmin(rels))
            if got[z] < lo[z] * (1 - TOL) or got[z] > hi[z] * (1 + TOL):
                ck.violation('c10:LineEnergy:%s_LINE:outside-member-range' % name,
                             '%s returned %r, outside [%r, %r] spanned by its member lines' % (call, float(got[z]), float(lo[z]), float(hi[z])),
                             dict(call=call, returned=float(got[z]), member_energies=mvals))
            elif rels[k] > TOL:
                kind = 'wrong-average'
                for dn, dv in (diag or {}).items():       # recognisable wrong formulas give the key its name
                    if dv[z] > 0 and abs(got[z] - dv[z]) <= TOL * dv[z]:
                        kind = dn
                ck.violation('c10:LineEnergy:%s_LINE:%s' % (name, kind),
                             '%s returned %r, the %s of its members %r is %s' % (call, float(got[z]), ' / '.join(accepted_names), members if len(members) < 4 else members[:3] + ['...'],
                                                                               ' / '.join(repr(float(e[z])) for e in expect)),
                             dict(call=call, returned=float(got[z]), expected=[float(e[z]) for e in expect], member_energies=mvals))
            else:
                pm['success'] += 1; cells += 1
                pm.setdefault('reading_' + accepted_names[k], 0)
                pm['reading_' + accepted_names[k]] += 1
                st['worst_rel'] = max(st['worst_rel'], float(rels[k]))
                if pm['success'] in (3, 40):
                    st['samples'].append(dict(call=call, returned=float(got[z]), expected=float(expect[k][z]), members=mvals))
        st['per_macro'][name + '_LINE energy'] = pm

    def wmean(members, extra=()):
        """rate-weighted mean over members that have an energy; NaN when no weight. extra: (rate column name, energy column name)"""
        num = np.zeros(nZ); den = np.zeros(nZ)
        for m in members:
            e, rt = En[:, col(m)], Rt[:, col(m)]
            use = e > 0
            num += np.where(use, e * rt, 0.0); den += np.where(use, rt, 0.0)
        for rn, en in extra:
            e, rt = En[:, col(en)], Rt[:, col(rn)]
            use = e > 0
            num += np.where(use, e * rt, 0.0); den += np.where(use, rt, 0.0)
        with np.errstate(invalid='ignore', divide='ignore'):
            return np.where(den > 0, num / den, np.nan), den

    def pmean(members):
        me = np.stack([En[:, col(m)] for m in members], axis=1)
        n = (me > 0).sum(axis=1)
        with np.errstate(invalid='ignore', divide='ignore'):
            return np.where(n > 0, me.sum(axis=1) / n, np.nan), n

    # KA: rate-weighted, plain mean if no rates, error if no energies
    def with_fallback(members):
        w, den = wmean(members); p, n = pmean(members)
        return np.where(den > 0, w, p), den, n

    exp, den, n = with_fallback(ka_mem)
    check_energy('KA', ka_mem, [exp], ['rate-weighted mean'], fallback=(den == 0) & (n > 0))
    st['per_macro']['KA_LINE energy']['plain_mean_fallback_cells'] = int(((den == 0) & (n > 0))[:nreal].sum())
    # KB: readings A and C
    a, dena = wmean(kb_mem); c_, denc = wmean(kb_mem, extra=(('KO', 'KO1'), ('KP', 'KP1')))
    p, n = pmean(kb_mem)
    a2 = np.where(dena > 0, a, np.where(denc > 0, c_, p)); c2 = np.where(denc > 0, c_, p)
    check_energy('KB', kb_mem, [a2, c2], ['A(members with energy and rate)', 'C(KO/KP rates at the KO1/KP1 energy)'], fallback=(denc == 0) & (n > 0))
    st['per_macro']['KB_LINE energy']['cells_where_readings_differ'] = int((np.abs(a2 - c2) > TOL * np.abs(a2))[:nreal].sum())
    st['per_macro']['KB_LINE energy']['plain_mean_fallback_cells'] = int(((denc == 0) & (n > 0))[:nreal].sum())
    # LA + doublets
    for name, members in [('LA', la_mem)] + sorted(doublets.items()):
        exp, den, n = with_fallback(members)
        me2 = np.stack([En[:, col(m)] for m in members], axis=1); rt2 = np.stack([Rt[:, col(m)] for m in members], axis=1)
        with np.errstate(invalid='ignore', divide='ignore'):
            d0 = np.where(rt2.sum(axis=1) > 0, (me2 * rt2).sum(axis=1) / rt2.sum(axis=1), me2.sum(axis=1) / 2)
        check_energy(name, members, [exp], ['rate-weighted mean'], fallback=(den == 0) & (n > 0),
                     diag={'member-without-energy-counted-at-0keV': d0})
        pm = st['per_macro'][name + '_LINE energy']
        pm['plain_mean_fallback_cells'] = int(((den == 0) & (n > 0))[:nreal].sum())
        pm['one_member_cells'] = int((n == 1)[:nreal].sum())
        pm['two_member_weighted_cells'] = int(((n == 2) & (den > 0))[:nreal].sum())
    # LB: cross-section-weighted
    me = np.stack([En[:, col(m)] for m in mem], axis=1)
    use = (me > 0) & (W > 0)
    num = np.where(use, me * W, 0.0).sum(axis=1); den = np.where(use, W, 0.0).sum(axis=1)
    with np.errstate(invalid='ignore', divide='ignore'):
        exp = np.where(den > 0, num / den, np.nan)
    with np.errstate(invalid='ignore', divide='ignore'):
        d0 = np.where(W.sum(axis=1) > 0, (np.where(me > 0, me, 0.0) * W).sum(axis=1) / W.sum(axis=1), 0.0)
    check_energy('LB', mem, [exp], ['CS_FluorLine(edge+0.1 keV)-weighted mean'], diag={'member-without-energy-counted-at-0keV': d0})
    st['per_macro']['LB_LINE energy']['members_with_weight_but_no_energy'] = int(((me <= 0) & (W > 0))[:nreal].sum())
    st['per_macro']['LB_LINE energy']['max_members_used'] = int(use.sum(axis=1).max())
    # KO / KP
    for g, first in (('KO', 'KO1'), ('KP', 'KP1')):
        exp = np.where(En[:, col(first)] > 0, En[:, col(first)], np.nan)
        check_energy(g, [first], [exp], ['energy of ' + first])

    # ---- rates -----------------------------------------------------------------------------------------------
    def check_rate(name, exp, what, abs_tol=0.0):
        nonlocal cells
        c = col(name)
        pm = dict(success=0, error=0)
        for z in range(nZ):
            call = 'RadRate(%d,%s_LINE)' % (Zs[z], name)
            if np.isnan(exp[z]):
                if Rok[z, c]:
                    ck.violation('c10:RadRate:%s_LINE:value-where-error-expected' % name, '%s returned %r, expected an error (%s)' % (call, float(Rt[z, c]), what),
                                 dict(call=call, returned=float(Rt[z, c])))
                else:
                    pm['error'] += 1
            elif not Rok[z, c]:
                ck.violation('c10:RadRate:%s_LINE:error-where-defined' % name, '%s failed (%s), expected %r (%s)' % (call, msg(res[1], z, name), float(exp[z]), what),
                             dict(call=call, expected=float(exp[z])))
            elif abs(Rt[z, c] - exp[z]) > max(TOL * abs(exp[z]), abs_tol):
                ck.violation('c10:RadRate:%s_LINE:wrong-value' % name, '%s returned %r, expected %r (%s)' % (call, float(Rt[z, c]), float(exp[z]), what),
                             dict(call=call, returned=float(Rt[z, c]), expected=float(exp[z])))
            else:
                pm['success'] += 1; cells += 1
                if pm['success'] == 5:
                    st['samples'].append(dict(call=call, returned=float(Rt[z, c]), expected=float(exp[z]), rule=what))
        st['per_macro'][name + '_LINE rate'] = pm

    ka = sum(Rt[:, col(m)] for m in ka_mem)
    check_rate('KA', np.where(ka > 0, ka, np.nan), 'sum of ' + '+'.join(ka_mem))
    # 1 - KA: both operands are O(1), so the difference carries an absolute error of a few ulp(1)
    check_rate('KB', np.where((ka > 0) & (ka < 1), 1.0 - ka, np.nan), '1 - RadRate(KA)', abs_tol=8 * EPS)
    la = sum(Rt[:, col(m)] for m in la_mem)
    check_rate('LA', np.where(la > 0, la, np.nan), 'sum of ' + '+'.join(la_mem))
    check_rate('LB', np.full(nZ, np.nan), 'L-beta has no rate')

    # ---- aliases -----------------------------------------------------------------------------------------------
    aliases = sorted(n for n in lines if not IUPAC.match(n) and n not in doublets and n not in GROUPS4 and n not in ('KO', 'KP'))
    alias_ok = 0
    for n in aliases:
        targets = iupac_of_value.get(lines[n], [])
        if len(targets) != 1:
            ck.violation('c10:alias:%s_LINE:no-unique-iupac-line' % n, 'alias macro %s_LINE = %d equals the IUPAC line macros %r' % (n, lines[n], targets),
                         dict(macro=n + '_LINE', value=lines[n]))
            continue
        if n in PHYSICS and targets[0] != PHYSICS[n]:
            ck.violation('c10:alias:%s_LINE:wrong-line' % n, '%s_LINE has the value of %s_LINE, the Siegbahn line %s is %s' % (n, targets[0], n, PHYSICS[n]),
                         dict(macro=n + '_LINE', value=lines[n], expected_macro=PHYSICS[n] + '_LINE', expected_value=lines[PHYSICS[n]]))
            continue
        alias_ok += 1
    for n in PHYSICS:
        if n not in lines:
            ck.violation('c10:alias:%s_LINE:missing' % n, 'Siegbahn alias macro %s_LINE is not defined' % n, dict(macro=n + '_LINE'))
    # calls through the alias name and through the IUPAC name (separate requests built from the two macro names)
    pairs = [(n, iupac_of_value[lines[n]][0]) for n in aliases if len(iupac_of_value.get(lines[n], [])) == 1]
    av = np.array([lines[a] for a, b in pairs]); iv = np.array([lines[b] for a, b in pairs])
    Zr = np.arange(1, 121)
    rr = L.multi([('LineEnergy', Zr[:, None], av[None, :]), ('LineEnergy', Zr[:, None], iv[None, :]),
                  ('RadRate', Zr[:, None], av[None, :]), ('RadRate', Zr[:, None], iv[None, :])])
    ncalls += sum(len(x) for x in rr)
    for f, x, y in (('LineEnergy', rr[0], rr[1]), ('RadRate', rr[2], rr[3])):
        bad = np.nonzero((x.ok != y.ok) | (x.v != y.v))[0]
        for k in bad[:5]:
            z, j = divmod(int(k), len(pairs))
            ck.violation('c10:alias:%s_LINE:differs-from-iupac:%s' % (pairs[j][0], f), '%s(%d,%s_LINE) = %r but %s(%d,%s_LINE) = %r' % (
                f, Zr[z], pairs[j][0], float(x.v[k]), f, Zr[z], pairs[j][1], float(y.v[k])), dict(Z=int(Zr[z]), alias=pairs[j][0], iupac=pairs[j][1]))
        cells += int((x.ok & y.ok).sum())

    # ---- guards ----------------------------------------------------------------------------------------------------
    if not ck.viol:
        need = dict(KA=90, KB=90, LA=60, LB=60, KO=20, KP=5)
        need.update({d: 3 for d in doublets})
        for g, nmin in need.items():
            if st['per_macro'][g + '_LINE energy']['success'] < nmin:
                raise common.Inconclusive('%s_LINE energy compared successfully for only %d elements' % (g, st['per_macro'][g + '_LINE energy']['success']))
        for g in ('KA', 'KB', 'LA'):
            if st['per_macro'][g + '_LINE rate']['success'] < 60:
                raise common.Inconclusive('%s_LINE rate compared for too few elements' % g)
        if alias_ok < 30:
            raise common.Inconclusive('only %d alias macros found' % alias_ok)
    # functions of (Z, line) alone: same bits in any call order and without an error slot
    _Z, _L = np.meshgrid(np.arange(0, 122), np.arange(-390, 7), indexing='ij')
    ncalls += execlib.independence(ck, 'c10', 'shipped', [('LineEnergy', _Z.ravel(), _L.ravel()), ('RadRate', _Z.ravel(), _L.ravel())], orders=('given', 'reversed', 'each-twice'))
    cov = dict(evaluations=int(ncalls), distinct_nontrivial=int(cells),
               rule='every Z 1..120 (+6 out-of-range Z) x {KA,KB,LA,LB,KO,KP and the 7 IUPAC doublets} for LineEnergy, {KA,KB,LA,LB} for RadRate, '
                    'and every Siegbahn alias macro x Z for both functions; non-trivial = (function, macro, Z) cells in which the library '
                    'returned a value that was compared (%g relative) with the average recomputed from its member lines\' public values, '
                    'or an alias call that returned a value identical to the IUPAC call' % TOL,
               samples=st['samples'][:14], exhaustive=True, per_macro=st['per_macro'], aliases_checked=alias_ok,
               aliases_in_physics_table=len([n for n in PHYSICS if n in lines]), worst_relative_difference=st['worst_rel'],
               members=dict(KA=ka_mem, KB=kb_mem + ['KO(rate only)', 'KP(rate only)'], LA=la_mem, LB=mem, **doublets))
    return ck.finish(cov, ['single-line LineEnergy/RadRate values are checked against the data files by C01; here they are the inputs of the averages',
                           'CS_FluorLine is checked by C09; here it provides the L-beta weights',
                           'group members are determined by the public macro names (and the LBn aliases) only'])
