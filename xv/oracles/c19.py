"""C19 - the pure-Java implementation is observationally equivalent to the C library (differential monitor)."""
import os, json, subprocess, shutil, tempfile
import numpy as np
from concurrent.futures import ThreadPoolExecutor
from .. import common, build, execlib, refdata
from . import c16, c18



def requests(L, rng, per_fn, catalog=None):
    from .. import xl
    CRYSTALS = xl.XL(L.config).crystal_list()['names'] + [None]      # unknown names cannot be expressed to the executor
    reqs, strs = [], []

    def add(r, s):
        r = r.copy(); m = r['s'] >= 0; r['s'][m] += len(strs); strs.extend(s); reqs.append(r)
    strs_dom = c18.STRS + [None]
    for name, f in sorted(L.fns.items()):
        add(*L.build(name, *c18.numeric_columns(L, name, rng, per_fn, strs_dom)))
    k = max(300, per_fn // 8)
    pick = lambda dom, n=k: [dom[i] for i in rng.integers(0, len(dom), n)]
    hk = lambda n=k: rng.integers(-3, 5, n)
    E = c16.DOM['E']
    for name, kw in [
        ('Refractive_Index', dict(s=pick(strs_dom), d=[pick(E), pick(c16.DOM['density'])])),
        ('Crystal_dSpacing', dict(s=pick(CRYSTALS), i=[hk(), hk(), hk()])),
        ('Bragg_angle', dict(s=pick(CRYSTALS), i=[hk(), hk(), hk()], d=[pick(E)])),
        ('Q_scattering_amplitude', dict(s=pick(CRYSTALS), i=[hk(), hk(), hk()], d=[pick(E), pick([0.5, 1.0, 1.5])])),
        ('Crystal_F_H_StructureFactor', dict(s=pick(CRYSTALS), i=[hk(), hk(), hk()], d=[pick(E), pick([-1.0, 0.5, 1.0]), pick([0.5, 1.0])])),
        ('Crystal_F_H_StructureFactor_Partial', dict(s=pick(CRYSTALS), i=[hk(), hk(), hk(), pick([0, 1, 2, 3]), pick([0, 2, 1]), pick([0, 2, -1])], d=[pick(E), pick([0.5, 1.0]), pick([0.5, 1.0])])),
        ('Crystal_UnitCellVolume', dict(s=CRYSTALS * 2)),
        ('Atomic_Factors', dict(i=[pick(c16.DOM['Z'])], d=[pick(E), pick(c16.DOM['q']), pick([-1.0, 0.5, 1.0])])),
        ('SymbolToAtomicNumber', dict(s=pick(['Fe', 'H', 'Uuo', 'Xx', '', 'fe', 'Pb', 'Og', 'He', None]))),
        ('AtomicNumberToSymbol', dict(i=[np.arange(-3, 126)])),
        ('CompoundParser_summary', dict(s=pick(strs_dom))),
        ('NISTByName_summary', dict(s=pick(strs_dom))),
        ('NISTByIndex_summary', dict(i=[np.arange(-3, 186)])),
        ('RadioByIndex_summary', dict(i=[np.arange(-3, 14)])),
        ('RadioByName_summary', dict(s=['55Fe', '241Am', '109Cd', 'nope', '57Co', '', '244Cm', '238Pu', None])),
    ]:
        add(*c16.special_req(name, **kw))
    # deterministic corner grid of the crystal functions (argument-check order: energy / Miller (0,0,0) / Debye / flags / NULL crystal)
    cs3 = [CRYSTALS[0], CRYSTALS[len(CRYSTALS) // 2], 'Si', None]
    g = [(c, e, h, rel, db) for c in cs3 for e in (-1.0, 0.0, 8.0) for h in ((0, 0, 0), (1, 1, 1), (-2, 0, 4)) for rel in (0.0, 1.0) for db in (-1.0, 1.0)]
    C_ = [x[0] for x in g]; E_ = [x[1] for x in g]; H_ = [[x[2][k] for x in g] for k in range(3)]; R_ = [x[3] for x in g]; D_ = [x[4] for x in g]
    add(*c16.special_req('Crystal_dSpacing', s=C_, i=H_))
    add(*c16.special_req('Bragg_angle', s=C_, i=H_, d=[E_]))
    add(*c16.special_req('Q_scattering_amplitude', s=C_, i=H_, d=[E_, R_]))
    add(*c16.special_req('Crystal_F_H_StructureFactor', s=C_, i=H_, d=[E_, D_, R_]))
    for fl in ((2, 2, 2), (0, 0, 0), (1, 0, 2), (3, 2, 2), (2, 1, 2), (2, 2, -1)):
        add(*c16.special_req('Crystal_F_H_StructureFactor_Partial', s=C_, i=H_ + [[fl[0]] * len(g), [fl[1]] * len(g), [fl[2]] * len(g)], d=[E_, D_, R_]))
    # energies EXACTLY on an absorption edge (K, L1, L2, L3): comparable only where the C and the Java edge are the same double (the C table
    # went through an 11-digit listing), which JMon decides itself: the request carries the shell in i[5] and the mark d[9] = 3
    ed = c18.edge_table(L)
    for name, f in sorted(L.fns.items()):
        if f['sig'] not in ('id', 'iid') or f['argnames'][0] != 'Z' or f['argnames'][-1] not in ('E', 'E0'):
            continue
        rows = []
        for Z in range(3, 99, 3 if per_fn < 50000 else 1):
            for sh in range(4):
                e = float(ed[Z - 1, sh])
                if e <= 0:
                    continue
                if f['sig'] == 'id':
                    rows.append((Z, None, e, sh))
                else:
                    dom = c16.DOM.get(f['argnames'][1], c16.PDOM)
                    for m in (dom if len(dom) <= 8 else [dom[i] for i in rng.integers(0, len(dom), 8)]):
                        rows.append((Z, int(m), e, sh))
        if not rows:
            continue
        Zc = np.array([r_[0] for r_ in rows]); Ec = np.array([r_[2] for r_ in rows])
        rq, st_ = L.build(name, *([Zc, Ec] if f['sig'] == 'id' else [Zc, np.array([r_[1] for r_ in rows]), Ec]))
        rq = rq.copy(); rq['i'][:, 5] = [r_[3] for r_ in rows]; rq['d'][:, 9] = 3.0
        add(rq, st_)
    # energies BETWEEN the ends of an element's Kissel sub-shell tables (the tables of one element do not all end at the same energy: above the shorter
    # ones a sub-shell contributes nothing, the aggregate is still defined) - every function of (Z, E) and (Z, shell / line, E), every element that has such a gap
    ks = refdata.kissel(L.config)
    if ks:
        rowsZ, rowsE = [], []
        for Z, dz in sorted(ks.items()):
            ends = sorted({float(np.exp(v[1][-1, 0])) for v in dz['partial'].values()})
            for a_, b_ in zip(ends[:-1], ends[1:]):
                if b_ > a_ * (1 + 1e-9):
                    for e in (a_ * (1 + 2e-7), (a_ + b_) / 2, b_ * (1 - 1e-9), b_ * (1 + 5e-8)):
                        rowsZ.append(Z); rowsE.append(e)
        if rowsZ:
            Zc, Ec = np.array(rowsZ), np.array(rowsE)
            for name, f in sorted(L.fns.items()):
                if f['argnames'][0] != 'Z' or f['argnames'][-1] not in ('E', 'E0'):
                    continue
                if f['sig'] == 'id':
                    add(*L.build(name, Zc, Ec))
                elif f['sig'] == 'iid':
                    dom = c16.DOM.get(f['argnames'][1], c16.PDOM)
                    sel = slice(None, None, 4)
                    for m in [dom[i] for i in rng.integers(0, len(dom), 3)]:
                        add(*L.build(name, Zc[sel], np.full(len(Zc[sel]), int(m)), Ec[sel]))
            syms = ['GaAs', 'CsI', 'PbO', 'Tm2O3', 'YbF3', 'UO2']
            for name, f in sorted(L.fns.items()):
                if f['sig'] == 'sd' and name.endswith('_CP'):
                    es = sorted(set(np.round(Ec, 9).tolist()))[:24]
                    add(*L.build(name, [s_ for s_ in syms for _ in es], np.array(es * len(syms))))
    # catalogue block, executed in this order by ONE JMon process (the last part): every entry by index, again by index, by name, and
    # through a _CP function. JMon scribbles on every object it is handed, as a caller may: a lookup that hands out the catalogue's own
    # object instead of a copy shows in the later requests
    if catalog:
        nn, rn = catalog['nist'], catalog['radio']
        for rep in range(2):
            add(*c16.special_req('NISTByIndex_summary', i=[np.arange(len(nn))]))
            add(*c16.special_req('RadioByIndex_summary', i=[np.arange(len(rn))]))
        add(*c16.special_req('NISTByName_summary', s=nn))
        add(*c16.special_req('RadioByName_summary', s=rn))
        add(*L.build('CS_Total_CP', nn, 10.0))
        add(*c16.special_req('Refractive_Index', s=nn, d=[8.0, 0.0]))
    return np.concatenate(reqs), strs


def jmon(cp, req, resp_raw, strs, fntable, jvm=()):
    d = tempfile.mkdtemp(prefix='xv-java-')
    try:
        f = [os.path.join(d, x) for x in ('req', 'str', 'resp', 'out')]
        req.tofile(f[0]); resp_raw.tofile(f[2])
        with open(f[1], 'wb') as fh:
            for s in strs:
                fh.write(s.encode('utf8', 'surrogateescape') + b'\0')
        p = subprocess.run(['java', '-Xss16m'] + list(jvm) + ['-cp', cp, 'JMon', f[0], f[1], f[2], fntable, f[3]], stdout=subprocess.PIPE, stderr=subprocess.STDOUT, timeout=3600)
        if p.returncode != 0 or not os.path.exists(f[3]):
            return dict(crash=p.returncode, tail=p.stdout.decode('utf8', 'replace')[-800:])
        return dict(recs=[json.loads(l) for l in open(f[3])])
    finally:
        shutil.rmtree(d, ignore_errors=True)


def main(tier):
    ck = common.Check('C19', tier)
    rng = np.random.default_rng(ck.seed * 65537 + 19)
    per_fn = 15000 if tier == 'quick' else 200000
    stats, nocp, worst = {}, set(), (0.0, '')
    edge = dict(compared=0, skipped_not_the_same_double=0)
    hostile_calls = {}
    for config in ('shipped', 'kissel'):
        L = execlib.Lib(config)
        cp = build.java_bundle(config)
        fnt = os.path.join(cp, 'fntable.txt')
        with open(fnt, 'w') as fh:
            for n, f in L.fns.items():
                fh.write('%d %s %s\n' % (f['id'], n, f['sig']))
        from .. import xl
        X = xl.XL(config)
        req, strs = requests(L, rng, per_fn, dict(nist=X.nist_list()['names'], radio=X.nuclide_list()['names']))
        res = L.run(req, [s for s in strs])
        parts = np.array_split(np.arange(len(req)), 8)
        with ThreadPoolExecutor(8) as ex:
            outs = list(ex.map(lambda idx: jmon(cp, req[idx], res.raw[idx], strs, fnt), parts))
        # the same class files in JVMs a host may really run them in: assertions enabled (-ea: the default of Gradle / Maven test runs), a default
        # locale with a decimal comma and '.' as grouping separator (de_DE), the Turkish locale (dotless i in toLowerCase / toUpperCase), another
        # default charset and time zone - every request that carries a string and one numeric request in six, again
        sub = np.nonzero((req['s'] >= 0) | (np.arange(len(req)) % 6 == 0))[0]
        hostile = [('-ea de_DE', ['-ea', '-Duser.language=de', '-Duser.country=DE']),
                   ('-ea tr_TR ISO-8859-9', ['-ea', '-Duser.language=tr', '-Duser.country=TR', '-Dfile.encoding=ISO-8859-9', '-Duser.timezone=Pacific/Kiritimati'])]
        jobs_h = [(label, opts, idx) for label, opts in hostile for idx in np.array_split(sub, 4)]
        with ThreadPoolExecutor(8) as ex:
            outs_h = list(ex.map(lambda j: (j[0], jmon(cp, req[j[2]], res.raw[j[2]], strs, fnt, jvm=j[1])), jobs_h))
        for label, o in outs_h:
            if 'crash' in o:
                ck.violation('c19:jvm-dies:%s' % label.split()[-1], 'the Java monitor dies (rc %s) in a JVM started with %s: %s' % (o['crash'], label, o['tail'][-300:]), dict(config=config, jvm=label))
                continue
            for x in o['recs']:
                if x['type'] == 'viol':
                    ck.violation(x['key'] + ':jvm:' + label.replace(' ', '_'), x['what'] + ' (JVM started with %s)' % label, dict(call=x['witness'], count=x['count'], config=config, jvm=label))
                elif x['type'] == 'fn':
                    hostile_calls[label] = hostile_calls.get(label, 0) + x['calls']
        for o in outs:
            if 'crash' in o:
                raise common.Inconclusive('JMon failed (rc %s): %s' % (o['crash'], o['tail']))
            for x in o['recs']:
                if x['type'] == 'viol':
                    ck.violation(x['key'], x['what'], dict(call=x['witness'], count=x['count'], config=config))
                elif x['type'] == 'fn':
                    s = stats.setdefault(x['fn'], dict(calls=0, values_compared=0, errors_agreed=0))
                    for k in s:
                        s[k] += x[k]
                elif x['type'] == 'nocounterpart':
                    nocp.add(x['fn'])
                elif x['type'] == 'summary':
                    edge['compared'] += x.get('exact_edge_compared', 0); edge['skipped_not_the_same_double'] += x.get('exact_edge_skipped', 0)
                    if x['worst_rel'] > worst[0]:
                        worst = (x['worst_rel'], x['worst_where'])
    # Java constants published under a C name must carry the C value (executable slice of C20)
    cp = build.java_bundle('shipped')
    p = subprocess.run(['java', '-cp', cp, 'JConst'], stdout=subprocess.PIPE, stderr=subprocess.STDOUT, timeout=600)
    if p.returncode:
        raise common.Inconclusive('JConst failed: ' + p.stdout.decode()[-400:])
    mac = refdata.Macros().all
    nconst = 0
    for l in p.stdout.decode().split('\n'):
        t = l.split()
        if len(t) == 2 and t[0] in mac:
            nconst += 1
            jv, cv = float(t[1]), mac[t[0]]
            if abs(jv - cv) > 1e-15 * abs(cv):
                ck.violation('c19:constant:%s' % t[0], 'Java constant %s = %r, C header value %r' % (t[0], jv, cv), dict(name=t[0]))
    calls = sum(s['calls'] for s in stats.values())
    compared = sum(s['values_compared'] for s in stats.values())
    pairs = sum((1 if s['values_compared'] else 0) + (1 if s['errors_agreed'] else 0) for s in stats.values())
    if calls < 20000 or len(stats) < 80 or compared < 5000 or nconst < 1000:
        raise common.Inconclusive('Java monitor observed too little: %d calls, %d methods, %d values, %d constants' % (calls, len(stats), compared, nconst))
    cov = dict(evaluations=calls, distinct_nontrivial=pairs, energies_exactly_on_an_edge=edge, calls_replayed_in_jvms_with_other_options=hostile_calls,
               rule='every C function with a static Java method of the same name and argument types (reflection) x seeded samples of the discrete argument space, '
                    'energies/angles and strings incl. NULL, plus formulas, catalogue entries and crystal functions; C results recorded by the executor, the same '
                    'request stream replayed in the JVM loaded with the data file generated from the same sources; exception <=> C error, values within '
                    '5e-8 relative (C tables carry 11 digits, Java reads full precision); distinct = (method, outcome class) pairs compared',
               samples=[dict(method=k, **v) for k, v in sorted(stats.items())][:10], methods_compared=len(stats), values_compared=compared,
               c_functions_without_java_counterpart=sorted(nocp), worst_relative_difference=worst[0], worst_case=worst[1],
               java_constants_compared_with_c_headers=nconst, per_method=stats)
    return ck.finish(cov, ['stub org.apache.commons.math3.complex.Complex (no jar offline)', 'JVM 17; xraylib.dat produced by java/pr_data_java.c from the same data root'])
