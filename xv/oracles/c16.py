"""C16 - queries are pure: results do not depend on call history and leave no trace (history-based monitor)."""
import os, json, subprocess, shutil, tempfile
import numpy as np
from concurrent.futures import ThreadPoolExecutor
from .. import common, build, execlib

DOM = dict(
    Z=[-1, 0, 1, 3, 6, 13, 14, 20, 26, 29, 47, 56, 64, 74, 79, 82, 92, 98, 100, 107, 120, 121],
    shell=[-1, 0, 1, 2, 3, 4, 5, 8, 9, 12, 20, 27, 28, 30, 31],
    line=[-400, -383, -380, -207, -111, -90, -86, -60, -29, -17, -6, -3, -2, -1, 0, 1, 2, 3, 4],
    trans=[-1, 0, 1, 2, 3, 4, 5, 9, 14, 15],
    auger_trans=[-1, 0, 1, 5, 22, 50, 120, 300, 600, 995, 996],
    E=[-1.0, 0.0, 0.05, 0.5, 1.0, 2.5, 5.9, 8.047, 10.0, 17.44, 28.0, 59.54, 100.0, 300.0, 1e5],
    E0=[-1.0, 0.0, 1.0, 59.54, 511.0, 1e4], theta=[0.0, 0.3, 1.5707963267948966, 3.141592653589793, -1.0, 7.0],
    phi=[0.0, 0.7, 1.5707963267948966, 3.141592653589793, -2.0], q=[-1.0, 0.0, 0.01, 0.5, 2.0, 20.0, 1e9],
    pz=[-1.0, 0.0, 0.5, 2.0, 50.0, 1e4], density=[-1.0, 0.0, 1.0, 2.7],
    compound=['H2O', 'Ca5(PO4)3F', 'SiO2', 'Pb0.5Sn1.5', 'Water, Liquid', 'Air, Dry (near sea level)', 'Bone, Compact (ICRU)',
              'Xx', 'H2(', '', None, 'Rf', 'C6H12O6', 'Gadolinium Oxysulfide', '(Fe2O3)0.3(SiO2)0.7', 'U', 'Caf\u00e9', 'H2O\u00b2', '\u00c5ngstr\u00f6m',
              'Fe0.69999999999999996Ni0.30000000000000004', 'water', '2H2O', 'Ca(2OH)', 'Cu(so4)', '(OH)a2', 'Ca(OH)2.5'])
PDOM = [0.0, 1.5, 1234.5]
CRYSTALS = ['Si', 'Ge', 'Diamond', 'GaAs', 'InSb', 'LiF', 'Beryl', 'Muscovite', 'AlphaQuartz', 'Graphite', 'nope', None]


def build_queries(L, rng, per_fn):
    """stratified query sample over the whole read-only API: list of (req-record, strings)"""
    reqs, strs = [], []

    def add(r, s):
        r = r.copy()
        m = r['s'] >= 0
        r['s'][m] += len(strs)
        strs.extend(s)
        reqs.append(r)
    for name, f in sorted(L.fns.items()):
        cols = []
        for ch, an in zip(f['sig'], f['argnames']):
            if ch == 's':
                dom = DOM['compound']
                cols.append([dom[i] for i in rng.integers(0, len(dom), per_fn)])
            else:
                dom = DOM.get(an, PDOM)
                cols.append(np.array([dom[i] for i in rng.integers(0, len(dom), per_fn)]))
        r, s = L.build(name, *cols)
        add(r, s)
    k = per_fn
    pick = lambda dom, n=k: [dom[i] for i in rng.integers(0, len(dom), n)]
    hk = lambda n=k: rng.integers(-2, 4, n)
    for name, kw in [
        ('Refractive_Index', dict(s=pick(DOM['compound']), d=[pick(DOM['E']), pick(DOM['density'])])),
        ('Crystal_dSpacing', dict(s=pick(CRYSTALS), i=[hk(), hk(), hk()])),
        ('Bragg_angle', dict(s=pick(CRYSTALS), i=[hk(), hk(), hk()], d=[pick(DOM['E'])])),
        ('Q_scattering_amplitude', dict(s=pick(CRYSTALS), i=[hk(), hk(), hk()], d=[pick(DOM['E']), pick([0.5, 1.0, 1.5])])),
        ('Crystal_F_H_StructureFactor', dict(s=pick(CRYSTALS), i=[hk(), hk(), hk()], d=[pick(DOM['E']), pick([-1.0, 0.5, 1.0]), pick([0.5, 1.0])])),
        ('Crystal_F_H_StructureFactor_Partial', dict(s=pick(CRYSTALS), i=[hk(), hk(), hk(), pick([0, 1, 2, 3]), pick([0, 2, 1]), pick([0, 2, -1])],
                                                     d=[pick(DOM['E']), pick([0.5, 1.0]), pick([0.5, 1.0])])),
        ('Crystal_UnitCellVolume', dict(s=pick(CRYSTALS))),
        ('Atomic_Factors', dict(i=[pick(DOM['Z'])], d=[pick(DOM['E']), pick(DOM['q']), pick([-1.0, 0.5, 1.0])])),
        ('SymbolToAtomicNumber', dict(s=pick(['Fe', 'H', 'Uuo', 'Xx', '', None, 'fe', 'Pb']))),
        ('AtomicNumberToSymbol', dict(i=[pick(DOM['Z'])])),
        ('CompoundParser_summary', dict(s=pick(DOM['compound']))),
        ('NISTByName_summary', dict(s=pick(DOM['compound']))),
        ('NISTByIndex_summary', dict(i=[rng.integers(-2, 183, k)])),
        ('RadioByIndex_summary', dict(i=[rng.integers(-2, 12, k)])),
        ('RadioByName_summary', dict(s=pick(['55Fe', '241Am', '109Cd', 'nope', None, '57Co']))),
    ]:
        # Lib.special builds and runs; we only want the request, so replicate its builder through a dry run object
        r, s = special_req(name, **kw)
        add(r, s)
    # episodes on a caller-owned crystal array (puremon request 2001): init + add a user crystal that shares a built-in name,
    # optionally Crystal_ReadFile of a well-formed / corrupt-but-openable / missing / duplicate-defining file, look-ups, free
    ua = np.zeros(7 * 4, execlib.REQ); ua['fn'] = 2001; ua['s'] = -1        # variants 5, 6: an empty file, a file without any definition
    ua['i'][:, 0] = np.repeat(np.arange(7), 4); ua['i'][:, 1] = np.tile(np.arange(4), 7)
    reqs.append(ua)
    # the three catalogue listings (2002-2004) and Crystal_ArrayInit (2005; with INT_MAX the one call that fails for want of memory)
    ls = np.zeros(3, execlib.REQ); ls['fn'] = [2002, 2003, 2004]; ls['s'] = -1
    reqs.append(ls)
    ai = np.zeros(5, execlib.REQ); ai['fn'] = 2005; ai['s'] = -1; ai['i'][:, 0] = [2147483647, -1, 0, 5, 2147483647]
    reqs.append(ai)
    # several queries on ONE caller-owned crystal object (2006): built-in copy or caller-edited cell x order of the queries in between
    names = [c for c in CRYSTALS if c]
    ob = np.zeros(2 * len(names), execlib.REQ); ob['fn'] = 2006
    ob['s'] = np.arange(2 * len(names)) % len(names) + len(strs); strs.extend(names)
    ob['i'][:, 0] = rng.integers(0, 256, len(ob)); ob['i'][:, 1] = np.arange(len(ob)) // len(names)
    reqs.append(ob)
    return np.concatenate(reqs), strs


def special_req(name, s=None, i=(), d=()):
    cols_i = [np.asarray(x) for x in i]; cols_d = [np.asarray(x, dtype=float) for x in d]
    strings, sidx = [], None
    if s is not None:
        sidx = np.empty(len(s), 'i4'); table = {}
        for k, x in enumerate(s):
            if x is None:
                sidx[k] = -1
            else:
                if x not in table:
                    table[x] = len(strings); strings.append(x)
                sidx[k] = table[x]
    allc = cols_i + cols_d + ([sidx] if sidx is not None else [])
    b = np.broadcast_arrays(*allc)
    req = np.zeros(b[0].size, execlib.REQ)
    req['fn'] = execlib.SPECIAL_ID[name]; req['s'] = -1
    for k in range(len(cols_i)):
        req['i'][:, k] = b[k].reshape(-1)
    for k in range(len(cols_d)):
        req['d'][:, k] = b[len(cols_i) + k].reshape(-1)
    if sidx is not None:
        req['s'] = b[-1].reshape(-1)
    return req, strings


class Pure:
    def __init__(self, config, flavour='plain'):
        # flavour 'meson': the monitor program compiled the usual way, linked against the library as the PROJECT's build system makes it
        # (its flags and options).  LD_BIND_NOW: lazy binding would otherwise rewrite the library's GOT during the first calls
        self.mon = build.harness_shared(config, 'puremon') if flavour == 'plain' else build.harness_meson(config, 'puremon')
        self.config = config
        self.env0 = {} if flavour == 'plain' else {'LD_BIND_NOW': '1'}

    def run(self, req, strings, env=None):
        d = tempfile.mkdtemp(prefix='xv-pure-')
        try:
            f = [os.path.join(d, x) for x in ('req', 'str', 'resp', 'msg', 'rep')]
            req.tofile(f[0])
            with open(f[1], 'wb') as fh:
                for s in strings:
                    fh.write(s.encode('utf8', 'surrogateescape') + b'\0')
            e = dict(os.environ); e.pop('XV_XRAYINIT', None)
            e.update(self.env0)
            e.update(env or {})
            p = subprocess.run([self.mon, 'run'] + f, env=e, stdout=subprocess.PIPE, stderr=subprocess.STDOUT, timeout=1800)
            if p.returncode != 0:
                return None, None, dict(crash=p.returncode, tail=p.stdout.decode('utf8', 'replace')[-300:])
            resp = np.fromfile(f[2], execlib.RESP)
            msgs = open(f[3], errors='replace').read().split('\n')[:-1]
            rep = json.load(open(f[4]))
            return resp, msgs, rep
        finally:
            shutil.rmtree(d, ignore_errors=True)


def canon(resp, msgs):
    """comparable representation: bytes of (status, code, v[3], aux) + message text"""
    out = []
    for k in range(len(resp)):
        r = resp[k]
        m = int(r['msg'])
        out.append((int(r['status']), int(r['code']), r['v'].tobytes(), int(r['aux']), msgs[m] if 0 <= m < len(msgs) else None))
    return out


def main(tier):
    ck = common.Check('C16', tier)
    rng = np.random.default_rng(ck.seed * 7919 + 16)
    per_fn = 12 if tier == 'quick' else 300
    nhist = 24 if tier == 'quick' else 200
    hlen = 20000 if tier == 'quick' else 200000
    locdir = build.locale_dir()
    totals = dict(evals=0, fresh=0, histories=0, reobserved=set(), preds={}, hashed_bytes=0, errors_kept=0)
    samples = []
    nhist0 = nhist
    for config, flavour in (('shipped', 'plain'), ('kissel', 'plain'), ('shipped', 'meson')):
        L = execlib.Lib(config)
        P = Pure(config, flavour)
        nhist = nhist0 if flavour == 'plain' else max(nhist0 // 3, 6)
        Q, S = build_queries(L, rng, per_fn)
        if flavour != 'plain':
            config = config + ' (project build)'
            totals['histories_on_the_project_build'] = nhist
        nq = len(Q)
        fnname = {f['id']: n for n, f in L.fns.items()}
        fnname.update({v: k for k, v in execlib.SPECIAL_ID.items()})
        fnname[2001] = 'user-crystal-array-episode'
        fnname.update({2002: 'GetCompoundDataNISTList', 2003: 'GetRadioNuclideDataList', 2004: 'Crystal_GetCrystalsList', 2005: 'Crystal_ArrayInit',
                       2006: 'queries-on-one-crystal-object'})
        # ---- (1) fresh-process baseline: each query is the first and only call of its own process
        nbase = (nq if tier == 'thorough' else min(nq, 2500)) if flavour == 'plain' else min(nq, 900)
        base_idx = np.unique(np.concatenate([rng.choice(nq, nbase, replace=False), np.nonzero(Q['fn'] >= 2001)[0]]))

        def fresh(i):
            r = Q[i:i + 1].copy()
            strs = []
            if r['s'][0] >= 0:
                strs = [S[r['s'][0]]]; r['s'][0] = 0
            resp, msgs, rep = P.run(r, strs)
            if resp is None:
                return i, None, rep
            return i, canon(resp, msgs)[0], rep
        with ThreadPoolExecutor(common.NCPU) as ex:
            fres = list(ex.map(fresh, base_idx))
        baseline = {}
        for i, c, rep in fres:
            if c is None:
                ck.violation('crash:fresh:%s' % fnname.get(int(Q[i]['fn']), '?'), 'fresh process died', dict(request=int(i), info=rep, config=config))
                continue
            baseline[int(i)] = c
            _check_report(ck, rep, 'fresh:' + fnname.get(int(Q[i]['fn']), '?'), config, fresh=True)
        totals['fresh'] += len(baseline); totals['evals'] += len(baseline)
        # Crystal_ReadFile parses numbers with scanf, i.e. in the process locale: that is an input of the call, not call history,
        # so the file-reading episodes get a second fresh-process baseline taken under the comma-decimal locale
        ep = [int(i) for i in np.nonzero(Q['fn'] == 2001)[0]]
        base_loc = {}
        for i in ep:
            resp, msgs, rep = P.run(Q[i:i + 1].copy(), [], dict(LOCPATH=locdir, LC_ALL='xx_VERIF'))
            if resp is not None:
                base_loc[i] = canon(resp, msgs)[0]
                _check_report(ck, rep, 'fresh:user-crystal-array-episode', config, fresh=True)
                baseline.setdefault(i, base_loc[i])
        # ---- (2) histories: random interleavings in one process, with and without XRayInit, C and comma locale
        bidx = np.array(sorted(baseline))
        for h in range(nhist):
            seq = rng.integers(0, nq, hlen)                      # noise: any query
            pos = rng.choice(hlen, hlen // 3, replace=False)
            seq[pos] = rng.choice(bidx, len(pos))               # baseline queries re-appear many times
            st = np.sort(rng.choice(np.arange(1, hlen), hlen // 10, replace=False))
            seq[st] = seq[st - 1]                               # stutter: one call in ten is an immediate repetition of its predecessor
            env = {}
            if h % 2:
                env['XV_XRAYINIT'] = '1'
            if h % 3 == 1:
                env.update(LOCPATH=locdir, LC_ALL='xx_VERIF')
            if h % 4 >= 2:
                env['XV_ERRNO'] = '1'       # errno as some earlier call of the process may have left it (ENOMEM, ERANGE, EDOM, ...) before every query
            if h % 5 == 3:
                env['XV_FPFLAGS'] = '1'     # sticky FP status flags the host's own arithmetic left raised (before every second query): values as in a fresh process
            round_only = False
            if h % 6 == 5:
                # a host that works in a directed rounding mode (interval arithmetic): the values may differ in the last bits from the round-to-nearest
                # baseline, so only the process state is judged here - the rounding mode the host chose is still in force after the history
                env['XV_ROUND'] = ('up', 'down', 'zero')[(h // 6) % 3]; round_only = True
            resp, msgs, rep = P.run(Q[seq], S, env)
            if resp is None:
                ck.violation('crash:history', 'history process died', dict(history=h, info=rep, config=config, seed=ck.seed))
                continue
            totals['histories'] += 1; totals['evals'] += hlen
            if h % 3 == 1 and 'xx_VERIF' not in rep['locale_before']:
                raise common.Inconclusive('synthetic locale not active: %r' % rep['locale_before'])
            _check_report(ck, rep, 'history', config)
            totals['hashed_bytes'] = rep['hashed_bytes']; totals['errors_kept'] += rep['errors_kept']
            can = canon(resp, msgs)
            isb = np.isin(seq, bidx)
            if round_only:
                totals['histories_in_a_directed_rounding_mode'] = totals.get('histories_in_a_directed_rounding_mode', 0) + 1
                continue
            for k in np.nonzero(isb)[0]:
                q = int(seq[k])
                want = base_loc[q] if (h % 3 == 1 and q in base_loc) else baseline[q]
                if can[k] != want:
                    fn = fnname.get(int(Q[q]['fn']), '?')
                    pred = fnname.get(int(Q[seq[k - 1]]['fn']), '?') if k else 'start'
                    ck.violation('c16:history-dependent-result:%s' % fn,
                                 '%s returns a different result after a call history than as first call of a fresh process' % fn,
                                 dict(request=_show(Q[q], S, fn), fresh=_cshow(want), in_history=_cshow(can[k]), predecessor=pred,
                                      history=h, position=int(k), env=env, config=config, seed=ck.seed))
                else:
                    totals['reobserved'].add((config, q))
                    if k:
                        totals['preds'].setdefault((config, q), set()).add(int(Q[seq[k - 1]]['fn']))
            if len(samples) < 6:
                k = int(np.nonzero(isb)[0][h])
                samples.append(dict(query=_show(Q[seq[k]], S, fnname.get(int(Q[seq[k]]['fn']), '?')), result=_cshow(can[k]), history=h, position=k, env=env, config=config))
        # ---- (2a) a legacy host: the five deprecated switches (SetHardExit ... GetErrorMessages) in between ordinary queries.  They may write their
        #           deprecation notice to stderr and keep a "notice given" flag; nothing else of the process may change (stdout bytes, the buffering of
        #           the host's streams, locale, descriptors ...) and the queries around them answer as in a fresh process
        if flavour == 'plain':
            leg = np.zeros(5, execlib.REQ); leg['fn'] = np.arange(2011, 2016); leg['s'] = -1
            qs = rng.choice(bidx, 400)
            qs = qs[np.array([int(Q[q]['fn']) < 2000 for q in qs])]
            parts = np.array_split(qs, 6)
            seqreq = np.concatenate([Q[parts[0]]] + [x for k_ in range(5) for x in (leg[k_:k_ + 1], leg[k_:k_ + 1], Q[parts[k_ + 1]])])
            resp, msgs, rep = P.run(seqreq, S, {})
            if resp is None:
                ck.violation('crash:legacy-history', 'history with the deprecated switches died', dict(info=rep, config=config))
            else:
                _check_report(ck, rep, 'history', config, legacy=True)
                totals['deprecated_calls'] = totals.get('deprecated_calls', 0) + rep.get('deprecated_calls', 0); totals['evals'] += len(seqreq)
                can = canon(resp, msgs); pos = 0
                order = [parts[0]] + [y for k_ in range(5) for y in (None, None, parts[k_ + 1])]
                for blk in order:
                    if blk is None:
                        pos += 1; continue
                    for q in blk:
                        if can[pos] != baseline[int(q)]:
                            fn = fnname.get(int(Q[int(q)]['fn']), '?')
                            ck.violation('c16:history-dependent-result:%s' % fn, '%s returns a different result after the deprecated switches were called than as first call of a fresh process' % fn,
                                         dict(request=_show(Q[int(q)], S, fn), fresh=_cshow(baseline[int(q)]), in_history=_cshow(can[pos]), config=config, predecessor='deprecated switches'))
                        pos += 1
        # ---- (2b) long run: state that only goes wrong after MANY calls (a 15/16-bit counter that wraps, a memo that fills up, a slot per N-th
        #           error): blocks of 70000 immediate repetitions of one baseline query - success and failure paths of the common entry
        #           points - each followed by a sample of all baseline queries; everything compared with the fresh-process baseline
        if flavour == 'plain' and (tier == 'thorough' or config == 'shipped'):
            common_fns = ['CS_Total', 'CS_Photo', 'AtomicWeight', 'LineEnergy', 'CS_Total_CP', 'CompoundParser_summary', 'Crystal_dSpacing', 'Crystal_F_H_StructureFactor',
                          'NISTByName_summary', 'Refractive_Index', 'Atomic_Factors', 'SymbolToAtomicNumber', 'RadioByName_summary', 'FF_Rayl', 'ComptonProfile']
            idn = {v: k for k, v in fnname.items()}
            blocks, reps = [], (70000 if tier == 'quick' else 140000)
            for fn_ in common_fns:
                fid = idn.get(fn_)
                cand = [int(q) for q in bidx if int(Q[q]['fn']) == fid]
                okq = [q for q in cand if baseline[q][0] & 1 == 0][:1]
                erq = [q for q in cand if baseline[q][0] & 1][:1]
                blocks += okq + erq
            seq = []
            for q in blocks:
                seq.append(np.full(reps, q)); seq.append(rng.choice(bidx, 150))
            if blocks:
                seq = np.concatenate(seq)
                resp, msgs, rep = P.run(Q[seq], S, {})
                if resp is None:
                    ck.violation('crash:long-run', 'long-run history process died', dict(info=rep, config=config, seed=ck.seed, blocks=[_show(Q[q], S, fnname.get(int(Q[q]['fn']), '?')) for q in blocks]))
                else:
                    _check_report(ck, rep, 'history', config)
                    totals['evals'] += len(seq); totals['long_run_calls'] = totals.get('long_run_calls', 0) + len(seq); totals['long_run_blocks'] = totals.get('long_run_blocks', 0) + len(blocks)
                    # compare without materialising 2e6 tuples: vectorised on the raw records, message text only where something differs
                    want_s = np.array([baseline[int(q)][0] for q in seq]); want_c = np.array([baseline[int(q)][1] for q in seq]); want_a = np.array([baseline[int(q)][3] for q in seq])
                    uniq = sorted(set(int(x) for x in seq))
                    vmap = {q: np.frombuffer(baseline[q][2], dtype='u8') for q in uniq}
                    got_v = resp['v'].view('u8').reshape(len(seq), -1)
                    bad = np.nonzero((resp['status'] != want_s) | (resp['code'] != want_c) | (resp['aux'] != want_a))[0].tolist()
                    for q in uniq:
                        rows = np.nonzero(seq == q)[0]
                        diff = rows[(got_v[rows] != vmap[q][None, :]).any(axis=1)]
                        bad += diff.tolist()
                        mrows = rows[[0, len(rows) // 2, -1]]            # messages: first, middle and last occurrence
                        for k in mrows:
                            m = int(resp['msg'][k]); txt = msgs[m] if 0 <= m < len(msgs) else None
                            if txt != baseline[q][4]:
                                bad.append(int(k))
                    for k in sorted(set(bad))[:3]:
                        q = int(seq[k]); fn = fnname.get(int(Q[q]['fn']), '?')
                        first = int(np.nonzero(seq == q)[0][0])
                        ck.violation('c16:result-changes-after-many-calls:%s' % fn, '%s returns a different result at call %d of a long run (its repetition %d) than as first call of a fresh process' % (fn, k, k - first),
                                     dict(request=_show(Q[q], S, fn), fresh=_cshow(baseline[q]), in_long_run=_cshow(canon(resp[k:k + 1], msgs)[0]), position=int(k), config=config, seed=ck.seed))

        # ---- (3) explicit insertions into the built-in collection: the hash must see them, and NOTHING else may change -
        #          neither unrelated queries nor any of the existing built-in crystals (stored volume, d-spacing, structure factor)
        from .. import xl
        names = xl.XL(config.split()[0]).crystal_list()['names']
        cq, cs_ = [], []
        for nm_fn, kw in (('Crystal_UnitCellVolume', dict(s=names)), ('Crystal_dSpacing', dict(s=names, i=[1, 1, 1])),
                          ('Crystal_F_H_StructureFactor', dict(s=names, i=[1, 1, 1], d=[8.0, 1.0, 1.0]))):
            r_, s_ = special_req(nm_fn, **kw)
            r_ = r_.copy(); r_['s'] += len(S) + 2 + len(cs_); cs_ += s_; cq.append(r_)
        cq = np.concatenate(cq)
        block = np.concatenate([Q[bidx[:300]], cq])
        add1 = np.zeros(1, execlib.REQ); add1['fn'] = 2000; add1['s'] = len(S)          # sorts before every built-in name
        add2 = np.zeros(1, execlib.REQ); add2['fn'] = 2000; add2['s'] = len(S) + 1      # sorts after every built-in name
        seqreq = np.concatenate([block, add1, block, add2, block])
        resp, msgs, rep = P.run(seqreq, S + ['0000_XvInsertedFirst', 'zzzz_XvInsertedLast'] + cs_)
        if resp is None or rep['builtin_added'] != 2 or rep['h0'] == rep['h1']:
            raise common.Inconclusive('segment hash did not register the explicit insertions: %r' % (rep,))
        can = canon(resp, msgs)
        nb = len(block)
        for j in range(nb):
            same = can[j] == can[nb + 1 + j] == can[2 * nb + 2 + j]
            if j < 300:
                same = same and can[j] == baseline[int(bidx[j])]
            if not same:
                what = fnname.get(int(block[j]['fn']), '?')
                ck.violation('c16:insertion-changes-other-entry:%s' % what,
                             'inserting a crystal into the built-in collection changed the result of a query on something else',
                             dict(query=_show(block[j], S + ['', ''] + cs_, what), before=_cshow(can[j]), after_first=_cshow(can[nb + 1 + j]), after_last=_cshow(can[2 * nb + 2 + j]), config=config))
        totals['evals'] += len(seqreq)
    # ---- (4) what LOADING the library does to a host process that is not linked against it (dlopen): constructors and start-up objects the
    #          link pulls in run then.  Process state recorded before the load, after it, after some calls and after the unload (harness/loadmon.c)
    lm = build.loadmon()
    totals['loads'] = 0
    for which, so in (('monitor build', build.lib('shipped', 'plain')['so']), ('project build', build.meson_lib('shipped')['so']), ('project build, kissel', build.meson_lib('kissel')['so'])):
        for env in ({'LC_ALL': 'C'}, dict(LOCPATH=locdir, LC_ALL='xx_VERIF', XV_SETLOCALE='1')):
            d = tempfile.mkdtemp(prefix='xv-load-')
            try:
                p = subprocess.run([lm, so, os.path.join(d, 'rep.json')], env=dict(os.environ, **env), stdout=subprocess.PIPE, stderr=subprocess.PIPE, timeout=600)
                if p.returncode != 0 or not os.path.exists(os.path.join(d, 'rep.json')):
                    raise common.Inconclusive('load monitor failed on the %s (rc %d): %s' % (which, p.returncode, p.stderr.decode('utf8', 'replace')[-300:]))
                rep = json.load(open(os.path.join(d, 'rep.json')))
            finally:
                shutil.rmtree(d, ignore_errors=True)
            if 'XV_SETLOCALE' in env and rep['before_load']['decimal_point'] != ',':
                raise common.Inconclusive('synthetic locale not active in the load monitor: %r' % rep['before_load'])
            totals['loads'] += 1; totals['evals'] += rep['calls']
            for stage, key in (('after_load', 'c16:loading-the-library-changes-process-state'), ('after_calls', 'c16:process-state-changed-after-load-and-calls'), ('after_unload', 'c16:process-state-changed-after-unload')):
                for comp, v in rep['before_load'].items():
                    if rep[stage][comp] != v:
                        ck.violation('%s:%s' % (key, comp), 'a program that dlopens the library (%s) finds its %s changed %s: %r before the load, %r afterwards' % (
                            which, comp.replace('_', ' '), stage.replace('_', ' '), v, rep[stage][comp]), dict(build=which, env=env, report=rep))
                        break
    multi = sum(1 for k, v in totals['preds'].items() if len(v) >= 2)
    if totals['histories'] == 0 or multi < 50:
        raise common.Inconclusive('too few queries re-observed after different predecessors: %d' % multi)
    cov = dict(evaluations=totals['evals'], distinct_nontrivial=multi,
               rule='stratified queries over every numeric function and the object/crystal/catalogue API (success and failure paths); each baseline query '
                    'is run as the only call of a fresh process, then re-observed inside seeded random histories (with/without XRayInit, C and comma-decimal '
                    'locale) and compared bit for bit (status, code, message, values); writable library segments hashed before/after; locale, cwd, '
                    'stdout/stderr bytes and kept error objects re-checked; distinct = baseline queries re-observed identically after >= 2 different predecessor functions',
               samples=samples, fresh_process_baselines=totals['fresh'], library_loads_observed_by_the_load_monitor=totals['loads'], histories_in_a_directed_rounding_mode=totals.get('histories_in_a_directed_rounding_mode', 0), deprecated_switch_calls=totals.get('deprecated_calls', 0), long_run_calls=totals.get('long_run_calls', 0), long_run_blocks_of_repetitions=totals.get('long_run_blocks', 0), histories=totals['histories'], histories_on_the_project_build=totals.get('histories_on_the_project_build', 0), history_length=hlen,
               queries_reobserved=len(totals['reobserved']), hashed_bytes_per_history=totals['hashed_bytes'], error_objects_kept_and_recompared=totals['errors_kept'])
    return ck.finish(cov, ['library linked shared with -z now so that lazy binding does not rewrite the GOT', 'puremon harness, numpy'])


def _check_report(ck, rep, where, config, fresh=False, legacy=False):
    w = where.split(':')[0]
    if legacy:          # the deprecated switches may keep a flag and print their notice on stderr
        rep = dict(rep, h1=rep['h0'], stderr_bytes=max(0, rep['stderr_bytes'] - rep.get('deprecation_notice_bytes', 0)))
    if rep['h0'] != rep['h1']:
        ck.violation('c16:writable-segment-changed:%s' % where if fresh else 'c16:writable-segment-changed:history',
                     'hash of the library\'s writable memory changed across read-only queries', dict(report=rep, config=config, where=where))
    if rep['locale_before'] != rep['locale_after']:
        ck.violation('c16:locale-changed', 'process locale changed: %r -> %r' % (rep['locale_before'], rep['locale_after']), dict(report=rep, config=config, where=where))
    if not rep['cwd_same']:
        ck.violation('c16:cwd-changed', 'working directory changed', dict(report=rep, config=config, where=where))
    if rep['stdout_bytes'] or rep['stderr_bytes']:
        ck.violation('c16:stream-output:%s' % (where if fresh else 'history'), 'library wrote %d/%d bytes to stdout/stderr' % (rep['stdout_bytes'], rep['stderr_bytes']), dict(report=rep, config=config, where=where))
    if rep.get('caller_objects_modified'):
        ck.violation('c16:query-writes-to-caller-object', 'a crystal query modified the crystal object it was given (%d episodes)' % rep['caller_objects_modified'],
                     dict(report=rep, config=config, where=where))
    if rep.get('answers_changed_on_same_object'):
        ck.violation('c16:answer-on-same-object-depends-on-queries-in-between', 'd-spacing / Bragg angle / structure factor of one crystal object changed after other queries on it (%d episodes)' % rep['answers_changed_on_same_object'],
                     dict(report=rep, config=config, where=where))
    if rep.get('open_descriptors_before', 0) != rep.get('open_descriptors_after', 0):
        ck.violation('c16:open-file-descriptors-changed', 'the process holds %r open descriptors after the calls, %r before' % (rep.get('open_descriptors_after'), rep.get('open_descriptors_before')),
                     dict(report=rep, config=config, where=where))
    for flag, what in (('process_state_same', 'environment / umask / signal dispositions / FP rounding mode'), ('strtok_walk_intact', "the host program's strtok() walk"),
                       ('rand_sequence_intact', "the host program's rand() sequence")):
        if rep.get(flag, 1) != 1:
            ck.violation('c16:process-state-changed:' + flag.split('_')[0], 'library calls disturbed %s' % what, dict(report=rep, config=config, where=where))
    if rep['errors_changed']:
        ck.violation('c16:error-object-changed-later', 'an error object returned earlier was modified by later calls', dict(report=rep, config=config, where=where))


def _show(r, S, fn):
    s = None if r['s'] < 0 else S[int(r['s'])]
    return dict(function=fn, ints=[int(x) for x in r['i'][:6]], doubles=[float(x) for x in r['d'][:4]], string=s)


def _cshow(c):
    return dict(status=c[0], code=c[1], values=list(np.frombuffer(c[2], 'f8')), aux=c[3], message=c[4])
