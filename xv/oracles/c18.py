"""C18 - the C++ wrappers return what C returns and throw exactly when C reports an error (differential monitor, ASan)."""
import os, json, subprocess, shutil, tempfile
import numpy as np
from concurrent.futures import ThreadPoolExecutor
from .. import common, build, execlib, failrun
from ..sweeprun import san_env, parse_san_logs
from . import c16

INT_DOM = dict(Z=np.arange(-3, 126), shell=np.arange(-3, 35), line=np.arange(-390, 7), trans=np.arange(-2, 18), auger_trans=np.arange(-3, 1001))
STRS = [s for s in c16.DOM['compound'] if s is not None] + ['Pb', 'CaCO3', 'Polyethylene', 'Kapton Polyimide Film', 'He', 'H2SO4', '(', 'Fe2O3)', 'A-150 Tissue-Equivalent Plastic']
# malformed formulas of every rejection class of the parser (the C++ wrappers and the Java twin must reject exactly what C rejects), at the
# top level and inside bracket groups, plus well-formed relatives
STRS += [' ', 'H 2', 'H2O ', 'H+', 'H2,5', 'H)', '(H', ')H(', '((H)', 'Ha', 'hO', 'Hoo', 'H0', 'H0.0', 'H00', '(H)0', 'H2.5.1', 'H..', 'H.', '.', '(.)', 'Db2O', 'H(Sg)', 'Bh0.5',
         '2H', '(2H)', 'H(2)', '.Cl', '(.No4)', 'Yb4(Mg)a2.30Zr3', '.uNe', '(H)a', 'H1.a', '.5H', 'H.5', 'H5.', '()', 'H()', 'H1e2', 'H-1',
         'Ca(.OH)2', '(.5H)2O', 'Ca((.OH))2', 'Ca5(.PO4)3F', 'Ca(PO4)a3F', 'Mg(OH)x2', 'K4(Fe(CN)e6)', '(OH)a2', '(NH4)a2SO4', 'Ca((OH)a)2', 'Ca5(PO4)a3F', 'Fe(CN)(CO)b2',
         'Ca(OH)2.5', '(OH).5', 'Ca3(PO4)1.5', 'U0.95Pu.05O2', 'Ca5.522(PO.448)3OH', 'K4(Fe(CN)6)', '((H2O)2Na)0.5Cl', 'Pb(Zr0.52Ti0.48)O3', 'Fe0.9470000000O']
CRYSTALS = [c for c in c16.CRYSTALS if c is not None] + ['Sapphire', 'InAs', 'CsF', 'KCl', 'LaB6', 'Mica']


_EDGES = {}


def edge_table(L):
    """EdgeEnergy(Z, K..M5) for Z 1..120 through the executor (0 where undefined): used to aim energies at the edges"""
    if L.config not in _EDGES:
        Z, S = np.meshgrid(np.arange(1, 121), np.arange(0, 9), indexing='ij')
        r = L.call('EdgeEnergy', Z.ravel(), S.ravel())
        _EDGES[L.config] = np.where(r.ok, r.v, 0.0).reshape(120, 9)
    return _EDGES[L.config]


def aimed_energies(L, Zcol, rng, base):
    """half of the energies from the fixed list, half placed around / between the K..M5 edges of the row's element"""
    E = np.array([base[i] for i in rng.integers(0, len(base), len(Zcol))], dtype=float)
    ed = edge_table(L)
    Zc = np.asarray(Zcol)
    ok = (Zc >= 1) & (Zc <= 120) & (rng.random(len(Zc)) < 0.5)
    idx = np.nonzero(ok)[0]
    if len(idx):
        sh = rng.integers(0, 9, len(idx))
        e0 = ed[Zc[idx] - 1, sh]
        e1 = ed[Zc[idx] - 1, np.minimum(sh + 1, 8)]
        fac = np.array([1 - 1e-6, 1 + 1e-6, 0.97, 1.03, 1.5])[rng.integers(0, 5, len(idx))]
        mid = rng.random(len(idx)) < 0.3
        # never exactly ON an edge: the C tables carry 11 digits, Java full precision, so the two disagree about which side that is
        val = np.where(mid & (e1 > 0) & (e1 != e0), 0.5 * (e0 + e1), e0 * fac)
        good = e0 > 0
        E[idx[good]] = val[good]
    return E


def numeric_columns(L, name, rng, per_fn, strs_dom):
    """argument columns for one generated function: FULL discrete grid when the function only takes ints (exhaustive lookups),
    otherwise seeded samples with energies aimed at the element's edges"""
    f = L.fns[name]
    sig, an = f['sig'], f['argnames']
    if set(sig) == {'i'}:
        grids = np.meshgrid(*[INT_DOM[a] for a in an], indexing='ij')
        return [g.ravel() for g in grids]
    cols, Zcol = [], None
    for ch, a in zip(sig, an):
        if ch == 's':
            cols.append([strs_dom[i] for i in rng.integers(0, len(strs_dom), per_fn)])
        elif ch == 'i':
            dom = INT_DOM[a]
            c = dom[rng.integers(0, len(dom), per_fn)]
            if a == 'Z':
                Zcol = c
            cols.append(c)
        elif a in ('E', 'E0') and Zcol is not None:
            cols.append(aimed_energies(L, Zcol, rng, c16.DOM['E']))
        else:
            dom = c16.DOM.get(a, c16.PDOM)
            cols.append(np.array([dom[i] for i in rng.integers(0, len(dom), per_fn)]))
    return cols


def requests(L, wrapped, rng, per_fn):
    reqs, strs = [], []

    def add(r, s):
        r = r.copy(); m = r['s'] >= 0; r['s'][m] += len(strs); strs.extend(s); reqs.append(r)
    for name in wrapped:
        add(*L.build(name, *numeric_columns(L, name, rng, per_fn, STRS + [None])))      # None: a NULL C string, which the const char* call path can carry
    k = max(200, per_fn // 10)
    pick = lambda dom, n=k: [dom[i] for i in rng.integers(0, len(dom), n)]
    hk = lambda n=k: rng.integers(-2, 4, n)
    E = c16.DOM['E']
    for name, kw in [
        ('Refractive_Index', dict(s=pick(STRS), d=[pick(E), pick(c16.DOM['density'])])),
        ('Crystal_dSpacing', dict(s=pick(CRYSTALS), i=[hk(), hk(), hk()])),
        ('Bragg_angle', dict(s=pick(CRYSTALS), i=[hk(), hk(), hk()], d=[pick(E)])),
        ('Q_scattering_amplitude', dict(s=pick(CRYSTALS), i=[hk(), hk(), hk()], d=[pick(E), pick([0.5, 1.0, 1.5])])),
        ('Crystal_F_H_StructureFactor', dict(s=pick(CRYSTALS), i=[hk(), hk(), hk()], d=[pick(E), pick([-1.0, 0.5, 1.0]), pick([0.5, 1.0])])),
        ('Crystal_F_H_StructureFactor_Partial', dict(s=pick(CRYSTALS), i=[hk(), hk(), hk(), pick([0, 1, 2, 3]), pick([0, 2, 1]), pick([0, 2, -1])], d=[pick(E), pick([0.5, 1.0]), pick([0.5, 1.0])])),
        ('Crystal_UnitCellVolume', dict(s=CRYSTALS * 3)),
        ('Atomic_Factors', dict(i=[pick(c16.DOM['Z'])], d=[pick(E), pick(c16.DOM['q']), pick([-1.0, 0.5, 1.0])])),
        # only some of the three outputs requested (NULL for the others), with arguments that are invalid for ONE component only
        ('Atomic_Factors', dict(i=[pick([1, 14, 29, 82, 92, 0, 101]), 8 + rng.integers(0, 8, k)],
                                d=[pick([-1.0, 0.0, 0.0005, 1.0, 10.0, 100.0, 1e7]), pick([-1.0, 0.0, 0.5, 3.0, 1e12]), pick([-1.0, 0.0, 0.5, 1.0])])),
        ('SymbolToAtomicNumber', dict(s=pick(['Fe', 'H', 'Uuo', 'Xx', '', 'fe', 'Pb', 'Og', 'He']))),
        ('AtomicNumberToSymbol', dict(i=[np.arange(-3, 126)])),
        ('CompoundParser_summary', dict(s=pick(STRS))),
        ('NISTByName_summary', dict(s=pick(STRS))),
        ('NISTByIndex_summary', dict(i=[np.arange(-3, 186)])),
        ('RadioByIndex_summary', dict(i=[np.arange(-3, 14)])),
        ('RadioByName_summary', dict(s=['55Fe', '241Am', '109Cd', 'nope', '57Co', '', '244Cm', '238Pu'])),
    ]:
        add(*c16.special_req(name, **kw))
    # lists and object-lifetime scenario (ids known to cppmon only)
    extra = np.zeros(3, execlib.REQ); extra['fn'] = [2001, 2002, 2003]; extra['s'] = -1
    reqs.append(extra)
    r, s = c16.special_req('Crystal_F_H_StructureFactor', s=pick(CRYSTALS, k // 2), i=[hk(k // 2), hk(k // 2), hk(k // 2)], d=[pick(E, k // 2), pick([0.5, 1.0], k // 2), pick([0.5, 1.0], k // 2)])
    r['fn'] = 2004
    add(r, s)
    return np.concatenate(reqs), strs


def run_part(mon, req, strs, flavour, scenario=False):
    d = tempfile.mkdtemp(prefix='xv-cpp-')
    try:
        rq, st, out = [os.path.join(d, x) for x in ('req', 'str', 'out')]
        req.tofile(rq)
        with open(st, 'wb') as fh:
            for s in strs:
                fh.write(s.encode('utf8', 'surrogateescape') + b'\0')
        env = san_env(os.path.join(d, 'san')) if flavour != 'plain' else dict(os.environ)
        if scenario:
            env['XV_CPP_SCENARIO'] = '1'
        p = subprocess.run([mon, 'run', rq, st, out], env=env, stdout=subprocess.PIPE, stderr=subprocess.PIPE, timeout=3600)
        errf = os.path.join(d, 'stderr'); open(errf, 'wb').write(p.stderr)
        reports = parse_san_logs(os.path.join(d, 'san'), [errf]) if flavour != 'plain' else []
        recs = [json.loads(l) for l in open(out)] if os.path.exists(out) else []
        return dict(rc=p.returncode, reports=reports, recs=recs, tail=p.stderr.decode('utf8', 'replace')[-300:])
    finally:
        shutil.rmtree(d, ignore_errors=True)


def main(tier):
    ck = common.Check('C18', tier)
    rng = np.random.default_rng(ck.seed * 31337 + 18)
    per_fn = 20000 if tier == 'quick' else 300000
    stats, tot = {}, dict(requests=0, skipped=0, leakchecks=0)
    scen = dict(accepted=0, refused=0)
    wrapped_names = None
    for config in ('shipped', 'kissel'):
        L = execlib.Lib(config)
        mon = build.cppmon(config, 'asan')
        w = json.load(open(os.path.join(build.cpptable(), 'wrapped.json')))
        wrapped_names = w['wrapped']
        req, strs = requests(L, w['wrapped'], rng, per_fn)
        parts = np.array_split(rng.permutation(len(req)), common.NCPU)
        with ThreadPoolExecutor(common.NCPU) as ex:
            res = list(ex.map(lambda kp: run_part(mon, req[kp[1]], strs, 'asan', scenario=(kp[0] == 0)), list(enumerate(parts))))
        # the wrappers are a header: they are compiled by whatever compiler the user has. A quarter of the requests again through a monitor
        # built with clang++ (plain build: the differential verdicts only), where e.g. the evaluation order of call arguments is the other one
        if config == 'shipped':
            monc = build.cppmon(config, 'plain', compiler='clang++')
            sub = parts[0][:max(1, len(parts[0]))]
            with ThreadPoolExecutor(4) as ex:
                resc = list(ex.map(lambda idx: run_part(monc, req[idx], strs, 'plain'), np.array_split(np.concatenate(parts[:4]), 4)))
            for r in resc:
                if r['rc'] != 0:
                    ck.violation('crash:cppmon-clang:rc%d' % r['rc'], 'C++ monitor built with clang++ died', dict(config=config, tail=r['tail']))
                for x in r['recs']:
                    if x['type'] == 'viol' and not x['key'].startswith('harness:'):
                        ck.violation(x['key'] + ':clang++', x['what'] + ' (wrappers compiled with clang++)', dict(call=x['witness'], count=x['count'], config=config, compiler='clang++'))
                    elif x['type'] == 'summary':
                        tot['clang_requests'] = tot.get('clang_requests', 0) + x['requests']
        # ... and by the user's FLAGS: a release build of the host (-O2 -DNDEBUG: what sits inside assert() is gone) for the ABI whose plain char is
        # unsigned, and a newer language standard (-std=c++17: other overloads, guaranteed copy elision, another evaluation order of call arguments)
        if config == 'shipped':
            for label, uf in (('-O2 -DNDEBUG -funsigned-char', ['-O2', '-DNDEBUG', '-funsigned-char']), ('-std=c++17', ['-std=c++17'])):
                monu = build.cppmon(config, 'plain', user_flags=uf)
                with ThreadPoolExecutor(4) as ex:
                    resu = list(ex.map(lambda idx: run_part(monu, req[idx], strs, 'plain'), np.array_split(np.concatenate(parts[4:8]), 4)))
                for r in resu:
                    if r['rc'] != 0:
                        ck.violation('crash:cppmon:user-flags:rc%d' % r['rc'], 'C++ monitor built with %s died' % label, dict(config=config, tail=r['tail'], flags=label))
                    for x in r['recs']:
                        if x['type'] == 'viol' and not x['key'].startswith('harness:'):
                            ck.violation(x['key'] + ':' + label.split()[-1].lstrip('-'), x['what'] + ' (wrappers compiled with %s)' % label, dict(call=x['witness'], count=x['count'], config=config, flags=label))
                        elif x['type'] == 'summary':
                            tot['user_flag_requests'] = tot.get('user_flag_requests', 0) + x['requests']
        for r in res:
            for rep in r['reports']:
                ck.violation('%s:%s' % (rep['kind'], rep['func']), '%s in %s while driving the C++ wrappers' % (rep['kind'], rep['func']), dict(config=config, report=rep['text'][:1500]))
            if r['rc'] != 0 and not r['reports']:
                ck.violation('crash:cppmon:rc%d' % r['rc'], 'C++ monitor died', dict(config=config, tail=r['tail']))
            for x in r['recs']:
                if x['type'] == 'viol':
                    if x['key'].startswith('harness:'):
                        raise common.Inconclusive('cppmon: ' + x['key'])
                    ck.violation(x['key'], x['what'], dict(call=x['witness'], count=x['count'], config=config))
                elif x['type'] == 'fn':
                    s = stats.setdefault(x['fn'], dict(calls=0, value=0, invalid_argument=0, bad_alloc=0, runtime_error=0, other=0))
                    for k in s:
                        s[k] += x[k]
                elif x['type'] == 'summary':
                    for k in ('requests', 'skipped', 'leakchecks'):
                        tot[k] += x[k]
                    tot['during_unwinding'] = tot.get('during_unwinding', 0) + x.get('during_unwinding', 0)
                    if x.get('scenario_accepted', -1) >= 0:
                        scen['accepted'] += x['scenario_accepted']; scen['refused'] += x['scenario_refused']
    # allocation failpoints: the only way to the MEMORY -> std::bad_alloc path (no argument makes the library report XRL_ERROR_MEMORY)
    fail = {}
    for config in (('shipped',) if tier == 'quick' else ('shipped', 'kissel')):
        fr = failrun.run(config)
        failrun.report(ck, fr, 'C18')
        fail[config] = dict(fr['summary'], scenarios_list=[x['name'] for x in fr['scenarios']][:60])
        if fr['summary']['c_reported_memory_error'] < 5 or fr['summary']['wrapper_bad_alloc'] < 5:
            raise common.Inconclusive('the failpoint monitor hardly reached the memory-error path: %r' % fr['summary'])
    calls = sum(s['calls'] for s in stats.values())
    outcome_pairs = sum(1 for s in stats.values() for k in ('value', 'invalid_argument', 'bad_alloc', 'runtime_error') if s[k])
    if scen['accepted'] < 100 or scen['refused'] < 2:
        raise common.Inconclusive('the add-until-full scenario did not reach the capacity of the built-in collection: %r' % scen)
    if calls < 10000 or len(stats) < 60:
        raise common.Inconclusive('C++ monitor observed too little: %d calls over %d wrappers' % (calls, len(stats)))
    cov = dict(evaluations=calls, distinct_nontrivial=outcome_pairs,
               rule='every C function that has a callable wrapper in xrlpp (decided by compile probes) x seeded samples of the discrete argument space and '
                    'continuous/string domains incl. every failing argument class; C called with an error slot, wrapper in a try block, compared bit for bit / '
                    'field by field, exception type and what() against the C code and message; ASan allocation balance around both paths (3-repetition rule), '
                    'object wrappers used after the C originals are released; allocation failpoints (every library allocation of 34 C/wrapper scenario pairs failed in turn, in forked children: where C reports XRL_ERROR_MEMORY the wrapper must throw bad_alloc and neither side may leak); distinct = (wrapper, outcome class) pairs observed',
               samples=[dict(wrapper=k, **v) for k, v in sorted(stats.items())][:10], wrappers_driven=len(stats), wrappers_found_by_probe=len(wrapped_names),
               leak_rechecks=tot['leakchecks'], addcrystal_scenario=scen, allocation_failpoints=fail, requests_through_clang_built_monitor=tot.get('clang_requests', 0), requests_through_monitors_built_with_other_user_flags=tot.get('user_flag_requests', 0), wrapper_calls_made_during_stack_unwinding=tot.get('during_unwinding', 0), requests_skipped_null_string=tot['skipped'], per_wrapper=stats)
    return ck.finish(cov, ['g++ -std=c++11 -fsanitize=address,undefined', 'std::string cannot express a NULL compound: those tuples are skipped'])
