"""C05 - totals, per-atom (barn) and differential cross sections obey their defining identities.

Offline identity checker over `exec` results.  Both sides of every identity are outputs of the library built from
the current tree; only the constant AVOGNUM comes from the compiled macro probe.  For every aggregate A with parts
P1..Pn and defining formula f the oracle demands, call by call:

  * all parts succeed   =>  A succeeds and |A - f(P)| <= TOL * max(|A|, |f(P)|)   ("wherever the parts are defined ...")
  * some part fails     =>  A fails (error status)                                  ("... instead of a partial sum")

The Kissel photo total is the one aggregate whose parts are allowed to be absent: a sub-shell that cannot be ionised at
E (its partial fails) contributes nothing, so the total must equal the occupancy-weighted sum over exactly the shells
whose partial succeeds, and must fail when no partial succeeds.

TOL: every reference formula is a sum of <= 31 positive terms and/or <= 4 multiplications/divisions of positive
doubles, evaluated in IEEE double both in the library and here (possibly in another order): the relative difference
is bounded by (31 + 8) * 2^-53 < 5e-15.  TOL = 1e-13 leaves a factor 20; nothing was tuned.
"""
import numpy as np
from .. import common, refdata, execlib

TOL = 1e-13
NSHELL_K = 31
KISSEL_FNS = ['CS_Photo_Total', 'CSb_Photo_Total', 'CS_Photo_Partial', 'CSb_Photo_Partial', 'CS_Total_Kissel', 'CSb_Total_Kissel']
FLUOR_K = ['', '_Cascade', '_Nonradiative_Cascade', '_Radiative_Cascade', '_no_Cascade']
LINES = ['KL3', 'KL2', 'KM3', 'KN3', 'L3M5', 'L3M4', 'L2M4', 'L1M3', 'L1N3', 'L3N5', 'M5N7', 'M4N6', 'M3N5', 'KA', 'KB', 'LA', 'LB']
FSHELLS = ['K', 'L1', 'L2', 'L3', 'M1', 'M2', 'M3', 'M4', 'M5']


class Stats:
    def __init__(self):
        self.calls = 0
        self.compared = {}        # 'fn@config' -> success-path comparisons
        self.agreed_fail = {}     # 'fn@config' -> failure-side agreements (part failed and aggregate failed)
        self.cells = {}           # fn -> set of Z*64+bucket compared on the success path
        self.worst = {}           # fn -> worst relative difference seen
        self.samples = []
        self.info = {}


def fmt(x):
    return repr(float(x))


def relate(ck, st, L, fn, agg, parts, expected, call, cell=None, mode='all'):
    """agg: Res of the aggregate; parts: list of (name, Res or bool array 'ok'); expected: array (meaningful where parts ok);
    call: k -> call string; cell: int array identifying (Z, energy bucket) for the distinct count.
    mode 'all': the aggregate is defined iff all parts are; mode 'any': iff at least one part is (shell sum)."""
    n = len(agg)
    oks = [(nm, (p.ok if hasattr(p, 'ok') else np.asarray(p, bool))) for nm, p in parts]
    if mode == 'all':
        pok = np.ones(n, bool)
        for _, o in oks:
            pok &= o
    else:
        pok = np.zeros(n, bool)
        for _, o in oks:
            pok |= o
    key = fn + '@' + L.config

    def witness(k, exp=True):
        w = dict(call=call(k), config=L.config, returned=(fmt(agg.v[k]) if agg.ok[k] else 'error: %s' % agg.msg(k)))
        if exp:
            w['expected_from_parts'] = fmt(expected[k])
        pv = {}
        for nm, p in parts[:6]:
            if hasattr(p, 'ok'):
                pv[nm] = fmt(p.v[k]) if p.ok[k] else 'error: %s' % p.msg(k)
        w['parts'] = pv
        return w

    # (1) a value although a part is undefined
    bad = np.nonzero(agg.ok & ~pok)[0]
    if len(bad):
        for k in bad[:200]:
            failing = [nm for nm, o in oks if not o[k]] if mode == 'all' else ['all-parts']
            ck.violation('c05:%s:value-although-part-failed:%s' % (fn, failing[0]),
                         '%s returned a value although %s is undefined (must fail instead of returning a partial sum)' % (fn, failing[0]),
                         witness(k, exp=False))
    # (2) an error although every part is defined
    bad = np.nonzero(agg.err & pok)[0]
    for k in bad[:3]:
        ck.violation('c05:%s:fails-although-parts-defined' % fn,
                     '%s failed (%s) although all of its parts are defined' % (fn, agg.msg(k)), witness(k))
    # (3) wrong value
    both = agg.ok & pok
    a, e = agg.v, expected
    with np.errstate(invalid='ignore', divide='ignore', over='ignore'):
        scale = np.maximum(np.abs(a), np.abs(e))
        rel = np.where(scale > 0, np.abs(a - e) / scale, 0.0)
        good = rel <= TOL                 # NaN / inf on either side compares False
    bad = np.nonzero(both & ~good)[0]
    for k in bad[:3]:
        ck.violation('c05:%s:identity-violated' % fn,
                     '%s returned %s, its defining identity evaluated from the parts gives %s (rel %.3g)' % (fn, fmt(a[k]), fmt(e[k]), rel[k]),
                     witness(k))
    nb = int(both.sum())
    st.compared[key] = st.compared.get(key, 0) + nb
    st.agreed_fail[key] = st.agreed_fail.get(key, 0) + int((agg.err & ~pok).sum())
    if nb:
        fin = both & good
        if fin.any():
            st.worst[fn] = max(st.worst.get(fn, 0.0), float(rel[fin].max()))
        if cell is not None:
            st.cells.setdefault(fn, set()).update(np.unique(cell[both]).tolist())
        else:
            st.cells.setdefault(fn, set()).add(-1)
        if sum(1 for s in st.samples if s['function'] == fn and s['config'] == L.config) < 1:
            idx = np.nonzero(both)[0]
            k = int(idx[(len(st.samples) * 7919 + 13) % len(idx)])
            st.samples.append(dict(function=fn, config=L.config, call=call(k), returned=fmt(a[k]), from_parts=fmt(e[k])))


def sub(r, sel):
    """row subset of a result, keeping the (ok, v, msg) interface"""
    class X:
        ok = r.ok[sel]
        v = r.v[sel]
        @staticmethod
        def msg(k):
            return r.msg(int(sel[k]))
    return X


def must_fail_shipped(ck, L, fn, res, call):
    if L.config != 'shipped':
        return
    bad = np.nonzero(res.ok)[0]
    for k in bad[:3]:
        ck.violation('c05:%s:succeeds-without-kissel-data' % fn,
                     '%s returned %s although the Kissel table of this configuration is empty' % (fn, fmt(res.v[k])),
                     dict(call=call(k), config=L.config))


# ---------------------------------------------------------------------------------------------------------------------
def table_knots():
    """ln(eV) knots of the shipped photo/Rayleigh tables -> {Z: keV array}; inputs only (where to probe), not expectations"""
    out = {}
    for fn in ('CS_Photo.dat', 'CS_Rayl.dat'):
        for Z, a in refdata.spline_blocks(fn).items():
            out.setdefault(Z, []).append(np.exp(a[:, 0]) / 1000.0)
    return {Z: np.unique(np.concatenate(v)) for Z, v in out.items()}


def edges_of(L, Zs):
    ZZ, SS = np.meshgrid(Zs, np.arange(NSHELL_K), indexing='ij')
    r = L.call('EdgeEnergy', ZZ.ravel(), SS.ravel())
    ok = r.ok.reshape(ZZ.shape); v = r.v.reshape(ZZ.shape)
    return {int(Z): np.sort(v[i][ok[i]]) for i, Z in enumerate(Zs)}, len(r)


def energy_grid(tier, rng, Zs, knots, edges, ks, dense=True):
    """(Z, E) pairs: table knots, edges*(1 -/+ 1e-9), range ends +/-, Kissel table ends and binding energies, seeded
    log-uniform energies, non-positive energies."""
    quick = tier == 'quick'
    zz, ee = [], []
    ends = np.array([0.1, 800.0, 1000.0, 300.0])
    eps = np.array([1 - 1e-9, 1.0, 1 + 1e-9])
    dense_in = dense
    for Z in Zs:
        dense = dense_in and 1 <= Z <= 100          # nothing is tabulated beyond Z = 99: a thin grid shows the failure side
        kn = knots.get(Z, knots[max(knots)])
        if not dense:
            kn = kn[::4]
        elif not quick:
            kn = np.concatenate([kn, np.sqrt(kn[1:] * kn[:-1])])
        ed = edges.get(Z, np.zeros(0))
        if not dense and len(ed) > 6:
            ed = ed[-6:]
        parts = [kn, np.outer(ed, eps).ravel(), np.outer(ends, eps).ravel(), [0.0, -1.0, 1e-3, 0.05, 1200.0, 5000.0]]
        if Z in ks and ks[Z]['partial']:
            ke = []
            for s, (e, a) in ks[Z]['partial'].items():
                ke += [e, np.exp(a[0, 0]), np.exp(a[-1, 0])]
            ke = np.unique(np.array(ke))
            if not dense:
                ke = ke[:: max(1, len(ke) // 6)]
            parts.append(np.outer(ke, eps).ravel())
        nr = (20 if quick else 200) if dense else (6 if quick else 30)
        parts.append(np.exp(rng.uniform(np.log(0.02), np.log(1500.0), nr)))
        E = np.unique(np.concatenate([np.asarray(p, float) for p in parts]))
        zz.append(np.full(len(E), Z)); ee.append(E)
    return np.concatenate(zz), np.concatenate(ee)


def buckets(ZZ, EE, edges):
    """cell id = Z*64 + number of absorption edges of Z at or below E"""
    b = np.zeros(len(ZZ), int)
    for Z in np.unique(ZZ):
        m = ZZ == Z
        b[m] = np.searchsorted(edges.get(int(Z), np.zeros(0)), EE[m], side='right')
    return ZZ * 64 + b


# ---------------------------------------------------------------------------------------------------------------------
def section_totals(ck, st, L, ZZ, EE, cell, AV):
    names = ['CS_Total', 'CS_Photo', 'CS_Rayl', 'CS_Compt', 'CS_Total_Kissel', 'CS_Photo_Total', 'CSb_Photo_Total',
             'CSb_Total', 'CSb_Photo', 'CSb_Rayl', 'CSb_Compt', 'CSb_Total_Kissel']
    res = L.multi([(n, ZZ, EE) for n in names] + [('AtomicWeight', ZZ)])
    R = dict(zip(names + ['AtomicWeight'], res))
    aw = R['AtomicWeight']

    def call(fn):
        return lambda k: '%s(%d, %s)' % (fn, ZZ[k], fmt(EE[k]))
    relate(ck, st, L, 'CS_Total', R['CS_Total'], [(n, R[n]) for n in ('CS_Photo', 'CS_Rayl', 'CS_Compt')],
           R['CS_Photo'].v + R['CS_Rayl'].v + R['CS_Compt'].v, call('CS_Total'), cell)
    relate(ck, st, L, 'CS_Total_Kissel', R['CS_Total_Kissel'], [(n, R[n]) for n in ('CS_Photo_Total', 'CS_Rayl', 'CS_Compt')],
           R['CS_Photo_Total'].v + R['CS_Rayl'].v + R['CS_Compt'].v, call('CS_Total_Kissel'), cell)
    with np.errstate(invalid='ignore', divide='ignore'):
        for b, c in (('CSb_Total', 'CS_Total'), ('CSb_Photo', 'CS_Photo'), ('CSb_Rayl', 'CS_Rayl'), ('CSb_Compt', 'CS_Compt'),
                     ('CSb_Total_Kissel', 'CS_Total_Kissel'), ('CSb_Photo_Total', 'CS_Photo_Total')):
            relate(ck, st, L, b, R[b], [(c, R[c]), ('AtomicWeight', aw)], R[c].v * aw.v / AV, call(b), cell)
        # the cm2/g Kissel photo total seen from the barn side (the library derives one from the other; either
        # direction has to satisfy the same relation and the same failure rule)
        relate(ck, st, L, 'CS_Photo_Total', R['CS_Photo_Total'], [('CSb_Photo_Total', R['CSb_Photo_Total']), ('AtomicWeight', aw)],
               R['CSb_Photo_Total'].v * AV / aw.v, call('CS_Photo_Total'), cell)
    for n in ('CS_Total_Kissel', 'CS_Photo_Total', 'CSb_Photo_Total', 'CSb_Total_Kissel'):
        must_fail_shipped(ck, L, n, R[n], call(n))
    st.calls += sum(len(r) for r in res)
    # the same aggregates called WITHOUT an error slot: a partial sum must not appear when nobody listens for the error either
    Ln = execlib.Lib(L.config, env={'XV_NOSLOT': '1'})
    agg = ['CS_Total', 'CS_Total_Kissel', 'CSb_Total', 'CSb_Total_Kissel', 'CS_Photo_Total', 'CSb_Photo_Total']
    res2 = Ln.multi([(n, ZZ, EE) for n in agg])
    st.calls += sum(len(r) for r in res2)
    for n, r2 in zip(agg, res2):
        bad = np.nonzero(r2.v.view('u8') != R[n].v.view('u8'))[0]
        for k in bad[:2]:
            ck.violation('c05:%s:value-without-error-slot-differs' % n,
                         '%s returns %r without an error slot but %r (%s) with one: a part is undefined, so the aggregate must be the 0 sentinel' % (
                             n, float(r2.v[k]), float(R[n].v[k]), R[n].msg(k) if R[n].err[k] else 'success'),
                         dict(call=call(n)(k), config=L.config))
    return R


def section_shells(ck, st, L, ZZ, EE, cell, AV, R):
    """Kissel photo total = occupancy-weighted sum of the sub-shell cross sections"""
    n = len(ZZ)
    S = np.arange(NSHELL_K)
    Z2 = np.repeat(ZZ, NSHELL_K); E2 = np.repeat(EE, NSHELL_K); S2 = np.tile(S, n)
    pb, pc, ec = L.multi([('CSb_Photo_Partial', Z2, S2, E2), ('CS_Photo_Partial', Z2, S2, E2), ('ElectronConfig', Z2, S2)])
    st.calls += 3 * len(Z2)
    aw = R['AtomicWeight']
    okb = pb.ok.reshape(n, NSHELL_K)
    # barn/atom total = sum over the shells whose partial succeeds of occupancy x barn/electron partial
    contrib = np.where(okb, pb.v.reshape(n, NSHELL_K) * np.where(ec.ok, ec.v, 0.0).reshape(n, NSHELL_K), 0.0)
    expected = contrib.sum(axis=1)

    class P:       # the family of sub-shell parts as one "part" whose ok = at least one shell succeeded
        ok = okb.any(axis=1)
        v = expected
        @staticmethod
        def msg(k):
            return 'no sub-shell cross section is defined'

    def call(fn):
        return lambda k: '%s(%d, %s)' % (fn, ZZ[k], fmt(EE[k]))
    relate(ck, st, L, 'CSb_Photo_Total=sum(shells)', R['CSb_Photo_Total'], [('sum of ElectronConfig*CSb_Photo_Partial', P)],
           expected, call('CSb_Photo_Total'), cell, mode='any')
    # a shell whose partial succeeds must have an occupancy (otherwise the weighted sum is not defined from public parts)
    bad = np.nonzero(pb.ok & ec.err)[0]
    for k in bad[:3]:
        ck.violation('c05:CSb_Photo_Partial:value-for-unoccupied-shell',
                     'CSb_Photo_Partial succeeds for a shell whose ElectronConfig fails (%s)' % ec.msg(k),
                     dict(call='CSb_Photo_Partial(%d, %d, %s)' % (Z2[k], S2[k], fmt(E2[k])), config=L.config, returned=fmt(pb.v[k])))
    # cm2/g total = sum of the cm2/g partials (each already weighted with the occupancy)
    okc = pc.ok.reshape(n, NSHELL_K)
    expc = np.where(okc, pc.v.reshape(n, NSHELL_K), 0.0).sum(axis=1)

    class PC:
        ok = okc.any(axis=1)
        v = expc
        @staticmethod
        def msg(k):
            return 'no sub-shell cross section is defined'
    relate(ck, st, L, 'CS_Photo_Total=sum(shells)', R['CS_Photo_Total'], [('sum of CS_Photo_Partial', PC)], expc,
           call('CS_Photo_Total'), cell, mode='any')
    # twin: CS_Photo_Partial (cm2/g, whole sub-shell) = occupancy x CSb_Photo_Partial (barn/electron) x N_A/A
    aw2_ok = np.repeat(aw.ok, NSHELL_K); aw2_v = np.repeat(aw.v, NSHELL_K)

    class AW2:
        ok = aw2_ok
        v = aw2_v
        @staticmethod
        def msg(k):
            return aw.msg(k // NSHELL_K)
    with np.errstate(invalid='ignore', divide='ignore'):
        relate(ck, st, L, 'CS_Photo_Partial', pc, [('CSb_Photo_Partial', pb), ('ElectronConfig', ec), ('AtomicWeight', AW2)],
               pb.v * ec.v * AV / aw2_v, lambda k: 'CS_Photo_Partial(%d, %d, %s)' % (Z2[k], S2[k], fmt(E2[k])),
               np.repeat(cell, NSHELL_K) * 32 + S2)
    must_fail_shipped(ck, L, 'CSb_Photo_Partial', pb, lambda k: 'CSb_Photo_Partial(%d, %d, %s)' % (Z2[k], S2[k], fmt(E2[k])))
    must_fail_shipped(ck, L, 'CS_Photo_Partial', pc, lambda k: 'CS_Photo_Partial(%d, %d, %s)' % (Z2[k], S2[k], fmt(E2[k])))
    # informational: why partials of occupied shells fail (the total legitimately omits shells that cannot be ionised at E)
    hist = {}
    occ_fail = np.nonzero(ec.ok & pb.err)[0]
    mi = pb.msgidx[occ_fail]
    for m in np.unique(mi):
        hist[pb.msgs[int(m)] if 0 <= m < len(pb.msgs) else '?'] = int((mi == m).sum())
    st.info['occupied_shell_partial_failures@' + L.config] = hist
    st.info['shell_terms_summed@' + L.config] = int((okb & R['CSb_Photo_Total'].ok[:, None]).sum())


def section_fluor(ck, st, L, mac, Zs, edges, AV, tier, rng):
    """barn twins of the fluorescence cross sections (jump-ratio and all Kissel cascade variants)"""
    lines = np.array([mac.int[n + '_LINE'] for n in LINES])
    shells = np.array([mac.int[n + '_SHELL'] for n in FSHELLS])
    zz, ee = [], []
    for Z in Zs:
        ed = edges.get(Z, np.zeros(0))
        E = [0.5, 1.0, 8.0, 30.0, 100.0, 299.0, 500.0, 900.0, -1.0]
        E += list(ed[-9:] * 1.0001) + list(ed[-4:] * 0.9999)
        E += list(np.exp(rng.uniform(np.log(0.1), np.log(1000.0), 4 if tier == 'quick' else 40)))
        E = np.unique(np.array(E))
        zz.append(np.full(len(E), Z)); ee.append(E)
    ZZ = np.concatenate(zz); EE = np.concatenate(ee)
    cell = buckets(ZZ, EE, edges)
    for kind, macs in (('Line', lines), ('Shell', shells)):
        Z2 = np.repeat(ZZ, len(macs)); E2 = np.repeat(EE, len(macs)); M2 = np.tile(macs, len(ZZ)); c2 = np.repeat(cell, len(macs)) * 512 + (M2 % 512)
        fns = ['Fluor' + kind] + ['Fluor%s_Kissel%s' % (kind, v) for v in FLUOR_K]
        res = L.multi([('CS_' + f, Z2, M2, E2) for f in fns] + [('CSb_' + f, Z2, M2, E2) for f in fns] + [('AtomicWeight', Z2)])
        st.calls += sum(len(r) for r in res)
        aw = res[-1]
        for i, f in enumerate(fns):
            cs, csb = res[i], res[len(fns) + i]
            with np.errstate(invalid='ignore'):
                relate(ck, st, L, 'CSb_' + f, csb, [('CS_' + f, cs), ('AtomicWeight', aw)], cs.v * aw.v / AV,
                       (lambda f: lambda k: 'CSb_%s(%d, %d, %s)' % (f, Z2[k], M2[k], fmt(E2[k])))(f), c2)
            if 'Kissel' in f:
                for pre, r in (('CS_', cs), ('CSb_', csb)):
                    must_fail_shipped(ck, L, pre + f, r, (lambda n: lambda k: '%s(%d, %d, %s)' % (n, Z2[k], M2[k], fmt(E2[k])))(pre + f))


def section_dcs(ck, st, L, Zs, knots, edges, ks, AV, tier, rng):
    """DCS(P)_Rayl = N_A/A FF^2 Thomson, DCS(P)_Compt = N_A/A SF KN at q = MomentTransf(E, theta); barn twins"""
    quick = tier == 'quick'
    nth, nph = (13, 7) if quick else (19, 9)
    th = np.linspace(0.0, np.pi, nth)
    # angles outside [0, pi] (the momentum transfer goes negative: FF/SF are undefined, so the aggregate must fail) and tiny angles
    th = np.concatenate([th, [-np.pi / 2, -0.3, 2 * np.pi + 0.5, 7.0, 1e-3, 1e-4, 2e-6, 1e-8]])
    nth = len(th)
    ph = np.concatenate([[0.0, np.pi / 2, np.pi], rng.uniform(0, 2 * np.pi, nph - 3)])
    chunk = 30 if quick else 10
    for c0 in range(0, len(Zs), chunk):
        Zc = Zs[c0:c0 + chunk]
        ZZ, EE = energy_grid(tier, rng, Zc, knots, edges, ks, dense=False)
        # the differential functions are not limited to the range of the CS tables
        ZZ = np.concatenate([ZZ, np.repeat(Zc, 3)]); EE = np.concatenate([EE, np.tile([1e-4, 2e4, 1e6], len(Zc))])
        cell = buckets(ZZ, EE, edges)
        Z2 = np.repeat(ZZ, nth); E2 = np.repeat(EE, nth); T2 = np.tile(th, len(ZZ)); c2 = np.repeat(cell, nth)
        q = L.call('MomentTransf', E2, T2)
        names = ['DCS_Rayl', 'DCSb_Rayl', 'DCS_Compt', 'DCSb_Compt']
        res = L.multi([(n, Z2, E2, T2) for n in names] + [('FF_Rayl', Z2, q.v), ('SF_Compt', Z2, q.v), ('DCS_Thoms', T2),
                                                         ('DCS_KN', E2, T2), ('AtomicWeight', Z2)])
        st.calls += len(q) + sum(len(r) for r in res)
        R = dict(zip(names + ['FF_Rayl', 'SF_Compt', 'DCS_Thoms', 'DCS_KN', 'AtomicWeight'], res))
        # FF/SF were called with the sentinel q where MomentTransf failed: such rows have a failing part anyway
        aw, ff, sf = R['AtomicWeight'], R['FF_Rayl'], R['SF_Compt']

        def call3(fn):
            return lambda k: '%s(%d, %s, %s)' % (fn, Z2[k], fmt(E2[k]), fmt(T2[k]))
        with np.errstate(invalid='ignore', divide='ignore', over='ignore'):
            relate(ck, st, L, 'DCS_Rayl', R['DCS_Rayl'], [('MomentTransf', q), ('FF_Rayl', ff), ('DCS_Thoms', R['DCS_Thoms']), ('AtomicWeight', aw)],
                   AV / aw.v * ff.v * ff.v * R['DCS_Thoms'].v, call3('DCS_Rayl'), c2)
            relate(ck, st, L, 'DCS_Compt', R['DCS_Compt'], [('MomentTransf', q), ('SF_Compt', sf), ('DCS_KN', R['DCS_KN']), ('AtomicWeight', aw)],
                   AV / aw.v * sf.v * R['DCS_KN'].v, call3('DCS_Compt'), c2)
            for b, c in (('DCSb_Rayl', 'DCS_Rayl'), ('DCSb_Compt', 'DCS_Compt')):
                relate(ck, st, L, b, R[b], [(c, R[c]), ('AtomicWeight', aw)], R[c].v * aw.v / AV, call3(b), c2)
        # polarised: (Z, E, theta) rows x phi grid (quick: every second row, which row set depends on the seed)
        if quick:
            sel = np.arange((common.seed() + c0) % 2, len(Z2), 2)
            Z2, E2, T2, c2 = Z2[sel], E2[sel], T2[sel], c2[sel]
            q, ff, sf, aw = [sub(r, sel) for r in (q, ff, sf, aw)]
        m = len(Z2)
        Z3 = np.repeat(Z2, nph); E3 = np.repeat(E2, nph); T3 = np.repeat(T2, nph); P3 = np.tile(ph, m); c3 = np.repeat(c2, nph)
        pn = ['DCSP_Rayl', 'DCSPb_Rayl', 'DCSP_Compt', 'DCSPb_Compt']
        res = L.multi([(n, Z3, E3, T3, P3) for n in pn] + [('DCSP_Thoms', T3, P3), ('DCSP_KN', E3, T3, P3)])
        st.calls += sum(len(r) for r in res)
        RP = dict(zip(pn + ['DCSP_Thoms', 'DCSP_KN'], res))

        def rep(r):
            class X:
                ok = np.repeat(r.ok, nph)
                v = np.repeat(r.v, nph)
                @staticmethod
                def msg(k):
                    return r.msg(k // nph)
            return X
        q3, ff3, sf3, aw3 = rep(q), rep(ff), rep(sf), rep(aw)

        def call4(fn):
            return lambda k: '%s(%d, %s, %s, %s)' % (fn, Z3[k], fmt(E3[k]), fmt(T3[k]), fmt(P3[k]))
        with np.errstate(invalid='ignore', divide='ignore', over='ignore'):
            relate(ck, st, L, 'DCSP_Rayl', RP['DCSP_Rayl'], [('MomentTransf', q3), ('FF_Rayl', ff3), ('DCSP_Thoms', RP['DCSP_Thoms']), ('AtomicWeight', aw3)],
                   AV / aw3.v * ff3.v * ff3.v * RP['DCSP_Thoms'].v, call4('DCSP_Rayl'), c3)
            relate(ck, st, L, 'DCSP_Compt', RP['DCSP_Compt'], [('MomentTransf', q3), ('SF_Compt', sf3), ('DCSP_KN', RP['DCSP_KN']), ('AtomicWeight', aw3)],
                   AV / aw3.v * sf3.v * RP['DCSP_KN'].v, call4('DCSP_Compt'), c3)
            for b, c in (('DCSPb_Rayl', 'DCSP_Rayl'), ('DCSPb_Compt', 'DCSP_Compt')):
                relate(ck, st, L, b, RP[b], [(c, RP[c]), ('AtomicWeight', aw3)], RP[c].v * aw3.v / AV, call4(b), c3)


# ---------------------------------------------------------------------------------------------------------------------
def main(tier):
    ck = common.Check('C05', tier)
    mac = refdata.Macros()
    AV = float(mac.all['AVOGNUM'])
    # the constants of the identities are the documented ones (CODATA 2010, refdata.CONSTANTS), not merely whatever the header of the tree
    # under observation says: a header whose N_A differs shifts every per-atom function together with every reference built from it
    for name, gold in refdata.CONSTANTS.items():
        have = mac.all.get(name)
        if have is None or abs(float(have) - gold) > 1e-15 * abs(gold):
            ck.violation('c05:constant:%s' % name, 'the public header defines %s = %r, the documented value is %r' % (name, have, gold), dict(macro=name, header=have, documented=gold))
    if abs(float(mac.all['RE2']) - (float(mac.all['R_E']) * 1e14) ** 2) > 1e-8 * float(mac.all['RE2']):
        ck.violation('c05:constant:RE2', 'RE2 = %r is not the square of R_E = %r m in barn' % (mac.all['RE2'], mac.all['R_E']), dict(RE2=mac.all['RE2'], R_E=mac.all['R_E']))
    rng = np.random.default_rng(common.seed())
    st = Stats()
    knots = table_knots()
    Zs = np.arange(0, 122)              # 1..120 plus one invalid value on either side
    for config in ('shipped', 'kissel'):
        L = execlib.Lib(config)
        ks = refdata.kissel(config)     # only used to choose probe energies (table ends, binding energies)
        edges, ncalls = edges_of(L, Zs)
        st.calls += ncalls
        ZZ, EE = energy_grid(tier, rng, Zs, knots, edges, ks, dense=True)
        cell = buckets(ZZ, EE, edges)
        R = section_totals(ck, st, L, ZZ, EE, cell, AV)
        section_shells(ck, st, L, ZZ, EE, cell, AV, R)
        section_fluor(ck, st, L, mac, Zs, edges, AV, tier, rng)
        section_dcs(ck, st, L, Zs, knots, edges, ks, AV, tier, rng)
        st.info['pairs@' + config] = int(len(ZZ))
    # ---- the aggregates are functions of their arguments alone: same bits in another call order, with immediate repetition, without an
    # error slot, and in a host that traps floating-point exceptions (every Z incl. those without data, where a part fails) ------------
    Zi, Ei, Ti = [x.ravel() for x in np.meshgrid(np.arange(0, 122), [0.5, 10.0, 100.0, 900.0], [0.0, 0.7, float(np.pi)], indexing='ij')]
    # (the energy list holds points inside every non-monotone step of the tables; 'last-argument-major' order visits all elements at one energy, so that
    #  the look-up of one element's table comes right after the look-up of another element's table at the same abscissa)
    from . import c02 as _c02
    _hull = _c02.hull_energies()
    st.info['energies_inside_non_monotone_steps'] = len(_hull)
    Z2, E2 = [x.ravel() for x in np.meshgrid(np.arange(0, 122), [0.5, 10.0, 100.0, 900.0] + _hull, indexing='ij')]
    jobs = [(f, Zi, Ei, Ti) for f in ('DCS_Rayl', 'DCS_Compt', 'DCSb_Rayl', 'DCSb_Compt')] + \
           [(f, Zi, Ei, Ti, 0.3 + 0 * Ti) for f in ('DCSP_Rayl', 'DCSP_Compt', 'DCSPb_Rayl', 'DCSPb_Compt')] + \
           [(f, Z2, E2) for f in ('CS_Total', 'CSb_Total', 'CSb_Photo', 'CSb_Rayl', 'CSb_Compt')]
    st.calls += execlib.independence(ck, 'c05', 'shipped', jobs, orders=('given', 'reversed', 'last-argument-major', 'each-twice'))
    st.calls += execlib.independence(ck, 'c05', 'kissel', [(f, Z2, E2) for f in ('CS_Total_Kissel', 'CSb_Total_Kissel', 'CS_Photo_Total', 'CSb_Photo_Total')], orders=('given', 'each-twice'))
    # ---- did the run observe enough? ------------------------------------------------------------------------------
    need_shipped = ['CS_Total', 'CSb_Total', 'CSb_Photo', 'CSb_Rayl', 'CSb_Compt', 'CSb_FluorLine', 'CSb_FluorShell', 'DCS_Rayl', 'DCS_Compt',
                    'DCSP_Rayl', 'DCSP_Compt', 'DCSb_Rayl', 'DCSb_Compt', 'DCSPb_Rayl', 'DCSPb_Compt']
    need_kissel = need_shipped + ['CS_Total_Kissel', 'CSb_Total_Kissel', 'CSb_Photo_Total', 'CS_Photo_Total', 'CS_Photo_Partial',
                                  'CSb_Photo_Total=sum(shells)', 'CS_Photo_Total=sum(shells)'] + \
        ['CSb_Fluor%s_Kissel%s' % (k, v) for k in ('Line', 'Shell') for v in FLUOR_K]
    for cfg, need in (('shipped', need_shipped), ('kissel', need_kissel)):
        thin = [f for f in need if st.compared.get(f + '@' + cfg, 0) < 200]
        if thin:
            raise common.Inconclusive('too few successful comparisons in the %s configuration for %s' % (cfg, ', '.join(thin)))
    kis_ok = sum(v for k, v in st.compared.items()
                 if k.endswith('@shipped') and any(t in k for t in ('Kissel', 'Photo_Total', 'Photo_Partial')))
    distinct = sum(len(s) for s in st.cells.values())
    cov = dict(evaluations=int(st.calls), distinct_nontrivial=int(distinct),
               rule='distinct = (identity, Z, energy interval between consecutive absorption edges of Z [x line/shell for the per-line '
                    'functions]) cells in which the aggregate and all of its parts succeeded and the value was compared at %g; '
                    'workload: Z 0..121 x {all knots of the photo/Rayleigh tables, every edge x(1-1e-9, 1, 1+1e-9), range ends 0.1/300/800/1000 keV '
                    '+/-, Kissel table ends and binding energies +/-, seeded log-uniform energies, 0 and -1} x 31 shells; 13x7 (theta, phi) grid '
                    'incl. 0, pi/2, pi for the differential functions; both data configurations' % TOL,
               samples=st.samples[:24], exhaustive=False, tolerance=TOL,
               success_path_comparisons=st.compared, failure_side_agreements=st.agreed_fail,
               identities=sorted(st.cells), cells_per_identity={k: len(v) for k, v in st.cells.items()},
               worst_relative_difference=st.worst, kissel_successes_in_shipped=int(kis_ok), **st.info)
    return ck.finish(cov, ['both sides of every identity are outputs of the library under test; AVOGNUM comes from a compiled probe of the public header',
                           'a sub-shell whose CSb_Photo_Partial fails (not ionisable at E, or no tabulated edge) legitimately contributes nothing to the Kissel photo total',
                           'numpy float64 arithmetic is IEEE-754 double'])
