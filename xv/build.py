"""Builds everything the checks need from /repo's *current working tree*.

Nothing is taken from /repo/_build.  Every artefact lives under
/verif/build/<key>/ where <key> is a hash over the bytes of the repository
sources, the harness sources and the flags, so an edited tree can never be
checked against a stale library.
"""
import os, sys, re, hashlib, subprocess, shutil, tempfile, fcntl, json, time, glob
from concurrent.futures import ThreadPoolExecutor

REPO = os.environ.get('XV_REPO', '/repo')
VERIF = os.path.dirname(os.path.dirname(os.path.abspath(__file__)))
BUILD = os.path.join(VERIF, 'build')
HARNESS = os.path.join(VERIF, 'harness')
GUARD = 'TSCHOONJ_XRAYLIB_VERIF'
NCPU = os.cpu_count() or 4

FLAVOURS = {
    'plain': dict(cc='gcc', cxx='g++', cflags=['-O2', '-g', '-fPIC']),
    'asan': dict(cc='gcc', cxx='g++', cflags=['-O1', '-g', '-fno-omit-frame-pointer',
                                  '-fsanitize=address,undefined', '-fno-sanitize=nonnull-attribute',
                                  '-fno-sanitize-recover=all']),
    'tsan': dict(cc='gcc', cxx='g++', cflags=['-O1', '-g', '-fsanitize=thread']),
    'cov': dict(cc='gcc', cxx='g++', cflags=['-O0', '-g', '--coverage']),
    'fuzz': dict(cc='clang', cxx='clang++', cflags=['-O1', '-g', '-fno-omit-frame-pointer',
                                   '-fsanitize=fuzzer-no-link,address,undefined', '-fno-sanitize=nonnull-attribute',
                                   '-fno-sanitize-recover=all']),
}
CONFIGS = ('shipped', 'kissel')


class BuildError(Exception):
    pass


def _run(cmd, cwd=None, env=None, timeout=1800):
    p = subprocess.run(cmd, cwd=cwd, env=env, stdout=subprocess.PIPE, stderr=subprocess.STDOUT,
                       timeout=timeout)
    if p.returncode != 0:
        raise BuildError('command failed (%d): %s\n%s' % (p.returncode, ' '.join(cmd),
                                                          p.stdout.decode('utf8', 'replace')[-4000:]))
    return p.stdout.decode('utf8', 'replace')


def _hash_files(h, paths):
    for p in sorted(paths):
        h.update(p.encode())
        try:
            with open(p, 'rb') as f:
                while True:
                    b = f.read(1 << 20)
                    if not b:
                        break
                    h.update(b)
        except OSError:
            h.update(b'<missing>')


def _walk(d, exts=None):
    out = []
    for root, dirs, files in os.walk(d):
        dirs.sort()
        for f in files:
            if exts is None or os.path.splitext(f)[1] in exts:
                out.append(os.path.join(root, f))
    return out


_KEY = None


def tree_key():
    global _KEY
    if _KEY:
        return _KEY
    h = hashlib.sha256()
    paths = []
    paths += _walk(os.path.join(REPO, 'src'), {'.c', '.h', '.build'})
    paths += _walk(os.path.join(REPO, 'include'), {'.h'})
    paths += _walk(os.path.join(REPO, 'cplusplus'), {'.h'})
    paths += _walk(os.path.join(REPO, 'java'), {'.java', '.c'})
    paths += [p for p in _walk(os.path.join(REPO, 'data')) if p.endswith('.dat') or '/kissel/' in p]
    # the project's build description (the meson flavour builds the whole tree the project's way): every meson.build / options / template
    for r, dirs, files in os.walk(REPO):
        dirs[:] = sorted(x for x in dirs if x not in ('.git', '_build', '_b', 'data', 'build'))
        paths += [os.path.join(r, f) for f in sorted(files) if f in ('meson.build', 'meson_options.txt', 'meson.options') or f.endswith(('.in', '.wrap', '.map', '.sym', '.def'))]
    paths = sorted(set(paths))
    _hash_files(h, paths)
    _hash_files(h, [os.path.abspath(__file__), os.path.join(VERIF, 'xv', 'kissel_regen.py'),
                    os.path.join(VERIF, 'xv', 'sigtab.py'), os.path.join(VERIF, 'xv', 'cppgen.py')])
    h.update(json.dumps(FLAVOURS, sort_keys=True).encode())
    _KEY = h.hexdigest()[:20]
    return _KEY


def root():
    d = os.path.join(BUILD, tree_key())
    os.makedirs(d, exist_ok=True)
    return d


class _Lock:
    def __init__(self, name):
        os.makedirs(BUILD, exist_ok=True)
        self.path = os.path.join(BUILD, '.lock-' + name.replace('/', '_'))

    def __enter__(self):
        self.f = open(self.path, 'w')
        fcntl.flock(self.f, fcntl.LOCK_EX)
        return self

    def __exit__(self, *a):
        fcntl.flock(self.f, fcntl.LOCK_UN)
        self.f.close()


def _target(name, fn):
    """Run fn(dir) once per key; name is a relative directory under root()."""
    d = os.path.join(root(), name)
    done = os.path.join(d, '.done')
    if os.path.exists(done):
        return d
    with _Lock(tree_key() + '-' + name):
        if os.path.exists(done):
            return d
        if os.path.isdir(d):
            shutil.rmtree(d)
        os.makedirs(d)
        fn(d)
        open(done, 'w').write(time.strftime('%F %T'))
    return d


def prune(keep=3):
    """Keep only the most recently used build keys."""
    try:
        ds = [os.path.join(BUILD, x) for x in os.listdir(BUILD)
              if os.path.isdir(os.path.join(BUILD, x)) and re.fullmatch(r'[0-9a-f]{20}', x)]
    except OSError:
        return
    cur = os.path.join(BUILD, tree_key())
    ds = [d for d in ds if d != cur]
    def mt(d):                                          # another process may be removing entries at the same time
        try:
            return os.path.getmtime(d)
        except OSError:
            return 0.0
    ds.sort(key=mt, reverse=True)
    now = time.time()
    for d in ds[keep - 1:]:
        m = mt(d)
        if m and now - m > 3 * 3600:                     # never remove a tree another process may be using
            shutil.rmtree(d, ignore_errors=True)
    try:
        os.utime(cur, None)
    except OSError:
        pass


# ----------------------------------------------------------------------------
# source lists from src/meson.build

def _meson_lists():
    t = open(os.path.join(REPO, 'src', 'meson.build')).read()

    def files_of(var):
        m = re.search(r'^%s\s*=\s*(.*?)\n\)' % re.escape(var), t, re.S | re.M)
        if not m:
            raise BuildError('cannot find %s in src/meson.build' % var)
        return [x for x in re.findall(r"'([^']+\.c)'", m.group(1))]
    shared = files_of('shared_sources')
    prdata = shared + files_of('libprdata_sources')
    libxrl = shared + files_of('libxrl_sources')
    # de-dup, keep order
    def dd(l):
        s = []
        for x in l:
            if x not in s:
                s.append(x)
        return s
    return dd(shared), dd(prdata), dd(libxrl)


def _version():
    t = open(os.path.join(REPO, 'meson.build')).read()
    m = re.search(r"version\s*:\s*'([0-9.]+)'", t)
    return m.group(1) if m else '0.0.0'


def _write_config(d):
    open(os.path.join(d, 'config.h'), 'w').write(
        '#pragma once\n#define HAVE_COMPLEX_H\n#define HAVE_STRDUP 1\n#define HAVE_STRNDUP 1\n'
        '#define PACKAGE_TARNAME "xraylib"\n#define PACKAGE_VERSION "%s"\n#define VERSION "%s"\n'
        '#define XRL_EXTERN __attribute__((visibility("default"))) extern\n' % (_version(), _version()))


def _incs(cfgdir):
    return ['-I' + cfgdir, '-I' + os.path.join(REPO, 'src'), '-I' + os.path.join(REPO, 'include'),
            '-I' + REPO]


CORE = ['-DHAVE_CONFIG_H', '-D_GNU_SOURCE']


def _compile_many(jobs):
    """jobs: list of argv; run in parallel."""
    with ThreadPoolExecutor(NCPU) as ex:
        list(ex.map(_run, jobs))


def gen(ndebug=False):
    """native table generator: prdata executable (ndebug: the same sources built the way a release build defines NDEBUG)"""
    def mk(d):
        _write_config(d)
        _, prdata, _ = _meson_lists()
        objs, jobs = [], []
        for s in prdata + ['pr_data.c']:
            o = os.path.join(d, s.replace('.c', '.o'))
            objs.append(o)
            jobs.append(['gcc', '-O1', '-g'] + (['-DNDEBUG'] if ndebug else []) + CORE + _incs(d) + ['-c', os.path.join(REPO, 'src', s), '-o', o])
        _compile_many(jobs)
        _run(['gcc', '-o', os.path.join(d, 'prdata')] + objs + ['-lm'])
    return _target('gen-ndebug' if ndebug else 'gen', mk)


def kissel_dat():
    """regenerated data/kissel_pe.dat (port of data/kissel/kissel.pro)"""
    def mk(d):
        sys.path.insert(0, os.path.join(VERIF, 'xv'))
        import kissel_regen
        kissel_regen.main(os.path.join(REPO, 'data', 'kissel'), os.path.join(d, 'kissel_pe.dat'))
    return os.path.join(_target('kisseldat', mk), 'kissel_pe.dat')


def data_root(config, tmp):
    """scratch data root: <tmp>/data/*.dat symlinks (+ regenerated Kissel table)"""
    dd = os.path.join(tmp, 'data')
    os.makedirs(dd)
    for f in os.listdir(os.path.join(REPO, 'data')):
        if f.endswith('.dat'):
            os.symlink(os.path.join(REPO, 'data', f), os.path.join(dd, f))
    if config == 'kissel':
        os.unlink(os.path.join(dd, 'kissel_pe.dat'))
        os.symlink(kissel_dat(), os.path.join(dd, 'kissel_pe.dat'))
    return tmp


def kissel_path(config):
    return kissel_dat() if config == 'kissel' else os.path.join(REPO, 'data', 'kissel_pe.dat')


def inline(config, ndebug=False):
    g = gen(ndebug)

    def mk(d):
        tmp = tempfile.mkdtemp(prefix='xv-root-')
        try:
            data_root(config, tmp)
            _run([os.path.join(g, 'prdata'), tmp, os.path.join(d, 'xrayglob_inline.c')])
        finally:
            shutil.rmtree(tmp, ignore_errors=True)
    return os.path.join(_target('inline-' + config + ('-ndebug' if ndebug else ''), mk), 'xrayglob_inline.c')


def lib(config, flavour):
    """returns dict(dir, a, so, cflags, incs)"""
    inl = inline(config)
    fl = FLAVOURS[flavour]

    def mk(d):
        _write_config(d)
        _, _, libxrl = _meson_lists()
        objs, jobs = [], []
        srcs = [os.path.join(REPO, 'src', s) for s in libxrl] + [inl]
        for s in srcs:
            o = os.path.join(d, os.path.basename(s).replace('.c', '.o'))
            objs.append(o)
            extra = []
            if flavour == 'plain':
                extra = ['-fvisibility=hidden']
            jobs.append([fl['cc']] + fl['cflags'] + extra + CORE + ['-D' + GUARD] + _incs(d) +
                        ['-c', s, '-o', o])
        _compile_many(jobs)
        a = os.path.join(d, 'libxrl.a')
        _run(['ar', 'rcs', a] + objs)
        if flavour == 'plain':
            _run(['gcc', '-shared', '-o', os.path.join(d, 'libxrl-verif.so'), '-Wl,-z,now'] + objs + ['-lm'])
    d = _target('lib-%s-%s' % (config, flavour), mk)
    return dict(dir=d, a=os.path.join(d, 'libxrl.a'), so=os.path.join(d, 'libxrl-verif.so'),
                cc=fl['cc'], cxx=fl['cxx'], cflags=fl['cflags'] + CORE + ['-D' + GUARD] + _incs(d))


def sigtab():
    """generated dispatch table (C header + JSON)"""
    def mk(d):
        sys.path.insert(0, os.path.join(VERIF, 'xv'))
        import sigtab as st
        st.generate(REPO, d)
    return _target('sigtab', mk)


def _harness_hash(files, extra=''):
    """hash over the harness sources a program is made of (its own file + everything it #includes from harness/)"""
    seen, todo = [], list(files)
    while todo:
        f = todo.pop()
        if f in seen or not os.path.exists(f):
            continue
        seen.append(f)
        for inc in re.findall(r'#\s*include\s+"([^"]+)"', open(f, errors='replace').read()):
            todo.append(os.path.join(HARNESS, inc))
    h = hashlib.sha256(extra.encode())
    _hash_files(h, seen)
    return h.hexdigest()[:10]


def harness(config, flavour, name='xrlmon', extra_src=(), extra_flags=(), cxx=False, compiler=None):
    """compile a harness program (harness/<name>.c[pp]) against lib(config, flavour)"""
    if flavour == 'meson':
        return harness_meson(config, name)
    if flavour == 'meson-tsan':
        return harness_meson(config, name, sanitize='thread')
    if flavour in ('meson-release', 'meson-uchar', 'meson-static', 'meson-c11'):
        return harness_meson(config, name, variant=flavour[6:])
    L = lib(config, flavour)
    st = sigtab()
    hh = _harness_hash([os.path.join(HARNESS, name + ('.cpp' if cxx else '.c'))] + [os.path.join(HARNESS, s) for s in extra_src], ' '.join(extra_flags) + (compiler or ''))

    def mk(d):
        src = os.path.join(HARNESS, name + ('.cpp' if cxx else '.c'))
        comp = compiler or (L['cxx'] if cxx else L['cc'])
        flags = list(L['cflags'])
        if flavour == 'fuzz':
            flags = [f.replace('fuzzer-no-link', 'fuzzer') for f in flags] + ['-Wno-unused-command-line-argument']
        cmd = [comp] + flags + ['-I' + st, '-I' + HARNESS, '-I' + os.path.join(REPO, 'cplusplus')] + list(extra_flags) + \
              [src] + [os.path.join(HARNESS, s) for s in extra_src] + \
              [L['a'], '-o', os.path.join(d, name), '-lm', '-lpthread', '-ldl']
        _run(cmd)
    d = _target('h-%s-%s-%s-%s' % (name, config, flavour, hh), mk)
    return os.path.join(d, name)


def cpptable():
    """compile probes: which C functions have a callable wrapper in cplusplus/xraylib++.h; generated dispatch for cppmon"""
    st = sigtab()

    def mk(d):
        _write_config(d)
        sys.path.insert(0, os.path.join(VERIF, 'xv'))
        import cppgen
        cppgen.generate(REPO, st, d, d, NCPU)
    return _target('cpptable', mk)


def cppmon(config, flavour, compiler=None, user_flags=()):
    """compiler: the header-only wrappers are compiled by the USER's compiler: 'clang++' gives the second one installed here;
    user_flags: and with the user's flags (-DNDEBUG of a release build, -funsigned-char of the arm / ppc ABI, another -std)"""
    t = cpptable()
    return harness(config, flavour, 'cppmon', extra_flags=['-std=c++11', '-I' + t, '-Wno-deprecated-declarations'] + list(user_flags), cxx=True, compiler=compiler)


def java_bundle(config):
    """pure-Java implementation compiled against a stub Complex + xraylib.dat generated from the same data root; returns classpath dir"""
    g = gen()

    def mk(d):
        jsrc = os.path.join(HARNESS, 'java')
        # data dump: java/pr_data_java.c linked with the same prdata objects as the C generator
        objs = [os.path.join(g, f) for f in os.listdir(g) if f.endswith('.o') and f != 'pr_data.o']
        _run(['gcc', '-O1', '-g'] + CORE + _incs(g) + [os.path.join(REPO, 'java', 'pr_data_java.c')] + objs + ['-o', os.path.join(d, 'prdata_java'), '-lm'])
        tmp = tempfile.mkdtemp(prefix='xv-jroot-')
        try:
            data_root(config, tmp)
            _run([os.path.join(d, 'prdata_java'), tmp], cwd=d)
        finally:
            shutil.rmtree(tmp, ignore_errors=True)
        if not os.path.exists(os.path.join(d, 'xraylib.dat')):
            raise BuildError('pr_data_java did not produce xraylib.dat')
        srcs = sorted(glob.glob(os.path.join(REPO, 'java', '*.java'))) + [os.path.join(jsrc, 'JMon.java'), os.path.join(jsrc, 'JConst.java'), os.path.join(jsrc, 'com', 'github', 'tschoonj', 'xraylib', 'XvCrystals.java'),
               os.path.join(jsrc, 'org', 'apache', 'commons', 'math3', 'complex', 'Complex.java')]
        _run(['javac', '-encoding', 'UTF-8', '-nowarn', '-d', d] + srcs)
    hh = hashlib.sha256()
    _hash_files(hh, _walk(os.path.join(HARNESS, 'java')))
    return _target('java-%s-%s' % (config, hh.hexdigest()[:10]), mk)


def harness_shared(config, name, extra_flags=()):
    """harness program linked against the *shared* plain library (C16 segment hashing)"""
    L = lib(config, 'plain')
    st = sigtab()
    hh = _harness_hash([os.path.join(HARNESS, name + '.c')], ' '.join(extra_flags))

    def mk(d):
        src = os.path.join(HARNESS, name + '.c')
        cmd = ['gcc', '-O2', '-g'] + CORE + ['-D' + GUARD] + _incs(L['dir']) + ['-I' + st, '-I' + HARNESS] + list(extra_flags) + \
              [src, '-o', os.path.join(d, name), '-L' + L['dir'], '-lxrl-verif', '-Wl,-rpath,' + L['dir'],
               '-Wl,-z,now', '-lm', '-lpthread', '-ldl']
        _run(cmd)
    d = _target('hs-%s-%s-%s' % (name, config, hh), mk)
    return os.path.join(d, name)


def loadmon():
    """load monitor (C16): a program NOT linked against the library that dlopens it and records the process state around the load"""
    hh = _harness_hash([os.path.join(HARNESS, 'loadmon.c')])

    def mk(d):
        _run(['gcc', '-O0', '-g', os.path.join(HARNESS, 'loadmon.c'), '-o', os.path.join(d, 'loadmon'), '-ldl', '-lm'])
    return os.path.join(_target('loadmon-' + hh, mk), 'loadmon')


def failmon(config):
    """allocation-failpoint monitor (C++), linked against the *shared* plain library so that the shim can tell library callers apart"""
    L = lib(config, 'plain')
    hh = _harness_hash([os.path.join(HARNESS, 'failmon.cpp')])

    def mk(d):
        cmd = ['g++', '-std=c++11', '-O1', '-g', '-fno-builtin-malloc', '-fno-builtin-free', '-fno-builtin-calloc', '-fno-builtin-realloc', '-fno-builtin-strdup', '-fno-builtin-strndup',
               '-Wno-deprecated-declarations'] + CORE + ['-D' + GUARD] + _incs(L['dir']) + ['-I' + os.path.join(REPO, 'cplusplus'),
               os.path.join(HARNESS, 'failmon.cpp'), '-o', os.path.join(d, 'failmon'), '-L' + L['dir'], '-lxrl-verif', '-Wl,-rpath,' + L['dir'], '-Wl,-z,now', '-lm', '-ldl']
        _run(cmd)
    d = _target('hs-failmon-%s-%s' % (config, hh), mk)
    return os.path.join(d, 'failmon')


def stale_inline(config):
    """a table file as an EARLIER in-tree build would have left it in src/ (git-ignored): the generator output of this tree with the third
    decimal of every number written in %.10E form raised by one - every table (and every spline coefficient) differs by ~1e-3 relative"""
    inl = inline(config)

    def mk(d):
        t = open(inl, encoding='latin1').read()
        t, n = re.subn(r'(?<![\w.])(\d\.\d\d)(\d)(\d{7}E[+-]\d\d)', lambda m: m.group(1) + str((int(m.group(2)) + 1) % 10) + m.group(3), t)
        if n < 100000:
            raise BuildError('only %d literals of the generated table could be made stale' % n)
        open(os.path.join(d, 'xrayglob_inline.c'), 'w', encoding='latin1').write(t)
    return os.path.join(_target('stale-inline-' + config, mk), 'xrayglob_inline.c')


# Configurations of the PROJECT's build a user can really have besides the default one: an optimised build without assertions (distributions
# build with buildtype=release / b_ndebug=true), and the ABI of the platforms where plain char is unsigned (Linux on arm, aarch64, ppc64le,
# s390x, riscv64), emulated here with -funsigned-char.  The library must be the same function of its arguments in all of them.
# 'static': the archive (default_library=static) linked into an executor that references only the functions it calls (harness/xrlexec.c).
MESON_VARIANTS = {None: [], 'release': ['-Dbuildtype=release', '-Db_ndebug=true'], 'uchar': ['-Dc_args=-funsigned-char', '-Dcpp_args=-funsigned-char'],
                  'static': ['-Ddefault_library=static'], 'c11': ['-Dc_std=c11']}          # c11: a strict ISO language standard (__STRICT_ANSI__: no GNU extensions of libc visible)
PROJECT_BUILDS = ('meson', 'meson-release', 'meson-uchar', 'meson-c11')          # shared libraries: any harness program, ctypes
EXEC_BUILDS = PROJECT_BUILDS + ('meson-static',)                       # for the executor (execlib.Lib)


def stale_data(config):
    """a complete data directory as a user of an OLDER installation may still have it (and point XRAYLIB_DIR at it): every file of data/ with the
    third decimal of every number raised by one - parsable by the generator, different everywhere.  returns the directory that holds data/"""
    def mk(d):
        dd = os.path.join(d, 'data')
        os.makedirs(dd)
        n = 0
        for f in sorted(os.listdir(os.path.join(REPO, 'data'))):
            q = os.path.join(REPO, 'data', f)
            if not os.path.isfile(q):
                continue
            if f == 'kissel_pe.dat' and config == 'kissel':
                q = kissel_dat()
            t = open(q, encoding='latin1').read()
            t, k = re.subn(r'(?<![\w.])(\d*\.\d\d)(\d)(\d*(?:[eE][-+]?\d+)?)(?![\w.])', lambda m: m.group(1) + str((int(m.group(2)) + 1) % 10) + m.group(3), t)
            n += k
            open(os.path.join(dd, f), 'w', encoding='latin1').write(t)
        if n < 100000:
            raise BuildError('only %d numbers of the data files could be made stale' % n)
    return _target('stale-data-' + config, mk)


def meson_lib(config, dirty=False, sanitize=None, variant=None):
    """the library exactly as the project's own build system makes it (its compiler arguments, its visibility settings, its generator run):
    a copy of the working tree (without .git) is built with meson in the cache; returns dict(dir, so, incs).  The hook guard is NOT defined.
    dirty: the copy additionally holds what an earlier in-tree (autotools) build leaves behind and .gitignore hides - a stale
    src/xrayglob_inline.c generated from OTHER data, stale objects - which the build must not pick up - and the build runs in a hostile
    ENVIRONMENT: XRAYLIB_DIR (the data-directory variable of xraylib 2.x) pointing at a stale data directory, MALLOC_PERTURB_=165 (freed and fresh
    heap memory filled with a byte pattern: a generator table that is not really initialised shows).  dirty='crlf': the copy has CR LF line
    ends in data/* (a checkout with autocrlf built under WSL or in a container).
    sanitize='thread': the same project build with meson's own -Db_sanitize=thread (the project's flags and optimisation level, instrumented)"""
    stale = stale_inline(config) if dirty is True else None
    benv = None
    if dirty is True:
        benv = dict(os.environ, XRAYLIB_DIR=stale_data(config), MALLOC_PERTURB_='165')

    def mk(d):
        src = os.path.join(d, 'tree')
        _run(['rsync', '-a', '--exclude=.git', '--exclude=_build', '--exclude=_b', REPO + '/', src + '/'])
        if config == 'kissel':
            shutil.copyfile(kissel_dat(), os.path.join(src, 'data', 'kissel_pe.dat'))
        if dirty == 'crlf':
            for f in os.listdir(os.path.join(src, 'data')):
                q = os.path.join(src, 'data', f)
                if os.path.isfile(q):
                    b_ = open(q, 'rb').read()
                    open(q, 'wb').write(b_.replace(b'\r\n', b'\n').replace(b'\n', b'\r\n'))
        if dirty is True:
            shutil.copyfile(stale, os.path.join(src, 'src', 'xrayglob_inline.c'))
            shutil.copyfile(stale, os.path.join(src, 'xrayglob_inline.c'))
            for o in ('src/xrayglob_inline.o', 'src/xrayglob_inline.lo', 'src/.libs/xrayglob_inline.o'):
                os.makedirs(os.path.dirname(os.path.join(src, o)), exist_ok=True)
                open(os.path.join(src, o), 'wb').write(b'\x7fELF stale object of an earlier build\n')
        b = os.path.join(d, 'b')
        _run(['meson', 'setup', b, src, '-Dpython-bindings=disabled', '-Dpython-numpy-bindings=disabled', '-Dfortran-bindings=disabled'] +
             (['-Db_sanitize=' + sanitize, '-Db_lundef=false'] if sanitize else []) + MESON_VARIANTS[variant], timeout=1800, env=benv)
        _run(['meson', 'compile', '-C', b, 'xrl'], timeout=3600, env=benv)
        if not os.path.exists(os.path.join(b, 'src', 'libxrl.a' if variant == 'static' else 'libxrl.so')):
            raise BuildError('meson did not produce src/libxrl.%s' % ('a' if variant == 'static' else 'so'))
        shutil.rmtree(src, ignore_errors=True)          # the copy of the tree (70 MB) is not needed once the library exists
    d = _target('lib-%s-meson%s%s%s' % (config, ('-dirty' if dirty is True else '-' + dirty) if dirty else '', '-' + sanitize if sanitize else '', '-' + variant if variant else ''), mk)
    return dict(dir=os.path.join(d, 'b', 'src'), so=os.path.join(d, 'b', 'src', 'libxrl.so'), a=os.path.join(d, 'b', 'src', 'libxrl.a'), cfgdir=os.path.join(d, 'b'))


PUBLIC_HELPERS = ('Crystal_F_H_StructureFactor2', 'Crystal_F_H_StructureFactor_Partial2', 'Refractive_Index2', 'xrl_error_new', 'xrl_error_new_literal',
                  'xrl_error_new_valist', 'xrl_set_error', 'xrl_set_error_literal', 'xrl_verif_hook')


def hostile_host(config):
    """a preload object that plays the HOST PROGRAM of the meson-built library: it defines, as its own globals, every name the library uses
    internally and does not export (functions that end the process with a message when called, zero-filled objects of the same size).
    A library whose internals are really internal never sees them; one that lets the host pre-empt a helper or a table does.
    returns dict(so, names)"""
    L = meson_lib(config)

    def mk(d):
        def nm(args, path):
            return [l.split() for l in _run(['nm'] + args + [path]).split('\n') if l.strip()]
        # "exported" is what the public headers declare (plus the helper entry points of the bindings), NOT what the dynamic symbol table of
        # this build happens to list: a build that exports its internals must still meet a host that defines them
        exported = {x['name'] for x in json.load(open(os.path.join(sigtab(), 'sigtab.json')))['declared']} | set(PUBLIC_HELPERS)
        taken = set()
        for lib in ('libc.so.6', 'libm.so.6', 'libpthread.so.0', 'libdl.so.2', 'ld-linux-x86-64.so.2', 'libgcc_s.so.1'):
            for dd in ('/lib/x86_64-linux-gnu', '/usr/lib/x86_64-linux-gnu', '/lib64'):
                q = os.path.join(dd, lib)
                if os.path.exists(q):
                    taken |= {t[-1].split('@')[0] for t in nm(['-D', '--defined-only'], q)}
                    break
        funcs, objs = [], {}
        for t in nm(['-S', '--defined-only'], L['so']):
            name = t[-1]
            if not re.fullmatch(r'[A-Za-z][A-Za-z0-9_]*', name) or name in exported or name in taken or name.startswith('xv_') or name in ('deregister_tm_clones', 'register_tm_clones', 'frame_dummy'):
                continue
            kind = t[-2]
            if kind in 'tT':
                funcs.append(name)
            elif kind in 'bBdDrR' and len(t) == 4:
                objs[name] = max(objs.get(name, 0), int(t[1], 16))
        funcs = sorted(set(funcs) - set(objs))
        if len(funcs) + len(objs) < 20:
            raise BuildError('the symbol table of the meson-built library lists only %d internal names (stripped?)' % (len(funcs) + len(objs)))
        src = ['#include <unistd.h>', '#include <string.h>',
               'static void xv_bound(const char *n){ const char *m = "xv-hostile-host: the library bound its internal symbol to the definition of the host program: "; '
               'write(2, m, strlen(m)); write(2, n, strlen(n)); write(2, "\\n", 1); _exit(97); }']
        src += ['void %s(void){ xv_bound("%s"); }' % (f, f) for f in funcs]
        src += ['char %s[%d];' % (o, max(n, 1)) for o, n in sorted(objs.items())]
        c = os.path.join(d, 'host.c')
        open(c, 'w').write('\n'.join(src) + '\n')
        _run(['gcc', '-w', '-shared', '-fPIC', '-O0', c, '-o', os.path.join(d, 'libhost.so')])
        json.dump(dict(functions=funcs, objects=sorted(objs)), open(os.path.join(d, 'names.json'), 'w'))
    d = _target('hostile-host-%s' % config, mk)
    return dict(so=os.path.join(d, 'libhost.so'), names=json.load(open(os.path.join(d, 'names.json'))))


def harness_meson(config, name='xrlmon', sanitize=None, variant=None):
    """harness program linked against meson_lib(config) (shared); the monitor sources are compiled with the plain flags"""
    L = meson_lib(config, sanitize=sanitize, variant=variant)
    st = sigtab()
    if variant == 'static':
        name = 'xrlexec'
    hh = _harness_hash([os.path.join(HARNESS, name + '.c')])

    def mk(d):
        cmd = ['gcc', '-O2', '-g'] + (['-fsanitize=' + sanitize] if sanitize else []) + CORE + ['-I' + L['cfgdir'], '-I' + os.path.join(REPO, 'src'), '-I' + os.path.join(REPO, 'include'), '-I' + REPO, '-I' + st, '-I' + HARNESS,
               os.path.join(HARNESS, name + '.c'), '-o', os.path.join(d, name)] + ([L['a']] if variant == 'static' else ['-L' + L['dir'], '-lxrl', '-Wl,-rpath,' + L['dir']]) + ['-lm', '-lpthread', '-ldl']
        _run(cmd)
    d = _target('hm-%s-%s%s%s-%s' % (name, config, '-' + sanitize if sanitize else '', '-' + variant if variant else '', hh), mk)
    return os.path.join(d, name)


def locale_dir():
    """synthetic locales (LOCPATH): xx_VERIF - comma decimal point, ASCII character classes; xx_LATIN - decimal point '.', but the character
    classes of ISO-8859-1 (bytes 0xC0-0xFF are letters with upper / lower case), as a host with a single-byte national locale has them;
    xx_COLL - like xx_LATIN, and a collation order (LC_COLLATE) in which '_' sorts before digits and letters, as CLDR-based locales have it"""
    def mk(d):
        src = os.path.join(VERIF, 'locale-src')
        for name, cm in (('xx_VERIF', 'charmap'), ('xx_LATIN', 'charmap-latin1'), ('xx_COLL', 'charmap-latin1')):
            p = subprocess.run(['localedef', '-c', '-i', os.path.join(src, name), '-f', os.path.join(src, cm), os.path.join(d, name)],
                               stdout=subprocess.PIPE, stderr=subprocess.STDOUT)
            if not os.path.exists(os.path.join(d, name, 'LC_NUMERIC')):
                raise BuildError('localedef failed: ' + p.stdout.decode())
    return _target('locale3', mk)


def macros():
    """values of every object-like macro of the public headers, printed by a compiled probe"""
    def mk(d):
        _write_config(d)
        names = []
        for h in sorted(glob.glob(os.path.join(REPO, 'include', '*.h'))):
            if os.path.basename(h) == 'lines_old.h':
                continue
            t = open(h).read()
            t = re.sub(r'/\*.*?\*/', '', t, flags=re.S)
            for m in re.finditer(r'^[ \t]*#[ \t]*define[ \t]+([A-Za-z_][A-Za-z0-9_]*)[ \t]+(\S.*)$', t, re.M):
                n = m.group(1)
                if n.startswith('XRL_') or n.endswith('_H') or n in ('PI', 'TWOPI', 'RADEG', 'DEGRAD'):
                    if n not in ('PI', 'TWOPI', 'RADEG', 'DEGRAD'):
                        continue
                if n not in names:
                    names.append(n)
        src = ['#include <stdio.h>', '#include "xraylib.h"', 'int main(void){']
        for n in names:
            src.append('printf("%s %%.17g\\n", (double)(%s));' % (n, n))
        src.append('return 0;}')
        c = os.path.join(d, 'probe.c')
        open(c, 'w').write('\n'.join(src))
        # names that are not numeric expressions are dropped one by one
        for attempt in range(50):
            p = subprocess.run(['gcc', '-w'] + CORE + _incs(d) + [c, '-o', os.path.join(d, 'probe')],
                               stdout=subprocess.PIPE, stderr=subprocess.STDOUT)
            if p.returncode == 0:
                break
            bad = set(int(x) for x in re.findall(r'probe\.c:(\d+):\d+: error', p.stdout.decode()))
            if not bad:
                raise BuildError('macro probe: ' + p.stdout.decode()[-2000:])
            lines = open(c).read().split('\n')
            for b in bad:
                lines[b - 1] = ''
            open(c, 'w').write('\n'.join(lines))
        else:
            raise BuildError('macro probe does not compile')
        out = _run([os.path.join(d, 'probe')])
        vals = {}
        for l in out.split('\n'):
            if l.strip():
                k, v = l.split()
                vals[k] = float(v)
        json.dump(vals, open(os.path.join(d, 'macros.json'), 'w'))
    d = _target('macros', mk)
    return json.load(open(os.path.join(d, 'macros.json')))


def layout():
    """layout of the public structs as the headers of the tree declare them (offset, size, kind of every field), from a compiled probe:
    the ctypes binding of xl.py is built from it, so that a field that changes type is read as what it now is"""
    structs = {
        'xrl_error': ('xrl_error', ['code', 'message']),
        'compoundData': ('struct compoundData', ['nElements', 'nAtomsAll', 'Elements', 'massFractions', 'nAtoms', 'molarMass']),
        'compoundDataNIST': ('struct compoundDataNIST', ['name', 'nElements', 'Elements', 'massFractions', 'density']),
        'radioNuclideData': ('struct radioNuclideData', ['name', 'Z', 'A', 'N', 'Z_xray', 'nXrays', 'XrayLines', 'XrayIntensities', 'nGammas', 'GammaEnergies', 'GammaIntensities']),
        'Crystal_Atom': ('Crystal_Atom', ['Zatom', 'fraction', 'x', 'y', 'z']),
        'Crystal_Struct': ('Crystal_Struct', ['name', 'a', 'b', 'c', 'alpha', 'beta', 'gamma', 'volume', 'n_atom', 'atom']),
        'Crystal_Array': ('Crystal_Array', ['n_crystal', 'n_alloc', 'crystal']),
    }

    def mk(d):
        _write_config(d)
        src = ['#include <stdio.h>', '#include <stddef.h>', '#include "xraylib.h"',
               '#define KIND(x) _Generic((x), float: "f", double: "f", long double: "f", signed char: "i", short: "i", int: "i", long: "i", long long: "i", '
               'unsigned char: "u", unsigned short: "u", unsigned: "u", unsigned long: "u", unsigned long long: "u", char: "i", default: "p")',
               '/* the kind of what a pointer field points to */',
               '#define PKIND(x) _Generic((x), float *: "f4", double *: "f8", int *: "i4", unsigned *: "u4", short *: "i2", long *: "i8", char *: "s", const char *: "s", default: "o")',
               'int main(void){']
        for key, (ctype, fields) in structs.items():
            src.append('{ %s t; printf("%s %%zu\\n", sizeof t);' % (ctype, key))
            for f in fields:
                src.append('  printf("%s.%s %%zu %%zu %%s %%s\\n", offsetof(%s, %s), sizeof t.%s, KIND(t.%s), PKIND(t.%s));' % (key, f, ctype, f, f, f, f))
            src.append('}')
        src.append('return 0;}')
        c = os.path.join(d, 'layout.c')
        open(c, 'w').write('\n'.join(src))
        _run(['gcc', '-w'] + CORE + _incs(d) + [c, '-o', os.path.join(d, 'layout')])
        out = _run([os.path.join(d, 'layout')])
        lay = {}
        for l in out.split('\n'):
            t = l.split()
            if len(t) == 2:
                lay[t[0]] = dict(size=int(t[1]), fields=[])
            elif len(t) == 5:
                k, f = t[0].split('.')
                lay[k]['fields'].append(dict(name=f, offset=int(t[1]), size=int(t[2]), kind=t[3], pkind=t[4]))
        json.dump(lay, open(os.path.join(d, 'layout.json'), 'w'), indent=1)
    d = _target('layout', mk)
    return json.load(open(os.path.join(d, 'layout.json')))


def prebuild(configs=CONFIGS, flavours=('plain', 'asan', 'tsan')):
    """build the common bundles in parallel (used by `xv setup`)"""
    gen()
    kissel_dat()
    sigtab()
    with ThreadPoolExecutor(4) as ex:
        list(ex.map(inline, configs))
    jobs = [(c, f) for c in configs for f in flavours]
    with ThreadPoolExecutor(6) as ex:
        list(ex.map(lambda cf: lib(*cf), jobs))


if __name__ == '__main__':
    t = time.time()
    prebuild()
    print('key', tree_key(), 'built in %.1fs' % (time.time() - t))
