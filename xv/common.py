"""Plumbing shared by all checks: seeds, findings discipline, evidence, replay files."""
import os, sys, json, time, hashlib, fnmatch, subprocess, tempfile, shutil

VERIF = os.path.dirname(os.path.dirname(os.path.abspath(__file__)))
# XV_OUT: evidence/replay files of runs against scratch trees (seeded changes) go elsewhere, never over the evidence of /repo
EVID = os.path.join(os.environ.get('XV_OUT') or VERIF, 'evidence')
REPLAY = os.path.join(os.environ.get('XV_OUT') or VERIF, 'replay')
KNOWN = os.path.join(VERIF, 'known_findings.json')
NCPU = os.cpu_count() or 4


def seed():
    try:
        return int(os.environ.get('VERIF_SEED', '1'))
    except ValueError:
        return 1


class Inconclusive(Exception):
    """harness failure / nothing observed: exit 2, never a pass and never a violation"""


def load_known():
    try:
        return json.load(open(KNOWN)).get('findings', [])
    except FileNotFoundError:
        return []


CURRENT = None      # the Check of this process (run_main reports its witnessed violations even when the run ends inconclusive)


class Check:
    """One run of one property check."""

    def __init__(self, pid, tier, level='exploration'):
        self.pid, self.tier, self.level = pid, tier, level
        self.seed = seed()
        self.t0 = time.time()
        self.viol = {}       # key -> dict(what, witness, count)
        self.notes = []
        self.known = [k for k in load_known() if k.get('property') == pid]
        os.makedirs(EVID, exist_ok=True)
        global CURRENT
        CURRENT = self

    # -- violations ---------------------------------------------------------------------
    def violation(self, key, what, witness=None):
        v = self.viol.get(key)
        if v:
            v['count'] += 1
            return
        self.viol[key] = dict(what=what, witness=witness, count=1)

    def _match_known(self, key):
        for k in self.known:
            if k.get('status') == 'known' and (k['key'] == key or fnmatch.fnmatchcase(key, k['key'])):
                return k
        return None

    def _write_replay(self, key, v):
        os.makedirs(REPLAY, exist_ok=True)
        h = hashlib.sha1(key.encode()).hexdigest()[:10]
        p = os.path.join(REPLAY, '%s-%s.json' % (self.pid, h))
        json.dump(dict(property=self.pid, key=key, what=v['what'], witness=v['witness'], count=v['count'],
                       tier=self.tier, seed=self.seed), open(p, 'w'), indent=1, default=str)
        return p

    # -- finish ---------------------------------------------------------------------------
    def new_violations(self):
        return [k for k in self.viol if not self._match_known(k)]

    def finish(self, coverage, assumptions=None, shortfall=None):
        """coverage: dict with evaluations, distinct_nontrivial, rule, samples (+ extras).
        shortfall: the run ended inconclusive (too little observed / harness trouble) AFTER violations had been witnessed: the
        witnesses are reported, the coverage minimums (which only guard a verdict of 'held') are not demanded."""
        new, known_seen = [], []
        for key, v in sorted(self.viol.items()):
            k = self._match_known(key)
            if k:
                known_seen.append((key, k, v))
            else:
                new.append((key, v))
        cov = dict(coverage)
        cov.setdefault('samples', [])
        cov['known_findings_reobserved'] = [k for k, _, _ in known_seen]
        cov['violation_keys'] = [k for k, _ in new]
        ev = dict(property_id=self.pid, tier=self.tier, seed=self.seed, level=self.level, coverage=cov,
                  assumptions=assumptions or [], wall_s=round(time.time() - self.t0, 2), violations=len(new))
        if shortfall:
            cov['inconclusive_after_violation'] = str(shortfall)[:500]
        try:
            _validate_evidence(ev, minimums=not shortfall)
            tmp = os.path.join(EVID, '.%s.json.tmp' % self.pid)
            json.dump(ev, open(tmp, 'w'), indent=1, default=str)
            os.replace(tmp, os.path.join(EVID, '%s.json' % self.pid))
        except Exception:
            if not (shortfall and new):
                raise
            # too little was observed for an evidence file; the witnessed violations are still reported below
        seen = set()
        for key, k, v in known_seen:
            if k['key'] in seen:
                continue
            seen.add(k['key'])
            print('KNOWN-FINDING: property=%s %s [%s]' % (self.pid, k.get('what', ''), k['key']))
        for key, v in new:
            p = self._write_replay(key, v)
            print('VIOLATION property=%s replay=%s' % (self.pid, p))
            print('  key=%s  %s  witness=%s  (x%d)' % (key, v['what'], json.dumps(v['witness'], default=str)[:400], v['count']))
        print('%s %s: %d evaluations, %d distinct non-trivial, %d new violation(s), %d known finding(s), %.1fs' % (
            self.pid, self.tier, cov.get('evaluations', 0), cov.get('distinct_nontrivial', 0), len(new), len(seen),
            time.time() - self.t0))
        sys.stdout.flush()
        return 1 if new else 0


def _validate_evidence(ev, minimums=True):
    c = ev['coverage']
    for k in ('evaluations', 'distinct_nontrivial', 'rule', 'samples'):
        if k not in c:
            raise Inconclusive('evidence lacks ' + k)
    if not minimums:
        return _schema(ev)
    if not isinstance(c['evaluations'], int) or c['evaluations'] < 1:
        raise Inconclusive('nothing was evaluated')
    if not isinstance(c['distinct_nontrivial'], int) or c['distinct_nontrivial'] < 2:
        raise Inconclusive('fewer than 2 distinct non-trivial cases were observed (%r)' % c['distinct_nontrivial'])
    if not c['samples']:
        raise Inconclusive('no samples recorded')
    _schema(ev)


def _schema(ev):
    try:
        import jsonschema
        sch = json.load(open('/root/.vp/EVIDENCE.schema.json'))
        jsonschema.validate(json.loads(json.dumps(ev, default=str)), sch)
    except ImportError:
        pass
    except FileNotFoundError:
        pass


def scratch(prefix='xv-'):
    return tempfile.mkdtemp(prefix=prefix)


def run_main(fn):
    """wrap a check main: Inconclusive / unexpected exceptions -> exit 2"""
    from . import build
    import signal
    # wall-clock watchdog around the whole check (generous: an hour for the quick tier, eight for the thorough one): its firing is a
    # harness matter (exit 2, inconclusive), never a verdict
    def _alarm(signum, frame):
        raise Inconclusive('watchdog: the check did not finish within its wall-clock budget')
    try:
        signal.signal(signal.SIGALRM, _alarm)
        signal.alarm(8 * 3600 if '--tier' in sys.argv and 'thorough' in sys.argv else 3600)
    except (ValueError, OSError):
        pass
    try:
        rc = fn()
    except Inconclusive as e:
        ck = CURRENT
        if ck is not None and ck.new_violations():
            # violations that were witnessed stay violations; only a verdict of 'held' needs the coverage that was missed
            print('NOTE: run ended inconclusive (%s) after violations had been witnessed; reporting them' % e)
            rc = ck.finish(dict(evaluations=max(1, sum(v['count'] for v in ck.viol.values())), distinct_nontrivial=len(ck.viol),
                                rule='witnessed violations of a run that ended inconclusive', samples=[str(k) for k in list(ck.viol)[:5]]),
                           shortfall=e)
            sys.exit(rc)
        print('INCONCLUSIVE: %s' % e)
        sys.exit(2)
    except build.BuildError as e:
        print('INCONCLUSIVE (build failed): %s' % e)
        sys.exit(2)
    except Exception:
        # an unexpected failure of the machinery itself is never a verdict on the property
        import traceback
        traceback.print_exc()
        print('INCONCLUSIVE (harness failure, see traceback)')
        sys.exit(2)
    sys.exit(rc)
