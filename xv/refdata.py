"""INDEPENDENT parsers of the shipped data files (and of the regenerated Kissel table).

Nothing here shares code with src/xrayfiles.c / src/pr_data.c: the oracles compare what the built
library returns with what these parsers read from the same files.
"""
import os, re
import numpy as np
from . import build

DATA = os.path.join(build.REPO, 'data')

SHELLS_K = ['K', 'L1', 'L2', 'L3', 'M1', 'M2', 'M3', 'M4', 'M5', 'N1', 'N2', 'N3', 'N4', 'N5', 'N6', 'N7',
            'O1', 'O2', 'O3', 'O4', 'O5', 'O6', 'O7', 'P1', 'P2', 'P3', 'P4', 'P5', 'Q1', 'Q2', 'Q3']


def rnd(v):
    """the value as the build preserves it ('%.10E')"""
    return float('%.10E' % v)


def triples(fn, scale=1.0):
    """files of 'Z NAME value' records -> {(Z, NAME): value}; the last record for a key wins"""
    d = {}
    for l in open(os.path.join(DATA, fn)):
        p = l.split()
        if len(p) == 3:
            try:
                d[(int(p[0]), p[1])] = float(p[2]) * scale
            except ValueError:
                pass
    return d


def pairs(fn):
    d = {}
    for l in open(os.path.join(DATA, fn)):
        p = l.split()
        if len(p) >= 2:
            try:
                d[int(p[0])] = float(p[1])
            except ValueError:
                pass
    return d


def spline_blocks(fn, header=False):
    """'N' followed by N rows (x, y, y2), one block per element starting at Z=1 -> {Z: array(N,3)}"""
    toks = open(os.path.join(DATA, fn)).read().split()
    i = 1 if header else 0
    out, Z = {}, 1
    while i < len(toks):
        n = int(toks[i]); i += 1
        a = np.array([float(x) for x in toks[i:i + 3 * n]]).reshape(n, 3)
        i += 3 * n
        out[Z] = a
        Z += 1
    return out


def compton():
    """comptonprofiles.dat -> {Z: dict(nshells, occ[], pz[], total[], total2[], partial{shell:(y[], y2[])})}"""
    toks = open(os.path.join(DATA, 'comptonprofiles.dat')).read().split()
    i, out, Z = 0, {}, 1
    while i < len(toks):
        ns, npz = int(toks[i]), int(toks[i + 1]); i += 2
        def take(n):
            nonlocal i
            a = np.array([float(x) for x in toks[i:i + n]]); i += n
            return a
        occ = take(ns); pz = take(npz); tot = take(npz); tot2 = take(npz)
        part, part2 = {}, {}
        for s in range(ns):
            if occ[s] > 0:
                part[s] = take(npz)
        for s in range(ns):
            if occ[s] > 0:
                part2[s] = take(npz)
        out[Z] = dict(nshells=ns, occ=occ, pz=pz, total=tot, total2=tot2,
                      partial={s: (part[s], part2[s]) for s in part})
        Z += 1
    return out


def kissel(config):
    """kissel_pe.dat of the given data configuration -> {Z: dict(total(N,3), config[31], partial{shell:(edge, arr(N,3))})}"""
    path = build.kissel_path(config)
    toks = open(path).read().split()
    i, out, Z = 0, {}, 1
    while i < len(toks) and Z <= 120:
        n = int(toks[i]); i += 1
        tot = np.array([float(x) for x in toks[i:i + 3 * n]]).reshape(n, 3); i += 3 * n
        cfg = np.array([float(x) for x in toks[i:i + 31]]); i += 31
        part = {}
        for s in range(31):
            m = int(toks[i]); i += 1
            if m == 0:
                continue
            edge = float(toks[i]); i += 1
            part[s] = (edge, np.array([float(x) for x in toks[i:i + 3 * m]]).reshape(m, 3)); i += 3 * m
        out[Z] = dict(total=tot, config=cfg, partial=part)
        Z += 1
    return out


def auger_raw():
    d = {}
    for l in open(os.path.join(DATA, 'auger_rates.dat')):
        p = l.split()
        if len(p) == 3:
            d.setdefault(int(p[0]), {})[p[1]] = float(p[2])
    return d


class Macros:
    """values of the public macros as the *compiler* sees them (compiled probe), grouped by suffix"""

    def __init__(self):
        self.all = {k: v for k, v in build.macros().items()}
        self.int = {k: int(v) for k, v in self.all.items() if float(v).is_integer()}

    def by_suffix(self, suffix):
        return {k[:-len(suffix)]: v for k, v in self.int.items() if k.endswith(suffix)}

    def __getitem__(self, k):
        return self.all[k]


# ------------------------------------------------------------------------------------------------------------
# Reference knowledge that is NOT taken from the tree under observation
# ------------------------------------------------------------------------------------------------------------
# Siegbahn -> IUPAC correspondence of the X-ray diagram lines (IUPAC nomenclature, Jenkins, Manne, Robin, Senemaud, X-Ray Spectrom. 20
# (1991) 149, table 1; 'L3O45' / 'L3N6' are the members xraylib publishes for the unresolved pairs L3-O4,5 and L3-N6,7).
SIEGBAHN = dict(KA1='KL3', KA2='KL2', KA3='KL1', KB1='KM3', KB2='KN3', KB3='KM2', KB4='KN5', KB5='KM5',
                LA1='L3M5', LA2='L3M4', LB1='L2M4', LB2='L3N5', LB3='L1M3', LB4='L1M2', LB5='L3O45', LB6='L3N1', LB7='L3O1', LB9='L1M5',
                LB10='L1M4', LB15='L3N4', LB17='L2M3', LG1='L2N4', LG2='L1N2', LG3='L1N3', LG4='L1O3', LG5='L2N1', LG6='L2O4', LG8='L2O1',
                LE='L2M1', LH='L2M1', LL='L3M1', LS='L3M3', LT='L3M2', LU='L3N6', LV='L2N6', MA1='M5N7', MA2='M5N6', MB='M4N6', MG='M3N5')

# CODATA 2010 values in the units of the public header (mol-1 barn-1 cm2; keV Angstrom; keV; barn; m): the constants the header documents
CONSTANTS = dict(AVOGNUM=0.602214129, KEV2ANGST=12.39841930, MEC2=510.998928, RE2=0.079407877, R_E=2.8179403267e-15,
                 PI=3.14159265358979323846)
