"""INDEPENDENT parsers of the shipped data files (and of the regenerated Kissel table).

Nothing here shares code with src/xrayfiles.c / src/pr_data.c: the oracles compare what the built
library returns with what these parsers read from the same files.
"""
import os, re
import numpy as np
from . import build

DATA = os.path.join(build.REPO, 'data')

SHELLS_K = ['K', 'L1', 'L2', 'L3', 'M1', 'M2', 'M3', 'M4', 'M5', 'N1', 'N2', 'N3', 'N4', 'N5', 'N6', 'N7',
            'O1', 'O2', 'O3', 'O4', 'O5', 'O6', 'O7', 'P1', 'P2', 'P3', 'P4', 'P5', 'Q1', 'Q2', 'Q3']


def rnd(v):
    """the value as the build preserves it ('%.10E')"""
    return float('%.10E' % v)


def triples(fn, scale=1.0):
    """files of 'Z NAME value' records -> {(Z, NAME): value}; the last record for a key wins"""
    d = {}
    for l in open(os.path.join(DATA, fn)):
        p = l.split()
        if len(p) == 3:
            try:
                d[(int(p[0]), p[1])] = float(p[2]) * scale
            except ValueError:
                pass
    return d


def pairs(fn):
    d = {}
    for l in open(os.path.join(DATA, fn)):
        p = l.split()
        if len(p) >= 2:
            try:
                d[int(p[0])] = float(p[1])
            except ValueError:
                pass
    return d


def spline_blocks(fn, header=False):
    """'N' followed by N rows (x, y, y2), one block per element starting at Z=1 -> {Z: array(N,3)}"""
    toks = open(os.path.join(DATA, fn)).read().split()
    i = 1 if header else 0
    out, Z = {}, 1
    while i < len(toks):
        n = int(toks[i]); i += 1
        a = np.array([float(x) for x in toks[i:i + 3 * n]]).reshape(n, 3)
        i += 3 * n
        out[Z] = a
        Z += 1
    return out


def compton():
    """comptonprofiles.dat -> {Z: dict(nshells, occ[], pz[], total[], total2[], partial{shell:(y[], y2[])})}"""
    toks = open(os.path.join(DATA, 'comptonprofiles.dat')).read().split()
    i, out, Z = 0, {}, 1
    while i < len(toks):
        ns, npz = int(toks[i]), int(toks[i + 1]); i += 2
        def take(n):
            nonlocal i
            a = np.array([float(x) for x in toks[i:i + n]]); i += n
            return a
        occ = take(ns); pz = take(npz); tot = take(npz); tot2 = take(npz)
        part, part2 = {}, {}
        for s in range(ns):
            if occ[s] > 0:
                part[s] = take(npz)
        for s in range(ns):
            if occ[s] > 0:
                part2[s] = take(npz)
        out[Z] = dict(nshells=ns, occ=occ, pz=pz, total=tot, total2=tot2,
                      partial={s: (part[s], part2[s]) for s in part})
        Z += 1
    return out


def kissel(config):
    """kissel_pe.dat of the given data configuration -> {Z: dict(total(N,3), config[31], partial{shell:(edge, arr(N,3))})}"""
    path = build.kissel_path(config)
    toks = open(path).read().split()
    i, out, Z = 0, {}, 1
    while i < len(toks) and Z <= 120:
        n = int(toks[i]); i += 1
        tot = np.array([float(x) for x in toks[i:i + 3 * n]]).reshape(n, 3); i += 3 * n
        cfg = np.array([float(x) for x in toks[i:i + 31]]); i += 31
        part = {}
        for s in range(31):
            m = int(toks[i]); i += 1
            if m == 0:
                continue
            edge = float(toks[i]); i += 1
            part[s] = (edge, np.array([float(x) for x in toks[i:i + 3 * m]]).reshape(m, 3)); i += 3 * m
        out[Z] = dict(total=tot, config=cfg, partial=part)
        Z += 1
    return out


def auger_raw():
    d = {}
    for l in open(os.path.join(DATA, 'auger_rates.dat')):
        p = l.split()
        if len(p) == 3:
            d.setdefault(int(p[0]), {})[p[1]] = float(p[2])
    return d


class Macros:
    """values of the public macros as the *compiler* sees them (compiled probe), grouped by suffix"""

    def __init__(self):
        self.all = {k: v for k, v in build.macros().items()}
        self.int = {k: int(v) for k, v in self.all.items() if float(v).is_integer()}

    def by_suffix(self, suffix):
        return {k[:-len(suffix)]: v for k, v in self.int.items() if k.endswith(suffix)}

    def __getitem__(self, k):
        return self.all[k]


# ------------------------------------------------------------------------------------------------------------
# Reference knowledge that is NOT taken from the tree under observation
# ------------------------------------------------------------------------------------------------------------
# Siegbahn -> IUPAC correspondence of the X-ray diagram lines (IUPAC nomenclature, Jenkins, Manne, Robin, Senemaud, X-Ray Spectrom. 20
# (1991) 149, table 1; 'L3O45' / 'L3N6' are the members xraylib publishes for the unresolved pairs L3-O4,5 and L3-N6,7).
SIEGBAHN = dict(KA1='KL3', KA2='KL2', KA3='KL1', KB1='KM3', KB2='KN3', KB3='KM2', KB4='KN5', KB5='KM5',
                LA1='L3M5', LA2='L3M4', LB1='L2M4', LB2='L3N5', LB3='L1M3', LB4='L1M2', LB5='L3O45', LB6='L3N1', LB7='L3O1', LB9='L1M5',
                LB10='L1M4', LB15='L3N4', LB17='L2M3', LG1='L2N4', LG2='L1N2', LG3='L1N3', LG4='L1O3', LG5='L2N1', LG6='L2O4', LG8='L2O1',
                LE='L2M1', LH='L2M1', LL='L3M1', LS='L3M3', LT='L3M2', LU='L3N6', LV='L2N6', MA1='M5N7', MA2='M5N6', MB='M4N6', MG='M3N5')

# CODATA 2010 values in the units of the public header (mol-1 barn-1 cm2; keV Angstrom; keV; barn; m): the constants the header documents
CONSTANTS = dict(AVOGNUM=0.602214129, KEV2ANGST=12.39841930, MEC2=510.998928, RE2=0.079407877, R_E=2.8179403267e-15,
                 PI=3.14159265358979323846)

# Stoichiometric formulas of the NIST catalogue entries that ARE pure chemical compounds or polymers with an unambiguous repeat unit
# (chemistry, not taken from the tree; names as the catalogue spells them).  Mixtures, tissues, glasses and four entries whose NIST
# composition is known to deviate from the textbook formula (Terphenyl, Polychlorostyrene, Polyvinyl Butyral, Cellulose Nitrate) are left out.
NIST_FORMULAS = {'Acetone': 'C3H6O', 'Acetylene': 'C2H2', 'Adenine': 'C5H5N5', 'Alanine': 'C3H7NO2', 'Aluminum Oxide': 'Al2O3', 'Ammonia': 'NH3', 'Aniline': 'C6H7N', 'Anthracene': 'C14H10', 'Barium Fluoride': 'BaF2', 'Barium Sulfate': 'BaSO4', 'Benzene': 'C6H6', 'Beryllium oxide': 'BeO', 'Bismuth Germanium oxide': 'Bi4Ge3O12', 'Boron Carbide': 'B4C', 'Boron Oxide': 'B2O3', 'Butane': 'C4H10', 'N-Butyl Alcohol': 'C4H10O', 'Cadmium Telluride': 'CdTe', 'Cadmium Tungstate': 'CdWO4', 'Calcium Carbonate': 'CaCO3', 'Calcium Fluoride': 'CaF2', 'Calcium Oxide': 'CaO', 'Calcium Sulfate': 'CaSO4', 'Calcium Tungstate': 'CaWO4', 'Carbon Dioxide': 'CO2', 'Carbon Tetrachloride': 'CCl4', 'Cesium Fluoride': 'CsF', 'Cesium Iodide': 'CsI', 'Chlorobenzene': 'C6H5Cl', 'Chloroform': 'CHCl3', 'Cyclohexane': 'C6H12', '1,2-Ddihlorobenzene': 'C6H4Cl2', 'Dichlorodiethyl Ether': 'C4H8Cl2O', '1,2-Dichloroethane': 'C2H4Cl2', 'Diethyl Ether': 'C4H10O', 'N,N-Dimethyl Formamide': 'C3H7NO', 'Dimethyl Sulfoxide': 'C2H6OS', 'Ethane': 'C2H6', 'Ethyl Alcohol': 'C2H6O', 'Ethylene': 'C2H4', 'Ferric Oxide': 'Fe2O3', 'Ferroboride': 'FeB', 'Ferrous Oxide': 'FeO', 'Freon-12': 'CCl2F2', 'Freon-12B2': 'CBr2F2', 'Freon-13': 'CClF3', 'Freon-13B1': 'CBrF3', 'Freon-13I1': 'CF3I', 'Gadolinium Oxysulfide': 'Gd2O2S', 'Gallium Arsenide': 'GaAs', 'Glucose': 'C6H14O7', 'Glutamine': 'C5H10N2O3', 'Glycerol': 'C3H8O3', 'Guanine': 'C5H5N5O', 'Gypsum, Plaster of Paris': 'CaSO6H4', 'N-Heptane': 'C7H16', 'N-Hexane': 'C6H14', 'Lanthanum Oxybromide': 'LaOBr', 'Lanthanum Oxysulfide': 'La2O2S', 'Lead Oxide': 'PbO', 'Lithium Amide': 'LiNH2', 'Lithium Carbonate': 'Li2CO3', 'Lithium Fluoride': 'LiF', 'Lithium Hydride': 'LiH', 'Lithium Iodide': 'LiI', 'Lithium Oxide': 'Li2O', 'Lithium Tetraborate': 'Li2B4O7', 'Magnesium Carbonate': 'MgCO3', 'Magnesium Fluoride': 'MgF2', 'Magnesium Oxide': 'MgO', 'Magnesium Tetraborate': 'MgB4O7', 'Mercuric Iodide': 'HgI2', 'Methane': 'CH4', 'Methanol': 'CH4O', 'Naphthalene': 'C10H8', 'Nitrobenzene': 'C6H5NO2', 'Nitrous Oxide': 'N2O', 'Octane, Liquid': 'C8H18', 'N-Pentane': 'C5H12', 'Polyethylene': 'CH2', 'Polypropylene': 'C3H6', 'Polystyrene': 'C8H8', 'Polytetrafluoroethylene (Teflon)': 'C2F4', 'Polyvinyl Chloride': 'C2H3Cl', 'Polyoxymethylene': 'CH2O', 'Polyacrylonitrile': 'C3H3N', 'Polyvinyl Alcohol': 'C2H4O', 'Polyvinylidene Fluoride': 'C2H2F2', 'Polyvinylidene Chloride, Saran': 'C2H2Cl2', 'Polyvinyl Acetate': 'C4H6O2', 'Polyethylene Terephthalate (Mylar)': 'C10H8O4', 'Polymethyl Methacralate (Lucite, Perspex)': 'C5H8O2', 'Polycarbonate (Makrolon, Lexan)': 'C16H14O3', 'Kapton Polyimide Film': 'C22H10N2O5', 'Potassium Iodide': 'KI', 'Potassium Oxide': 'K2O', 'Propane': 'C3H8', 'Propane, Liquid': 'C3H8', 'N-Propyl Alcohol': 'C3H8O', 'Pyridine': 'C5H5N', 'Silicon Dioxide': 'SiO2', 'Silver Bromide': 'AgBr', 'Silver Chloride': 'AgCl', 'Silver Iodide': 'AgI', 'Sodium Carbonate': 'Na2CO3', 'Sodium Iodide': 'NaI', 'Sodium Monoxide': 'Na2O', 'Sodium Nitrate': 'NaNO3', 'Stilbene': 'C14H12', 'Sucrose': 'C12H22O11', 'Tetrachloroethylene': 'C2Cl4', 'Thallium Chloride': 'TlCl', 'Titanium Dioxide': 'TiO2', 'Toluene': 'C7H8', 'Trichloroethylene': 'C2HCl3', 'Triethyl Phosphate': 'C6H15O4P', 'Tungsten Hexafluoride': 'WF6', 'Uranium Dicarbide': 'UC2', 'Uranium Monocarbide': 'UC', 'Uranium Oxide': 'UO2', 'Urea': 'CH4N2O', 'Valine': 'C5H11NO2', 'Water, Liquid': 'H2O', 'Water Vapor': 'H2O', 'Xylene': 'C8H10', 'Plutonium Dioxide': 'PuO2', 'Polytrifluorochloroethylene': 'C2F3Cl', 'Polyvinyl Pyrrolidone': 'C6H9NO', 'Rubber, Natural': 'C5H8', 'Rubber, Butyl': 'C4H8', 'Rubber, Neoprene': 'C4H5Cl', 'Nylon, type 6 and type 6/6': 'C6H11NO', 'Nylon, type 11 (Rilsan)': 'C11H21NO', 'Nylon, type 6/10': 'C16H30N2O2'}


# Decay modes of the catalogue's radionuclides (nuclear physics, not taken from the tree): the X-rays a source emits are those of the DAUGHTER element -
# electron capture Z-1, beta-minus Z+1, alpha Z-2.  Used by C15 to tie the field Z_xray to the nuclide it is stored under.
NUCLIDE_DECAY = {'55Fe': ('EC', -1), '57Co': ('EC', -1), '109Cd': ('EC', -1), '125I': ('EC', -1), '137Cs': ('beta-', +1), '133Ba': ('EC', -1), '153Gd': ('EC', -1),
                 '238Pu': ('alpha', -2), '241Am': ('alpha', -2), '244Cm': ('alpha', -2)}
