"""Tables read from the SOURCE text of the tree (not through the library): what the catalogue was generated from.
They serve as the reference for "a catalogue entry supplies its own tabulated value": the value the API hands out must be the
value written in the table, bit for bit (a literal narrowed, rounded or re-derived on the way out is not the tabulated value).
Every reader returns {} when the text is not in the format it knows, and the caller then records that nothing was compared."""
import os, re
from . import build


def nist_compounds(repo=None):
    """name -> dict(index, density, Elements, massFractions) from src/xraylib-nist-compounds-internal.h"""
    p = os.path.join(repo or build.REPO, 'src', 'xraylib-nist-compounds-internal.h')
    try:
        s = open(p, encoding='latin1').read()
    except OSError:
        return {}
    ints = {m.group(1): [int(x) for x in m.group(2).split(',')] for m in re.finditer(r'(__CompoundDataNISTList_Elements_\d+)\[\]\s*=\s*\{([^}]*)\}', s)}
    dbls = {m.group(1): [float(x) for x in m.group(2).split(',')] for m in re.finditer(r'(__CompoundDataNISTList_massFractions_\d+)\[\]\s*=\s*\{([^}]*)\}', s)}
    out = {}
    for k, m in enumerate(re.finditer(r'\{\s*"((?:[^"\\]|\\.)*)"\s*,\s*(\d+)\s*,\s*(\w+)\s*,\s*(\w+)\s*,\s*([-+0-9.eE]+)\s*\}', s)):
        nm, n, e, w, d = m.groups()
        if e not in ints or w not in dbls or len(ints[e]) != int(n) or len(dbls[w]) != int(n):
            return {}
        out[nm] = dict(index=k, density=float(d), Elements=ints[e], massFractions=dbls[w])
    return out if len(out) >= 20 else {}


def crystals(repo=None):
    """name -> dict(cell=[a, b, c, alpha, beta, gamma], atoms=[(Z, occupancy, x, y, z), ...]) from data/Crystals.dat (SPEC-like text)"""
    p = os.path.join(repo or build.REPO, 'data', 'Crystals.dat')
    try:
        lines = open(p, encoding='latin1').read().split('\n')
    except OSError:
        return {}
    out, cur = {}, None
    for l in lines:
        if l.startswith('#S'):
            t = l.split()
            if len(t) < 3:
                return {}
            cur = out[t[2]] = dict(cell=None, atoms=[])
        elif l.startswith('#EOF'):
            cur = None
        elif cur is None:
            continue
        elif l.startswith('#UCELL'):
            try:
                cur['cell'] = [float(x) for x in l.split()[1:7]]
            except ValueError:
                return {}
        elif l.startswith('#') or not l.strip():
            continue
        else:
            t = l.split()
            try:
                cur['atoms'].append((int(t[0]),) + tuple(float(x) for x in t[1:5]))
            except (ValueError, IndexError):
                return {}
    if any(c['cell'] is None or len(c['cell']) != 6 or any(len(a) != 5 for a in c['atoms']) for c in out.values()):
        return {}
    return out if len(out) >= 5 else {}
