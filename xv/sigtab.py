"""Generates the dispatch table of the monitors from the prototypes in the public headers.

Numeric entry points  (double f([int|double|const char*]..., xrl_error**))  get one generated
`case` each; everything else is listed as `special` and must be handled by hand in the monitor
(an unclassifiable prototype is a harness failure, not a pass).
"""
import os, re, json, glob

# result classes
ANY, NONNEG, POSITIVE = 0, 1, 2

# names of numeric functions whose result is not a strictly positive quantity
_ANY = {'Fi', 'Fii', 'Refractive_Index_Re'}
_NONNEG_PAT = [r'^DCSP', r'^DCS_(Rayl|Compt)', r'^DCSb_(Rayl|Compt)', r'^SF_Compt$', r'^MomentTransf$',
               r'^P[KLM]\d?_.*_kissel$', r'^FF_Rayl$']

# exported but not declared in a public header (prototype is in the .c file)
EXTRA_PROTOS = [
    ('comptonprofiles.c', 'double ElectronConfig_Biggs(int Z, int shell, xrl_error **error)'),
]

# non-numeric API: handled by hand-written code in the monitors
SPECIAL = {
    'xrl_strdup', 'xrl_strndup', 'xrl_malloc', 'Crystal_ArrayInit', 'Crystal_ArrayFree', 'Crystal_MakeCopy',
    'Crystal_Free', 'Crystal_GetCrystal', 'Bragg_angle', 'Q_scattering_amplitude', 'Atomic_Factors',
    'Crystal_F_H_StructureFactor', 'Crystal_F_H_StructureFactor_Partial', 'Crystal_UnitCellVolume',
    'Crystal_dSpacing', 'Crystal_AddCrystal', 'Crystal_ReadFile', 'Crystal_GetCrystalsList', 'c_abs', 'c_mul',
    'SetHardExit', 'SetExitStatus', 'GetExitStatus', 'SetErrorMessages', 'GetErrorMessages',
    'xrl_error_free', 'xrl_error_copy', 'xrl_error_matches', 'xrl_propagate_error', 'xrl_clear_error',
    'GetCompoundDataNISTByName', 'GetCompoundDataNISTByIndex', 'GetCompoundDataNISTList', 'FreeCompoundDataNIST',
    'FreeCompoundData', 'CompoundParser', 'add_compound_data', 'AtomicNumberToSymbol', 'SymbolToAtomicNumber',
    'xrlFree', 'GetRadioNuclideDataByName', 'GetRadioNuclideDataByIndex', 'GetRadioNuclideDataList',
    'FreeRadioNuclideData', 'XRayInit', 'Refractive_Index',
}


def _strip(t):
    t = re.sub(r'/\*.*?\*/', '', t, flags=re.S)
    t = re.sub(r'//[^\n]*', '', t)
    t = re.sub(r'^[ \t]*#.*$', '', t, flags=re.M)
    return t


def parse_protos(repo):
    out = []
    hdrs = sorted(glob.glob(os.path.join(repo, 'include', '*.h'))) + [os.path.join(repo, 'src', 'xrf_cross_sections_aux.h')]
    for h in hdrs:
        if os.path.basename(h) == 'lines_old.h':
            continue
        t = _strip(open(h).read())
        # a prototype may carry attribute macros / __attribute__((...)) between its ')' and the ';' (they stay in force for the monitor, which
        # includes the header; they are not part of the classified signature)
        for m in re.finditer(r'\b(?:XRL_EXTERN|XRL_DEPRECATED)\s+([^;{}]+?\))((?:\s+[A-Z_][A-Z0-9_]*|\s*__attribute__\s*\(\([^;]*?\)\))*)\s*;', t, flags=re.S):
            out.append((os.path.basename(h), ' '.join(m.group(1).split())))
    out += EXTRA_PROTOS
    return out


def classify(proto):
    m = re.match(r'^(.*?)([A-Za-z_][A-Za-z0-9_]*)\s*\((.*)\)$', proto)
    if not m:
        return None
    ret, name, args = m.group(1).strip(), m.group(2), m.group(3).strip()
    argl = [a.strip() for a in args.split(',')] if args and args != 'void' else []
    if ret != 'double' or not argl or not re.match(r'^xrl_error\s*\*\*\s*\w+$', argl[-1]):
        return dict(name=name, ret=ret, args=argl, sig=None)
    sig, names = '', []
    for a in argl[:-1]:
        mm = re.match(r'^(?:const\s+)?(?:unsigned\s+|signed\s+)?(?:int|short|long|unsigned|char)\s+(\w+)$', a)      # any integer type: driven with the same ints
        if mm:
            sig += 'i'; names.append(mm.group(1)); continue
        mm = re.match(r'^(?:const\s+)?(?:double|float|long\s+double)\s+(\w+)$', a)      # narrower / wider floating types are driven with the same doubles
        if mm:
            sig += 'd'; names.append(mm.group(1)); continue
        mm = re.match(r'^const\s+char\s*(?:\*\s*(\w+)|(\w+)\s*\[\s*\])$', a)
        if mm:
            sig += 's'; names.append(mm.group(1) or mm.group(2)); continue
        return dict(name=name, ret=ret, args=argl, sig=None)
    return dict(name=name, ret=ret, args=argl, sig=sig, argnames=names)


def rclass(name):
    if name in _ANY:
        return ANY
    for p in _NONNEG_PAT:
        if re.search(p, name):
            return NONNEG
    return POSITIVE


def generate(repo, outdir):
    protos = parse_protos(repo)
    fns, special, declared, bad = [], [], [], []
    seen = set()
    for hdr, p in protos:
        c = classify(p)
        if c is None:
            bad.append(p); continue
        if c['name'] in seen:
            continue
        seen.add(c['name'])
        declared.append(dict(name=c['name'], header=hdr, proto=p))
        if c['sig'] is not None and c['name'] not in SPECIAL:
            if c['sig'].count('s') > 1 or len(c['sig'].replace('s', '').replace('d', '')) > 3 or c['sig'].count('d') > 12:
                bad.append(p); continue
            c['rclass'] = rclass(c['name'])
            c['header'] = hdr
            fns.append(c)
        elif c['name'] in SPECIAL:
            special.append(c['name'])
        else:
            bad.append(p)
    if bad:
        raise RuntimeError('sigtab: prototypes that cannot be classified (harness must be extended): %r' % bad)
    lines = ['/* generated by xv/sigtab.py - do not edit */', '#ifndef XV_SIGTAB_H', '#define XV_SIGTAB_H',
             '#include "xraylib.h"', '#include "xrf_cross_sections_aux.h"',
             'XRL_EXTERN double ElectronConfig_Biggs(int Z, int shell, xrl_error **error);',
             'typedef struct { const char *name; const char *sig; const char *argnames; int rclass; } xv_fn;',
             '#define XV_NFN %d' % len(fns), 'static const xv_fn XV_FN[XV_NFN] = {']
    for f in fns:
        lines.append('  {"%s", "%s", "%s", %d},' % (f['name'], f['sig'], ','.join(f['argnames']), f['rclass']))
    lines.append('};')
    lines.append('static double xv_call(int id, const int *I, const double *D, const char *S, xrl_error **e) {')
    lines.append('  switch (id) {')
    for k, f in enumerate(fns):
        ii = dd = 0
        al = []
        for ch in f['sig']:
            if ch == 'i':
                al.append('I[%d]' % ii); ii += 1
            elif ch == 'd':
                al.append('D[%d]' % dd); dd += 1
            else:
                al.append('S')
        lines.append('  case %d: return %s(%s);' % (k, f['name'], ', '.join(al + ['e'])))
    lines.append('  default: return 0.0;')
    lines.append('  }')
    lines.append('}')
    # the same calls written the way user code writes them: a direct call with the address of a LOCAL error slot that is tested right
    # afterwards, compiled with optimisation against the public header (what the header promises about a function - attributes, types -
    # is then what the optimiser believes).  *st: 1 = the caller saw an error.
    for k, f in enumerate(fns):
        ii = dd = 0
        al = []
        for ch in f['sig']:
            if ch == 'i':
                al.append('I[%d]' % ii); ii += 1
            elif ch == 'd':
                al.append('D[%d]' % dd); dd += 1
            else:
                al.append('S')
        lines.append('static double xvd_%d(const int *I, const double *D, const char *S, int *st) { xrl_error *e = NULL; double v = %s(%s); (void)I; (void)D; (void)S; if (e != NULL) { *st = 1; xrl_error_free(e); } return v; }' % (
            k, f['name'], ', '.join(al + ['&e'])))
    lines.append('typedef double (*xvd_fn)(const int *, const double *, const char *, int *);')
    lines.append('static const xvd_fn XV_DIRECT[XV_NFN] __attribute__((unused)) = {' + ', '.join('xvd_%d' % k for k in range(len(fns))) + '};')
    lines.append('#endif')
    open(os.path.join(outdir, 'sigtab.h'), 'w').write('\n'.join(lines) + '\n')
    for k, f in enumerate(fns):
        f['id'] = k
    json.dump(dict(fns=fns, special=sorted(special), declared=declared), open(os.path.join(outdir, 'sigtab.json'), 'w'), indent=1)
    return fns


if __name__ == '__main__':
    import sys
    f = generate(sys.argv[1], sys.argv[2])
    print(len(f), 'numeric functions')
