"""Driver of `xrlmon sweep` (C03 contract sweep, C04 sanitizer sweep): shards, crash handling, parsing."""
import os, re, json, subprocess, shutil, signal, time
from concurrent.futures import ThreadPoolExecutor
from . import build
from .common import NCPU, scratch, Inconclusive

ASAN_ENV = ('abort_on_error=0:halt_on_error=1:detect_leaks=1:allocator_may_return_null=1:'
            'detect_stack_use_after_return=0:malloc_context_size=12:exitcode=99:max_allocation_size_mb=2048')   # a request of tens of GB is refused at once (the library reports MEMORY) instead of mapping shadow for it
UBSAN_ENV = 'print_stacktrace=1:halt_on_error=1:exitcode=98'


def san_env(logbase):
    e = dict(os.environ)
    e['ASAN_OPTIONS'] = ASAN_ENV + ':log_path=' + logbase
    e['UBSAN_OPTIONS'] = UBSAN_ENV + ':log_path=' + logbase
    e['LSAN_OPTIONS'] = 'exitcode=97:print_suppressions=0'
    return e


_REPO_FRAME = re.compile(r'#\d+ 0x[0-9a-f]+ in (\S+) (' + re.escape(build.REPO) + r'/\S+|\S*xrayglob_inline\S*)')


def parse_san_logs(logbase, extra_files=()):
    """returns list of dict(kind, func, text) from sanitizer log files <logbase>.<pid> (+ captured stderr files:
    UBSan of a combined ASan+UBSan gcc build ignores log_path)"""
    out = []
    d, b = os.path.dirname(logbase), os.path.basename(logbase)
    files = [os.path.join(d, f) for f in sorted(os.listdir(d)) if f.startswith(b + '.')] + [f for f in extra_files if os.path.exists(f)]
    for f in files:
        t = open(f, errors='replace').read()
        for blk in re.split(r'(?m)^(?==+\d+==ERROR)|^(?=\S+:\d+:\d+: runtime error)', t):
            if not blk.strip():
                continue
            kind = None
            m = re.search(r'ERROR: (AddressSanitizer|LeakSanitizer): ([^\n]*)', blk)
            if m:
                if m.group(1) == 'LeakSanitizer':
                    kind = 'lsan:leak'
                else:
                    kind = 'asan:' + m.group(2).split(' on ')[0].split(':')[0].strip().replace(' ', '-')
                    kind = re.sub(r'-in-.*', '', kind)
                    kind = re.sub(r'-0x[0-9a-f]+.*', '', kind)
            else:
                m = re.search(r'runtime error: ([^\n]*)', blk)
                if m:
                    msg = re.sub(r'-?\d+', '#', m.group(1))
                    msg = re.sub(r'0x[0-9a-f]+', 'ADDR', msg)
                    kind = 'ubsan:' + re.sub(r"[^A-Za-z#_']+", '-', msg)[:70].strip('-')
            if not kind:
                continue
            if kind == 'lsan:leak':
                # one record per leak stack
                for lb in re.split(r'(?m)^(?=(?:Direct|Indirect) leak of)', blk):
                    if not lb.startswith(('Direct', 'Indirect')):
                        continue
                    fr = _REPO_FRAME.findall(lb)
                    func = fr[0][0] if fr else '?'
                    if lb.startswith('Direct') or fr:
                        out.append(dict(kind=kind, func=func, text=lb[:1500]))
                continue
            fr = _REPO_FRAME.findall(blk)
            func = fr[0][0] if fr else '?'
            out.append(dict(kind=kind, func=func, text=blk[:3000]))
    return out


def _run_shard(mon, work, shard, nshards, budget, flavour, extra, env_extra=None):
    """run one shard to completion, restarting past crashes; returns (records, crashes)"""
    crashes, skips = [], []
    for attempt in range(12):
        out = os.path.join(work, 's%d.a%d.json' % (shard, attempt))
        last = os.path.join(work, 's%d.last' % shard)
        logbase = os.path.join(work, 'san.s%d.a%d' % (shard, attempt))
        cmd = [mon, 'sweep', '--shard', '%d/%d' % (shard, nshards), '--budget', str(budget), '--out', out,
               '--lastcall', last] + list(extra)
        for s in skips:
            cmd += ['--skipfn', s]
        try:
            p = subprocess.run(cmd, env=dict(san_env(logbase), **(env_extra or {})), stdout=subprocess.PIPE, stderr=subprocess.STDOUT, timeout=3600)
        except subprocess.TimeoutExpired:
            crashes.append(dict(kind='watchdog', fn='?', witness='shard %d timed out' % shard, reports=[]))
            return [], crashes
        reports = parse_san_logs(logbase, [out + '.stderr']) if flavour != 'plain' else []
        if p.returncode == 0 and os.path.exists(out):
            recs = [json.loads(l) for l in open(out)]
            if reports:   # LSan at exit with rc 0 cannot happen (exitcode), but keep the information
                crashes.append(dict(kind='exit-report', fn='?', witness='', reports=reports))
            return recs, crashes
        if p.returncode == 2 and not reports:
            raise Inconclusive('monitor harness failure: ' + p.stdout.decode('utf8', 'replace')[-500:])
        # a crash / sanitizer abort: who was running?
        lc = subprocess.run([mon, 'lastcall', last], stdout=subprocess.PIPE).stdout.decode('utf8', 'replace').strip()
        fn, _, witness = lc.partition('\t')
        done = (fn == 'done')
        if p.returncode < 0:
            kind = 'signal:' + signal.Signals(-p.returncode).name
        else:
            kind = 'exit:%d' % p.returncode
        crashes.append(dict(kind=kind, fn=fn or '?', witness=witness, reports=reports,
                            tail=p.stdout.decode('utf8', 'replace')[-300:]))
        if done and os.path.exists(out):
            # only the exit-time leak report fired; results are complete
            return [json.loads(l) for l in open(out)], crashes
        if not fn or fn in skips or fn in ('domain-construction', 'special-pool-construction', 'done'):
            return [], crashes
        skips.append(fn)
    return [], crashes


def run(config, flavour, budget, extra=(), nshards=None, env=None):
    """returns dict(records=[...], crashes=[...], wall)"""
    t0 = time.time()
    mon = build.harness(config, flavour)
    nshards = nshards or NCPU
    work = scratch('xv-sweep-')
    try:
        with ThreadPoolExecutor(nshards) as ex:
            res = list(ex.map(lambda s: _run_shard(mon, work, s, nshards, budget, flavour, extra, env), range(nshards)))
    finally:
        shutil.rmtree(work, ignore_errors=True)
    records, crashes = [], []
    for r, c in res:
        records += r
        crashes += c
    return dict(records=records, crashes=crashes, wall=time.time() - t0, config=config, flavour=flavour, env=env or {})


def merge(results):
    """aggregate sweep records over shards/configs"""
    viol, paths, fns, tot = {}, {}, {}, dict(calls=0, ok=0, err=0, leakchecks=0)
    for res in results:
        cfg = res['config']
        for r in res['records']:
            t = r['type']
            if t == 'viol':
                k = (r['fn'], r['kind'], r['msg'])
                v = viol.setdefault(k, dict(count=0, witness=r['witness'], config=cfg))
                v['count'] += r['count']
            elif t == 'path':
                k = (r['fn'], r['code'], r['msg'])
                paths[k] = paths.get(k, 0) + r['count']
            elif t == 'fn':
                f = fns.setdefault(r['fn'], dict(calls=0, ok=0, err=0))
                for x in ('calls', 'ok', 'err'):
                    f[x] += r[x]
            elif t == 'summary':
                for x in tot:
                    tot[x] += r.get(x, 0)
    return viol, paths, fns, tot
