"""Batch executor front-end: numpy arrays in, numpy arrays out, through `xrlmon exec`.

    L = Lib('shipped')                       # plain flavour of the library built from the current tree
    r = L.call('CS_Total', Z, E)             # Z, E broadcastable arrays (ints/doubles in prototype order)
    r.ok (bool), r.v (float64), r.code, r.msg(i) -> message string
Strings: pass a list/array of python str/None for the 's' argument.
Special ids (objects, crystals on built-in names): L.special('Crystal_dSpacing', s=names, i=[h,k,l]) etc.
"""
import os, json, subprocess, shutil, tempfile
import numpy as np
from . import build
from .common import Inconclusive

REQ = np.dtype([('fn', '<i4'), ('i', '<i4', (6,)), ('s', '<i4'), ('d', '<f8', (10,))])
RESP = np.dtype([('status', '<i4'), ('code', '<i4'), ('v', '<f8', (3,)), ('msg', '<i4'), ('aux', '<i4')])
assert REQ.itemsize == 112 and RESP.itemsize == 40

SPECIAL = ['Refractive_Index', 'Crystal_dSpacing', 'Bragg_angle', 'Q_scattering_amplitude',
           'Crystal_F_H_StructureFactor', 'Crystal_F_H_StructureFactor_Partial', 'Crystal_UnitCellVolume',
           'Atomic_Factors', 'SymbolToAtomicNumber', 'CompoundParser_summary', 'NISTByName_summary',
           'NISTByIndex_summary', 'RadioByIndex_summary', 'RadioByName_summary', 'AtomicNumberToSymbol']
SPECIAL_ID = {n: 1000 + k for k, n in enumerate(SPECIAL)}


class Res:
    def __init__(self, resp, msgs):
        self.raw = resp
        self.status = resp['status']
        self.ok = (resp['status'] & 1) == 0
        self.err = ~self.ok
        self.v = resp['v'][:, 0]
        self.v3 = resp['v']
        self.code = resp['code']
        self.msgidx = resp['msg']
        self.aux = resp['aux']
        self.msgs = msgs

    def msg(self, k):
        m = int(self.msgidx[k])
        return self.msgs[m] if 0 <= m < len(self.msgs) else None

    def __len__(self):
        return len(self.raw)


class Lib:
    def __init__(self, config, flavour='plain', env=None, shuffle=True):
        self.config, self.flavour = config, flavour
        # requests are executed in a seeded random order (and un-permuted afterwards): the library claims to be a function of
        # its arguments alone, so any "last call" cache or scratch state turns into wrong values for the oracles instead of hiding
        # behind the regular order of their grids
        self.shuffle = shuffle
        self._nrun = 0
        self.mon = build.harness(config, flavour)
        st = json.load(open(os.path.join(build.sigtab(), 'sigtab.json')))
        self.fns = {f['name']: f for f in st['fns']}
        self.declared = st['declared']
        self.env = env
        self.calls = 0

    # ---- low level -------------------------------------------------------------------
    def run(self, req, strings=()):
        if len(req) == 0:
            return Res(np.zeros(0, RESP), [])
        perm = None
        if self.shuffle and len(req) > 2:
            from .common import seed
            self._nrun += 1
            perm = np.random.default_rng(seed() * 1000003 + self._nrun).permutation(len(req))
            req = req[perm]
        d = tempfile.mkdtemp(prefix='xv-exec-')
        try:
            rq, st, rs, ms = [os.path.join(d, x) for x in ('req', 'str', 'resp', 'msg')]
            req.tofile(rq)
            with open(st, 'wb') as f:
                for s in strings:
                    b = s if isinstance(s, bytes) else s.encode('utf8', 'surrogateescape')
                    if b'\0' in b:
                        raise ValueError('NUL inside string')
                    f.write(b + b'\0')
            env = dict(os.environ)
            if self.flavour != 'plain':
                from .sweeprun import san_env
                env = san_env(os.path.join(d, 'san'))
            if self.env:
                env.update(self.env)
            p = subprocess.run([self.mon, 'exec', rq, st, rs, ms], env=env, stdout=subprocess.PIPE, stderr=subprocess.STDOUT, timeout=3600)
            if p.returncode != 0:
                raise ExecCrash(p.returncode, p.stdout.decode('utf8', 'replace')[-2000:], d if self.flavour != 'plain' else None)
            resp = np.fromfile(rs, RESP)
            msgs = open(ms, encoding='latin1').read().split('\n')[:-1]      # byte-exact (messages may quote single bytes >= 0x80)
            if len(resp) != len(req):
                raise Inconclusive('executor returned %d responses for %d requests' % (len(resp), len(req)))
            if (resp['status'] & ~1).any():
                bad = np.nonzero(resp['status'] & ~1)[0][:3]
                raise Inconclusive('executor harness error (status %r) on request(s) %r' % (resp['status'][bad].tolist(), bad.tolist()))
            self.calls += len(req)
            if perm is not None:
                inv = np.empty_like(perm); inv[perm] = np.arange(len(perm))
                resp = resp[inv]
            return Res(resp, msgs)
        finally:
            shutil.rmtree(d, ignore_errors=True)

    # ---- request builders ------------------------------------------------------------
    def build(self, name, *args):
        """request array for one generated (numeric) function; args in prototype order, broadcast together."""
        f = self.fns[name]
        sig = f['sig']
        if len(args) != len(sig):
            raise TypeError('%s takes %d arguments (%s)' % (name, len(sig), ','.join(f['argnames'])))
        strings, sidx = [], None
        arrs = []
        for ch, a in zip(sig, args):
            if ch == 's':
                if isinstance(a, (str, bytes)) or a is None:
                    a = [a]
                a = list(a)
                idx = np.empty(len(a), 'i4')
                table = {}
                for k, s in enumerate(a):
                    if s is None:
                        idx[k] = -1
                    else:
                        if s not in table:
                            table[s] = len(strings); strings.append(s)
                        idx[k] = table[s]
                arrs.append(idx)
            else:
                arrs.append(np.asarray(a))
        b = np.broadcast_arrays(*arrs) if arrs else []
        n = b[0].size if b else 1
        req = np.zeros(n, REQ)
        req['fn'] = f['id']
        req['s'] = -1
        ii = dd = 0
        for ch, a in zip(sig, b):
            a = a.reshape(-1)
            if ch == 'i':
                req['i'][:, ii] = a.astype('i4'); ii += 1
            elif ch == 'd':
                req['d'][:, dd] = a.astype('f8'); dd += 1
            else:
                req['s'] = a
        return req, strings

    def call(self, name, *args):
        req, strings = self.build(name, *args)
        return self.run(req, strings)

    def multi(self, jobs):
        """jobs: list of (name, args...) ; one executor process for all; returns list of Res"""
        reqs, strings, cuts = [], [], []
        for j in jobs:
            r, s = self.build(j[0], *j[1:])
            r = r.copy()
            m = r['s'] >= 0
            r['s'][m] += len(strings)
            strings += s
            reqs.append(r); cuts.append(len(r))
        res = self.run(np.concatenate(reqs), strings)
        out, o = [], 0
        for c in cuts:
            out.append(Res(res.raw[o:o + c], res.msgs)); o += c
        return out

    def special(self, name, s=None, i=(), d=(), helper=False):
        """special executor ids: s = list of strings/None (or single), i/d = lists of broadcastable columns;
        helper: route Refractive_Index / Crystal_F_H_StructureFactor[_Partial] through the by-pointer '...2' entry points of the bindings"""
        cols_i = [np.asarray(x) for x in i]
        cols_d = [np.asarray(x) for x in d]
        strings, sidx = [], None
        if s is not None:
            if isinstance(s, (str, bytes)):
                s = [s]
            s = list(s)
            sidx = np.empty(len(s), 'i4'); table = {}
            for k, x in enumerate(s):
                if x is None:
                    sidx[k] = -1
                else:
                    if x not in table:
                        table[x] = len(strings); strings.append(x)
                    sidx[k] = table[x]
        allc = cols_i + cols_d + ([sidx] if sidx is not None else [])
        b = np.broadcast_arrays(*allc) if allc else []
        n = b[0].size if b else 1
        req = np.zeros(n, REQ)
        req['fn'] = SPECIAL_ID[name]
        req['s'] = -1
        for k in range(len(cols_i)):
            req['i'][:, k] = b[k].reshape(-1).astype('i4')
        for k in range(len(cols_d)):
            req['d'][:, k] = b[len(cols_i) + k].reshape(-1).astype('f8')
        if sidx is not None:
            req['s'] = b[-1].reshape(-1)
        if helper:
            req['d'][:, 9] = 1.0
        return self.run(req, strings)


PB_WHAT = {'meson': 'default options', 'meson-release': 'buildtype=release, b_ndebug=true', 'meson-uchar': 'plain char unsigned, as on arm / ppc64le / s390x',
           'meson-static': 'default_library=static, linked into a program that references only what it calls', 'meson-c11': 'c_std=c11, a strict ISO language standard'}


def independence(ck, prefix, config, jobs, orders=('given', 'reversed', 'last-argument-major', 'each-twice')):
    """The same calls in different ORDERS and WITHOUT an error slot must give bit-identical values.
    jobs: list of (name, args...).  Reports <prefix>:<fn>:result-depends-on-call-order / :value-without-error-slot-differs."""
    base = Lib(config, shuffle=False)
    nosl = Lib(config, shuffle=False, env={'XV_NOSLOT': '1'})
    n = 0
    for j in jobs:
        name = j[0]
        req, strs = base.build(name, *j[1:])
        ref = base.run(req, strs); n += len(req)
        f = base.fns[name]
        nd = f['sig'].count('d')
        for o in orders[1:]:
            if o == 'reversed':
                idx = np.arange(len(req))[::-1]
            elif o == 'each-twice':   # a random order in which every call is immediately repeated: a, a, b, b, ... (one-entry memos keyed on the arguments)
                from .common import seed
                idx = np.repeat(np.random.default_rng(seed() * 7919 + len(req)).permutation(len(req)), 2)
            else:       # consecutive calls share the LAST double argument and differ in the earlier ones
                key = req['d'][:, max(nd - 1, 0)]
                idx = np.argsort(key, kind='stable')
            r2 = base.run(req[idx], strs); n += len(req)
            bad = np.nonzero((r2.v.view('u8') != ref.v[idx].view('u8')) | (r2.status != ref.status[idx]))[0]
            for k in bad[:2]:
                q = req[idx][k]
                ck.violation('%s:%s:result-depends-on-call-order' % (prefix, name),
                             '%s returns %r when called in %s order and %r in the given order' % (name, float(r2.v[k]), o, float(ref.v[idx][k])),
                             dict(function=name, ints=q['i'][:3].tolist(), doubles=q['d'][:4].tolist(), order=o, config=config))
        # the calls as user code writes them (direct call, local error slot tested right after it, compiled -O2 against the public header)
        r6 = Lib(config, shuffle=False, env={'XV_DIRECT': '1'}).run(req, strs); n += len(req)
        bad = np.nonzero(((r6.v.view('u8') != ref.v.view('u8')) & ~(np.isnan(r6.v) & np.isnan(ref.v))) | ((r6.status & 1) != (ref.status & 1)))[0]
        for k in bad[:2]:
            q = req[k]
            ck.violation('%s:%s:direct-call-from-optimised-user-code-differs' % (prefix, name),
                         '%s called directly (local error slot, -O2, public header) gives %r / error seen: %s; through the dispatch table %r / error: %s' % (
                             name, float(r6.v[k]), bool(r6.status[k] & 1), float(ref.v[k]), ref.msg(k) if ref.err[k] else 'none'),
                         dict(function=name, ints=q['i'][:3].tolist(), doubles=q['d'][:4].tolist(), config=config))
        # the library as the project's own build system makes it (meson: its compiler arguments and options, not the monitor's): same bits - in the
        # default configuration, in an optimised build without assertions (buildtype=release, b_ndebug=true) and with the ABI of the platforms
        # whose plain char is unsigned (-funsigned-char).  It runs inside a HOSTILE HOST: a preload object defines, as the host program's own
        # globals, every name the library uses internally and does not export (build.hostile_host) - internals that are really internal never
        # bind to them
        from . import build as _b
        for pb in _b.EXEC_BUILDS:
            try:
                r5 = Lib(config, pb, shuffle=False, env={'LD_PRELOAD': _b.hostile_host(config)['so']}).run(req, strs); n += len(req)
                bad = np.nonzero(((r5.v.view('u8') != ref.v.view('u8')) & ~(np.isnan(r5.v) & np.isnan(ref.v))) | (r5.status != ref.status))[0]
                for k in bad[:2]:
                    q = req[k]
                    ck.violation('%s:%s:project-build-differs-from-the-monitor-build%s' % (prefix, name, '' if pb == 'meson' else ':' + pb[6:]),
                                 '%s returns %r (status %d) in the library built by meson (%s) and %r (status %d) in the monitor\'s build of the same sources' % (
                                     name, float(r5.v[k]), int(r5.status[k]), PB_WHAT[pb], float(ref.v[k]), int(ref.status[k])),
                                 dict(function=name, ints=q['i'][:3].tolist(), doubles=q['d'][:4].tolist(), config=config, build=pb))
            except ExecCrash as ex:
                host = [l for l in str(ex.tail).split('\n') if l.startswith('xv-hostile-host:')]
                if host:
                    ck.violation('%s:%s:internal-symbol-pre-empted-by-the-host-program' % (prefix, name), '%s in the library built by meson (%s): %s' % (name, PB_WHAT[pb], host[0]),
                                 dict(function=name, config=config, build=pb, message=host[0]))
                else:
                    ck.violation('%s:%s:project-build-dies%s' % (prefix, name, '' if pb == 'meson' else ':' + pb[6:]), '%s kills the executor (rc %d) in the library built by meson (%s)' % (name, ex.rc, PB_WHAT[pb]),
                                 dict(function=name, config=config, build=pb))
        # a host that traps floating-point exceptions (feenableexcept, gfortran -ffpe-trap): every call still answers, with the same bits
        try:
            r4 = Lib(config, shuffle=False, env={'XV_FPTRAP': '1'}).run(req, strs); n += len(req)
            bad = np.nonzero((r4.v.view('u8') != ref.v.view('u8')) | (r4.status != ref.status))[0]
            for k in bad[:2]:
                q = req[k]
                ck.violation('%s:%s:result-changes-when-the-host-traps-fp-exceptions' % (prefix, name), '%s returns %r with FP traps enabled and %r without' % (name, float(r4.v[k]), float(ref.v[k])),
                             dict(function=name, ints=q['i'][:3].tolist(), doubles=q['d'][:4].tolist(), config=config))
        except ExecCrash as ex:
            k = _first_crash(config, req, strs, {'XV_FPTRAP': '1'})
            q = req[k] if k is not None else None
            ck.violation('%s:%s:dies-when-the-host-traps-fp-exceptions' % (prefix, name),
                         '%s kills the process (rc %d) when invalid-operation / division-by-zero / overflow exceptions trap%s' % (
                             name, ex.rc, '' if q is None else ': ints %r doubles %r' % (q['i'][:3].tolist(), q['d'][:3].tolist())),
                         dict(function=name, ints=None if q is None else q['i'][:3].tolist(), doubles=None if q is None else q['d'][:4].tolist(), config=config, fp_traps=True))
        # a host whose own arithmetic has left sticky floating-point status flags raised (x/0.0, log(0), an overflow somewhere earlier: no traps):
        # the library may not read them as if they were its own
        try:
            r8 = Lib(config, shuffle=False, env={'XV_FPFLAGS': '1'}).run(req, strs); n += len(req)
            bad = np.nonzero(((r8.v.view('u8') != ref.v.view('u8')) & ~(np.isnan(r8.v) & np.isnan(ref.v))) | (r8.status != ref.status))[0]
            for k in bad[:2]:
                q = req[k]
                ck.violation('%s:%s:result-depends-on-fp-status-flags-left-by-the-host' % (prefix, name), '%s returns %r (status %d) when the host has left FE_DIVBYZERO / FE_INVALID / FE_OVERFLOW / FE_UNDERFLOW / FE_INEXACT raised and %r (status %d) otherwise' % (
                    name, float(r8.v[k]), int(r8.status[k]), float(ref.v[k]), int(ref.status[k])), dict(function=name, ints=q['i'][:3].tolist(), doubles=q['d'][:4].tolist(), config=config))
        except ExecCrash as ex:
            ck.violation('%s:%s:dies-with-fp-status-flags-raised' % (prefix, name), '%s kills the executor (rc %d) when the host has left FP status flags raised' % (name, ex.rc), dict(function=name, config=config))
        # a host whose x87 precision-control field is not the default (single: Direct3D 9, some audio / JIT engines; double: old BSD defaults):
        # double arithmetic on x86-64 is SSE and does not look at it - only a computation that was moved into long double does
        for pc in ('24', '53'):
            try:
                r7 = Lib(config, shuffle=False, env={'XV_X87PC': pc}).run(req, strs); n += len(req)
                bad = np.nonzero(((r7.v.view('u8') != ref.v.view('u8')) & ~(np.isnan(r7.v) & np.isnan(ref.v))) | (r7.status != ref.status))[0]
                for k in bad[:2]:
                    q = req[k]
                    ck.violation('%s:%s:result-depends-on-the-x87-precision-control-of-the-host' % (prefix, name), '%s returns %r when the host has set the x87 precision control to %s bits and %r otherwise' % (
                        name, float(r7.v[k]), pc, float(ref.v[k])), dict(function=name, ints=q['i'][:3].tolist(), doubles=q['d'][:4].tolist(), config=config, x87_precision_bits=int(pc)))
            except ExecCrash as ex:
                ck.violation('%s:%s:dies-with-x87-precision-control-%s' % (prefix, name, pc), '%s kills the executor (rc %d) when the x87 precision control is %s bits' % (name, ex.rc, pc), dict(function=name, config=config))
        r3 = nosl.run(req, strs); n += len(req)
        bad = np.nonzero(r3.v.view('u8') != ref.v.view('u8'))[0]
        bad = [k for k in bad if not (np.isnan(r3.v[k]) and np.isnan(ref.v[k]))]
        for k in bad[:2]:
            q = req[k]
            ck.violation('%s:%s:value-without-error-slot-differs' % (prefix, name),
                         '%s returns %r without an error slot and %r (%s) with one' % (name, float(r3.v[k]), float(ref.v[k]), ref.msg(k) if ref.err[k] else 'success'),
                         dict(function=name, ints=q['i'][:3].tolist(), doubles=q['d'][:4].tolist(), config=config))
    return n


def _first_crash(config, req, strs, env):
    """index of the first request of `req` whose execution kills the executor (bisection over prefixes), or None"""
    L = Lib(config, shuffle=False, env=env)
    lo, hi = 0, len(req)            # invariant: req[:lo] runs, req[:hi] dies
    try:
        L.run(req[:hi], strs)
        return None
    except ExecCrash:
        pass
    while hi - lo > 1:
        mid = (lo + hi) // 2
        try:
            L.run(req[:mid], strs)
            lo = mid
        except ExecCrash:
            hi = mid
    return hi - 1


def rounding_modes(ck, prefix, config, jobs, rel=1e-9, special=None):
    """A host thread that runs in a directed rounding mode (fesetround: interval arithmetic, some numerical libraries) gets the same answers up to
    rounding: every value within rel (relative, plus rel x the largest magnitude of the job for sums that cancel) of the round-to-nearest value,
    errors exactly where round-to-nearest has them.  jobs: list of (name, args...) ; special: list of (name, kwargs) for Lib.special requests whose
    three output values are compared.  Returns the number of calls."""
    base = Lib(config, shuffle=False)
    n = 0
    work = [(j[0], lambda L, j=j: L.call(j[0], *j[1:]), 1) for j in jobs] + [(nm, lambda L, nm=nm, kw=kw: L.special(nm, **kw), 3) for nm, kw in (special or [])]
    for name, run, nv in work:
        ref = run(base); n += len(ref)
        scale = float(np.nanmax(np.abs(np.where(np.isfinite(ref.v3[:, :nv]), ref.v3[:, :nv], 0.0)))) if len(ref) else 0.0
        for mode in ('up', 'down', 'zero'):
            try:
                r = run(Lib(config, shuffle=False, env={'XV_ROUND': mode})); n += len(r)
            except ExecCrash as ex:
                ck.violation('%s:%s:dies-in-rounding-mode-%s' % (prefix, name, mode), '%s kills the executor (rc %d) when the host thread rounds %s' % (name, ex.rc, mode), dict(function=name, config=config))
                continue
            st_bad = np.nonzero((r.status & 1) != (ref.status & 1))[0]
            a, b = r.v3[:, :nv], ref.v3[:, :nv]
            with np.errstate(invalid='ignore'):
                off = (np.abs(a - b) > rel * np.abs(b) + rel * scale) & ~(np.isnan(a) & np.isnan(b))
            v_bad = np.nonzero(off.any(axis=1) & ((ref.status & 1) == 0) & ((r.status & 1) == 0))[0]
            for k in st_bad[:2]:
                ck.violation('%s:%s:fails-or-succeeds-differently-in-a-directed-rounding-mode' % (prefix, name), '%s (request %d of the job) %s when the host thread rounds %s and %s in round-to-nearest' % (
                    name, int(k), 'fails' if r.status[k] & 1 else 'succeeds', mode, 'fails' if ref.status[k] & 1 else 'succeeds'), dict(function=name, request=int(k), mode=mode, config=config))
            for k in v_bad[:2]:
                ck.violation('%s:%s:value-depends-on-the-rounding-mode-of-the-host' % (prefix, name), '%s (request %d of the job) returns %r when the host thread rounds %s and %r in round-to-nearest (allowed: %g relative)' % (
                    name, int(k), a[k].tolist(), mode, b[k].tolist(), rel), dict(function=name, request=int(k), mode=mode, config=config, value=a[k].tolist(), nearest=b[k].tolist()))
    return n


def dirty_tree(ck, prefix, config, jobs):
    """The library built by the project's build system gives the same bits as the build of the clean copy when
      (a) the tree ALSO holds the git-ignored leftovers of an earlier in-tree build (a stale src/xrayglob_inline.c whose every number differs,
          stale objects) and the build runs with XRAYLIB_DIR pointing at a stale data directory and MALLOC_PERTURB_ set;
      (b) the data files of the tree have CR LF line ends.
    The tables follow data/*.dat of the tree, not whatever is lying around or set in the environment.  Returns the number of calls made."""
    from . import build as _b
    clean = Lib(config, 'meson', shuffle=False)
    n = 0
    for dirty, what in ((True, 'a tree that holds a stale, git-ignored src/xrayglob_inline.c, built with XRAYLIB_DIR pointing at stale data and MALLOC_PERTURB_ set'),
                        ('crlf', 'a tree whose data files have CR LF line ends')):
        tag = 'leftover-files-or-build-environment' if dirty is True else 'line-ends-of-the-data-files'
        try:
            D = _b.meson_lib(config, dirty=dirty)
        except _b.BuildError as ex:
            ck.violation('%s:build-fails:%s' % (prefix, tag), 'the project does not build in %s (it builds in the clean copy): %s' % (what, str(ex)[-300:]), dict(config=config))
            continue
        env = {'LD_LIBRARY_PATH': D['dir']}
        p = subprocess.run(['ldd', clean.mon], env=dict(os.environ, **env), stdout=subprocess.PIPE, stderr=subprocess.STDOUT).stdout.decode()
        if not any('libxrl' in l and D['dir'] in l for l in p.split('\n')):
            raise Inconclusive('the executor does not load the library built in the dirty tree: ' + p[-300:])
        dirty_lib = Lib(config, 'meson', shuffle=False, env=env)
        for j in jobs:
            name = j[0]
            req, strs = clean.build(name, *j[1:])
            ref = clean.run(req, strs)
            try:
                r = dirty_lib.run(req, strs)
            except ExecCrash as ex:
                ck.violation('%s:%s:build-dies:%s' % (prefix, name, tag), '%s kills the executor (rc %d) in the library meson builds in %s' % (name, ex.rc, what), dict(function=name, config=config))
                continue
            n += 2 * len(req)
            bad = np.nonzero(((r.v.view('u8') != ref.v.view('u8')) & ~(np.isnan(r.v) & np.isnan(ref.v))) | (r.status != ref.status))[0]
            for k in bad[:2]:
                q = req[k]
                ck.violation('%s:%s:build-follows-%s' % (prefix, name, tag),
                             '%s returns %r (status %d) from the library meson builds in %s, and %r (status %d) from the build of the clean tree: the tables do not come from data/*.dat alone' % (
                                 name, float(r.v[k]), int(r.status[k]), what, float(ref.v[k]), int(ref.status[k])),
                             dict(function=name, ints=q['i'][:3].tolist(), doubles=q['d'][:4].tolist(), config=config, build='meson, ' + what))
    return n


class ExecCrash(Exception):
    def __init__(self, rc, tail, logdir):
        Exception.__init__(self, 'executor died (rc=%d): %s' % (rc, tail))
        self.rc, self.tail = rc, tail
