#!/usr/bin/env python3
"""Port of data/kissel/kissel.pro (IDL) -> kissel_pe.dat.

ln of both columns; second derivative = 3-point Lagrange DERIV(x, DERIV(x,y)) clamped to 0
outside [-1,1]; occupancy and binding energy as float32; 31 shells.  Validated against the
values pinned in tests/test-kissel_pe.c (5e-8 relative)."""
import sys, os, math, glob
SHELLS=['K','L1','L2','L3','M1','M2','M3','M4','M5','N1','N2','N3','N4','N5','N6','N7',
        'O1','O2','O3','O4','O5','O6','O7','P1','P2','P3','P4','P5','Q1','Q2','Q3']
NK={(1,-1):'K',(2,-1):'L1',(2,1):'L2',(2,-2):'L3',(3,-1):'M1',(3,1):'M2',(3,-2):'M3',(3,2):'M4',(3,-3):'M5',
    (4,-1):'N1',(4,1):'N2',(4,-2):'N3',(4,2):'N4',(4,-3):'N5',(4,3):'N6',(4,-4):'N7',
    (5,-1):'O1',(5,1):'O2',(5,-2):'O3',(5,2):'O4',(5,-3):'O5',(5,3):'O6',(5,-4):'O7',
    (6,-1):'P1',(6,1):'P2',(6,-2):'P3',(6,2):'P4',(6,-3):'P5',(7,-1):'Q1',(7,1):'Q2',(7,-2):'Q3'}
END=' *** END OF DATA ***'
def deriv(x,y):
    n=len(x)
    if n<3: raise ValueError('need 3 points')
    d=[0.0]*n
    for i in range(1,n-1):
        x01=x[i-1]-x[i]; x02=x[i-1]-x[i+1]; x12=x[i]-x[i+1]
        d[i]=y[i-1]*(x12/(x01*x02))+y[i]*(1.0/x12-1.0/x01)-y[i+1]*(x01/(x02*x12))
    x01=x[0]-x[1]; x02=x[0]-x[2]; x12=x[1]-x[2]
    d[0]=y[0]*(x01+x02)/(x01*x02)-y[1]*x02/(x01*x12)+y[2]*x01/(x02*x12)
    x01=x[n-3]-x[n-2]; x02=x[n-3]-x[n-1]; x12=x[n-2]-x[n-1]
    d[n-1]=-y[n-3]*x12/(x01*x02)+y[n-2]*x02/(x01*x12)-y[n-1]*(x02+x12)/(x02*x12)
    return d
def second(x,y):
    d2=deriv(x,deriv(x,y))
    return [0.0 if (v<-1.0 or v>1.0) else v for v in d2]
def read_table(lines,i):
    xs=[];ys=[]
    while True:
        l=lines[i]; i+=1
        if l.startswith(END): break
        v=l.split()
        xs.append(math.log(float(v[0]))); ys.append(math.log(float(v[1])))
    return xs,ys,i
def f32(x):
    import struct
    return struct.unpack('f',struct.pack('f',x))[0]
def convert(path,out):
    lines=open(path).read().split('\n')
    i=7
    xs,ys,i=read_table(lines,i)
    out.append('%d'%len(xs))
    for a,b,c in zip(xs,ys,second(xs,ys)): out.append('%.10E %.10E %.10E'%(a,b,c))
    while not lines[i].startswith('*BLOCK:CONFIGURATION'): i+=1
    i+=1+12
    occ={};be={}
    while True:
        l=lines[i]; i+=1
        if not l.strip(): continue
        if l.startswith(END): break
        v=l.split()
        key=(int(v[0]),int(v[1]))
        s=NK[key]; occ[s]=f32(float(v[4])); be[s]=f32(float(v[5]))
    for s in SHELLS: out.append('%.8g'%occ.get(s,0.0))
    for s in SHELLS:
        if occ.get(s,0.0)==0.0:
            out.append('0'); continue
        tag='*BLOCK:'+s
        while not lines[i].startswith(tag): i+=1
        i+=1+15
        xs,ys,i=read_table(lines,i)
        out.append('%d'%len(xs)); out.append('%.8g'%be[s])
        for a,b,c in zip(xs,ys,second(xs,ys)): out.append('%.10E %.10E %.10E'%(a,b,c))
def main(src,dst):
    files=sorted(glob.glob(os.path.join(src,'0*')))
    out=[]
    for f in files: convert(f,out)
    open(dst,'w').write('\n'.join(out)+'\n')
    return len(files)
if __name__=='__main__':
    print(main(sys.argv[1],sys.argv[2]),'elements')
